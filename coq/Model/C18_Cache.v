(* C18: block root -> slot read-through cache.
   Transcribed from services/cache/standard/blockroottoslot.go (BlockRootToSlot,
   SetBlockRootToSlot, cleanBlockRootToSlot) and events.go (handleBlock, handleHead).
   Definitions only. *)
From Verif Require Import Lib.Base.

Definition root := N.
Definition slot := N.

(* the Go map, key-unique association list *)
Definition state := list (root * slot).

Fixpoint get (s : state) (r : root) : option slot :=
  match s with
  | [] => None
  | (r', sl) :: s' => if r' =? r then Some sl else get s' r
  end.

Fixpoint del (s : state) (r : root) : state :=
  match s with
  | [] => []
  | (r', sl) :: s' => if r' =? r then del s' r else (r', sl) :: del s' r
  end.

Definition set (s : state) (r : root) (sl : slot) : state := (r, sl) :: del s r.

(* Overlapping lookups.  BlockRootToSlot is not atomic: it reads the map under the read lock,
   and on a miss calls the header provider WITHOUT any lock, then stores under the write lock.
   Every goroutine that misses performs its own fetch (no coalescing) and returns the outcome of
   its own fetch.  A group of overlapping lookups is the list of its micro-events in the order of
   their instants; block events and cleaning runs may fall in between. *)
Inductive pev :=
| PBegin (i : N) (r : root)                    (* goroutine i enters BlockRootToSlot r: the map read *)
| PEnd (i : N) (r : root) (f : option slot)    (* the header provider answers goroutine i's fetch of r *)
| PEvent (r : root) (sl : slot)                (* a block event handled meanwhile *)
| PClean (cur_epoch spe : N).                  (* the cleaning job running meanwhile *)

(* lookup id, its root, Some slot | None = error *)
Definition answer := (N * root * option slot)%type.

Inductive op :=
| Event (r : root) (sl : slot)                 (* block event: handleBlock -> SetBlockRootToSlot (also the
                                                  public SetBlockRootToSlot used by the controller) *)
| Lookup (r : root) (fetch : option slot)      (* BlockRootToSlot; what the header provider would answer *)
| Clean (cur_epoch spe : N)                    (* cleanBlockRootToSlot with chain time at cur_epoch *)
| Head (r : root) (sl : slot) (blk : option (root * slot))
                                               (* head event: handleHead fetches the signed block of the head
                                                  root (blk = parent root and slot of the block the provider
                                                  answers, None = the fetch fails) and updates the execution
                                                  chain head from it; it does not touch the root -> slot map *)
| Par (evs : list pev).                        (* a group of overlapping lookups *)

Inductive out :=
| ONone
| OSlot (sl : slot)
| OErr
| OMany (answers : list answer).               (* the answers of a group, in order of completion *)

Definition retention : N := 64.

(* FirstSlotOfEpoch(currentEpoch - 64) in uint64 *)
Definition min_slot (cur_epoch spe : N) : N := mul64 (cur_epoch - retention) spe.

Definition clean (s : state) (cur_epoch spe : N) : state :=
  if cur_epoch <=? retention then s
  else filter (fun p => negb (snd p <? min_slot cur_epoch spe)) s.

(* one micro-event of a group; [pend] = ids of the goroutines that missed and are fetching *)
Definition remove_id (i : N) (pend : list N) : list N := filter (fun j => negb (j =? i)) pend.

Definition pstep (s : state) (pend : list N) (e : pev) : state * list N * option answer :=
  match e with
  | PBegin i r =>
      match get s r with
      | Some sl => (s, pend, Some (i, r, Some sl))
      | None => (s, i :: pend, None)
      end
  | PEnd i r f =>
      if memb N.eqb i pend then
        match f with
        | Some sl => (set s r sl, remove_id i pend, Some (i, r, Some sl))
        | None => (s, remove_id i pend, Some (i, r, None))
        end
      else (s, pend, None)                      (* it was a hit: the provider is never asked *)
  | PEvent r sl => (set s r sl, pend, None)
  | PClean e spe => (clean s e spe, pend, None)
  end.

Fixpoint par_run (s : state) (pend : list N) (evs : list pev) : state * list answer :=
  match evs with
  | [] => (s, [])
  | e :: evs' =>
      let '(s1, pend1, a) := pstep s pend e in
      let '(s2, ans) := par_run s1 pend1 evs' in
      (s2, match a with Some x => x :: ans | None => ans end)
  end.

Definition step (s : state) (o : op) : state * out :=
  match o with
  | Event r sl => (set s r sl, ONone)
  | Lookup r f =>
      match get s r with
      | Some sl => (s, OSlot sl)
      | None =>
          match f with
          | None => (s, OErr)
          | Some sl => (set s r sl, OSlot sl)
          end
      end
  | Clean e spe => (clean s e spe, ONone)
  | Head _ _ _ => (s, ONone)
  | Par evs => let '(s', ans) := par_run s [] evs in (s', OMany ans)
  end.

Fixpoint run (s : state) (ops : list op) : state * list out :=
  match ops with
  | [] => (s, [])
  | o :: ops' =>
      let '(s1, x) := step s o in
      let '(s2, xs) := run s1 ops' in
      (s2, x :: xs)
  end.

Definition init : state := [].
