(* C18: block root -> slot read-through cache.
   Transcribed from services/cache/standard/blockroottoslot.go (BlockRootToSlot,
   SetBlockRootToSlot, cleanBlockRootToSlot) and events.go (handleBlock).
   Definitions only. *)
From Verif Require Import Lib.Base.

Definition root := N.
Definition slot := N.

(* the Go map, key-unique association list *)
Definition state := list (root * slot).

Fixpoint get (s : state) (r : root) : option slot :=
  match s with
  | [] => None
  | (r', sl) :: s' => if r' =? r then Some sl else get s' r
  end.

Fixpoint del (s : state) (r : root) : state :=
  match s with
  | [] => []
  | (r', sl) :: s' => if r' =? r then del s' r else (r', sl) :: del s' r
  end.

Definition set (s : state) (r : root) (sl : slot) : state := (r, sl) :: del s r.

Inductive op :=
| Event (r : root) (sl : slot)                 (* block event: handleBlock -> SetBlockRootToSlot *)
| Lookup (r : root) (fetch : option slot)      (* BlockRootToSlot; what the header provider would answer *)
| Clean (cur_epoch spe : N).                   (* cleanBlockRootToSlot with chain time at cur_epoch *)

Inductive out :=
| ONone
| OSlot (sl : slot)
| OErr.

Definition retention : N := 64.

(* FirstSlotOfEpoch(currentEpoch - 64) in uint64 *)
Definition min_slot (cur_epoch spe : N) : N := mul64 (cur_epoch - retention) spe.

Definition clean (s : state) (cur_epoch spe : N) : state :=
  if cur_epoch <=? retention then s
  else filter (fun p => negb (snd p <? min_slot cur_epoch spe)) s.

Definition step (s : state) (o : op) : state * out :=
  match o with
  | Event r sl => (set s r sl, ONone)
  | Lookup r f =>
      match get s r with
      | Some sl => (s, OSlot sl)
      | None =>
          match f with
          | None => (s, OErr)
          | Some sl => (set s r sl, OSlot sl)
          end
      end
  | Clean e spe => (clean s e spe, ONone)
  end.

Fixpoint run (s : state) (ops : list op) : state * list out :=
  match ops with
  | [] => (s, [])
  | o :: ops' =>
      let '(s1, x) := step s o in
      let '(s2, xs) := run s1 ops' in
      (s2, x :: xs)
  end.

Definition init : state := [].
