(* C05: the beacon block proposer.
   Transcribed statement by statement from
     services/beaconblockproposer/standard/service.go  (Prepare)
     services/beaconblockproposer/standard/propose.go  (Propose, validateDuty, obtainGraffiti,
        proposeBlock, confirmProposalData, signProposalData, auctionBlock, unblindProposal)
     services/signer/standard/signrandaoreveal.go, signbeaconblockproposal.go, helpers.go (sign)
        -- the branch taken for accounts that implement AccountProtectingSigner
     go-eth2-client api.VersionedProposal (Slot / BodyRoot / ParentRoot / StateRoot presence rules).
   Everything outside vouch is an *environment outcome* ([env]): what the accounts provider, the
   domain provider, the account (remote signer), the graffiti provider, the auctioneer, the beacon
   node, each relay on each of its attempts, and the submitter answer, and how long a relay takes.
   What vouch does is the *trace*: the requests it makes, with their arguments.
   Definitions only. *)
From Verif Require Import Lib.Base.

(* ------------------------------------------------------------------------------------------- *)
(* Data *)

(* spec.DataVersion *)
Definition VPhase0 : N := 1.
Definition VAltair : N := 2.
Definition VBellatrix : N := 3.
Definition VCapella : N := 4.
Definition VDeneb : N := 5.

(* A block is known to vouch through the five header fields: slot, proposer index, parent root,
   state root and the hash tree root of its body.  (Everything else of the block is behind the body
   root.) *)
Record hdr := { h_slot : N; h_proposer : N; h_parent : N; h_state : N; h_body : N }.

(* api.VersionedProposal as returned by the proposal provider *)
Record proposal := {
  p_version : N;
  p_blinded : bool;
  p_block : option hdr;       (* None: the container pointer selected by (version, blinded) is nil *)
  p_body_present : bool;      (* that block's Body pointer is not nil *)
  p_blobs : N                 (* deneb block contents: identity of the KZG proofs and blobs *)
}.

(* a signed block inside one of the containers of a VersionedSigned(Blinded)Proposal *)
Record sblock := {
  sb_hdr : option hdr;        (* None: Message is nil *)
  sb_sig : N;
  sb_blobs : N
}.

(* container codes: which pointer of the versioned structure is set *)
Definition CPhase0 : N := 1.
Definition CAltair : N := 2.
Definition CBellatrix : N := 4.
Definition CBellatrixBlinded : N := 8.
Definition CCapella : N := 16.
Definition CCapellaBlinded : N := 32.
Definition CDeneb : N := 64.
Definition CDenebBlinded : N := 128.

(* api.VersionedSignedProposal: the non-nil containers, by code *)
Record sproposal := {
  sp_version : N;
  sp_blinded : bool;
  sp_conts : list (N * sblock)
}.

(* api.VersionedSignedBlindedProposal sent to a relay: Version and the non-nil ones of
   Bellatrix / Capella / Deneb (codes of the blinded containers) *)
Record ureq := {
  u_version : N;
  u_conts : list (N * sblock)
}.

(* ------------------------------------------------------------------------------------------- *)
(* Environment outcomes *)

Inductive accout :=
| AccErr
| AccOk (m : list (N * option N)).      (* the returned map: validator index -> account (None: nil) *)

Inductive gout := GNone (* no graffiti provider configured *) | GErr | GOk (g : N).

Inductive aout :=
| ANone                                  (* no auctioneer configured *)
| AErr
| AOk (winners all : list nat).          (* Results.Providers / Results.AllProviders: relay indices *)

Inductive pout := PErr | POk (p : proposal).

(* what a relay answers to one UnblindProposal call *)
Inductive uout :=
| UOk (b : sblock)          (* a full signed block of the relay's choosing *)
| UEcho (blobs : N)         (* the full block rebuilt from the request (what go-builder-client does) *)
| U400                      (* error whose text contains "POST failed with status 400" *)
| UErr                      (* any other error *)
| UHang                     (* no answer until the context is done, then its error *)
| UNil.                     (* (nil, nil) *)

Record relay := {
  r_can : bool;                          (* implements UnblindedProposalProvider *)
  r_script : list (N * uout)             (* per attempt: latency in ms, answer *)
}.

Record config := {
  c_unblind_all : bool;                  (* unblindFromAllRelays *)
  c_boost : N;                           (* builderBoostFactor *)
  c_spe : N                              (* SLOTS_PER_EPOCH (chain time and signer) *)
}.

Record env := {
  e_accounts : accout;
  e_dom_randao : bool;                   (* the domain provider answers the RANDAO domain request *)
  e_sig_randao : option N;               (* the account's answer to SignGeneric (None: error) *)
  e_graffiti : gout;
  e_head : N;                            (* execution chain head hash *)
  e_auction : aout;
  e_proposal : pout;
  e_dom_block : bool;
  e_sig_block : option N;                (* the account's answer to SignBeaconProposal *)
  e_relays : list relay;
  e_submit_ok : bool;
  e_deadline : N                         (* ms until the context handed to Propose is done *)
}.

Record duty := {
  d_slot : N;
  d_validator : N;
  d_account : option N;
  d_randao : N                           (* 0: the zero signature *)
}.

(* ------------------------------------------------------------------------------------------- *)
(* Trace *)

Definition DOMAIN_BEACON_PROPOSER : N := 0.
Definition DOMAIN_RANDAO : N := 2.

Inductive event :=
| EAccounts (epoch : N) (indices : list N)          (* ValidatingAccountsForEpochByIndex *)
| EDomain (dtype epoch : N)                         (* DomainProvider.Domain *)
| ESignRandao (acct epoch : N) (dom : N * N)        (* account.SignGeneric(root = epoch, domain) *)
| EGraffiti (slot validator : N)                    (* graffitiProvider.Graffiti *)
| EAuction (slot head pubkey : N)                   (* blockAuctioneer.AuctionBlock *)
| EProposal (slot randao graffiti boost : N)        (* proposalProvider.Proposal *)
| ESignBlock (acct slot proposer parent state body : N) (dom : N * N).
                                                    (* account.SignBeaconProposal *)

Record result := {
  o_panic : bool;
  o_events : list event;                 (* sequential requests, in order *)
  o_unblind : list (list (N * ureq));    (* per relay of the environment, in order: (start ms, request) *)
  o_submit : option (N * sproposal);     (* SubmitProposal: (ms, what) *)
  o_ret : N                              (* ms at which Propose returned *)
}.

(* ------------------------------------------------------------------------------------------- *)
(* Prepare (service.go) *)

Fixpoint lookup_account (v : N) (m : list (N * option N)) : option N :=
  match m with
  | [] => None
  | (k, a) :: m' => if k =? v then a else lookup_account v m'
  end.

Definition set_account (d : duty) (a : option N) : duty :=
  {| d_slot := d_slot d; d_validator := d_validator d; d_account := a; d_randao := d_randao d |}.
Definition set_randao (d : duty) (s : N) : duty :=
  {| d_slot := d_slot d; d_validator := d_validator d; d_account := d_account d; d_randao := s |}.

Definition prepare (c : config) (e : env) (d : duty) : duty * list event * bool :=
  let epoch := d_slot d / c_spe c in
  let ev1 := [EAccounts epoch [d_validator d]] in
  match e_accounts e with
  | AccErr => (d, ev1, false)
  | AccOk m =>
      if negb (Nat.eqb (length m) 1) then (d, ev1, false) else
      let account := lookup_account (d_validator d) m in
      let d1 := set_account d account in
      (* SignRANDAOReveal(account, duty.Slot()) *)
      let ev2 := ev1 ++ [EDomain DOMAIN_RANDAO epoch] in
      if negb (e_dom_randao e) then (d1, ev2, false) else
      match account with
      | None => (d1, ev2, false)         (* sign: "account is nil; cannot sign" *)
      | Some a =>
          let ev3 := ev2 ++ [ESignRandao a epoch (DOMAIN_RANDAO, epoch)] in
          match e_sig_randao e with
          | None => (d1, ev3, false)
          | Some s => (set_randao d1 s, ev3, true)
          end
      end
  end.

(* ------------------------------------------------------------------------------------------- *)
(* The proposal as the library lets vouch read it *)

Definition known_version (v : N) : bool := (1 <=? v) && (v <=? 5).

(* proposalPresent / Slot() *)
Definition proposal_slot (p : proposal) : option N :=
  if known_version (p_version p) then
    match p_block p with Some h => Some (h_slot h) | None => None end
  else None.

(* signProposalData: the container the signed block goes into; None = "unhandled proposal version" *)
Definition signed_container (version : N) (blinded : bool) : option N :=
  if version =? VPhase0 then Some CPhase0
  else if version =? VAltair then Some CAltair
  else if version =? VBellatrix then Some (if blinded then CBellatrixBlinded else CBellatrix)
  else if version =? VCapella then Some (if blinded then CCapellaBlinded else CCapella)
  else if version =? VDeneb then Some (if blinded then CDenebBlinded else CDeneb)
  else None.

(* only deneb block contents carry blobs *)
Definition signed_blobs (p : proposal) : N :=
  if (p_version p =? VDeneb) && negb (p_blinded p) then p_blobs p else 0.

(* the request to a relay: Version, and BellatrixBlinded/CapellaBlinded/DenebBlinded of the signed proposal *)
Definition blinded_code (c : N) : bool :=
  (c =? CBellatrixBlinded) || (c =? CCapellaBlinded) || (c =? CDenebBlinded).

Definition unblind_request (sp : sproposal) : ureq :=
  {| u_version := sp_version sp;
     u_conts := filter (fun cb => blinded_code (fst cb)) (sp_conts sp) |}.

(* unblindProposal: where the relay's block goes; None = "unsupported version" *)
Definition full_container (version : N) : option N :=
  if version =? VBellatrix then Some CBellatrix
  else if version =? VCapella then Some CCapella
  else if version =? VDeneb then Some CDeneb
  else None.

(* ------------------------------------------------------------------------------------------- *)
(* unblindProposal: one goroutine per relay, three tries 250 ms apart, a flag that the first relay to
   obtain a block sets (and only a relay that has a block: since the repair "a relay that returns the
   unblinded block always hands it over"; before it, a semaphore probed by every returning call); the
   others notice it after a call of theirs has returned without a block. *)

Record call := { k_start : N; k_finish : N; k_out : uout }.

Definition retry_ms : N := 250.

Definition is_retry (o : uout) : bool := match o with UErr | UHang => true | _ => false end.
Definition is_ok (o : uout) : bool := match o with UOk _ | UEcho _ => true | _ => false end.

(* a hanging call returns [lat] after the context is done *)
Definition finish_of (deadline start lat : N) (o : uout) : N :=
  match o with UHang => N.max start deadline + lat | _ => start + lat end.

(* the calls a relay goroutine makes if the flag is never set by another *)
Fixpoint free_calls (deadline : N) (tries : nat) (start : N) (script : list (N * uout)) : list call :=
  match tries with
  | O => []
  | S tries' =>
      let '(lat, o, rest) :=
        match script with [] => (0, UErr, []) | (l, o) :: r => (l, o, r) end in
      let f := finish_of deadline start lat o in
      {| k_start := start; k_finish := f; k_out := o |}
        :: (if is_retry o then free_calls deadline tries' (f + retry_ms) rest else [])
  end.

(* when this relay would hand over a block *)
Definition delivery (cs : list call) : option N :=
  match find (fun k => is_ok (k_out k)) cs with Some k => Some (k_finish k) | None => None end.

Definition omin (a b : option N) : option N :=
  match a, b with
  | Some x, Some y => Some (N.min x y)
  | Some x, None => Some x
  | None, y => y
  end.

Definition sem_free (w : option N) (t : N) : bool :=
  match w with None => true | Some w => t <? w end.

(* the calls actually made: after each returned call the goroutine stops if the flag is set (a call
   that returned with a block stops too: it hands the block over) *)
Fixpoint cut (w : option N) (cs : list call) : list call :=
  match cs with
  | [] => []
  | k :: rest => k :: (if sem_free w (k_finish k) then cut w rest else [])
  end.

(* the block a relay hands back for a request *)
Definition echo (req : ureq) (blobs : N) : option sblock :=
  match u_conts req with
  | (_, b) :: _ => Some {| sb_hdr := sb_hdr b; sb_sig := sb_sig b; sb_blobs := blobs |}
  | [] => None
  end.

Definition response (req : ureq) (o : uout) : option sblock :=
  match o with
  | UOk b => Some b
  | UEcho blobs => echo req blobs
  | _ => None
  end.

Definition relay_tries : nat := 3.

(* per relay of the environment: its free-running calls if it is a candidate that can unblind *)
Definition relay_plan (deadline : N) (cands : list nat) (i : nat) (r : relay) : list call :=
  if existsb (Nat.eqb i) cands && r_can r
  then free_calls deadline relay_tries 0 (r_script r)
  else [].

Fixpoint plans_from (deadline : N) (cands : list nat) (i : nat) (rs : list relay) : list (list call) :=
  match rs with
  | [] => []
  | r :: rs' => relay_plan deadline cands i r :: plans_from deadline cands (S i) rs'
  end.

Definition first_delivery (plans : list (list call)) : option N :=
  fold_right (fun cs acc => omin (delivery cs) acc) None plans.

(* the answer of the relay that delivers at w *)
Definition winning_out (w : N) (plans : list (list call)) : option uout :=
  match find (fun cs => match delivery cs with Some t => t =? w | None => false end) plans with
  | Some cs => match find (fun k => is_ok (k_out k)) cs with Some k => Some (k_out k) | None => None end
  | None => None
  end.

(* ------------------------------------------------------------------------------------------- *)
(* Propose (propose.go) *)

Definition graffiti_events (e : env) (d : duty) : list event :=
  match e_graffiti e with GNone => [] | _ => [EGraffiti (d_slot d) (d_validator d)] end.
Definition graffiti_value (e : env) : N :=
  match e_graffiti e with GOk g => g | _ => 0 end.

Definition auction_events (e : env) (d : duty) (acct : N) : list event :=
  match e_auction e with ANone => [] | _ => [EAuction (d_slot d) (e_head e) acct] end.
Definition auction_results (e : env) : option (list nat * list nat) :=
  match e_auction e with AOk w a => Some (w, a) | _ => None end.

Definition no_calls (e : env) : list (list (N * ureq)) := map (fun _ => []) (e_relays e).

Definition stop (e : env) (evs : list event) : result :=
  {| o_panic := false; o_events := evs; o_unblind := no_calls e; o_submit := None; o_ret := 0 |}.

(* Propose up to and including signProposalData: the requests made, and the signed proposal if
   one was assembled *)
Definition sign_phase (c : config) (e : env) (d : duty) : list event * option (proposal * sproposal) :=
  (* validateDuty *)
  if d_randao d =? 0 then ([], None) else
  match d_account d with
  | None => ([], None)
  | Some acct =>
  let slot := d_slot d in
  (* obtainGraffiti: failure => zero graffiti *)
  let ev1 := graffiti_events e d in
  let graffiti := graffiti_value e in
  (* proposeBlock: auction failure is logged *)
  let ev2 := ev1 ++ auction_events e d acct in
  let ev3 := ev2 ++ [EProposal slot (d_randao d) graffiti (c_boost c)] in
  match e_proposal e with
  | PErr => (ev3, None)
  | POk p =>
  (* confirmProposalData *)
  match proposal_slot p with
  | None => (ev3, None)
  | Some ps =>
  if negb (ps =? slot) then (ev3, None) else
  (* signProposalData: BodyRoot needs the body *)
  match p_block p with
  | None => (ev3, None)
  | Some h =>
  if negb (p_body_present p) then (ev3, None) else
  let epoch := slot / c_spe c in
  let ev4 := ev3 ++ [EDomain DOMAIN_BEACON_PROPOSER epoch] in
  if negb (e_dom_block e) then (ev4, None) else
  let ev5 := ev4 ++ [ESignBlock acct slot (d_validator d) (h_parent h) (h_state h) (h_body h)
                                (DOMAIN_BEACON_PROPOSER, epoch)] in
  match e_sig_block e with
  | None => (ev5, None)
  | Some sig =>
  match signed_container (p_version p) (p_blinded p) with
  | None => (ev5, None)                   (* "unhandled proposal version" *)
  | Some code =>
      (ev5, Some (p, {| sp_version := p_version p; sp_blinded := p_blinded p;
                        sp_conts := [(code, {| sb_hdr := Some h; sb_sig := sig; sb_blobs := signed_blobs p |})] |}))
  end end end end end end.

(* unblindProposal builds every relay's request from the signed proposal BEFORE the relay goroutines
   start (since the repair "unblinding requests are built before the relay goroutines start"; before
   it each request was built at the time of the call from the structure whose blinded container the
   collector clears on receiving the first block, so a retry after that sent the version and no
   block): every call of every relay, whenever it is made, carries [unblind_request sp]. *)

(* when a relay goroutine that supplies nothing ends: after its last call, plus the 250 ms it sleeps
   before noticing that no try is left when that call failed with a retryable error *)
Definition plan_end (cs : list call) : N :=
  match rev cs with
  | [] => 0
  | k :: _ => k_finish k + (if is_retry (k_out k) then retry_ms else 0)
  end.

(* when the last of them ends (relays that are not asked have no goroutine) *)
Definition all_failed_at (plans : list (list call)) : N :=
  fold_right (fun cs acc => N.max (plan_end cs) acc) 0 plans.

(* the relays asked to unblind: those of the winning bid, or all *)
Definition candidates (c : config) (winners all : list nat) : list nat :=
  if Nat.eqb (length winners) 0 || c_unblind_all c then all else winners.

Definition can_unblind (e : env) (i : nat) : bool :=
  match nth_error (e_relays e) i with Some r => r_can r | None => false end.

(* proposeBlock after signing *)
Definition deliver_phase (c : config) (e : env) (evs : list event) (sp : sproposal) : result :=
  if negb (sp_blinded sp) then
    {| o_panic := false; o_events := evs; o_unblind := no_calls e; o_submit := Some (0, sp); o_ret := 0 |}
  else
  match auction_results e with
  | None => stop e evs                    (* "no auction results to unblind the proposal" *)
  | Some (winners, all) =>
  let cands := candidates c winners all in
  if negb (existsb (can_unblind e) cands)
  then stop e evs                         (* "no relays to unblind the block" *)
  else
  let req := unblind_request sp in
  let plans := plans_from (e_deadline e) cands 0 (e_relays e) in
  let w := first_delivery plans in
  let calls := map (fun cs => map (fun k => (k_start k, req)) (cut w cs)) plans in
  match w with
  | Some t =>
      if t <? e_deadline e then
        match full_container (sp_version sp) with
        | None =>                         (* "unsupported version" *)
            {| o_panic := false; o_events := evs; o_unblind := calls; o_submit := None; o_ret := t |}
        | Some fc =>
            let conts := match winning_out t plans with
                         | Some o => match response req o with Some b => [(fc, b)] | None => [] end
                         | None => []
                         end in
            {| o_panic := false; o_events := evs; o_unblind := calls;
               o_submit := Some (t, {| sp_version := sp_version sp; sp_blinded := false; sp_conts := conts |});
               o_ret := t |}
        end
      else {| o_panic := false; o_events := evs; o_unblind := calls; o_submit := None; o_ret := e_deadline e |}
  | None =>
      (* no relay ever supplies a block: the collector returns when the last relay goroutine has
         given up, or when the context is done, whichever comes first *)
      {| o_panic := false; o_events := evs; o_unblind := calls; o_submit := None;
         o_ret := N.min (e_deadline e) (all_failed_at plans) |}
  end
  end.

Definition propose (c : config) (e : env) (d : duty) : result :=
  match sign_phase c e d with
  | (evs, None) => stop e evs
  | (evs, Some (_, sp)) => deliver_phase c e evs sp
  end.

(* Prepare then Propose on the same duty, as the controller does (the harness also proposes after a
   failed Prepare, and on duties it filled in by hand) *)
Definition run (c : config) (e : env) (d : duty) (do_prepare : bool)
  : (list event * bool) * result :=
  if do_prepare then
    let '(d1, evs, ok) := prepare c e d in ((evs, ok), propose c e d1)
  else (([], true), propose c e d).

(* the duty as it is handed to Propose *)
Definition duty_after (c : config) (e : env) (d : duty) (do_prepare : bool) : duty :=
  if do_prepare then fst (fst (prepare c e d)) else d.

(* ------------------------------------------------------------------------------------------- *)
(* A history on one service instance.  The Service structure holds only what its constructor was
   given (providers, signers, unblindFromAllRelays, builderBoostFactor): Prepare and Propose keep
   nothing in it, everything they learn goes into the *duty* they were handed.  So a history of
   calls for several duties -- each duty with the answers the environment gives while it is being
   handled -- is the calls one after the other, each on its own duty object. *)
Record dstate := { s_env : env; s_duty : duty }.

Inductive op := OPrepare (i : nat) | OPropose (i : nat).

Inductive out :=
| OutPrepare (i : nat) (evs : list event) (ok : bool)
| OutPropose (i : nat) (r : result)
| OutNoSuchDuty.

Fixpoint set_nth {A} (l : list A) (i : nat) (x : A) : list A :=
  match l, i with
  | [], _ => []
  | _ :: l', O => x :: l'
  | y :: l', S i' => y :: set_nth l' i' x
  end.

Fixpoint history (c : config) (ds : list dstate) (ops : list op) : list out :=
  match ops with
  | [] => []
  | OPrepare i :: rest =>
      match nth_error ds i with
      | Some s =>
          let '(d1, evs, ok) := prepare c (s_env s) (s_duty s) in
          OutPrepare i evs ok :: history c (set_nth ds i {| s_env := s_env s; s_duty := d1 |}) rest
      | None => OutNoSuchDuty :: history c ds rest
      end
  | OPropose i :: rest =>
      match nth_error ds i with
      | Some s => OutPropose i (propose c (s_env s) (s_duty s)) :: history c ds rest
      | None => OutNoSuchDuty :: history c ds rest
      end
  end.

(* What is left to Go's scheduler (since the two repairs of unblindProposal): what happens at the very
   instant [w] of the FIRST delivery --
   - another relay's call returning at [w]: without a block it may or may not see the flag already set
     (one more try or none); with a block, either block may be the one the collector receives first.
     (WHETHER a block is submitted at [w] does not depend on it: a relay that has a block always
     hands it over.)  Calls of different relays returning together at any other instant do not
     interfere: before [w] the flag is not set, after [w] it is;
   - the first delivery, or the last relay giving up, coinciding with the deadline (the collector's
     select has both cases ready).
   A call that STARTS at [w] is no longer affected (its request was built beforehand). *)
Definition finishes (plans : list (list call)) : list N := concat (map (map k_finish) plans).
Definition starts (plans : list (list call)) : list N := concat (map (map k_start) plans).

Definition count_eq (t : N) (l : list N) : nat := length (filter (N.eqb t) l).

Definition distinct (l : list N) : bool := forallb (fun t => Nat.eqb (count_eq t l) 1) l.

Definition tie_free (deadline : N) (plans : list (list call)) : bool :=
  match first_delivery plans with
  | None => negb (all_failed_at plans =? deadline)   (* the collector's select has both cases ready *)
  | Some w => negb (w =? deadline) && Nat.eqb (count_eq w (finishes plans)) 1
  end.

(* ------------------------------------------------------------------------------------------- *)
(* Time and the context.  Every provider takes its time, and -- like a real client -- gives up with
   the context's error when the context it was handed ends before its answer is ready (or has ended
   before it was asked).  Propose hands the context it was given, unchanged, to every step: the
   graffiti provider, the auctioneer, the beacon node, the signer (domain provider, account), the
   relays, the submitter; the steps run one after the other, each starting when the previous one
   returned.  So which scripted answers are replaced by the context's error is a matter of the
   latencies and of the ONE deadline [e_deadline]; what Propose then does is [propose] on those
   answers ([apply_cuts]), the relays being started when the signature came back ([t_t0]). *)

Record lats := {
  l_graffiti : N; l_auction : N; l_proposal : N; l_domain : N; l_sign : N; l_submit : N
}.

(* which sequential answers were cut short by the end of the context *)
Record cuts := { x_graffiti : bool; x_auction : bool; x_proposal : bool; x_domain : bool; x_sign : bool }.

Definition no_cuts : cuts :=
  {| x_graffiti := false; x_auction := false; x_proposal := false; x_domain := false; x_sign := false |}.
Definition zero_lats : lats :=
  {| l_graffiti := 0; l_auction := 0; l_proposal := 0; l_domain := 0; l_sign := 0; l_submit := 0 |}.

(* a call made at [t] to a provider that needs [L] ms, with a context that ends at [D]: when it returns *)
Definition adv (D t L : N) : N := if t <? D then N.min (t + L) D else t.
(* ... and whether it returns its own answer *)
Definition in_time (D t L : N) : bool := t + L <? D.

(* a provider that is not configured is not asked *)
Definition graffiti_lat (e : env) (l : lats) : N := match e_graffiti e with GNone => 0 | _ => l_graffiti l end.
Definition auction_lat (e : env) (l : lats) : N := match e_auction e with ANone => 0 | _ => l_auction l end.

Definition cuts_of (e : env) (l : lats) : cuts :=
  let D := e_deadline e in
  let t1 := adv D 0 (graffiti_lat e l) in
  let t2 := adv D t1 (auction_lat e l) in
  let t3 := adv D t2 (l_proposal l) in
  let t4 := adv D t3 (l_domain l) in
  {| x_graffiti := negb (in_time D 0 (graffiti_lat e l));
     x_auction := negb (in_time D t1 (auction_lat e l));
     x_proposal := negb (in_time D t2 (l_proposal l));
     x_domain := negb (in_time D t3 (l_domain l));
     x_sign := negb (in_time D t4 (l_sign l)) |}.

(* the answers as they were actually given, and the time left for the relays *)
Definition apply_cuts (e : env) (x : cuts) (deadline : N) : env :=
  {| e_accounts := e_accounts e; e_dom_randao := e_dom_randao e; e_sig_randao := e_sig_randao e;
     e_graffiti := match e_graffiti e with GNone => GNone | g => if x_graffiti x then GErr else g end;
     e_head := e_head e;
     e_auction := match e_auction e with ANone => ANone | a => if x_auction x then AErr else a end;
     e_proposal := if x_proposal x then PErr else e_proposal e;
     e_dom_block := e_dom_block e && negb (x_domain x);
     e_sig_block := if x_sign x then None else e_sig_block e;
     e_relays := e_relays e; e_submit_ok := e_submit_ok e; e_deadline := deadline |}.

Definition ev_lat (l : lats) (ev : event) : N :=
  match ev with
  | EGraffiti _ _ => l_graffiti l
  | EAuction _ _ _ => l_auction l
  | EProposal _ _ _ _ => l_proposal l
  | EDomain _ _ => l_domain l
  | ESignBlock _ _ _ _ _ _ _ => l_sign l
  | _ => 0
  end.

(* the instant each request is made, and the instant the last answer is back *)
Fixpoint stamps (D : N) (l : lats) (t : N) (evs : list event) : list N * N :=
  match evs with
  | [] => ([], t)
  | ev :: rest => let '(ts, tend) := stamps D l (adv D t (ev_lat l ev)) rest in (t :: ts, tend)
  end.

Record timed := {
  t_cuts : cuts;
  t_times : list N;          (* the instant of each request of [o_events t_res] *)
  t_live : list bool;        (* was the context it was made with still alive *)
  t_t0 : N;                  (* the instant the last of these answers came back *)
  t_res : result;            (* relay calls, submission and [o_ret] in ms after [t_t0]; [o_ret]: the instant
                                Propose returns or, if it submits, hands the block to the submitter *)
  t_ret : N;                 (* the instant Propose returns *)
  t_sub_cut : bool           (* the submission was cut short by the end of the context *)
}.

Definition propose_t (c : config) (e : env) (l : lats) (d : duty) : timed :=
  let D := e_deadline e in
  let x := cuts_of e l in
  let evs := fst (sign_phase c (apply_cuts e x D) d) in
  let '(ts, t0) := stamps D l 0 evs in
  let r := propose c (apply_cuts e x (D - t0)) d in
  {| t_cuts := x; t_times := ts; t_live := map (fun t => t <? D) ts; t_t0 := t0; t_res := r;
     t_ret := match o_submit r with Some (s, _) => adv D (s + t0) (l_submit l) | None => o_ret r + t0 end;
     t_sub_cut := match o_submit r with Some (s, _) => negb (in_time D (s + t0) (l_submit l)) | None => false end |}.

(* the whole scripted time line of the steps up to the signature *)
Definition budget (e : env) (l : lats) : N :=
  graffiti_lat e l + auction_lat e l + l_proposal l + l_domain l + l_sign l.

(* an answer that would be ready at the very instant the context ends: Go's select decides *)
Definition step_tie (D t L : N) : bool := (t <? D) && (t + L =? D).

Definition steps_tie (e : env) (l : lats) : bool :=
  let D := e_deadline e in
  let t1 := adv D 0 (graffiti_lat e l) in
  let t2 := adv D t1 (auction_lat e l) in
  let t3 := adv D t2 (l_proposal l) in
  let t4 := adv D t3 (l_domain l) in
  step_tie D 0 (graffiti_lat e l) || step_tie D t1 (auction_lat e l) || step_tie D t2 (l_proposal l)
  || step_tie D t3 (l_domain l) || step_tie D t4 (l_sign l).

(* ------------------------------------------------------------------------------------------- *)
(* obtainGraffiti, the bytes.  What the graffiti provider hands back is a byte string; when it contains
   the text "{{CLIENT}}" and the proposal provider also is a consensusclient.NodeClientProvider, the
   node is asked for its client string: on failure the graffiti is left as it is ("not updating
   graffiti"), on success every occurrence of the placeholder is replaced by the WHOLE string the node
   gave, whatever it looks like (bytes.ReplaceAll: left to right, occurrences do not overlap, what was
   put in is not scanned again).  Then [copy(res[:], graffiti)]: the first 32 bytes, zeros after a
   shorter text.  None of this can fail: the only error of obtainGraffiti is the graffiti provider's.
   The 32 bytes are identified with the number they spell (big endian), which is the [N] that
   [GOk] / [EProposal] carry ([GOk g] for a small [g]: 24 zero bytes and the 8 bytes of [g]). *)

Inductive ncout :=
| NCNone                     (* the proposal provider is no NodeClientProvider *)
| NCErr                      (* NodeClient fails *)
| NCOk (client : list N).    (* the client string, bytes *)

Inductive gsrc :=
| GSNone                     (* no graffiti provider configured *)
| GSErr                      (* the graffiti provider fails *)
| GSBytes (text : list N) (nc : ncout).

(* "{{CLIENT}}" *)
Definition placeholder : list N := [123; 123; 67; 76; 73; 69; 78; 84; 125; 125].

Fixpoint prefix_b (p s : list N) : bool :=
  match p, s with
  | [], _ => true
  | _ :: _, [] => false
  | a :: p', b :: s' => (a =? b) && prefix_b p' s'
  end.

(* bytes.Contains *)
Fixpoint contains_b (p s : list N) : bool :=
  prefix_b p s || match s with [] => false | _ :: s' => contains_b p s' end.

(* bytes.ReplaceAll for a pattern that is not empty; [skip]: bytes of an occurrence still to be passed over *)
Fixpoint replace_from (p new : list N) (skip : nat) (s : list N) : list N :=
  match s with
  | [] => []
  | x :: s' =>
      match skip with
      | S k => replace_from p new k s'
      | O => if prefix_b p s then new ++ replace_from p new (length p - 1) s'
             else x :: replace_from p new 0 s'
      end
  end.
Definition replace_all (p new s : list N) : list N := replace_from p new 0 s.

(* copy(res[:], graffiti) into a zeroed [32]byte *)
Definition pad32 (bs : list N) : list N := firstn 32 (bs ++ repeat 0 32).
Definition be_value (bs : list N) : N := fold_left (fun acc b => acc * 256 + b) bs 0.
Definition graffiti_n (bs : list N) : N := be_value (pad32 bs).

(* the text after the placeholder has been dealt with *)
Definition client_text (text : list N) (nc : ncout) : list N :=
  if contains_b placeholder text then
    match nc with
    | NCNone => text
    | NCErr => text                                   (* "Failed to obtain node client; not updating graffiti" *)
    | NCOk client => replace_all placeholder client text
    end
  else text.

(* is the node asked for its client string *)
Definition node_client_asked (s : gsrc) : bool :=
  match s with
  | GSBytes text (NCErr | NCOk _) => contains_b placeholder text
  | _ => false
  end.

(* the outcome of the graffiti lookup as [propose] knows it *)
Definition resolve_graffiti (s : gsrc) : gout :=
  match s with
  | GSNone => GNone
  | GSErr => GErr
  | GSBytes text nc => GOk (graffiti_n (client_text text nc))
  end.
