(* C08: the declarative side of the property -- which rejections vouch tolerates (the documented
   table) and when a node counts as having accepted a submission.  Used by the theorems and, on
   observed behaviour, by Check.C08.P_b.  Definitions only. *)
From Verif Require Import Lib.Base Model.C08_Submitter.

Definition kind_eqb (a b : kind) : bool :=
  match a, b with
  | KAttestations, KAttestations | KProposal, KProposal | KAggregates, KAggregates
  | KSyncMessages, KSyncMessages | KSyncContributions, KSyncContributions
  | KBeaconSubs, KBeaconSubs | KSyncSubs, KSyncSubs | KProposalPreps, KProposalPreps => true
  | _, _ => false
  end.

Definition client_eqb (a b : client) : bool :=
  match a, b with
  | Lighthouse, Lighthouse | Lodestar, Lodestar | Prysm, Prysm | Teku, Teku | Nimbus, Nimbus
  | Unknown, Unknown => true
  | _, _ => false
  end.

(* The documented table: which rejection messages vouch tolerates, for which submission, from
   which client (already known / node behind the head). *)
Definition spec_table : list (kind * client * phrase) :=
  [ (KAttestations, Lighthouse, PhPriorAtt);          (* already known *)
    (KAttestations, Lighthouse, PhUnknownHead);       (* node behind the head *)
    (KAttestations, Nimbus, PhUnknownTarget);         (* node behind the head *)
    (KSyncMessages, Lighthouse, PhPriorSyncMsg);      (* already known *)
    (KSyncMessages, Teku, PhTekuDupSync);             (* already known *)
    (KSyncContributions, Lighthouse, PhAggKnown) ].   (* already known *)

Definition spec_tol_phrase (k : kind) (c : client) (p : phrase) : bool :=
  existsb (fun t => kind_eqb k (fst (fst t)) && client_eqb c (snd (fst t)) && phrase_eqb p (snd t)) spec_table.

Definition is_nil {A} (l : list A) : bool := match l with [] => true | _ => false end.
Definition is_none {A} (o : option A) : bool := match o with None => true | Some _ => false end.

(* "rejected it ONLY for a reason vouch tolerates": the node named at least one reason and every
   reason it named is in the table (a null reason is not) *)
Definition spec_all_tol (k : kind) (c : client) (entries : list (option phrase)) : bool :=
  negb (is_nil entries)
  && forallb (fun f => match f with Some p => spec_tol_phrase k c p | None => false end) entries.

(* ... and, for the kinds whose handler reads the body, the body is one vouch can read *)
Definition spec_tolerated (k : kind) (c : client) (e : err_desc) : bool :=
  match k with
  | KAttestations =>
      match e_shape e with
      | ShNoFailures | ShNullFailures => false
      | ShPlain => spec_all_tol k c (map Some (somes (e_entries e)))   (* nulls are not rendered in plain text *)
      | _ => spec_all_tol k c (e_entries e)
      end
  | KSyncMessages | KSyncContributions =>
      match e_shape e with
      | ShFailures => spec_all_tol k c (e_entries e)
      | _ => false
      end
  | _ => false
  end.

(* a call counts for the node iff it was accepted or rejected for tolerated reasons only *)
Definition spec_call_ok (k : kind) (c : client) (b : beh) : bool :=
  match b with
  | BReply _ RAccept => true
  | BReply _ (RError e) => spec_tolerated k c e
  | BHang => false
  end.

(* the node accepted the submission: every call that carried a part of it counts *)
Definition spec_node_ok (k : kind) (c : client) (bs : list beh) : bool := forallb (spec_call_ok k c) bs.

(* ------------------------------------------------------------------------------------------- *)
(* The two input classes on which the pinned code departs from the table (known findings).     *)

(* an error text that names a tolerated reason next to another (or a null) one *)
Definition has_null (e : err_desc) : bool :=
  match e_shape e with
  | ShPlain | ShNoFailures | ShNullFailures => false
  | _ => existsb is_none (e_entries e)
  end.

Definition mixed_body (k : kind) (c : client) (e : err_desc) : bool :=
  existsb (spec_tol_phrase k c) (visible e)
  && (existsb (fun p => negb (spec_tol_phrase k c p)) (visible e) || has_null e).

(* a node whose calls (chunks) fail both for tolerated and for other reasons *)
Definition chunk_mixed (k : kind) (c : client) (bs : list beh) : bool :=
  existsb (fun p => spec_tolerated k c (snd p)) (err_calls bs)
  && existsb (fun p => negb (spec_tolerated k c (snd p))) (err_calls bs).

Definition clean_node (k : kind) (c : client) (bs : list beh) : bool :=
  (negb (kind_eqb k KAttestations) || forallb (fun p => negb (mixed_body k c (snd p))) (err_calls bs))
  && negb (chunk_mixed k c bs).

Definition clean_input (inp : input) : bool :=
  forallb (fun nd => clean_node (i_kind inp) (n_client nd) (node_behs (i_kind inp) (i_len inp) (i_conc inp) nd))
          (i_nodes inp).
