(* C15: the chain of one slot, job by job, when the selection signer is slow.

   services/controller/standard/synccommitteemessenger.go:
     prepareMessageSyncCommittee   Prepare(duty) -- waits for SignSyncCommitteeSelections, then records the
                                   aggregator subcommittees in the duty -- and ONLY THEN ScheduleJob("Sync
                                   committee messages for slot N")
     messageSyncCommittee          Message(duty); reads duty.AggregatorSubcommittees; ScheduleJob("Sync
                                   committee aggregation for slot N") iff some member aggregates
   The scheduler runs a one-off job once: when its time comes, when a block event fast-tracks it
   (events.go: RunJobIfExists), or at once when its time is already past.

   [Model/C15_Sync.v: fire] is the chain with every job run in turn.  Here the same chain is cut at
   the scheduler: a state holds whether the slot's message job exists, what aggregator data the duty
   holds, and what has been observed so far; the events are the two halves of the prepare job (up
   to the signer's request; from the signer's answer on) and "the slot's message time has come"
   (whatever message job exists runs, then whatever aggregation job that left).  A prompt signer
   is the history begin; end; time.  A slow one is begin; time; end; time.

   [order]: [PrepareFirst] is the code.  [ScheduleFirst] is the other order of the two statements of
   prepareMessageSyncCommittee (the message job scheduled before Prepare is called); it is here only
   to show what the order is needed for (Properties/C15.v: C15_schedule_before_prepare_refuted).
   Definitions only. *)
From Verif Require Import Lib.Base Model.C15_Sync.

Inductive order := PrepareFirst | ScheduleFirst.

Record chain_state := {
  cs_msg_job : bool;                     (* "Sync committee messages for slot N" is in the scheduler's table *)
  cs_aggs : list (N * N);                (* duty.aggregatorSubcommittees, flattened: [] until Prepare has recorded them *)
  cs_out : fire_out                      (* what has been observed so far *)
}.

Definition sel_fault (p : params) (mem : list duty) (acct : N -> bool) (f : fire_in) : bool :=
  match sel_pairs p mem acct with [] => false | _ => f_sel_err f end.

Definition with_msg_job (p : params) (f : fire_in) (o : fire_out) : fire_out :=
  {| o_sel_call := o_sel_call o; o_msg_job := Some (message_time p (f_slot f)); o_root_call := o_root_call o;
     o_submitted := o_submitted o; o_agg_job := o_agg_job o; o_contribs := o_contribs o |}.

(* the prepare job up to the request to the signer *)
Definition prepare_begin (ord : order) (p : params) (mem : list duty) (acct : N -> bool) (f : fire_in) : chain_state :=
  let pairs := sel_pairs p mem acct in
  let o := {| o_sel_call := match pairs with [] => None | _ => Some (sort_by pair_key pairs) end;
              o_msg_job := None; o_root_call := None; o_submitted := None; o_agg_job := None; o_contribs := None |} in
  match ord with
  | PrepareFirst => {| cs_msg_job := false; cs_aggs := []; cs_out := o |}
  | ScheduleFirst => {| cs_msg_job := true; cs_aggs := []; cs_out := with_msg_job p f o |}
  end.

(* the prepare job from the signer's answer on *)
Definition prepare_end (ord : order) (p : params) (mem : list duty) (acct : N -> bool) (f : fire_in) (st : chain_state) : chain_state :=
  if sel_fault p mem acct f then st       (* Prepare failed: the job returns *)
  else
    match ord with
    | PrepareFirst => {| cs_msg_job := true; cs_aggs := aggregators p mem acct f; cs_out := with_msg_job p f (cs_out st) |}
    | ScheduleFirst => {| cs_msg_job := cs_msg_job st; cs_aggs := aggregators p mem acct f; cs_out := cs_out st |}
    end.

(* messageSyncCommittee with the aggregator data the duty holds when it runs, followed by the
   aggregation job it leaves: root call, submission, aggregation job, contributions *)
Definition message_stage (p : params) (mem : list duty) (acct : N -> bool) (f : fire_in) (aggs : list (N * N)) (o : fire_out) : fire_out :=
  let mk rc sub aj cs := {| o_sel_call := o_sel_call o; o_msg_job := o_msg_job o; o_root_call := rc; o_submitted := sub;
                            o_agg_job := aj; o_contribs := cs |} in
  match f_root f with
  | None => mk None None None None
  | Some r =>
      match signers mem acct with
      | [] => mk None None None None
      | sgn =>
          let call := Some (map Some sgn, epoch_of_slot p (f_slot f), r) in
          if f_root_err f then mk call None None None
          else
            let ms := messages p mem acct f r in
            let submit_ok := negb (f_submit_err f) && negb (match ms with [] => true | _ => false end) in
            if negb submit_ok then mk call (Some ms) None None
            else match aggs with
                 | [] => mk call (Some ms) None None
                 | _ => mk call (Some ms) (Some (aggregate_time p (f_slot f))) (contributions f r aggs)
                 end
      end
  end.

(* the slot's message time has come (or a block event fast-tracks the job): a job that exists runs, once *)
Definition message_time_comes (p : params) (mem : list duty) (acct : N -> bool) (f : fire_in) (st : chain_state) : chain_state :=
  if cs_msg_job st then
    {| cs_msg_job := false; cs_aggs := cs_aggs st; cs_out := message_stage p mem acct f (cs_aggs st) (cs_out st) |}
  else st.

(* the signer answers at once *)
Definition chain_prompt (ord : order) (p : params) (mem : list duty) (acct : N -> bool) (f : fire_in) : fire_out :=
  cs_out (message_time_comes p mem acct f (prepare_end ord p mem acct f (prepare_begin ord p mem acct f))).

(* the signer answers after the message time of the slot; the jobs that exist afterwards run then *)
Definition chain_slow (ord : order) (p : params) (mem : list duty) (acct : N -> bool) (f : fire_in) : fire_out :=
  cs_out (message_time_comes p mem acct f
            (prepare_end ord p mem acct f
               (message_time_comes p mem acct f (prepare_begin ord p mem acct f)))).

(* what the harness does with a fired slot *)
Definition chain (ord : order) (p : params) (mem : list duty) (acct : N -> bool) (f : fire_in) : fire_out :=
  if f_sel_slow f then chain_slow ord p mem acct f else chain_prompt ord p mem acct f.
