(* C17 — the one place where the lock/access skeleton is not enough: an operation made of SEVERAL
   critical sections.  Data model of the account managers' refresh / lookup pair
   (services/accountmanager/dirk/service.go, services/accountmanager/wallet/service.go), at the
   granularity of critical sections of `mutex` (each event below is one section; sections of one
   mutex exclude each other, C17_tree_guarded_sections_isolated_partial, so a schedule is a list).

     Refresh                      s.mutex.Lock(); s.accounts = accounts; s.pubKeys = pubKeys; s.mutex.Unlock()
     lookup, one section (now)    s.mutex.RLock(); pubKeys := s.pubKeys; accounts := s.accounts; s.mutex.RUnlock()
                                  ... validators of pubKeys ... accounts[validator.PublicKey]
     lookup, two sections (dirk   s.mutex.RLock(); pubKeys := s.pubKeys; s.mutex.RUnlock()
       before fix 1b8284f)        ... validators of pubKeys ...
                                  s.mutex.RLock(); ... s.accounts[validator.PublicKey] ...; s.mutex.RUnlock()

   Definitions only. *)
From Verif Require Import Lib.Base.

Definition key := N.
Definition account := N.

Record store := { s_keys : list key; s_accounts : list (key * account) }.

Fixpoint assoc (k : key) (l : list (key * account)) : option account :=
  match l with
  | [] => None
  | (k', a) :: l' => if k' =? k then Some a else assoc k l'
  end.

(* what a lookup returns: for every public key it saw, the account it found for it *)
Definition result := list (key * option account).

Definition lookup_in (keys : list key) (accounts : list (key * account)) : result :=
  map (fun k => (k, assoc k accounts)) keys.

(* the sequential specification: the lookup done at once on one store *)
Definition lookup_at (s : store) : result := lookup_in (s_keys s) (s_accounts s).

(* Refresh installs both fields from one listing *)
Definition install (listing : list (key * account)) : store :=
  {| s_keys := map fst listing; s_accounts := listing |}.

Inductive event :=
| ERefresh (listing : list (key * account))   (* the write section of a refresh *)
| ESnap (t : nat)                             (* one-section lookup of thread t: reads both fields, answers *)
| EKeys (t : nat)                             (* two-section lookup, first section: reads pubKeys *)
| EAccounts (t : nat).                        (* two-section lookup, second section: reads accounts, answers *)

Record config := {
  c_store : store;
  c_pending : list (nat * list key);          (* thread -> the public keys it read in its first section *)
  c_out : list (nat * result)                 (* answers, newest first *)
}.

Fixpoint pending_of (t : nat) (p : list (nat * list key)) : option (list key) :=
  match p with
  | [] => None
  | (t', ks) :: p' => if (t' =? t)%nat then Some ks else pending_of t p'
  end.

Fixpoint drop_pending (t : nat) (p : list (nat * list key)) : list (nat * list key) :=
  match p with
  | [] => []
  | (t', ks) :: p' => if (t' =? t)%nat then drop_pending t p' else (t', ks) :: drop_pending t p'
  end.

Definition step (c : config) (e : event) : config :=
  match e with
  | ERefresh listing => {| c_store := install listing; c_pending := c_pending c; c_out := c_out c |}
  | ESnap t => {| c_store := c_store c; c_pending := c_pending c; c_out := (t, lookup_at (c_store c)) :: c_out c |}
  | EKeys t => {| c_store := c_store c; c_pending := (t, s_keys (c_store c)) :: drop_pending t (c_pending c); c_out := c_out c |}
  | EAccounts t =>
      match pending_of t (c_pending c) with
      | None => c                                 (* no first section: not enabled *)
      | Some ks => {| c_store := c_store c; c_pending := drop_pending t (c_pending c);
                      c_out := (t, lookup_in ks (s_accounts (c_store c))) :: c_out c |}
      end
  end.

Definition run (sch : list event) (c : config) : config := fold_left step sch c.

Definition init (listing : list (key * account)) : config :=
  {| c_store := install listing; c_pending := []; c_out := [] |}.

(* an answer is whole when every key it mentions has its account *)
Definition whole (r : result) : bool := forallb (fun p => match snd p with Some _ => true | None => false end) r.

(* the stores a schedule can show: the initial one and the one of every refresh in it *)
Fixpoint stores_of (sch : list event) : list store :=
  match sch with
  | [] => []
  | ERefresh listing :: sch' => install listing :: stores_of sch'
  | _ :: sch' => stores_of sch'
  end.

(* one-section schedules: refreshes and one-section lookups only (the code as it is now) *)
Definition one_section (e : event) : bool :=
  match e with ERefresh _ | ESnap _ => true | _ => false end.
