(* C17 — the block root to slot cache (services/cache/standard/blockroottoslot.go) with its data, at the
   granularity of critical sections of blockRootToSlotMu (sections of one mutex exclude each other,
   C17_tree_guarded_sections_isolated_partial, so a schedule is a list of sections).

     SetBlockRootToSlot(root, slot)   Lock; s.blockRootToSlot[root] = slot; Unlock                (one section)
     BlockRootToSlot(root)            RLock; slot, exists := s.blockRootToSlot[root]; RUnlock     (one section; on a miss
                                      the node is asked and the answer stored by SetBlockRootToSlot: a second operation)
     cleanBlockRootToSlot             Lock; for root, slot := range … { if slot < minSlot { delete } }; Unlock   (one section)
     read-copy-swap clean (NOT the    RLock; kept := entries with slot >= minSlot; RUnlock
       code; seeded change C17-7)     Lock; s.blockRootToSlot = kept; Unlock                        (two sections)

   and the shape of an observed concurrent history (operations with invocation / response stamps) with the
   conditions every history that has a sequential explanation satisfies.  Definitions only. *)
From Verif Require Import Lib.Base.

Definition root := N.
Definition slot := N.
Definition cache := list (root * slot).

Fixpoint cget (k : root) (c : cache) : option slot :=
  match c with
  | [] => None
  | (k', v) :: c' => if k' =? k then Some v else cget k c'
  end.

Definition cset (k : root) (v : slot) (c : cache) : cache :=
  (k, v) :: filter (fun p => negb (fst p =? k)) c.

(* the clean removes the entries whose slot is below the minimum *)
Definition cclean (min : slot) (c : cache) : cache := filter (fun p => negb (snd p <? min)) c.

(* ---- sequential specification: whole operations, one after the other ---- *)
Inductive cop :=
| OSet (k : root) (v : slot)
| OGet (t : nat) (k : root)
| OClean (min : slot).

Record sconfig := { s_cache : cache; s_out : list (nat * root * option slot) }.   (* answers, newest first *)

Definition sstep (c : sconfig) (o : cop) : sconfig :=
  match o with
  | OSet k v => {| s_cache := cset k v (s_cache c); s_out := s_out c |}
  | OGet t k => {| s_cache := s_cache c; s_out := (t, k, cget k (s_cache c)) :: s_out c |}
  | OClean min => {| s_cache := cclean min (s_cache c); s_out := s_out c |}
  end.

Definition srun (ops : list cop) (c : sconfig) : sconfig := fold_left sstep ops c.

(* ---- critical sections ---- *)
Inductive cevent :=
| CSet (k : root) (v : slot)      (* the write section of SetBlockRootToSlot *)
| CGet (t : nat) (k : root)       (* the read section of BlockRootToSlot; the answer is recorded *)
| CClean (min : slot)             (* the clean as it is: one write section *)
| CCopy (t : nat) (min : slot)    (* read-copy-swap clean of thread t, first section: the entries to keep are copied *)
| CSwap (t : nat).                (* … second section: the copy replaces the map *)

Record cconfig := {
  k_cache : cache;
  k_copies : list (nat * cache);                      (* thread -> the copy it made in its first section *)
  k_out : list (nat * root * option slot)
}.

Fixpoint copy_of (t : nat) (p : list (nat * cache)) : option cache :=
  match p with
  | [] => None
  | (t', c) :: p' => if (t' =? t)%nat then Some c else copy_of t p'
  end.

Fixpoint drop_copy (t : nat) (p : list (nat * cache)) : list (nat * cache) :=
  match p with
  | [] => []
  | (t', c) :: p' => if (t' =? t)%nat then drop_copy t p' else (t', c) :: drop_copy t p'
  end.

Definition cstep (c : cconfig) (e : cevent) : cconfig :=
  match e with
  | CSet k v => {| k_cache := cset k v (k_cache c); k_copies := k_copies c; k_out := k_out c |}
  | CGet t k => {| k_cache := k_cache c; k_copies := k_copies c; k_out := (t, k, cget k (k_cache c)) :: k_out c |}
  | CClean min => {| k_cache := cclean min (k_cache c); k_copies := k_copies c; k_out := k_out c |}
  | CCopy t min => {| k_cache := k_cache c; k_copies := (t, cclean min (k_cache c)) :: drop_copy t (k_copies c); k_out := k_out c |}
  | CSwap t =>
      match copy_of t (k_copies c) with
      | None => c                                   (* no first section: not enabled *)
      | Some kept => {| k_cache := kept; k_copies := drop_copy t (k_copies c); k_out := k_out c |}
      end
  end.

Definition crun (sch : list cevent) (c : cconfig) : cconfig := fold_left cstep sch c.

Definition cinit (c : cache) : cconfig := {| k_cache := c; k_copies := []; k_out := [] |}.

(* the code as it is: every operation is one section *)
Definition c_one_section (e : cevent) : bool :=
  match e with CSet _ _ | CGet _ _ | CClean _ => true | _ => false end.

(* the whole operation a one-section event stands for *)
Definition op_of (e : cevent) : cop :=
  match e with
  | CSet k v => OSet k v
  | CGet t k => OGet t k
  | CClean min => OClean min
  | CCopy _ min => OClean min
  | CSwap _ => OClean 0
  end.

(* no event of the schedule sets key k / every clean of the schedule keeps slot v *)
Definition sets_key (k : root) (e : cevent) : bool := match e with CSet k' _ => k' =? k | _ => false end.
Definition keeps (v : slot) (e : cevent) : bool := match e with CClean min | CCopy _ min => negb (v <? min) | _ => true end.

(* ------------------------------------------------------------------------------------------------ *)
(* Observed concurrent histories (harness/c17, scenario cache-linear): one record per completed operation on a
   TRACKED key (and per clean).  Stamps come from one atomic counter, read before the call and after the return:
   h_resp a < h_inv b means that a had returned before b was called. *)
Record hop := mk_hop {
  h_kind : N;            (* 0 SetBlockRootToSlot / block event, 1 BlockRootToSlot, 2 clean,
                            3 ExecutionChainHead: h_key = the height encoded in the hash returned, h_val = the height returned *)
  h_key : N;
  h_val : N;             (* set: the slot; clean: its minimum slot; lookup: the slot the node would answer (if h_fill) *)
  h_res : option N;      (* lookup: the slot returned, None = error (unknown to cache and node) *)
  h_fill : bool;         (* lookup: the node knows this root *)
  h_asked : bool;        (* lookup: the node was asked, i.e. the read section missed *)
  h_inv : N;
  h_resp : N
}.

Definition is_set (o : hop) : bool := h_kind o =? 0.
Definition is_get (o : hop) : bool := h_kind o =? 1.
Definition is_clean (o : hop) : bool := h_kind o =? 2.
Definition is_head (o : hop) : bool := h_kind o =? 3.

(* the execution chain head: hash and height are written in ONE section (setExecutionChainHead) and read in ONE
   section (ExecutionChainHead); the heads the scenario delivers carry hash i with height i, so in every sequential
   order a read returns the two halves of one head (or the initial 0, 0) *)
Definition head_ok (o : hop) : bool := if is_head o then h_key o =? h_val o else true.
Definition before (a b : hop) : bool := h_resp a <? h_inv b.

(* an operation after whose return key k maps to v unless something removed it since: a set, or a lookup that
   answered (it found the entry, or stored the node's answer before returning) *)
Definition establishes (k : N) (o : hop) : option N :=
  if negb (h_key o =? k) then None
  else if is_set o then Some (h_val o)
  else if is_get o then h_res o
  else None.

(* `removes min v`: a clean with this minimum removes an entry of slot v — decided by the model's clean *)
Definition removes (min v : N) : bool :=
  match cget 0 (cclean min [(0, v)]) with None => true | Some _ => false end.

(* (the functions below take `rm min v` = a clean with minimum `min` removes an entry of slot v; `if` instead of
   `&&` where the second operand is expensive: vm_compute evaluates both operands of `&&`)
   the read section of lookup l missed although w had established the key before l began: in a sequential
   explanation a clean c sits between w and l and removes the slot the key then has — the slot established by w
   itself or by an operation s that may come after w and before c *)
Definition miss_explained (rm : N -> N -> bool) (h : list hop) (l w : hop) : bool :=
  existsb (fun c => if is_clean c && negb (before c w) && negb (before l c)
                    then existsb (fun s => match establishes (h_key l) s with
                                           | Some v => rm (h_val c) v && negb (before s w) && negb (before c s)
                                           | None => false
                                           end) h
                    else false) h.

Definition miss_ok (rm : N -> N -> bool) (h : list hop) (l : hop) : bool :=
  forallb (fun w => match establishes (h_key l) w with
                    | Some _ => if before w l then miss_explained rm h l w else true
                    | None => true
                    end) h.

(* the read section of lookup l found slot v: some set of (key, v) not after l, not separated from l by a clean
   that removes v — or an earlier lookup stored the node's answer v *)
Definition hit_ok (rm : N -> N -> bool) (h : list hop) (l : hop) (v : N) : bool :=
  existsb (fun s => if (h_key s =? h_key l) && negb (before l s) &&
                       ((is_set s && (h_val s =? v)) || (is_get s && h_fill s && h_asked s && (h_val s =? v)))
                    then negb (existsb (fun c => is_clean c && rm (h_val c) v && before s c && before c l) h)
                    else false) h.

(* only the operations on the lookup's key and the cleans matter to it *)
Definition relevant (l : hop) (h : list hop) : list hop :=
  filter (fun o => if is_clean o then true else h_key o =? h_key l) h.

Definition get_ok (rm : N -> N -> bool) (h : list hop) (l : hop) : bool :=
  if negb (is_get l) then true
  else
    let hk := relevant l h in
    match h_res l with
    | None => if negb (h_fill l) && h_asked l then miss_ok rm hk l else false    (* an error: nobody knows the root *)
    | Some v =>
        if h_asked l
        then (if h_fill l && (v =? h_val l) then miss_ok rm hk l else false)       (* missed, the node's answer returned *)
        else hit_ok rm hk l v
    end.

(* necessary for the history to be the result of SOME sequential order of its operations that respects `before` *)
Definition lin_ok_with (rm : N -> N -> bool) (h : list hop) : bool :=
  forallb (fun o => if head_ok o then get_ok rm h o else false) h.

(* with the model's clean deciding what a clean removes *)
Definition lin_ok (h : list hop) : bool := lin_ok_with removes h.
