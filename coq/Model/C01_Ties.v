(* C01: calls of Attest that wake up at the same instant.
   The harness (harness/attenv/yield.go) lets such calls interleave INSIDE the code between two
   environment calls, at whatever places the code under test calls out of itself (log lines, chain
   time); which interleaving that gives depends on where the code logs, so the check does not predict
   it: it enumerates EVERY interleaving of the atomic steps of the tied segments and asks whether the
   observed outcome is among them.

   Definitions only. *)
From Verif Require Import Lib.Base Model.C01_Attester.

(* one atomic step of member [i] of a tie group; the flag says whether its segment goes on
   (a woken call runs until it waits for the next environment call, finishes, or the process panics) *)
Definition seg_step (spe : N) (rs : list run) (st : state) (i : nat) : state * bool :=
  let st' := step spe rs st i in
  (st', negb (g_panic st' || blocked (t_pc (g_thr st' i)))).

(* every interleaving of the segments of the calls [act], each with the schedule that produced it *)
Fixpoint inter (fuel : nat) (spe : N) (rs : list run) (st : state) (act : list nat) : list (state * list nat) :=
  match act with
  | [] => [(st, [])]
  | _ :: _ =>
      match fuel with
      | O => []
      | S f =>
          flat_map (fun i =>
                      let st' := fst (seg_step spe rs st i) in
                      let act' := if snd (seg_step spe rs st i) then act else remove Nat.eq_dec i act in
                      map (fun p => (fst p, i :: snd p)) (inter f spe rs st' act')) act
      end
  end.

(* wake-ups (instant, call), sorted by instant, grouped by equal instants *)
Fixpoint groups (l : list (N * nat)) : list (N * list nat) :=
  match l with
  | [] => []
  | (t, i) :: l' =>
      match groups l' with
      | (t', g) :: gs => if t =? t' then (t, i :: g) :: gs else (t, [i]) :: (t', g) :: gs
      | [] => [(t, [i])]
      end
  end.

Definition seg_fuel (rs : list run) (g : list nat) : nat :=
  fold_right (fun i a => (3 + match nth_error rs i with Some r => length (d_vals (r_duty r)) | None => 0 end + a)%nat) 0%nat g.

(* a lone wake-up runs as in [wake]; a group in every interleaving *)
Definition run_group (spe : N) (rs : list run) (o : state * list nat) (g : list nat) : list (state * list nat) :=
  match g with
  | [i] => [(fst (wake spe rs (fst o) i), snd o ++ snd (wake spe rs (fst o) i))]
  | _ => map (fun p => (fst p, snd o ++ snd p)) (inter (seg_fuel rs g) spe rs (fst o) g)
  end.

Fixpoint run_groups (spe : N) (rs : list run) (outs : list (state * list nat)) (gs : list (list nat)) : list (state * list nat) :=
  match gs with
  | [] => outs
  | g :: gs' => run_groups spe rs (flat_map (fun o => run_group spe rs o g) outs) gs'
  end.

(* all outcomes of a history given by its wake-ups (instant, call) in any order *)
Definition outcomes (spe : N) (rs : list run) (ws : list (N * nat)) : list (state * list nat) :=
  run_groups spe rs [(init, [])] (map snd (groups (sort_by fst ws))).
