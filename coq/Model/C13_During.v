(* C13: queries that land WHILE a refresh is in progress (definitions only).

   Refresh is two steps: refreshAccounts (the wallets are listed, then the account store is
   assigned) and refreshValidators (one request to the node, then the validators manager's maps
   are assigned).  Neither step holds a lock while it waits for the signer / the node, so a call
   of ...AccountsForEpoch[ByIndex] from another goroutine may land
     - while the wallets are being listed: it sees the stores of before the refresh;
     - while the node is being asked: it sees the account store of after the refresh and the
       validator store of before it.
   The accessors keep nothing between calls: an answer is a function of the two stores at the
   moment of the call.  In particular what a query answered during a refresh has no influence on
   what the queries after the refresh answer. *)
From Verif Require Import Lib.Base Lib.RegexM Model.C13_Accounts.
From Coq Require Import String.
Open Scope N_scope.

Inductive point := AtAccounts | AtValidators.

Record dquery := {
  dq_at : nat;              (* position, in the operation list, of the refresh the query lands in *)
  dq_point : point;
  dq_sync : bool;
  dq_epoch : N;
  dq_idx : option (list N)
}.

(* what was observed for such a query *)
Inductive dobs :=
| DNone                                        (* never issued: the refresh did not reach the point / no service *)
| DAnswer (blocked : bool) (l : list (N * N)). (* blocked: the call returned only after the refresh had *)

Section During.
  Variable parse : string -> option (list re).
  Variable cfg : config.

  Fixpoint state_after (s : state) (ops : list op) : state :=
    match ops with
    | [] => s
    | o :: ops' => state_after (fst (step parse cfg s o)) ops'
    end.

  (* between the two steps of Refresh *)
  Definition mid_state (s : state) (offered : list N) : state :=
    {| st_accounts := refresh_accounts parse cfg (st_accounts s) offered; st_vals := st_vals s |}.

  (* dirk skips the validator refresh when it knows no account *)
  Definition validators_asked (s : state) (offered : list N) : bool :=
    match c_mgr cfg with
    | Dirk => negb (isnil (refresh_accounts parse cfg (st_accounts s) offered))
    | Wallet => true
    end.

  (* the states a query landing at the point may see (first = the one the code shows when the
     call is served at once; the accessors read the two stores one after the other, and a
     result held back by a lock is that of the finished refresh) *)
  Definition states_at (s : state) (offered : list N) (vo : vout) (pt : point) (blocked : bool) : list state :=
    if blocked then [refresh parse cfg s offered vo]
    else match pt with
         | AtAccounts => [s]
         | AtValidators => [mid_state s offered; s]
         end.

  Definition answer (st : state) (d : dquery) : list (N * N) :=
    query cfg st (dq_sync d) (dq_epoch d) (dq_idx d).

  (* the answers the model allows for the during-query d; [] = it is never issued *)
  Definition during_answers (ops : list op) (d : dquery) (blocked : bool) : list (list (N * N)) :=
    if ctor_fails parse cfg ops then [] else
    match dq_at d, nth_error ops (dq_at d) with
    | S _, Some (Refresh offered vo) =>
        let s := state_after init (firstn (dq_at d) ops) in
        match dq_point d with
        | AtAccounts => map (fun st => answer st d) (states_at s offered vo AtAccounts blocked)
        | AtValidators =>
            if validators_asked s offered
            then map (fun st => answer st d) (states_at s offered vo AtValidators blocked)
            else []
        end
    | _, _ => []
    end.
End During.
