(* C16 — sessions: one service instance, several operations, and providers that answer call by call
   from a script (fail then succeed, succeed then fail, alternating, an error-free answer without
   data).  Definitions only.

   The single-operation models of Model/C16_Paths.v fix one behaviour per provider; here the
   behaviour is a list consumed one entry per *call*, so the model also says how many calls every
   operation makes.  When a script runs out its last entry keeps answering (an empty script fails
   every call). *)
From Verif Require Import Lib.Base Model.C16_Paths.

Definition next_of {A} (dflt : A) (s : list A) : A * list A :=
  match s with
  | [] => (dflt, [])
  | [a] => (a, [a])
  | a :: s' => (a, s')
  end.

(* ------------------------------------------------------------------------------------------- *)
(* Path 6 — services/cache/standard: New (fetches the block "head" once), then handleHead per
   event; each fetch is one call of the SignedBeaconBlockProvider.                              *)

Inductive block_answer :=
| BAErr                           (* the call fails *)
| BANilResponse                   (* (nil, nil): the client library never delivers it *)
| BANilData                       (* a response without Data: the client library never delivers it *)
| BABlock (b : block_shape).

Inductive head_event :=
| EvNoData                        (* event.Data == nil: no call *)
| EvHead.                         (* one call *)

(* what the client library's SignedBeaconBlock can deliver *)
Definition answer_wf (a : block_answer) : bool :=
  match a with
  | BAErr => true
  | BABlock b => decoder_wf b
  | _ => false
  end.

(* one answered call on the execution head [cur]:
     blockResponse, err := provider.SignedBeaconBlock(...)
     if err != nil { log; return }            -- head left alone
     block := blockResponse.Data              -- nil response: panic
     s.updateExecutionHeadFromBlock(block)    -- nil block: block.Version panics *)
Definition apply_answer (guard_all : bool) (cur : option N) (a : block_answer) : outcome (option N) unit :=
  match a with
  | BAErr => Ok cur
  | BANilResponse => Panic
  | BANilData => Panic
  | BABlock b =>
      match update_head guard_all b with
      | Ok (Some x) => Ok (Some x)
      | Ok None => Ok cur
      | Err e => Err e
      | Panic => Panic
      end
  end.

Definition next_answer := next_of BAErr.

(* the execution head after every event; the list ends at the first panic (an event handler runs
   in the event stream's goroutine: the process is gone) *)
Fixpoint head_events (g : bool) (cur : option N) (script : list block_answer) (evs : list head_event)
  : list (outcome (option N) unit) :=
  match evs with
  | [] => []
  | EvNoData :: evs' => Ok cur :: head_events g cur script evs'
  | EvHead :: evs' =>
      match apply_answer g cur (fst (next_answer script)) with
      | Ok cur' => Ok cur' :: head_events g cur' (snd (next_answer script)) evs'
      | o => [o]
      end
  end.

(* first observation: the head after the constructor *)
Definition head_session (g : bool) (script : list block_answer) (evs : list head_event)
  : list (outcome (option N) unit) :=
  match apply_answer g None (fst (next_answer script)) with
  | Ok cur => Ok cur :: head_events g cur (snd (next_answer script)) evs
  | o => [o]
  end.
Definition head_session_now := head_session false.

(* specification side: the blocks of a script that may move the head *)
Definition block_moves (b : block_shape) : bool :=
  (3 <=? bk_version b) && (bk_version b <=? 5) && bk_payload b && negb (bk_state_zero b).
Definition script_heads (script : list block_answer) : list N :=
  flat_map (fun a => match a with BABlock b => if block_moves b then [bk_exec b] else [] | _ => [] end) script.

(* the head an answer leaves behind, from the statement: it moves exactly for a Bellatrix, Capella or
   Deneb block with a payload whose state root is not zero; a failed fetch leaves it alone *)
Definition head_after (prev : option N) (a : block_answer) : option N :=
  match a with
  | BABlock b => if block_moves b then Some (bk_exec b) else prev
  | _ => prev
  end.

Fixpoint head_trace (cur : option N) (script : list block_answer) (evs : list head_event) : list (option N) :=
  match evs with
  | [] => []
  | EvNoData :: evs' => cur :: head_trace cur script evs'
  | EvHead :: evs' =>
      let cur' := head_after cur (fst (next_answer script)) in
      cur' :: head_trace cur' (snd (next_answer script)) evs'
  end.

(* ------------------------------------------------------------------------------------------- *)
(* Path 8 — the dynamic graffiti provider: one service, [calls] calls of Graffiti; each call
   fetches the primary location once and, if that fails and a fallback is configured, the
   fallback location once.                                                                      *)

Definition next_fetch := next_of FOther.

Fixpoint dynamic_session (calls : nat) (ps : list fetch) (fs : option (list fetch))
  : list (outcome (list (list N)) gr_err) :=
  match calls with
  | O => []
  | S k =>
      let p := fst (next_fetch ps) in
      let ps' := snd (next_fetch ps) in
      match p, fs with
      | FData _, _ => dynamic_graffiti p None :: dynamic_session k ps' fs
      | _, None => dynamic_graffiti p None :: dynamic_session k ps' None
      | _, Some fl => dynamic_graffiti p (Some (fst (next_fetch fl))) :: dynamic_session k ps' (Some (snd (next_fetch fl)))
      end
  end.

(* the file contents a script can serve *)
Definition script_files (s : list fetch) : list (list N) :=
  flat_map (fun f => match f with FData d => [d] | _ => [] end) s.

(* ------------------------------------------------------------------------------------------- *)
(* Path 1 — one proposer service, several proposals one after the other; the collaborators answer
   proposal by proposal (the service keeps nothing between proposals: each is [propose] on its own
   input).  Observation per proposal: panicked?, what the mocks saw; the list ends at the first
   panic. *)
Fixpoint propose_seq (g : bool) (ops : list p1_in) : list (bool * p1_trace) :=
  match ops with
  | [] => []
  | i :: ops' =>
      let p := is_panic (snd (propose g i)) in
      (p, fst (propose g i)) :: if p then [] else propose_seq g ops'
  end.
Definition propose_seq_now := propose_seq true.
