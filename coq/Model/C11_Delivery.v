(* C11, second layer: peers that take time and contexts that can be cancelled.
   Real relay and beacon node clients need a round trip and abandon a request whose context is
   cancelled before the answer is there.  Which requests of an operation ARRIVE therefore depends on
   the context each call is given.  Transcribed from
     services/proposalpreparer/standard/updatepreparations.go (updateProposalPreparations: one call
       after the other, each on the context the function was given),
     services/blockrelay/standard/submitvalidatorregistrations.go (submitRelayRegistrations: one
       goroutine per relay on the caller's context, wg.Wait(); then submitConsensusRegistrations:
       one goroutine per secondary node on the caller's context, wg.Wait()),
     services/blockrelay/standard/validatorregistrations.go (ValidatorRegistrations: submitRelayRegistrations).
   The signing requests of a round are made on the caller's context as well, one after the other,
   before anything is submitted (time 0 below = the start of the submissions); with a living
   context their latency changes nothing, and under a cancelled one they are not modelled.
   No call is ever given a context derived from another call's outcome: that is what this layer says,
   and what the theorems of section 8 of Properties/C11.v are about.
   Definitions only. *)
From Verif Require Import Lib.Base Model.C11_Registrations.

(* The context an operation is given by its caller: [None] = never cancelled while the operation
   runs, [Some c] = cancelled [c] milliseconds after the operation started.  (The harness runs with
   [None] only: the scheduler's and the controller's contexts live as long as the process.) *)
Definition ctx := option N.

(* A request made at time [start] on context [cx] to a peer that needs [lat] ms:
   (did it arrive?, when does the call return). *)
Definition call (cx : ctx) (start lat : N) : bool * N :=
  match cx with
  | None => (true, start + lat)
  | Some c =>
      if c <=? start then (false, start)               (* not sent on a context that is already dead *)
      else if start + lat <? c then (true, start + lat)
      else (false, c)                                  (* abandoned in flight *)
  end.

(* how long each peer of an operation takes *)
Record timing := {
  t_ctx : ctx;
  t_relays : list (N * N);     (* relay address -> ms (missing = 0) *)
  t_nodes : list N             (* k-th beacon node -> ms (missing = 0): secondary nodes of a round,
                                  preparer nodes of a preparation *)
}.

Definition no_timing : timing := {| t_ctx := None; t_relays := []; t_nodes := [] |}.

Fixpoint lat_of (ls : list (N * N)) (a : N) : N :=
  match ls with
  | [] => 0
  | (a', ms) :: ls' => if a' =? a then ms else lat_of ls' a
  end.

(* updateProposalPreparations: the loop over s.proposalPreparationsSubmitters.  Every call is made on
   [cx], the next one when the previous one has returned; an error that is not ErrNotActive
   (the node's own, or the context's) is counted in [failed] -- and nothing else happens to it.
   Returns who got the preparations, and [failed]. *)
Fixpoint prep_loop (cx : ctx) (t : N) (kinds : list pkind) (lats : list N) (failed : N) : list bool * N :=
  match kinds with
  | [] => ([], failed)
  | k :: kinds' =>
      let '(arrived, t') := call cx t (hd 0 lats) in
      let failed' :=
        if arrived then match k with PErr => failed + 1 | PNotActive => failed | POk => failed end
        else failed + 1 in
      let '(ds, f) := prep_loop cx t' kinds' (tl lats) failed' in
      (arrived :: ds, f)
  end.

(* what a list of per-node results becomes when only the requests of [ds] arrive *)
Fixpoint mask {A} (ds : list bool) (ns : list (option A)) : list (option A) :=
  match ds, ns with
  | d :: ds', n :: ns' => (if d then n else None) :: mask ds' ns'
  | _, _ => ns
  end.

(* submitRelayRegistrations: [m] = the relays that are called at all (relay_sends), all at time 0
   on [cx]; returns those whose request arrives and the time wg.Wait() returns *)
Definition relays_par (cx : ctx) (lats : list (N * N)) (m : relaymap) : relaymap * N :=
  (filter (fun e => fst (call cx 0 (lat_of lats (fst e)))) m,
   fold_right (fun e t => N.max (snd (call cx 0 (lat_of lats (fst e)))) t) 0 m).

(* submitConsensusRegistrations: every secondary node at time [start] on [cx] *)
Fixpoint nodes_par {A} (cx : ctx) (start : N) (lats : list N) (ns : list (option A)) : list (option A) :=
  match ns with
  | [] => []
  | n :: ns' => (if fst (call cx start (hd 0 lats)) then n else None) :: nodes_par cx start (tl lats) ns'
  end.

(* what ARRIVES of what an operation sends *)
Definition deliver (tm : timing) (o : op) (x : out) : out :=
  match o, x with
  | ORound _, OutRound err reqs relays nodes =>
      let '(relays', t) := relays_par (t_ctx tm) (t_relays tm) relays in
      OutRound err reqs relays' (nodes_par (t_ctx tm) t (t_nodes tm) nodes)
  | OForward _, OutForward relays =>
      OutForward (fst (relays_par (t_ctx tm) (t_relays tm) relays))
  | OPrepare p, OutPrepare err nodes =>
      OutPrepare err (mask (fst (prep_loop (t_ctx tm) 0 (p_nodes p) (t_nodes tm) 0)) nodes)
  | _, _ => x
  end.

Definition step_timed (st : state) (o : op) (tm : timing) : state * out :=
  let '(st', x) := step st o in (st', deliver tm o x).

(* a history with the timing of each operation (missing = every peer answers at once) *)
Fixpoint run_timed (st : state) (ops : list op) (tms : list timing) : state * list out :=
  match ops with
  | [] => (st, [])
  | o :: ops' =>
      let '(s1, x) := step_timed st o (hd no_timing tms) in
      let '(s2, xs) := run_timed s1 ops' (tl tms) in
      (s2, x :: xs)
  end.
