(* C16 — path 9 (aggsel): the attestation aggregator's AggregatorsAndSignatures
   (services/attestationaggregator/standard/service.go), which decides for every validator of a
   slot whether it aggregates, from the committee length of its attester duty as the beacon node
   reported it.  Definitions only.

   The code:   sigs, err := SignSlotSelections(accounts, slot); if err != nil { return error }
               for i, signature := range sigs {
                 modulo := committeeSizes[i] / targetAggregatorsPerCommittee     (panics if the divisor is 0)
                 if modulo == 0 { modulo = 1 }                                   (the guard)
                 aggregators[i] = uint64le(sha256(signature)[:8]) % modulo == 0   (panics if modulo is 0)
               }
   A row is (committee length, the eight hashed bytes as a number): the hash itself is outside the
   model, every uint64 can come out of it.  [guard = false] is the same code without the
   "at least 1" statement. *)
From Verif Require Import Lib.Base Model.C16_Paths.

Local Open Scope N_scope.

Definition agg_modulo (guard : bool) (target size : N) : outcome N unit :=
  if target =? 0 then Panic                               (* integer divide by zero *)
  else
    let m := size / target in
    if m =? 0 then (if guard then Ok 1 else Panic)        (* without the guard: hash % 0 *)
    else Ok m.

Fixpoint agg_select (guard : bool) (target : N) (rows : list (N * N)) : outcome (list bool) unit :=
  match rows with
  | [] => Ok []
  | (size, h) :: rows' =>
      match agg_modulo guard target size with
      | Ok m =>
          match agg_select guard target rows' with
          | Ok l => Ok ((h mod m =? 0) :: l)
          | o => o
          end
      | Err e => Err e
      | Panic => Panic
      end
  end.

Definition aggsel (guard : bool) (target : N) (sign_ok : bool) (rows : list (N * N)) : outcome (list bool) unit :=
  if sign_ok then agg_select guard target rows else Err tt.

Definition aggsel_now := aggsel true.

(* the consensus specification's is_aggregator: hash mod max(1, len(committee) // TARGET) == 0 *)
Definition spec_is_aggregator (target : N) (row : N * N) : bool :=
  snd row mod (N.max 1 (fst row / target)) =? 0.
