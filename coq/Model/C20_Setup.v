(* C20 (shutdown accounting): the set-up of ONE slot's attestation job at the granularity of the
   goroutines involved, so that the schedules in which the job is started, finishes or is cancelled
   while the goroutine that called ScheduleJob has not yet executed its next statement are part of
   the statement.  Transcribed from

     services/controller/standard/attester.go  scheduleAttestations:
         for each merged duty (not past, not the current slot if so instructed)
             pendingAttestations[slot] = true                       -- SBegin (in the loop, before `go`)
             go func() { scheduler.ScheduleJob(name(slot), ..) }()  -- SCall  (the goroutine's only call;
                                                                       error = job of that name exists)
                                                                    -- SResume: the goroutine executes what
                                                                       follows the call (nothing now)
       AttestAndScheduleAggregate: defer delete(pendingAttestations, slot)      -- SFinish
     services/controller/standard/events.go  refreshAttesterDutiesForEpoch:
         if CancelJob(name(slot)) == nil { delete(pendingAttestations, slot) }   -- SCancel
     services/scheduler/advanced: the job leaves the table when its timer fires (at once for a job
         whose time has come: the current slot's job set up after a reorg refresh or a late start)
         or on RunJob                                                            -- SStart

   [late] selects the place of the mark: false = the code as it is (in the loop, before the
   goroutine is started); true = after ScheduleJob has returned nil, in the goroutine (the class of
   change "do not note attestations as pending when the job could not be scheduled").
   Goroutines in the same phase are interchangeable, so they are counted.  Definitions only. *)
From Verif Require Import Lib.Base.

Record sst := {
  s_mark : bool;       (* pendingAttestations[slot] *)
  s_job : bool;        (* the job "Attestations for slot .." is in the scheduler's table *)
  s_run : nat;         (* executions of the job function in progress *)
  s_spawned : nat;     (* set-up goroutines that have not called ScheduleJob yet *)
  s_sched : nat        (* set-up goroutines whose ScheduleJob returned nil and that have not continued *)
}.

Definition sinit : sst := {| s_mark := false; s_job := false; s_run := 0; s_spawned := 0; s_sched := 0 |}.

Inductive sact := SBegin | SCall | SResume | SStart | SFinish | SCancel.

Section Setup.
  Variable late : bool.

  Definition sstep (st : sst) (a : sact) : sst :=
    match a with
    | SBegin =>
        {| s_mark := if late then s_mark st else true; s_job := s_job st; s_run := s_run st;
           s_spawned := S (s_spawned st); s_sched := s_sched st |}
    | SCall =>
        match s_spawned st with
        | O => st
        | S k =>
            if s_job st then   (* ErrJobAlreadyExists: logged, the goroutine ends *)
              {| s_mark := s_mark st; s_job := true; s_run := s_run st; s_spawned := k; s_sched := s_sched st |}
            else
              {| s_mark := s_mark st; s_job := true; s_run := s_run st; s_spawned := k; s_sched := S (s_sched st) |}
        end
    | SResume =>
        match s_sched st with
        | O => st
        | S k =>
            {| s_mark := if late then true else s_mark st; s_job := s_job st; s_run := s_run st;
               s_spawned := s_spawned st; s_sched := k |}
        end
    | SStart =>
        if s_job st then
          {| s_mark := s_mark st; s_job := false; s_run := S (s_run st); s_spawned := s_spawned st; s_sched := s_sched st |}
        else st
    | SFinish =>
        match s_run st with
        | O => st
        | S k => {| s_mark := false; s_job := s_job st; s_run := k; s_spawned := s_spawned st; s_sched := s_sched st |}
        end
    | SCancel =>
        if s_job st then
          {| s_mark := false; s_job := false; s_run := s_run st; s_spawned := s_spawned st; s_sched := s_sched st |}
        else st
    end.

  Definition srun (l : list sact) (st : sst) : sst := fold_left sstep l st.

  (* the job has been set up and has neither finished nor been withdrawn *)
  Definition s_in_flight (st : sst) : bool := s_job st || negb (Nat.eqb (s_run st) 0).
  (* a set-up is under way: marked by the loop, its goroutine has not reached the scheduler yet *)
  Definition s_setting_up (st : sst) : bool := negb (Nat.eqb (s_spawned st) 0).

  (* Condition of the "in flight => marked" direction: between the loop's mark and the goroutine's
     ScheduleJob call nothing else happens to this slot's job (it is not started and not cancelled),
     and the slot is not set up again while its job is executing (resched_ok of the history model).
     What happens AFTER ScheduleJob has returned - while the caller is still parked (s_sched > 0) -
     is not restricted: start, finish and cancel are all allowed there. *)
  Definition sguard (st : sst) (a : sact) : bool :=
    match a with
    | SBegin => Nat.eqb (s_run st) 0
    | SStart | SCancel => Nat.eqb (s_spawned st) 0
    | _ => true
    end.

  Fixpoint sguarded (l : list sact) (st : sst) : bool :=
    match l with
    | [] => true
    | a :: l' => sguard st a && sguarded l' (sstep st a)
    end.

  Definition has_begin (l : list sact) : bool :=
    existsb (fun a => match a with SBegin => true | _ => false end) l.
End Setup.
