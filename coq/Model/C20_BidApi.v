(* C20: the builder-bid cache as seen from the builder API that Vouch serves.

   services/blockrelay/standard/builderbid.go   BuilderBid(slot, parent, pubkey): a cached bid for
       that slot / parent / key is answered from the cache (nothing is written); otherwise
       immediateBuilderBid -> auctionBlock -> cacheBid(slot, ..)
   services/blockrelay/standard/auctionblock.go AuctionBlock(slot, ..) (proposal path): always
       auctionBlock -> cacheBid(slot, ..)

   The slot is whatever the caller asked for: nothing in these paths compares it with the chain
   time.  So the histories here put NO condition on the order of the slots (far-future and
   far-past requests, repeats), unlike [aucs_ok] of Model/C20_Bookkeeping.v.

   [xop] adds the API request to the operations of the history model without touching [op]:
   a request that misses the cache is an [OAuction], one that hits it is nothing.

   [hw_*]: the variant in which cacheBid walks the cache only when the slot is later than the
   latest slot for which it has been tidied (a high-water mark kept in the service); used by the
   `_refuted` theorem only.
   Definitions only. *)
From Verif Require Import Lib.Base Model.C20_Bookkeeping.

Inductive xop :=
| XBase (o : op)
| XBid (s : slot).        (* BuilderBid(s, parent(s), key): the harness derives parent and key from s *)

Section X.
  Variable spe : N.
  Variable fx : bool.

  (* the operations of the history model that the request amounts to in state st *)
  Definition xeff (st : sys) (x : xop) : list op :=
    match x with
    | XBase o => [o]
    | XBid s => if mem s (bids st) then [] else [OAuction s]
    end.

  Definition xstep (st : sys) (x : xop) : sys := run spe fx (xeff st x) st.

  Definition xrun (h : list xop) (st : sys) : sys := fold_left xstep h st.

  Fixpoint xflat (h : list xop) (st : sys) : list op :=
    match h with
    | [] => []
    | x :: h' => xeff st x ++ xflat h' (xstep st x)
    end.
End X.

(* the slots for which a bid has been asked (either path) *)
Definition xreq (x : xop) : option slot :=
  match x with
  | XBase (OAuction s) => Some s
  | XBid s => Some s
  | _ => None
  end.

Fixpoint requested (h : list xop) : list slot :=
  match h with
  | [] => []
  | x :: h' => match xreq x with Some s => s :: requested h' | None => requested h' end
  end.

(* --- the high-water-mark variant of cacheBid -------------------------------------------------- *)
(* state: (latest slot tidied for, keys) *)
Definition hw_cache (st : N * list slot) (s : slot) : N * list slot :=
  let (hw, l) := st in
  if hw <? s then (s, filter (fun k => s <=? k + bid_window) (ins s l)) else (hw, ins s l).

Definition hw_run (ss : list slot) : N * list slot := fold_left hw_cache ss (0, []).

(* one request for slot [far], then n ordinary slots from s *)
Fixpoint upto (n : nat) (s : slot) : list slot :=
  match n with O => [] | S n' => s :: upto n' (s + 1) end.
