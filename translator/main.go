// Translator for C17 (and the lock skeleton of C12): Go source -> lock/access control-flow graphs
// in Gallina (coq/Gen/C17_Extracted.v).  go/ast only; no type information.
//
// For each configured package the struct type `Service` is taken; its mutex-typed fields become
// mutexes, its other fields become shared fields.  Every entry point (exported method, method used
// as a value, `go` statement body, function literal handed to an asynchronous API) becomes an entry
// node of one graph per package; calls to methods of the same struct are inlined (each call site gets
// its own copy), `defer`s are replayed at every return, loops/branches/break/continue/return become
// edges.  Only fields that are written somewhere outside the constructor produce access nodes.
//
// Limits (stated in DESIGN.md): no aliasing (m := s.f; m[k] = v is a read of f), accesses through
// other structs are not tracked, local variables shared by goroutines are the subject of the second
// graph per package (locals.go), recursion is cut
// at depth 8, function values stored in variables are treated as called where they are defined.
package main

import (
	"encoding/json"
	"flag"
	"fmt"
	"go/ast"
	"go/parser"
	"go/token"
	"os"
	"path/filepath"
	"sort"
	"strings"
)

type node struct {
	instr string
	succ  []int
	pos   string
	acc   *accInfo
	owner int
	from  []int      // atomic.go: read nodes the value stored by this write node is derived from
	frame *atomFrame // atomic.go: the innermost inlined call of an exported method the node belongs to
}

type accInfo struct {
	Field string `json:"field"`
	Write bool   `json:"write"`
	Pos   string `json:"pos"`
	Entry string `json:"entry"`
}

type pkgResult struct {
	Name             string             `json:"name"`
	Dir              string             `json:"dir"`
	Mutexes          []string           `json:"mutexes"`
	Fields           []string           `json:"fields"`
	Entries          []string           `json:"entries"`
	Nodes            int                `json:"nodes"`
	Accesses         map[string]accInfo `json:"accesses"` // node index -> info
	Notes            []string           `json:"notes"`
	Groups           []string           `json:"groups"`            // group id -> description
	Single           []bool             `json:"single"`            // group id -> at most one thread
	Pos              []string           `json:"positions"`         // node index -> file:line ("" when none)
	Instrs           []string           `json:"instrs"`            // node index -> instruction text
	Derived          [][2]int           `json:"derived"`           // atomic.go: (read node, write node) of one field, the written value derived from the read
	DerivedComposite [][2]int           `json:"derived_composite"` // atomic.go: such pairs whose write is in an inlined exported method that does not contain the read
	nodes            []node
	entryIDs         []int
	locals           *pkgResult // the graph of the local variables shared by goroutines (locals.go); nil if there are none
}

var asyncAPIs = map[string]bool{
	"ScheduleJob": true, "SchedulePeriodicJob": true, "Events": true, "AfterFunc": true, "HandleFunc": true, "Handle": true,
}

type fnCtx struct {
	recv      map[string]bool // identifiers denoting the service value
	defers    []ast.Expr      // deferred calls, in registration order
	returns   []int           // frontier nodes that leave the function
	breaks    []*[]int
	conts     []*[]int
	labels    map[string]int // label -> index into breaks/conts
	stack     []string       // inlined method names (recursion guard)
	entry     string
	group     int
	alias     map[string]map[string]bool // local identifier -> fields it may alias
	ctor      bool                       // walking a constructor (its own nodes are discarded)
	funcs     map[string]*ast.FuncLit    // local identifier -> function literal bound to it (x := func(..) {..})
	loopDepth int                        // loops/switches open in the callers (inlined methods)
	lc        *locCtx                    // locals mode (locals.go): the walk of one thread body
	at        *atomCtx                   // value derivation (atomic.go)
}

func (fc *fnCtx) inLoop() bool { return fc.loopDepth+len(fc.breaks) > 0 }

type builder struct {
	fset         *token.FileSet
	typeName     string
	fields       map[string]bool
	mutexes      map[string]int
	fieldID      map[string]int
	written      map[string]bool
	methods      map[string]*ast.FuncDecl
	res          *pkgResult
	pending      []pendingEntry
	seenEntry    map[string]bool
	allWritten   bool
	curGroup     int
	weakExported bool
	loc          *localsState // non-nil: locals mode (locals.go)
	atom         atomState    // value derivation (atomic.go)
}

type pendingEntry struct {
	name   string
	body   *ast.BlockStmt
	recv   map[string]bool
	method string
	group  int
}

func (b *builder) pos(n ast.Node) string {
	p := b.fset.Position(n.Pos())
	return fmt.Sprintf("%s:%d", filepath.Base(p.Filename), p.Line)
}

func (b *builder) emit(instr string, frontier []int, at ast.Node) []int {
	id := len(b.res.nodes)
	nd := node{instr: instr, owner: b.curGroup, frame: b.atom.frame}
	if at != nil {
		nd.pos = b.pos(at)
	}
	b.res.nodes = append(b.res.nodes, nd)
	for _, p := range frontier {
		b.res.nodes[p].succ = append(b.res.nodes[p].succ, id)
	}
	return []int{id}
}

func (b *builder) link(frontier []int, target int) {
	for _, p := range frontier {
		b.res.nodes[p].succ = append(b.res.nodes[p].succ, target)
	}
}

// baseField returns the field name if e is (a chain of index/selector/star/paren over) recv.field.
func (b *builder) baseField(e ast.Expr, fc *fnCtx) (string, bool) {
	for {
		switch x := e.(type) {
		case *ast.ParenExpr:
			e = x.X
		case *ast.StarExpr:
			e = x.X
		case *ast.IndexExpr:
			e = x.X
		case *ast.SliceExpr:
			e = x.X
		case *ast.SelectorExpr:
			if id, ok := x.X.(*ast.Ident); ok && fc.recv[id.Name] {
				if b.fields[x.Sel.Name] {
					return x.Sel.Name, true
				}
				return "", false
			}
			e = x.X
		default:
			return "", false
		}
	}
}

func (b *builder) access(field string, write bool, frontier []int, at ast.Node, fc *fnCtx) []int {
	if !b.allWritten && !b.written[field] {
		return frontier
	}
	w := "false"
	if write {
		w = "true"
	}
	f := b.emit(fmt.Sprintf("IAcc %d %s", b.fieldID[field], w), frontier, at)
	b.res.nodes[f[0]].acc = &accInfo{Field: field, Write: write, Pos: b.pos(at), Entry: fc.entry}
	if write {
		b.atomWrote(f[0])
	}
	return f
}

// mutexCall recognises recv.mu.Lock() etc.
func (b *builder) mutexCall(call *ast.CallExpr, fc *fnCtx) (string, bool) {
	sel, ok := call.Fun.(*ast.SelectorExpr)
	if !ok {
		return "", false
	}
	if b.loc != nil {
		if lid, isIdent := sel.X.(*ast.Ident); isIdent && len(call.Args) == 0 {
			return b.locMutexCall(lid, sel.Sel.Name, fc)
		}
	}
	inner, ok := sel.X.(*ast.SelectorExpr)
	if !ok {
		return "", false
	}
	id, ok := inner.X.(*ast.Ident)
	if !ok || !fc.recv[id.Name] {
		return "", false
	}
	m, ok := b.mutexes[inner.Sel.Name]
	if !ok {
		return "", false
	}
	switch sel.Sel.Name {
	case "Lock":
		return fmt.Sprintf("ILock %d true", m), true
	case "RLock":
		return fmt.Sprintf("ILock %d false", m), true
	case "Unlock":
		return fmt.Sprintf("IUnlock %d true", m), true
	case "RUnlock":
		return fmt.Sprintf("IUnlock %d false", m), true
	case "TryLock", "TryRLock":
		return "ISkip", true
	}
	return "", false
}

// expr walks an expression in evaluation order emitting reads, lock operations and inlined calls.
func (b *builder) expr(e ast.Expr, frontier []int, fc *fnCtx) []int {
	if e == nil {
		return frontier
	}
	switch x := e.(type) {
	case *ast.Ident:
		if b.loc != nil {
			return b.locAccess(x, false, true, frontier, fc)
		}
		return frontier
	case *ast.CallExpr:
		return b.call(x, frontier, fc, false)
	case *ast.SelectorExpr:
		if id, ok := x.X.(*ast.Ident); ok && fc.recv[id.Name] {
			if b.fields[x.Sel.Name] {
				return b.access(x.Sel.Name, false, frontier, x, fc)
			}
			if _, isM := b.methods[x.Sel.Name]; isM {
				// method value used as data: it will be called by somebody else, later
				b.addEntry(x.Sel.Name, nil, nil, x.Sel.Name)
			}
			return frontier
		}
		return b.expr(x.X, frontier, fc)
	case *ast.FuncLit:
		// a function value not called here: treated as possibly executed at this point, any number of times
		head := b.emit("ISkip", frontier, x)
		sub := &fnCtx{recv: fc.recv, stack: fc.stack, entry: fc.entry, labels: map[string]int{}, alias: fc.alias, ctor: fc.ctor, funcs: fc.funcs, lc: fc.lc, at: b.atomOf(fc)}
		b.atomLoop(fc, 1)
		out := b.block(x.Body, head, sub)
		out = append(out, sub.returns...)
		b.link(out, head[0])
		b.atomLoop(fc, -1)
		return head
	case *ast.BinaryExpr:
		frontier = b.expr(x.X, frontier, fc)
		return b.expr(x.Y, frontier, fc)
	case *ast.UnaryExpr:
		return b.expr(x.X, frontier, fc)
	case *ast.ParenExpr:
		return b.expr(x.X, frontier, fc)
	case *ast.StarExpr:
		return b.expr(x.X, frontier, fc)
	case *ast.IndexExpr:
		frontier = b.expr(x.X, frontier, fc)
		return b.expr(x.Index, frontier, fc)
	case *ast.SliceExpr:
		frontier = b.expr(x.X, frontier, fc)
		frontier = b.expr(x.Low, frontier, fc)
		frontier = b.expr(x.High, frontier, fc)
		return b.expr(x.Max, frontier, fc)
	case *ast.TypeAssertExpr:
		return b.expr(x.X, frontier, fc)
	case *ast.KeyValueExpr:
		frontier = b.expr(x.Key, frontier, fc)
		return b.expr(x.Value, frontier, fc)
	case *ast.CompositeLit:
		for _, el := range x.Elts {
			frontier = b.expr(el, frontier, fc)
		}
		return frontier
	}
	return frontier
}

func (b *builder) call(call *ast.CallExpr, frontier []int, fc *fnCtx, isGo bool) []int {
	defer b.atomCall(call, fc, b.atomMark())
	if instr, ok := b.mutexCall(call, fc); ok {
		return b.emit(instr, frontier, call)
	}
	// builtin delete(recv.f, k) writes f
	if id, ok := call.Fun.(*ast.Ident); ok && (id.Name == "delete" || id.Name == "clear") && len(call.Args) > 0 {
		for _, a := range call.Args[1:] {
			frontier = b.expr(a, frontier, fc)
		}
		if f, ok := b.baseField(call.Args[0], fc); ok {
			return b.access(f, true, frontier, call, fc)
		}
		if b.loc != nil {
			if lid := baseIdentNode(call.Args[0]); lid != nil {
				return b.locAccess(lid, true, false, frontier, fc)
			}
		}
		if id, ok := baseIdent(call.Args[0]); ok && fc.alias != nil {
			for f := range fc.alias[id] {
				frontier = b.access(f, true, frontier, call, fc)
			}
			return frontier
		}
		return b.expr(call.Args[0], frontier, fc)
	}
	calleeName := ""
	switch f := call.Fun.(type) {
	case *ast.SelectorExpr:
		calleeName = f.Sel.Name
	case *ast.Ident:
		calleeName = f.Name
	}
	async := asyncAPIs[calleeName]
	// event handlers of one subscription and the two functions of a periodic job run sequentially:
	// one single-instance group per such call
	// (a registration inside a loop creates several subscriptions / jobs: not single)
	singleGroup := (calleeName == "Events" || calleeName == "SchedulePeriodicJob") && !fc.inLoop()
	grp := -1
	// locals mode: the signature of a callee that is inlined or started as a thread (its reference-typed
	// parameters are bound to the caller's variables instead of being read here)
	var sig *ast.FuncType
	if b.loc != nil {
		sig = b.locSignature(call, fc)
	}
	// arguments
	argT := make([]atomVal, len(call.Args))
	for ai, a := range call.Args {
		mk := b.atomMark()
		if sig != nil && b.locBindable(sig, ai, a, fc) {
			continue
		}
		switch av := a.(type) {
		case *ast.FuncLit:
			if async && b.loc != nil {
				b.locSpawn(fmt.Sprintf("%s@%s", calleeName, b.pos(av)), av.Type, av.Body, nil, fc, "")
				continue
			}
			if async {
				g := b.addEntryG(fmt.Sprintf("%s@%s", calleeName, b.pos(av)), av.Body, fc.recv, "", grp, singleGroup)
				if singleGroup {
					grp = g
				}
				continue
			}
		case *ast.Ident:
			if lit, ok := fc.funcs[av.Name]; ok && async && b.loc != nil {
				b.locSpawn(fmt.Sprintf("%s@%s", calleeName, b.pos(lit)), lit.Type, lit.Body, nil, fc, "")
				continue
			}
			if lit, ok := fc.funcs[av.Name]; ok && async {
				g := b.addEntryG(fmt.Sprintf("%s@%s", calleeName, b.pos(lit)), lit.Body, fc.recv, "", grp, singleGroup)
				if singleGroup {
					grp = g
				}
				continue
			}
		case *ast.SelectorExpr:
			if id, ok := av.X.(*ast.Ident); ok && fc.recv[id.Name] {
				if _, isM := b.methods[av.Sel.Name]; isM {
					g := b.addEntryG(av.Sel.Name, nil, nil, av.Sel.Name, grp, singleGroup)
					if singleGroup {
						grp = g
					}
					continue
				}
			}
		}
		frontier = b.expr(a, frontier, fc)
		argT[ai] = b.atomReads(fc, mk, a)
	}
	switch f := call.Fun.(type) {
	case *ast.FuncLit:
		if b.loc != nil {
			if isGo {
				b.locSpawn(fmt.Sprintf("go@%s", b.pos(f)), f.Type, f.Body, call.Args, fc, "")
				return frontier
			}
			b.locBind(f.Type, call.Args, fc.lc, fc.lc.env, fc.lc.refp)
			b.declareParams(f.Type, fc)
		}
		if isGo {
			// a goroutine started once by the constructor (not in a loop) runs as a single thread
			b.addEntryG(fmt.Sprintf("go@%s", b.pos(f)), f.Body, fc.recv, "", -1, fc.ctor && !fc.inLoop())
			return frontier
		}
		b.atomBind(f.Type, argT, b.atomOf(fc), false)
		return b.inlineBody(f.Body, frontier, fc, "")
	case *ast.SelectorExpr:
		if id, ok := f.X.(*ast.Ident); ok && fc.recv[id.Name] {
			if m, isM := b.methods[f.Sel.Name]; isM {
				if b.loc != nil {
					if isGo {
						b.locSpawn(fmt.Sprintf("go %s@%s", f.Sel.Name, b.pos(call)), m.Type, m.Body, call.Args, fc, f.Sel.Name)
						return frontier
					}
					b.locBind(m.Type, call.Args, fc.lc, fc.lc.env, fc.lc.refp)
					b.declareParams(m.Type, fc)
				}
				if isGo {
					b.addEntryG(f.Sel.Name, nil, nil, f.Sel.Name, -1, fc.ctor && !fc.inLoop())
					return frontier
				}
				return b.inlineMethod(m, frontier, fc, argT)
			}
			if b.fields[f.Sel.Name] {
				// calling a function-typed field: a read of the field
				return b.access(f.Sel.Name, false, frontier, f, fc)
			}
			return frontier
		}
		return b.expr(f.X, frontier, fc)
	case *ast.Ident:
		if lit, ok := fc.funcs[f.Name]; ok && isGo && b.loc != nil {
			b.locSpawn(fmt.Sprintf("go %s@%s", f.Name, b.pos(lit)), lit.Type, lit.Body, call.Args, fc, "")
		}
	}
	return frontier
}

func recvName(m *ast.FuncDecl) string {
	if m.Recv != nil && len(m.Recv.List) > 0 && len(m.Recv.List[0].Names) > 0 {
		return m.Recv.List[0].Names[0].Name
	}
	return "_"
}

func (b *builder) inlineMethod(m *ast.FuncDecl, frontier []int, fc *fnCtx, argT []atomVal) []int {
	if m.Body == nil {
		return frontier
	}
	for _, s := range fc.stack {
		if s == m.Name.Name {
			b.note("recursive call of %s cut", m.Name.Name)
			return frontier
		}
	}
	if len(fc.stack) >= 8 {
		b.note("inlining depth 8 reached at %s", m.Name.Name)
		return frontier
	}
	sub := &fnCtx{recv: map[string]bool{recvName(m): true}, stack: append(append([]string{}, fc.stack...), m.Name.Name), entry: fc.entry, labels: map[string]int{}, alias: map[string]map[string]bool{}, ctor: fc.ctor, loopDepth: fc.loopDepth + len(fc.breaks), lc: fc.lc}
	defer b.atomInlined(m.Name.Name)()
	b.atomBind(m.Type, argT, b.atomOf(sub), true)
	out := b.finishFn(m.Body, frontier, sub)
	b.atomLeave(m.Type, sub)
	return out
}

func (b *builder) inlineBody(body *ast.BlockStmt, frontier []int, fc *fnCtx, _ string) []int {
	sub := &fnCtx{recv: fc.recv, stack: fc.stack, entry: fc.entry, labels: map[string]int{}, alias: fc.alias, ctor: fc.ctor, funcs: fc.funcs, lc: fc.lc, loopDepth: fc.loopDepth + len(fc.breaks), at: b.atomOf(fc)}
	out := b.finishFn(body, frontier, sub)
	b.atomLeave(nil, sub)
	return out
}

// finishFn translates a function body; the result frontier is where control continues after the call
// (fall-through end and every return, each after its deferred calls).
func (b *builder) finishFn(body *ast.BlockStmt, frontier []int, sub *fnCtx) []int {
	out := b.block(body, frontier, sub)
	out = b.runDefers(out, sub, len(sub.defers))
	return append(out, sub.returns...)
}

func (b *builder) runDefers(frontier []int, fc *fnCtx, n int) []int {
	if len(frontier) == 0 {
		return frontier
	}
	for i := n - 1; i >= 0; i-- {
		d := fc.defers[i]
		saved := fc.defers
		fc.defers = nil // a deferred call's own body has its own defers (handled by inline)
		if c, ok := d.(*ast.CallExpr); ok {
			frontier = b.call(c, frontier, fc, false)
		}
		fc.defers = saved
	}
	return frontier
}

func (b *builder) note(format string, args ...any) {
	s := fmt.Sprintf(format, args...)
	for _, n := range b.res.Notes {
		if n == s {
			return
		}
	}
	b.res.Notes = append(b.res.Notes, s)
}

func (b *builder) block(blk *ast.BlockStmt, frontier []int, fc *fnCtx) []int {
	if blk == nil {
		return frontier
	}
	return b.stmts(blk.List, frontier, fc)
}

func (b *builder) stmts(list []ast.Stmt, frontier []int, fc *fnCtx) []int {
	for _, s := range list {
		if len(frontier) == 0 {
			return frontier // unreachable code
		}
		frontier = b.stmt(s, frontier, fc)
	}
	return frontier
}

func (b *builder) assignTarget(lhs ast.Expr, frontier []int, fc *fnCtx) []int {
	// index expressions on the way are reads
	var walkIdx func(e ast.Expr)
	walkIdx = func(e ast.Expr) {
		switch x := e.(type) {
		case *ast.IndexExpr:
			walkIdx(x.X)
			frontier = b.expr(x.Index, frontier, fc)
		case *ast.SelectorExpr:
			if id, ok := x.X.(*ast.Ident); ok && fc.recv[id.Name] {
				return
			}
			walkIdx(x.X)
		case *ast.StarExpr:
			walkIdx(x.X)
		case *ast.ParenExpr:
			walkIdx(x.X)
		}
	}
	walkIdx(lhs)
	if f, ok := b.baseField(lhs, fc); ok {
		return b.access(f, true, frontier, lhs, fc)
	}
	if b.loc != nil {
		if id, isIdent := lhs.(*ast.Ident); isIdent {
			return b.locAccess(id, true, true, frontier, fc)
		}
		if id := baseIdentNode(lhs); id != nil {
			elem := false
			if ix, ok := lhs.(*ast.IndexExpr); ok {
				_, elem = ix.X.(*ast.Ident)
			}
			return b.locAccessE(id, true, false, elem, frontier, fc)
		}
		return frontier
	}
	if _, isIdent := lhs.(*ast.Ident); isIdent {
		return frontier
	}
	// a write through a local alias of a field (alias.x = v, alias[k] = v)
	if id, ok := baseIdent(lhs); ok && fc.alias != nil {
		fs := make([]string, 0)
		for f := range fc.alias[id] {
			fs = append(fs, f)
		}
		sort.Strings(fs)
		for _, f := range fs {
			frontier = b.access(f, true, frontier, lhs, fc)
		}
	}
	return frontier
}

func baseIdent(e ast.Expr) (string, bool) {
	for {
		switch x := e.(type) {
		case *ast.ParenExpr:
			e = x.X
		case *ast.StarExpr:
			e = x.X
		case *ast.IndexExpr:
			e = x.X
		case *ast.SelectorExpr:
			e = x.X
		case *ast.Ident:
			return x.Name, true
		default:
			return "", false
		}
	}
}

func (b *builder) pushLoop(fc *fnCtx, label string) (*[]int, *[]int) {
	br, ct := &[]int{}, &[]int{}
	fc.breaks = append(fc.breaks, br)
	fc.conts = append(fc.conts, ct)
	if label != "" {
		fc.labels[label] = len(fc.breaks) - 1
	}
	return br, ct
}

func (b *builder) popLoop(fc *fnCtx) {
	fc.breaks = fc.breaks[:len(fc.breaks)-1]
	fc.conts = fc.conts[:len(fc.conts)-1]
}

func (b *builder) stmt(s ast.Stmt, frontier []int, fc *fnCtx) []int {
	return b.stmtL(s, frontier, fc, "")
}

func (b *builder) stmtL(s ast.Stmt, frontier []int, fc *fnCtx, label string) []int {
	switch x := s.(type) {
	case *ast.ExprStmt:
		return b.expr(x.X, frontier, fc)
	case *ast.AssignStmt:
		mk := b.atomMark()
		for _, r := range x.Rhs {
			frontier = b.expr(r, frontier, fc)
		}
		if b.loc != nil && x.Tok == token.DEFINE {
			for _, l := range x.Lhs {
				if id, ok := l.(*ast.Ident); ok {
					b.locDeclare(id, fc)
				}
			}
		}
		// x := func(..) {..}: remember the literal, so that handing x to an asynchronous API registers an entry
		if len(x.Lhs) == len(x.Rhs) {
			for i, l := range x.Lhs {
				if id, ok := l.(*ast.Ident); ok {
					if lit, ok := x.Rhs[i].(*ast.FuncLit); ok {
						if fc.funcs == nil {
							fc.funcs = map[string]*ast.FuncLit{}
						}
						fc.funcs[id.Name] = lit
					}
				}
			}
		}
		// aliases: x := recv.f / recv.f[k] / *recv.f (no type information: any such local may share memory with f)
		for i, l := range x.Lhs {
			id, ok := l.(*ast.Ident)
			if !ok || id.Name == "_" || fc.alias == nil {
				continue
			}
			var r ast.Expr
			if len(x.Rhs) == len(x.Lhs) {
				r = x.Rhs[i]
			} else if i == 0 && len(x.Rhs) == 1 {
				r = x.Rhs[0]
			}
			if r == nil {
				continue
			}
			if _, isCall := r.(*ast.CallExpr); isCall {
				continue
			}
			if u, isU := r.(*ast.UnaryExpr); isU && u.Op == token.AND {
				r = u.X
			}
			if f, ok := b.baseField(r, fc); ok {
				if x.Tok == token.DEFINE || fc.alias[id.Name] == nil {
					if fc.alias[id.Name] == nil {
						fc.alias[id.Name] = map[string]bool{}
					}
				}
				fc.alias[id.Name][f] = true
			} else if rid, ok := baseIdent(r); ok && fc.alias[rid] != nil && rid != id.Name {
				if fc.alias[id.Name] == nil {
					fc.alias[id.Name] = map[string]bool{}
				}
				for f := range fc.alias[rid] {
					fc.alias[id.Name][f] = true
				}
			}
		}
		for _, l := range x.Lhs {
			if x.Tok != token.ASSIGN && x.Tok != token.DEFINE {
				// op-assign reads too
				frontier = b.expr(l, frontier, fc)
			}
			frontier = b.assignTarget(l, frontier, fc)
		}
		b.atomAssign(fc, mk, x.Lhs, x.Rhs, x.Tok != token.ASSIGN && x.Tok != token.DEFINE)
		return frontier
	case *ast.IncDecStmt:
		mk := b.atomMark()
		frontier = b.expr(x.X, frontier, fc)
		frontier = b.assignTarget(x.X, frontier, fc)
		b.atomAssign(fc, mk, []ast.Expr{x.X}, nil, true)
		return frontier
	case *ast.DeclStmt:
		if gd, ok := x.Decl.(*ast.GenDecl); ok {
			for _, sp := range gd.Specs {
				if vs, ok := sp.(*ast.ValueSpec); ok {
					mk := b.atomMark()
					for _, v := range vs.Values {
						frontier = b.expr(v, frontier, fc)
					}
					b.atomDecl(fc, mk, vs)
					if b.loc != nil {
						for _, nm := range vs.Names {
							b.locDeclare(nm, fc)
						}
					}
				}
			}
		}
		return frontier
	case *ast.SendStmt:
		frontier = b.expr(x.Chan, frontier, fc)
		return b.expr(x.Value, frontier, fc)
	case *ast.GoStmt:
		return b.call(x.Call, frontier, fc, true)
	case *ast.DeferStmt:
		// arguments are evaluated now; the call runs at function exit
		fc.defers = append(fc.defers, x.Call)
		return frontier
	case *ast.ReturnStmt:
		mk := b.atomMark()
		for _, r := range x.Results {
			frontier = b.expr(r, frontier, fc)
		}
		b.atomReturn(fc, mk, x.Results)
		frontier = b.runDefers(frontier, fc, len(fc.defers))
		fc.returns = append(fc.returns, frontier...)
		return nil
	case *ast.BlockStmt:
		return b.block(x, frontier, fc)
	case *ast.LabeledStmt:
		return b.stmtL(x.Stmt, frontier, fc, x.Label.Name)
	case *ast.BranchStmt:
		idx := len(fc.breaks) - 1
		if x.Label != nil {
			if i, ok := fc.labels[x.Label.Name]; ok {
				idx = i
			}
		}
		switch x.Tok {
		case token.BREAK:
			if idx >= 0 {
				*fc.breaks[idx] = append(*fc.breaks[idx], frontier...)
			}
			return nil
		case token.CONTINUE:
			// find the innermost loop (conts entry non-nil)
			for i := idx; i >= 0; i-- {
				if fc.conts[i] != nil {
					*fc.conts[i] = append(*fc.conts[i], frontier...)
					break
				}
			}
			return nil
		case token.GOTO:
			b.note("goto at %s ignored", b.pos(x))
			return nil
		}
		return frontier // fallthrough
	case *ast.IfStmt:
		if x.Init != nil {
			frontier = b.stmt(x.Init, frontier, fc)
		}
		frontier = b.expr(x.Cond, frontier, fc)
		nd := len(fc.defers)
		b.atomIf(0)
		defer b.atomIf(2)
		thenOut := b.block(x.Body, frontier, fc)
		if len(thenOut) == 0 {
			fc.defers = fc.defers[:nd]
		} else if len(fc.defers) != nd {
			b.note("conditional defer in if-body at %s treated as always pending", b.pos(x))
		}
		b.atomIf(1)
		var elseOut []int
		if x.Else != nil {
			nd2 := len(fc.defers)
			elseOut = b.stmt(x.Else, frontier, fc)
			if len(elseOut) == 0 {
				fc.defers = fc.defers[:nd2]
			}
		} else {
			elseOut = frontier
		}
		return append(append([]int{}, thenOut...), elseOut...)
	case *ast.ForStmt:
		if x.Init != nil {
			frontier = b.stmt(x.Init, frontier, fc)
		}
		b.atomLoop(fc, 1)
		defer b.atomLoop(fc, -1)
		head := b.emit("ISkip", frontier, x)
		condOut := b.expr(x.Cond, head, fc)
		br, ct := b.pushLoop(fc, label)
		nd := len(fc.defers)
		bodyOut := b.block(x.Body, condOut, fc)
		if len(fc.defers) != nd {
			b.note("defer inside loop at %s: treated as running at function exit once", b.pos(x))
		}
		b.popLoop(fc)
		bodyOut = append(bodyOut, *ct...)
		if x.Post != nil && len(bodyOut) > 0 {
			bodyOut = b.stmt(x.Post, bodyOut, fc)
		}
		b.link(bodyOut, head[0])
		out := append([]int{}, *br...)
		if x.Cond != nil {
			out = append(out, condOut...)
		}
		if x.Cond == nil && len(*br) == 0 {
			// for {} without break: leaves only by return
			return nil
		}
		return out
	case *ast.RangeStmt:
		mk := b.atomMark()
		frontier = b.expr(x.X, frontier, fc)
		b.atomLoop(fc, 1)
		defer b.atomLoop(fc, -1)
		if b.loc != nil && x.Tok == token.DEFINE {
			if id, ok := x.Key.(*ast.Ident); ok {
				b.locDeclareIter(id, fc)
			}
			if id, ok := x.Value.(*ast.Ident); ok {
				b.locDeclareIter(id, fc)
			}
		}
		if f, ok := b.baseField(x.X, fc); ok && fc.alias != nil && x.Tok == token.DEFINE {
			if v, ok := x.Value.(*ast.Ident); ok && v.Name != "_" {
				if fc.alias[v.Name] == nil {
					fc.alias[v.Name] = map[string]bool{}
				}
				fc.alias[v.Name][f] = true
			}
		}
		head := b.emit("ISkip", frontier, x)
		br, ct := b.pushLoop(fc, label)
		body := head
		if x.Key != nil && x.Tok == token.ASSIGN {
			body = b.assignTarget(x.Key, body, fc)
		}
		if x.Value != nil && x.Tok == token.ASSIGN {
			body = b.assignTarget(x.Value, body, fc)
		}
		b.atomAssign(fc, mk, []ast.Expr{x.Key, x.Value}, []ast.Expr{x.X}, false)
		bodyOut := b.block(x.Body, body, fc)
		b.popLoop(fc)
		bodyOut = append(bodyOut, *ct...)
		b.link(bodyOut, head[0])
		return append(append([]int{}, *br...), head...)
	case *ast.SwitchStmt:
		if x.Init != nil {
			frontier = b.stmt(x.Init, frontier, fc)
		}
		frontier = b.expr(x.Tag, frontier, fc)
		return b.clauses(x.Body, frontier, fc, label, false)
	case *ast.TypeSwitchStmt:
		if x.Init != nil {
			frontier = b.stmt(x.Init, frontier, fc)
		}
		frontier = b.stmt(x.Assign, frontier, fc)
		return b.clauses(x.Body, frontier, fc, label, false)
	case *ast.SelectStmt:
		return b.clauses(x.Body, frontier, fc, label, true)
	case *ast.EmptyStmt:
		return frontier
	}
	return frontier
}

func (b *builder) clauses(body *ast.BlockStmt, frontier []int, fc *fnCtx, label string, isSelect bool) []int {
	br := &[]int{}
	fc.breaks = append(fc.breaks, br)
	fc.conts = append(fc.conts, nil) // a switch is not a continue target
	if label != "" {
		fc.labels[label] = len(fc.breaks) - 1
	}
	var out []int
	hasDefault := false
	for _, c := range body.List {
		from := frontier
		var stmts []ast.Stmt
		switch cc := c.(type) {
		case *ast.CaseClause:
			if cc.List == nil {
				hasDefault = true
			}
			for _, e := range cc.List {
				from = b.expr(e, from, fc)
			}
			stmts = cc.Body
		case *ast.CommClause:
			if cc.Comm == nil {
				hasDefault = true
			} else {
				from = b.stmt(cc.Comm, from, fc)
			}
			stmts = cc.Body
		}
		nd := len(fc.defers)
		o := b.stmts(stmts, from, fc)
		if len(o) == 0 {
			fc.defers = fc.defers[:nd]
		}
		out = append(out, o...)
	}
	fc.breaks = fc.breaks[:len(fc.breaks)-1]
	fc.conts = fc.conts[:len(fc.conts)-1]
	out = append(out, *br...)
	if !hasDefault && !isSelect {
		out = append(out, frontier...)
	}
	if isSelect && len(body.List) == 0 {
		return nil // select {} blocks forever
	}
	return out
}

func (b *builder) addEntry(name string, body *ast.BlockStmt, recv map[string]bool, method string) {
	b.addEntryG(name, body, recv, method, -1, false)
}

// addEntryG registers an entry in group g (-1: a new group of its own); single marks a new group as
// running at most one thread.  Returns the group.
func (b *builder) addEntryG(name string, body *ast.BlockStmt, recv map[string]bool, method string, g int, single bool) int {
	if b.loc != nil {
		return -1 // locals mode: asynchronous registrations of methods are entries of the service graph only
	}
	if b.seenEntry[name] {
		for _, pe := range b.pending {
			if pe.name == name {
				// a second registration that may run concurrently with the first makes the group multi-instance
				// (the default registration of an exported method, weakExported, does not: handlers and periodic
				// jobs that happen to be exported are only called by their event stream / scheduler goroutine)
				if !b.weakExported {
					b.res.Single[pe.group] = false
					if g >= 0 && g != pe.group {
						// the entry now also runs on the thread of group g, concurrently with its first registration
						b.res.Single[g] = false
					}
				}
				return pe.group
			}
		}
		return -1
	}
	b.seenEntry[name] = true
	if g < 0 {
		g = len(b.res.Groups)
		b.res.Groups = append(b.res.Groups, name)
		b.res.Single = append(b.res.Single, single)
	}
	b.pending = append(b.pending, pendingEntry{name: name, body: body, recv: recv, method: method, group: g})
	return g
}

func isMutexType(e ast.Expr) bool {
	switch x := e.(type) {
	case *ast.SelectorExpr:
		if id, ok := x.X.(*ast.Ident); ok && (id.Name == "sync" || id.Name == "deadlock") {
			return x.Sel.Name == "Mutex" || x.Sel.Name == "RWMutex"
		}
	case *ast.StarExpr:
		return isMutexType(x.X)
	}
	return false
}

// serviceIdents finds, in a function that is not a method of the type, the local names bound to the service.
func serviceIdents(fn *ast.FuncDecl, typeName string) map[string]bool {
	res := map[string]bool{}
	if fn.Body == nil {
		return res
	}
	isSvcLit := func(e ast.Expr) bool {
		if u, ok := e.(*ast.UnaryExpr); ok && u.Op == token.AND {
			e = u.X
		}
		if cl, ok := e.(*ast.CompositeLit); ok {
			if id, ok := cl.Type.(*ast.Ident); ok && id.Name == typeName {
				return true
			}
		}
		return false
	}
	ast.Inspect(fn.Body, func(n ast.Node) bool {
		switch x := n.(type) {
		case *ast.AssignStmt:
			for i, r := range x.Rhs {
				if isSvcLit(r) && i < len(x.Lhs) {
					if id, ok := x.Lhs[i].(*ast.Ident); ok {
						res[id.Name] = true
					}
				}
			}
		case *ast.ValueSpec:
			for i, r := range x.Values {
				if isSvcLit(r) && i < len(x.Names) {
					res[x.Names[i].Name] = true
				}
			}
		}
		return true
	})
	return res
}

func analysePackage(repo, dir, typeName string) (*pkgResult, error) {
	fset := token.NewFileSet()
	pkgs, err := parser.ParseDir(fset, filepath.Join(repo, dir), func(fi os.FileInfo) bool {
		return !strings.HasSuffix(fi.Name(), "_test.go") && !strings.HasPrefix(fi.Name(), "verif_hooks")
	}, parser.ParseComments)
	if err != nil {
		return nil, err
	}
	res := &pkgResult{Name: strings.NewReplacer("/", "_", "-", "_").Replace(strings.TrimPrefix(dir, "services/")), Dir: dir, Accesses: map[string]accInfo{}}
	b := &builder{fset: fset, typeName: typeName, fields: map[string]bool{}, mutexes: map[string]int{}, fieldID: map[string]int{},
		written: map[string]bool{}, methods: map[string]*ast.FuncDecl{}, res: res, seenEntry: map[string]bool{}}
	var files []*ast.File
	for _, p := range pkgs {
		names := make([]string, 0, len(p.Files))
		for n := range p.Files {
			names = append(names, n)
		}
		sort.Strings(names)
		for _, n := range names {
			files = append(files, p.Files[n])
		}
	}
	// struct fields
	found := false
	for _, f := range files {
		ast.Inspect(f, func(n ast.Node) bool {
			ts, ok := n.(*ast.TypeSpec)
			if !ok || ts.Name.Name != typeName {
				return true
			}
			st, ok := ts.Type.(*ast.StructType)
			if !ok {
				return true
			}
			found = true
			for _, fl := range st.Fields.List {
				for _, nm := range fl.Names {
					if isMutexType(fl.Type) {
						b.mutexes[nm.Name] = len(res.Mutexes) + 1
						res.Mutexes = append(res.Mutexes, nm.Name)
					} else {
						b.fields[nm.Name] = true
						b.fieldID[nm.Name] = len(res.Fields) + 1
						res.Fields = append(res.Fields, nm.Name)
					}
				}
			}
			return false
		})
	}
	if !found {
		return nil, fmt.Errorf("%s: no struct type %s", dir, typeName)
	}
	// methods and other functions
	var others []*ast.FuncDecl
	for _, f := range files {
		for _, d := range f.Decls {
			fn, ok := d.(*ast.FuncDecl)
			if !ok || fn.Body == nil {
				continue
			}
			isMethod := false
			if fn.Recv != nil && len(fn.Recv.List) == 1 {
				t := fn.Recv.List[0].Type
				if s, ok := t.(*ast.StarExpr); ok {
					t = s.X
				}
				if id, ok := t.(*ast.Ident); ok && id.Name == typeName {
					isMethod = true
				}
			}
			if isMethod {
				b.methods[fn.Name.Name] = fn
			} else {
				others = append(others, fn)
			}
		}
	}
	// Two passes: the first emits an access node for every field and finds the fields that are
	// written by some entry (directly or through a local alias); the second keeps only those.
	build := func() {
		b.pending = nil
		b.seenEntry = map[string]bool{}
		res.nodes = nil
		res.entryIDs = nil
		res.Entries = nil
		res.Groups = nil
		res.Single = nil
		// entries created by non-method functions (constructor): go statements, async callbacks, method values
		for _, fn := range others {
			ids := serviceIdents(fn, typeName)
			if len(ids) == 0 {
				continue
			}
			fc := &fnCtx{recv: ids, labels: map[string]int{}, entry: "(constructor " + fn.Name.Name + ")", alias: map[string]map[string]bool{}, ctor: true}
			scratch := &pkgResult{Accesses: map[string]accInfo{}}
			saved := b.res
			b.res = scratch // the constructor's own nodes are discarded; only the entries it registers are kept
			b.block(fn.Body, b.emit("ISkip", nil, fn), fc)
			saved.Groups, saved.Single = scratch.Groups, scratch.Single
			for _, n := range scratch.Notes {
				saved.Notes = append(saved.Notes, n)
			}
			b.res = saved
		}
		// exported methods (those already registered as handlers or periodic jobs keep that classification)
		mnames := make([]string, 0, len(b.methods))
		for n := range b.methods {
			mnames = append(mnames, n)
		}
		sort.Strings(mnames)
		for _, n := range mnames {
			if typeName != "Service" && strings.HasPrefix(n, "Unmarshal") {
				continue // a data type is decoded before it is shared
			}
			if ast.IsExported(n) {
				b.weakExported = true
				b.addEntry(n, nil, nil, n)
				b.weakExported = false
			}
		}
		// translate entries (the list grows while translating)
		for i := 0; i < len(b.pending); i++ {
			pe := b.pending[i]
			b.curGroup = pe.group
			b.atomReset()
			start := b.emit("ISkip", nil, nil)
			fc := &fnCtx{labels: map[string]int{}, entry: pe.name, group: pe.group, alias: map[string]map[string]bool{}}
			var body *ast.BlockStmt
			if pe.method != "" {
				m := b.methods[pe.method]
				fc.recv = map[string]bool{recvName(m): true}
				fc.stack = []string{pe.method}
				body = m.Body
				b.res.nodes[start[0]].pos = b.pos(m)
			} else {
				fc.recv = pe.recv
				body = pe.body
				b.res.nodes[start[0]].pos = b.pos(pe.body)
			}
			// whatever leaves the function ends the thread: every exit (fall-through end and each return, after its
			// deferred calls) leads to ONE exit node without successor, so that an early return taken from a node that
			// also continues elsewhere is a path of its own (its lock set must be empty at the exit)
			if out := b.finishFn(body, start, fc); len(out) > 0 {
				b.emit("ISkip", dedup(out), nil)
			}
			res.Entries = append(res.Entries, pe.name)
			res.entryIDs = append(res.entryIDs, start[0])
		}
	}
	b.allWritten = true
	build()
	for _, n := range res.nodes {
		if n.acc != nil && n.acc.Write {
			b.written[n.acc.Field] = true
		}
	}
	b.allWritten = false
	res.Notes = nil
	build()
	res.Nodes = len(res.nodes)
	res.Derived, res.DerivedComposite = derivedPairs(res.nodes)
	for _, n := range res.nodes {
		res.Pos = append(res.Pos, n.pos)
		res.Instrs = append(res.Instrs, n.instr)
	}
	for i, n := range res.nodes {
		if n.acc != nil {
			res.Accesses[fmt.Sprint(i)] = *n.acc
		}
	}
	if !noLocals {
		res.locals = analyseLocals(b, others, typeName)
	}
	return res, nil
}

// noLocals switches the locals pass (locals.go) off (-locals=false).
var noLocals bool

func dedup(xs []int) []int {
	seen := map[int]bool{}
	out := xs[:0]
	for _, x := range xs {
		if !seen[x] {
			seen[x] = true
			out = append(out, x)
		}
	}
	return out
}

type knownSkip struct {
	Package string `json:"package"`
	Field   string `json:"field"`
}

func main() {
	repo := flag.String("repo", "/repo", "repository root")
	out := flag.String("out", "", "output .v file")
	meta := flag.String("meta", "", "output .json file with names and positions")
	skips := flag.String("skip", "", "JSON file: [{package, field}] fields excluded from the conflict check (known findings)")
	showDerived := flag.Bool("derived", false, "list the derived pairs (atomic.go) of every service on stderr, with field, positions and SPLIT when an unlock lies between them")
	withLocals := flag.Bool("locals", true, "also extract, per package, the graph of the local variables shared by goroutines (<package>_locals)")
	flag.Parse()
	noLocals = !*withLocals
	var skipList []knownSkip
	if *skips != "" {
		if data, err := os.ReadFile(*skips); err == nil {
			var kf struct {
				Findings []struct {
					Property string `json:"property"`
					Status   string `json:"status"`
					Package  string `json:"package"`
					Field    string `json:"field"`
				} `json:"findings"`
			}
			if json.Unmarshal(data, &kf) == nil {
				for _, f := range kf.Findings {
					if f.Property == "C17" && f.Status == "known" && f.Field != "" {
						skipList = append(skipList, knownSkip{f.Package, f.Field})
					}
				}
			}
		}
	}
	dirs := flag.Args()
	var sb strings.Builder
	sb.WriteString("(* GENERATED by /verif/translator from the Go source on every run of the C17/C12 checks. Do not edit. *)\n")
	sb.WriteString("From Verif Require Import Lib.Base Lib.Lockset.\nFrom Coq Require Import String.\nOpen Scope N_scope.\n")
	sb.WriteString("Definition nd (i : instr) (s : list nat) (o : nat) : node := {| n_instr := i; n_succ := s; n_owner := o |}.\n\n")
	var results []*pkgResult
	var names []string
	for _, d := range dirs {
		typeName := "Service"
		if i := strings.Index(d, ":"); i >= 0 {
			d, typeName = d[:i], d[i+1:]
		}
		r, err := analysePackage(*repo, d, typeName)
		if err != nil {
			fmt.Fprintln(os.Stderr, "translator:", err)
			os.Exit(2)
		}
		rs := []*pkgResult{r}
		if r.locals != nil {
			rs = append(rs, r.locals)
		}
		for _, r := range rs {
			if r.Derived == nil {
				r.Derived, r.DerivedComposite = [][2]int{}, [][2]int{} // a locals graph has none
			}
			if *showDerived {
				printDerived(os.Stderr, r)
			}
			results = append(results, r)
			names = append(names, r.Name)
			fmt.Fprintf(&sb, "(* %s: mutexes %v; %d entries; %d nodes *)\n", r.Dir, r.Mutexes, len(r.Entries), len(r.nodes))
			fmt.Fprintf(&sb, "Definition g_%s : graph := [\n", r.Name)
			for i, n := range r.nodes {
				succ := make([]string, 0, len(n.succ))
				for _, s := range dedup(n.succ) {
					succ = append(succ, fmt.Sprintf("%d%%nat", s))
				}
				sep := ";"
				if i == len(r.nodes)-1 {
					sep = ""
				}
				cm := ""
				if n.acc != nil {
					cm = fmt.Sprintf(" (* %d %s %s %s *)", i, n.acc.Field, n.pos, n.acc.Entry)
				}
				fmt.Fprintf(&sb, "  nd (%s) [%s] %d%s%s\n", n.instr, strings.Join(succ, "; "), n.owner, sep, cm)
			}
			sb.WriteString("].\n")
			ents := make([]string, 0, len(r.entryIDs))
			for _, e := range r.entryIDs {
				ents = append(ents, fmt.Sprintf("%d%%nat", e))
			}
			fmt.Fprintf(&sb, "Definition entries_%s : list nat := [%s].\n", r.Name, strings.Join(ents, "; "))
			var sk []string
			for _, k := range skipList {
				if k.Package == r.Dir {
					for i, f := range r.Fields {
						if f == k.Field {
							sk = append(sk, fmt.Sprintf("(f =? %d)", i+1))
						}
					}
				}
			}
			if len(sk) == 0 {
				sk = []string{"false"}
			}
			fmt.Fprintf(&sb, "Definition skip_%s (f : field) : bool := %s.\n", r.Name, strings.Join(sk, " || "))
			var sg []string
			for gi, single := range r.Single {
				if single {
					sg = append(sg, fmt.Sprintf("(o =? %d)%%nat", gi))
				}
			}
			if len(sg) == 0 {
				sg = []string{"false"}
			}
			fmt.Fprintf(&sb, "Definition single_%s (o : nat) : bool := %s.\n\n", r.Name, strings.Join(sg, " || "))
		}
	}
	sb.WriteString("Definition services : list (string * graph * list nat * (field -> bool) * (nat -> bool)) := [\n")
	for i, n := range names {
		sep := ";"
		if i == len(names)-1 {
			sep = ""
		}
		fmt.Fprintf(&sb, "  (\"%s\"%%string, g_%s, entries_%s, skip_%s, single_%s)%s\n", n, n, n, n, n, sep)
	}
	sb.WriteString("].\n")
	sb.WriteString(derivedDefinition(results, false))
	sb.WriteString(derivedDefinition(results, true))
	if *out != "" {
		if err := os.WriteFile(*out, []byte(sb.String()), 0o644); err != nil {
			fmt.Fprintln(os.Stderr, err)
			os.Exit(2)
		}
	} else {
		fmt.Print(sb.String())
	}
	if *meta != "" {
		js, _ := json.MarshalIndent(results, "", " ")
		_ = os.WriteFile(*meta, js, 0o644)
	}
}
