// Locals mode of the translator: LOCAL VARIABLES SHARED BY GOROUTINES.
//
// The service graph (main.go) knows the fields of the service struct only.  A method that starts
// goroutines (`go` statements, function literals handed to an asynchronous API) which meet in a local
// variable of the method — the account map that a refresh builds, a slice of results, a counter —
// has shared state of its own, guarded (if at all) by a mutex that is itself a local variable.  This
// pass extracts that state into a second graph per package, `<package>_locals`, in the same language:
//
//   - thread  = the body of a `go` statement / asynchronous function literal reached from any method
//     or constructor of the package, calls to methods of the struct inlined as in main.go, with the
//     reference-typed parameters (map, slice, pointer, channel) of literals and inlined methods bound to
//     the caller's variables (`go func(m map[K]V, mu *sync.Mutex) {..}(accounts, &mu)`);
//   - field   = a local variable declared by an ancestor thread (or the method invocation itself) that
//     some thread writes (assignment, element / member assignment, ++, delete; through a bound parameter
//     only element / member / pointee assignments);
//   - mutex   = the mutexes of the service struct, and every local variable on which Lock/Unlock/RLock/
//     RUnlock is called.
//
// Instances.  The *level* of a thread is the number of `go`-in-a-loop boundaries between the method
// invocation and it; the level of a variable is that of the thread that declares it.  For ONE instance of
// a variable of level l, a thread of level l exists once, a thread of a higher level any number of
// times; and a local mutex of a higher level than l exists once per such thread instance, so it
// excludes nobody.  Every thread body is therefore emitted once per level l <= its own, as a copy that
// contains the accesses of the variables of level l only, flagged single-instance iff its level is l,
// with the lock operations on local mutexes of a level > l turned into ISkip.
//
// NOT modelled (stated in notes/C17.md): the starting thread itself (what it does before the `go` happens
// before, what it does after wg.Wait() happens after — fork/join is outside the lockset discipline, so its
// own accesses are left to the race detector scenarios); an element assignment of a variable declared as a
// slice is a read of the slice (disjoint elements are the rule); mutation through method calls of a captured
// value; a literal reached twice at the same level from one root is one thread site.
//
// A variable declared inside the loop(s) in which the thread is started exists once per iteration: it moves
// to the level of the started thread.
package main

import (
	"fmt"
	"go/ast"
	"sort"
	"strings"
)

type lvar struct {
	key   string // field / mutex name: name@file:line/L<level> in <root> (every root is an invocation of its own)
	level int
	owner *threadWalk
	depth int  // loops open in the declaring thread at the declaration (a variable declared inside a loop exists once per iteration)
	slice bool // declared as a slice: element assignments are not writes of the variable (disjoint elements are the rule)
}

type threadWalk struct{ level int }

type locCtx struct {
	th     *threadWalk
	env    map[*ast.Object]*lvar
	refp   map[*ast.Object]bool // parameter bound by reference to an outer variable
	target int                  // accesses of variables of this level are emitted; -1: none
	root   string               // the method / constructor whose invocation this thread belongs to
}

type locSite struct {
	name   string
	ftype  *ast.FuncType
	body   *ast.BlockStmt
	recv   map[string]bool
	env    map[*ast.Object]*lvar
	refp   map[*ast.Object]bool
	level  int
	stack  []string
	method string
	root   string
}

type localsState struct {
	sites      []locSite
	seen       map[string]bool
	allWritten bool
	written    map[string]bool
	fieldID    map[string]int
	mutexID    map[string]int
}

func baseIdentNode(e ast.Expr) *ast.Ident {
	for {
		switch x := e.(type) {
		case *ast.ParenExpr:
			e = x.X
		case *ast.StarExpr:
			e = x.X
		case *ast.IndexExpr:
			e = x.X
		case *ast.SliceExpr:
			e = x.X
		case *ast.SelectorExpr:
			e = x.X
		case *ast.UnaryExpr:
			e = x.X
		case *ast.Ident:
			return x
		default:
			return nil
		}
	}
}

func isRefType(t ast.Expr) bool {
	switch x := t.(type) {
	case *ast.MapType, *ast.StarExpr, *ast.ChanType:
		return true
	case *ast.ArrayType:
		return x.Len == nil
	case *ast.Ellipsis:
		return false
	}
	return false
}

func copyEnv(m map[*ast.Object]*lvar) map[*ast.Object]*lvar {
	out := make(map[*ast.Object]*lvar, len(m))
	for k, v := range m {
		out[k] = v
	}
	return out
}

func copyRefp(m map[*ast.Object]bool) map[*ast.Object]bool {
	out := make(map[*ast.Object]bool, len(m))
	for k, v := range m {
		out[k] = v
	}
	return out
}

// locDeclare records a variable declared by the thread being walked.
func (b *builder) locDeclare(id *ast.Ident, fc *fnCtx) {
	lc := fc.lc
	if lc == nil || id == nil || id.Name == "_" || id.Obj == nil || id.Obj.Kind != ast.Var {
		return
	}
	if id.Obj.Pos() != id.Pos() {
		return // `:=` re-using a variable of the same scope
	}
	lc.env[id.Obj] = &lvar{key: fmt.Sprintf("%s@%s/L%d in %s", id.Name, b.pos(id), lc.th.level, lc.root), level: lc.th.level, owner: lc.th,
		depth: fc.loopDepth + len(fc.breaks), slice: declaredSlice(id)}
	delete(lc.refp, id.Obj)
}

// locDeclareIter records the key / value variable of a range statement: one instance per iteration.
func (b *builder) locDeclareIter(id *ast.Ident, fc *fnCtx) {
	b.locDeclare(id, fc)
	if fc.lc != nil && id != nil && id.Obj != nil {
		if lv := fc.lc.env[id.Obj]; lv != nil && lv.owner == fc.lc.th {
			lv.depth = fc.loopDepth + len(fc.breaks) + 1
		}
	}
}

// declaredSlice: the declaration of the identifier shows a slice (make([]T, ..), []T{..}, var x []T, a parameter []T).
func declaredSlice(id *ast.Ident) bool {
	isSliceType := func(t ast.Expr) bool {
		a, ok := t.(*ast.ArrayType)
		return ok && a.Len == nil
	}
	isSliceValue := func(e ast.Expr) bool {
		switch x := e.(type) {
		case *ast.CompositeLit:
			return x.Type != nil && isSliceType(x.Type)
		case *ast.CallExpr:
			if f, ok := x.Fun.(*ast.Ident); ok && f.Name == "make" && len(x.Args) > 0 {
				return isSliceType(x.Args[0])
			}
		}
		return false
	}
	switch d := id.Obj.Decl.(type) {
	case *ast.Field:
		return isSliceType(d.Type)
	case *ast.ValueSpec:
		if d.Type != nil {
			return isSliceType(d.Type)
		}
		for i, n := range d.Names {
			if n.Name == id.Name && i < len(d.Values) {
				return isSliceValue(d.Values[i])
			}
		}
	case *ast.AssignStmt:
		if len(d.Lhs) == len(d.Rhs) {
			for i, l := range d.Lhs {
				if li, ok := l.(*ast.Ident); ok && li.Name == id.Name {
					return isSliceValue(d.Rhs[i])
				}
			}
		}
	}
	return false
}

// params lists the parameter names of a signature in order (nil for unnamed ones) with their types.
func params(ft *ast.FuncType) (names []*ast.Ident, types []ast.Expr) {
	if ft == nil || ft.Params == nil {
		return
	}
	for _, f := range ft.Params.List {
		if len(f.Names) == 0 {
			names = append(names, nil)
			types = append(types, f.Type)
			continue
		}
		for _, n := range f.Names {
			names = append(names, n)
			types = append(types, f.Type)
		}
	}
	return
}

// locSignature returns the signature of a callee that is inlined or started as a thread.
func (b *builder) locSignature(call *ast.CallExpr, fc *fnCtx) *ast.FuncType {
	switch f := call.Fun.(type) {
	case *ast.FuncLit:
		return f.Type
	case *ast.SelectorExpr:
		if id, ok := f.X.(*ast.Ident); ok && fc.recv[id.Name] {
			if m, isM := b.methods[f.Sel.Name]; isM {
				return m.Type
			}
		}
	}
	return nil
}

// boundVar: the caller's variable that argument a passes by reference to a parameter of type t.
func (b *builder) boundVar(t ast.Expr, a ast.Expr, lc *locCtx) *lvar {
	if lc == nil || !isRefType(t) {
		return nil
	}
	for {
		if p, ok := a.(*ast.ParenExpr); ok {
			a = p.X
			continue
		}
		break
	}
	if u, ok := a.(*ast.UnaryExpr); ok && u.Op.String() == "&" {
		a = u.X
	}
	id, ok := a.(*ast.Ident)
	if !ok || id.Obj == nil {
		return nil
	}
	return lc.env[id.Obj]
}

func (b *builder) locBindable(sig *ast.FuncType, i int, a ast.Expr, fc *fnCtx) bool {
	_, types := params(sig)
	if i >= len(types) {
		return false
	}
	return b.boundVar(types[i], a, fc.lc) != nil
}

// locBind binds the reference-typed parameters of a callee to the caller's variables (in dst).
func (b *builder) locBind(sig *ast.FuncType, args []ast.Expr, lc *locCtx, dst map[*ast.Object]*lvar, dstRefp map[*ast.Object]bool) {
	if lc == nil {
		return
	}
	names, types := params(sig)
	for i, n := range names {
		if n == nil || n.Obj == nil {
			continue
		}
		delete(dst, n.Obj)
		delete(dstRefp, n.Obj)
		if i >= len(args) {
			continue
		}
		if lv := b.boundVar(types[i], args[i], lc); lv != nil {
			dst[n.Obj] = lv
			dstRefp[n.Obj] = true
		}
	}
}

// locSpawn registers a thread site: a `go` statement or a function literal handed to an asynchronous API.
func (b *builder) locSpawn(name string, ft *ast.FuncType, body *ast.BlockStmt, args []ast.Expr, fc *fnCtx, method string) {
	lc := fc.lc
	if lc == nil || body == nil {
		return
	}
	if method != "" {
		for _, s := range fc.stack {
			if s == method {
				return
			}
		}
	}
	if len(fc.stack) >= 8 {
		return
	}
	level := lc.th.level
	if fc.inLoop() {
		level++
	}
	key := fmt.Sprintf("%s/L%d<%s<%s", name, level, strings.Join(fc.stack, "<"), lc.root)
	if b.loc.seen[key] {
		return
	}
	b.loc.seen[key] = true
	site := locSite{name: fmt.Sprintf("%s/L%d in %s", name, level, lc.root), ftype: ft, body: body, recv: fc.recv, env: copyEnv(lc.env), refp: copyRefp(lc.refp),
		level: level, stack: append([]string{}, fc.stack...), method: method, root: lc.root}
	if method != "" {
		site.recv = map[string]bool{recvName(b.methods[method]): true}
		site.stack = append(site.stack, method)
	}
	// a variable that the starting thread declares inside the loop(s) in which it starts the thread exists once per
	// iteration: for that variable the new thread exists once (the variable moves to the level of the thread)
	if ds := fc.loopDepth + len(fc.breaks); ds > 0 {
		for obj, lv := range site.env {
			if lv.owner == lc.th && lv.depth == ds && lv.level < level {
				cp := *lv
				cp.level = level
				cp.key = strings.Replace(lv.key, fmt.Sprintf("/L%d in ", lv.level), fmt.Sprintf("/L%d in ", level), 1)
				site.env[obj] = &cp
			}
		}
	}
	b.locBind(ft, args, lc, site.env, site.refp)
	b.loc.sites = append(b.loc.sites, site)
}

func (b *builder) locAccess(id *ast.Ident, write, direct bool, frontier []int, fc *fnCtx) []int {
	return b.locAccessE(id, write, direct, false, frontier, fc)
}

// locAccessE emits an access of a variable declared by an ancestor of the thread being walked.
// direct: the identifier itself is read / assigned (not an element, member or pointee of it); elem: the
// target is id[i] (an element assignment of a variable declared as a slice counts as a read of the slice).
func (b *builder) locAccessE(id *ast.Ident, write, direct, elem bool, frontier []int, fc *fnCtx) []int {
	lc := fc.lc
	if lc == nil || id.Obj == nil {
		return frontier
	}
	lv := lc.env[id.Obj]
	if lv == nil || lv.owner == lc.th {
		return frontier
	}
	if write && direct && lc.refp[id.Obj] {
		return frontier // p = ...: the parameter, not what it refers to
	}
	if write && !direct && lv.slice && elem {
		write = false // s[i] = ...: an element, not the slice
	}
	if lc.target < 0 || lv.level != lc.target {
		return frontier
	}
	if !b.loc.allWritten && !b.loc.written[lv.key] {
		return frontier
	}
	fid, ok := b.loc.fieldID[lv.key]
	if !ok {
		fid = len(b.res.Fields) + 1
		b.loc.fieldID[lv.key] = fid
		b.res.Fields = append(b.res.Fields, lv.key)
	}
	w := "false"
	if write {
		w = "true"
	}
	f := b.emit(fmt.Sprintf("IAcc %d %s", fid, w), frontier, id)
	b.res.nodes[f[0]].acc = &accInfo{Field: lv.key, Write: write, Pos: b.pos(id), Entry: fc.entry}
	return f
}

// locMutexCall recognises mu.Lock() etc. on a local variable (or a parameter bound to one).
func (b *builder) locMutexCall(id *ast.Ident, op string, fc *fnCtx) (string, bool) {
	lc := fc.lc
	switch op {
	case "Lock", "RLock", "Unlock", "RUnlock", "TryLock", "TryRLock":
	default:
		return "", false
	}
	if lc == nil || id.Obj == nil {
		return "", false
	}
	lv := lc.env[id.Obj]
	if lv == nil {
		return "", false
	}
	if lc.target < 0 || lv.level > lc.target || op == "TryLock" || op == "TryRLock" {
		return "ISkip", true // a mutex that exists once per thread instance excludes nobody
	}
	m, ok := b.loc.mutexID[lv.key]
	if !ok {
		m = len(b.res.Mutexes) + 1
		b.loc.mutexID[lv.key] = m
		b.res.Mutexes = append(b.res.Mutexes, lv.key)
	}
	switch op {
	case "Lock":
		return fmt.Sprintf("ILock %d true", m), true
	case "RLock":
		return fmt.Sprintf("ILock %d false", m), true
	case "Unlock":
		return fmt.Sprintf("IUnlock %d true", m), true
	}
	return fmt.Sprintf("IUnlock %d false", m), true
}

// declareParams: the parameters of a thread body / root that are not bound are variables of the thread.
func (b *builder) declareParams(ft *ast.FuncType, fc *fnCtx) {
	names, _ := params(ft)
	for _, n := range names {
		if n == nil || n.Obj == nil {
			continue
		}
		if _, bound := fc.lc.env[n.Obj]; bound && fc.lc.refp[n.Obj] {
			continue
		}
		b.locDeclare(n, fc)
	}
}

// analyseLocals builds the `<package>_locals` graph from the builder state of analysePackage (methods,
// mutexes of the struct).  Returns nil when no goroutine of the package writes a shared local variable.
func analyseLocals(sb *builder, others []*ast.FuncDecl, typeName string) *pkgResult {
	res := &pkgResult{Name: sb.res.Name + "_locals", Dir: sb.res.Dir, Accesses: map[string]accInfo{}}
	b := &builder{fset: sb.fset, typeName: typeName, fields: map[string]bool{}, mutexes: sb.mutexes, fieldID: map[string]int{},
		written: map[string]bool{}, methods: sb.methods, res: res, seenEntry: map[string]bool{}}
	b.loc = &localsState{written: map[string]bool{}}
	mnames := make([]string, 0, len(b.methods))
	for n := range b.methods {
		mnames = append(mnames, n)
	}
	sort.Strings(mnames)
	build := func() {
		b.loc.sites = nil
		b.loc.seen = map[string]bool{}
		b.loc.fieldID = map[string]int{}
		b.loc.mutexID = map[string]int{}
		res.nodes, res.entryIDs, res.Entries, res.Groups, res.Single, res.Fields = nil, nil, nil, nil, nil, nil
		res.Mutexes = append([]string{}, sb.res.Mutexes...)
		// roots: every method and every constructor-like function, walked silently (their own accesses are
		// not part of the model); the walk registers the thread sites
		scratch := &pkgResult{Accesses: map[string]accInfo{}}
		root := func(name string, ft *ast.FuncType, body *ast.BlockStmt, recv map[string]bool, stack []string) {
			saved := b.res
			scratch.nodes = nil
			scratch.Mutexes = append([]string{}, sb.res.Mutexes...)
			b.res = scratch
			lc := &locCtx{th: &threadWalk{level: 0}, env: map[*ast.Object]*lvar{}, refp: map[*ast.Object]bool{}, target: -1, root: name}
			fc := &fnCtx{recv: recv, labels: map[string]int{}, entry: name, alias: map[string]map[string]bool{}, lc: lc, stack: stack}
			b.declareParams(ft, fc)
			b.finishFn(body, b.emit("ISkip", nil, nil), fc)
			b.res = saved
		}
		for _, fn := range others {
			ids := serviceIdents(fn, typeName)
			if len(ids) == 0 {
				continue
			}
			root("(constructor "+fn.Name.Name+")", fn.Type, fn.Body, ids, nil)
		}
		for _, n := range mnames {
			m := b.methods[n]
			root(n, m.Type, m.Body, map[string]bool{recvName(m): true}, []string{n})
		}
		// thread sites (the list grows while walking): one copy per variable level
		for i := 0; i < len(b.loc.sites); i++ {
			site := b.loc.sites[i]
			for target := 0; target <= site.level; target++ {
				before := len(res.nodes)
				g := len(res.Groups)
				res.Groups = append(res.Groups, fmt.Sprintf("%s/v%d", site.name, target))
				res.Single = append(res.Single, site.level == target)
				b.curGroup = g
				lc := &locCtx{th: &threadWalk{level: site.level}, env: copyEnv(site.env), refp: copyRefp(site.refp), target: target, root: site.root}
				start := b.emit("ISkip", nil, nil)
				res.nodes[start[0]].pos = b.pos(site.body)
				fc := &fnCtx{recv: site.recv, labels: map[string]int{}, entry: fmt.Sprintf("%s/v%d", site.name, target), group: g,
					alias: map[string]map[string]bool{}, lc: lc, stack: site.stack}
				b.declareParams(site.ftype, fc)
				if out := b.finishFn(site.body, start, fc); len(out) > 0 {
					b.emit("ISkip", dedup(out), nil)
				}
				has := false
				for _, n := range res.nodes[before:] {
					if n.acc != nil {
						has = true
						break
					}
				}
				if !has {
					// nothing shared at this level: the copy is dropped (its nodes are the last ones)
					res.nodes = res.nodes[:before]
					res.Groups = res.Groups[:g]
					res.Single = res.Single[:g]
					continue
				}
				res.Entries = append(res.Entries, fc.entry)
				res.entryIDs = append(res.entryIDs, start[0])
			}
		}
	}
	b.loc.allWritten = true
	build()
	for _, n := range res.nodes {
		if n.acc != nil && n.acc.Write {
			b.loc.written[n.acc.Field] = true
		}
	}
	b.loc.allWritten = false
	res.Notes = nil
	build()
	if len(res.nodes) == 0 {
		return nil
	}
	// local mutexes that no kept copy uses may remain in the list: harmless
	res.Nodes = len(res.nodes)
	for _, n := range res.nodes {
		res.Pos = append(res.Pos, n.pos)
		res.Instrs = append(res.Instrs, n.instr)
	}
	for i, n := range res.nodes {
		if n.acc != nil {
			res.Accesses[fmt.Sprint(i)] = *n.acc
		}
	}
	return res
}
