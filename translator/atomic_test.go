package main

import (
	"fmt"
	"os"
	"sort"
	"strings"
	"testing"
)

// The derived pairs (atomic.go) on testdata/src/atom: which reads flow into which writes of the same field,
// and whether an unlock separates them.
func TestTranslatorAtomicSelfTest(t *testing.T) {
	r, err := analysePackage("testdata/src", "atom", "Service")
	if err != nil {
		t.Fatal(err)
	}
	src, err := os.ReadFile("testdata/src/atom/service.go")
	if err != nil {
		t.Fatal(err)
	}
	// the line of the (only) source line that contains the snippet
	lineOf := func(snippet string) int {
		found := 0
		for i, l := range strings.Split(string(src), "\n") {
			if strings.Contains(l+"\n", snippet) {
				if found != 0 {
					t.Fatalf("snippet %q is on lines %d and %d", snippet, found, i+1)
				}
				found = i + 1
			}
		}
		if found == 0 {
			t.Fatalf("snippet %q not found", snippet)
		}
		return found
	}
	// entry -> "field read-line->write-line status"
	got := map[string][]string{}
	for i, p := range append(append([][2]int{}, r.Derived...), r.DerivedComposite...) {
		rn, wn := r.nodes[p[0]], r.nodes[p[1]]
		if rn.acc == nil || wn.acc == nil || rn.acc.Write || !wn.acc.Write || rn.acc.Field != wn.acc.Field || rn.acc.Entry != wn.acc.Entry {
			t.Errorf("pair %v is not (read, write) of one field in one entry: %+v %+v", p, rn.acc, wn.acc)
			continue
		}
		line := func(pos string) string { return pos[strings.LastIndex(pos, ":")+1:] }
		status := atomSplit(r.nodes, p[0], p[1])
		if m := atomComposite(r.nodes, p[0], p[1]); (m != "") != (i >= len(r.Derived)) {
			t.Errorf("pair %v: composite of %q, but listed with the other kind", p, m)
		} else if m != "" {
			status += " COMPOSITE(" + m + ")"
		}
		got[wn.acc.Entry] = append(got[wn.acc.Entry], fmt.Sprintf("%s %s->%s %s", wn.acc.Field, line(rn.pos), line(wn.pos), status))
	}
	pair := func(field, read, write, status string) string {
		return fmt.Sprintf("%s %d->%d %s", field, lineOf(read), lineOf(write), status)
	}
	want := map[string][]string{
		// (a) one critical section
		"Incr": {pair("n", "s.n = s.n + 1", "s.n = s.n + 1", "ok")},
		// (b) the copy is swapped in after the unlock; len(s.m) in `cleaned` only steers
		"Clean": {pair("m", "for k, v := range s.m", "s.m = kept", "SPLIT")},
		// (c) control dependence only
		"Fill": nil,
		// (d) alias m := s.m; m[k] = m[k] + 1
		"Bump": {pair("m", "m := s.m", "m[k] = m[k] + 1", "ok")},
		// (e) the read inside the inlined get, its deferred RUnlock in between
		"Next": {pair("m", "return s.m[k]", "s.m[k] = v + 1", "SPLIT")},
		// (f) round the loop
		"Carry": {pair("n", "x = s.n", "s.n = x", "SPLIT")},
		// (g) v is replaced on the miss path
		"Refill": nil,
		// (h) but survives around a branch
		"Keep": {pair("n", "v := s.n", "s.n = v", "SPLIT")},
		// (i) parameter -> named result; delete by derived key
		"Twice": {pair("n", "a := s.n", "s.n = b", "SPLIT"), pair("m", "collect in Twice", "delete(s.m, k) // in Twice", "SPLIT")},
		// (j) the write is in the inlined exported Drop, the read in the caller: a composite of operations
		"DropAll": {pair("m", "collect in DropAll\n", "delete(s.m, k) // in Drop\n", "SPLIT COMPOSITE(Drop)")},
		"Drop":    nil,
		// (k) the same collect-then-delete inside one operation is an ordinary pair
		"DropAllInOne": {pair("m", "collect in DropAllInOne", "delete(s.m, k) // in DropAllInOne", "SPLIT")},
	}
	for e, w := range want {
		g := got[e]
		sort.Strings(g)
		sort.Strings(w)
		if fmt.Sprint(g) != fmt.Sprint(w) {
			t.Errorf("%s: derived pairs %v, want %v", e, g, w)
		}
	}
	for e := range got {
		if _, ok := want[e]; !ok {
			t.Errorf("unexpected pairs in %s: %v", e, got[e])
		}
	}
	// the pairs are sorted, without duplicates, and also in the json form
	for i := 1; i < len(r.Derived); i++ {
		a, b := r.Derived[i-1], r.Derived[i]
		if a[0] > b[0] || (a[0] == b[0] && a[1] >= b[1]) {
			t.Errorf("pairs not sorted/unique: %v", r.Derived)
		}
	}
	if def := derivedDefinition([]*pkgResult{r}, true); !strings.HasPrefix(def, "Definition derived_composite : list (string * list (nat * nat)) := [\n  (\"atom\"%string, [(") || len(r.DerivedComposite) != 1 {
		t.Errorf("composite definition: %s", def)
	}
	if def := derivedDefinition([]*pkgResult{r}, false); !strings.Contains(def, fmt.Sprintf("(%d%%nat, %d%%nat)", r.Derived[0][0], r.Derived[0][1])) || !strings.HasPrefix(def, "Definition derived_pairs : list (string * list (nat * nat)) := [\n  (\"atom\"%string, [(") {
		t.Errorf("definition: %s", def)
	}
	// locals mode computes nothing
	r2, err := analysePackage("testdata/src", "loc", "Service")
	if err != nil {
		t.Fatal(err)
	}
	if r2.locals == nil || len(r2.locals.Derived) != 0 {
		t.Errorf("a locals graph has no derived pairs")
	}
	for _, n := range r2.locals.nodes {
		if len(n.from) != 0 {
			t.Errorf("locals mode must not derive: %+v", n)
		}
	}
}
