module veriftranslator

go 1.26.8
