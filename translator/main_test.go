package main

import (
	"strings"
	"testing"
)

// The translator is in the trusted base of C17: this self-test pins the behaviours the analysis relies on.
func TestTranslatorSelfTest(t *testing.T) {
	r, err := analysePackage("testdata/src", "svc", "Service")
	if err != nil {
		t.Fatal(err)
	}
	single := map[string]bool{}
	for i, g := range r.Groups {
		single[g] = r.Single[i]
	}
	entry := map[string]bool{}
	for _, e := range r.Entries {
		entry[e] = true
	}
	groupOf := func(prefix string) (string, bool) {
		for g := range single {
			if strings.HasPrefix(g, prefix) {
				return g, true
			}
		}
		return "", false
	}
	if !single["handleHead"] {
		t.Errorf("one Events subscription must be single-instance: %v", single)
	}
	if single["handleBlock"] {
		t.Errorf("a handler subscribed twice must be multi-instance: %v", single)
	}
	if single["handleReorg"] {
		t.Errorf("a subscription inside a loop must be multi-instance: %v", single)
	}
	if g, ok := groupOf("SchedulePeriodicJob@"); !ok || !single[g] {
		t.Errorf("the runtime function bound to a local must be an entry of the periodic job's single group: %v", single)
	}
	if !entry["tick"] {
		t.Errorf("the job function of the periodic job must be an entry: %v", r.Entries)
	}
	if !single["once"] {
		t.Errorf("a goroutine started once by the constructor must be single-instance: %v", single)
	}
	if single["worker"] {
		t.Errorf("goroutines started in a loop must be multi-instance: %v", single)
	}
	type key struct {
		field, entry string
		write        bool
	}
	acc := map[key]bool{}
	for _, a := range r.Accesses {
		acc[key{a.Field, a.Entry, a.Write}] = true
	}
	for _, want := range []key{
		{"items", "Put", true},     // write through the local alias m
		{"items", "Get", false},    // read
		{"counter", "tick", true},  // job
		{"counter", "tick", false}, // counter++ reads too
		{"last", "handleHead", true},
	} {
		if !acc[want] {
			t.Errorf("missing access %+v in %v", want, acc)
		}
	}
	rt, _ := groupOf("SchedulePeriodicJob@")
	if !acc[key{"counter", rt, false}] {
		t.Errorf("the runtime function's read of counter is missing: %v", acc)
	}
	// lock balance: every node without successor in Get is reached after an RUnlock; Leak has a terminal path without
	terminalAfterUnlock := func(entryName string) (balanced bool) {
		idx := -1
		for i, e := range r.Entries {
			if e == entryName {
				idx = r.entryIDs[i]
			}
		}
		if idx < 0 {
			t.Fatalf("no entry %s", entryName)
		}
		balanced = true
		var walk func(n, depth int, seen map[[2]int]bool)
		walk = func(n, depth int, seen map[[2]int]bool) {
			if seen[[2]int{n, depth}] {
				return
			}
			seen[[2]int{n, depth}] = true
			nd := r.nodes[n]
			if strings.HasPrefix(nd.instr, "ILock") {
				depth++
			}
			if strings.HasPrefix(nd.instr, "IUnlock") {
				depth--
			}
			if len(nd.succ) == 0 && depth != 0 {
				balanced = false
			}
			for _, s := range nd.succ {
				walk(s, depth, seen)
			}
		}
		walk(idx, 0, map[[2]int]bool{})
		return balanced
	}
	if !terminalAfterUnlock("Get") {
		t.Errorf("deferred RUnlock must be replayed on the early return of Get")
	}
	if terminalAfterUnlock("Leak") {
		t.Errorf("the early return of Leak must end with the read lock held")
	}
}
