package main

import (
	"strings"
	"testing"
)

// The translator is in the trusted base of C17: this self-test pins the behaviours the analysis relies on.
func TestTranslatorSelfTest(t *testing.T) {
	r, err := analysePackage("testdata/src", "svc", "Service")
	if err != nil {
		t.Fatal(err)
	}
	single := map[string]bool{}
	for i, g := range r.Groups {
		single[g] = r.Single[i]
	}
	entry := map[string]bool{}
	for _, e := range r.Entries {
		entry[e] = true
	}
	groupOf := func(prefix string) (string, bool) {
		for g := range single {
			if strings.HasPrefix(g, prefix) {
				return g, true
			}
		}
		return "", false
	}
	if !single["handleHead"] {
		t.Errorf("one Events subscription must be single-instance: %v", single)
	}
	if single["handleBlock"] {
		t.Errorf("a handler subscribed twice must be multi-instance: %v", single)
	}
	if single["handleReorg"] {
		t.Errorf("a subscription inside a loop must be multi-instance: %v", single)
	}
	if g, ok := groupOf("SchedulePeriodicJob@"); !ok || !single[g] {
		t.Errorf("the runtime function bound to a local must be an entry of the periodic job's single group: %v", single)
	}
	if !entry["tick"] {
		t.Errorf("the job function of the periodic job must be an entry: %v", r.Entries)
	}
	if !single["once"] {
		t.Errorf("a goroutine started once by the constructor must be single-instance: %v", single)
	}
	if single["worker"] {
		t.Errorf("goroutines started in a loop must be multi-instance: %v", single)
	}
	type key struct {
		field, entry string
		write        bool
	}
	acc := map[key]bool{}
	for _, a := range r.Accesses {
		acc[key{a.Field, a.Entry, a.Write}] = true
	}
	for _, want := range []key{
		{"items", "Put", true},     // write through the local alias m
		{"items", "Get", false},    // read
		{"counter", "tick", true},  // job
		{"counter", "tick", false}, // counter++ reads too
		{"last", "handleHead", true},
	} {
		if !acc[want] {
			t.Errorf("missing access %+v in %v", want, acc)
		}
	}
	rt, _ := groupOf("SchedulePeriodicJob@")
	if !acc[key{"counter", rt, false}] {
		t.Errorf("the runtime function's read of counter is missing: %v", acc)
	}
	// lock balance: every node without successor in Get is reached after an RUnlock; Leak has a terminal path without
	terminalAfterUnlock := func(entryName string) (balanced bool) {
		idx := -1
		for i, e := range r.Entries {
			if e == entryName {
				idx = r.entryIDs[i]
			}
		}
		if idx < 0 {
			t.Fatalf("no entry %s", entryName)
		}
		balanced = true
		var walk func(n, depth int, seen map[[2]int]bool)
		walk = func(n, depth int, seen map[[2]int]bool) {
			if seen[[2]int{n, depth}] {
				return
			}
			seen[[2]int{n, depth}] = true
			nd := r.nodes[n]
			if strings.HasPrefix(nd.instr, "ILock") {
				depth++
			}
			if strings.HasPrefix(nd.instr, "IUnlock") {
				depth--
			}
			if len(nd.succ) == 0 && depth != 0 {
				balanced = false
			}
			for _, s := range nd.succ {
				walk(s, depth, seen)
			}
		}
		walk(idx, 0, map[[2]int]bool{})
		return balanced
	}
	if !terminalAfterUnlock("Get") {
		t.Errorf("deferred RUnlock must be replayed on the early return of Get")
	}
	if terminalAfterUnlock("Leak") {
		t.Errorf("the early return of Leak must end with the read lock held")
	}
}

// The locals pass (locals.go): local variables shared by goroutines, local mutexes, levels.
func TestTranslatorLocalsSelfTest(t *testing.T) {
	r0, err := analysePackage("testdata/src", "loc", "Service")
	if err != nil {
		t.Fatal(err)
	}
	r := r0.locals
	if r == nil {
		t.Fatal("no locals graph for testdata/src/loc")
	}
	if r.Name != "loc_locals" {
		t.Errorf("name %q", r.Name)
	}
	// per entry: the instructions of its nodes (entries are emitted one after another)
	type ent struct {
		name   string
		single bool
		instrs []string
		accs   []accInfo
	}
	var ents []ent
	for i, e := range r.Entries {
		from := r.entryIDs[i]
		to := len(r.nodes)
		if i+1 < len(r.entryIDs) {
			to = r.entryIDs[i+1]
		}
		en := ent{name: e, single: r.Single[r.nodes[from].owner]}
		for _, n := range r.nodes[from:to] {
			en.instrs = append(en.instrs, n.instr)
			if n.acc != nil {
				en.accs = append(en.accs, *n.acc)
			}
		}
		ents = append(ents, en)
	}
	find := func(substr string) *ent {
		for i := range ents {
			if strings.Contains(ents[i].name, substr) {
				return &ents[i]
			}
		}
		return nil
	}
	count := func(e *ent, prefix string) int {
		n := 0
		for _, in := range e.instrs {
			if strings.HasPrefix(in, prefix) {
				n++
			}
		}
		return n
	}
	// Good: the account goroutine (level 1) writes the map of the invocation (level 0) under the mutex of the invocation
	g := find("/L1 in Good/v0")
	if g == nil {
		t.Fatalf("no account goroutine for Good: %v", r.Entries)
	}
	if g.single {
		t.Errorf("goroutines started in a loop must be multi-instance")
	}
	if len(g.accs) != 1 || !g.accs[0].Write || !strings.HasPrefix(g.accs[0].Field, "accounts@") || !strings.HasSuffix(g.accs[0].Field, "/L0 in Good") {
		t.Errorf("Good: want one write of the invocation's accounts through the bound parameter, got %+v", g.accs)
	}
	if count(g, "ILock") != 1 || count(g, "IUnlock") != 1 {
		t.Errorf("Good: the mutex of the invocation guards the write: %v", g.instrs)
	}
	// Bad: the account goroutine is at level 2, the mutex at level 1: no lock operation remains in the copy for level 0
	bad := find("/L2 in Bad/v0")
	if bad == nil {
		t.Fatalf("no account goroutine at level 2 for Bad: %v", r.Entries)
	}
	if bad.single || len(bad.accs) != 1 || !bad.accs[0].Write || !strings.HasSuffix(bad.accs[0].Field, "/L0 in Bad") {
		t.Errorf("Bad: want one write of the invocation's accounts by a multi-instance goroutine, got single=%v %+v", bad.single, bad.accs)
	}
	if count(bad, "ILock") != 0 || count(bad, "IUnlock") != 0 {
		t.Errorf("Bad: a mutex that exists once per wallet goroutine must not count: %v", bad.instrs)
	}
	// Once: started once => single; the write of the value parameter n is not an access; total is
	o := find("in Once/v0")
	if o == nil || !o.single {
		t.Fatalf("Once: want a single-instance goroutine: %+v", o)
	}
	for _, a := range o.accs {
		if !strings.HasPrefix(a.Field, "total@") {
			t.Errorf("Once: unexpected access %+v", a)
		}
	}
	if len(o.accs) != 1 || !o.accs[0].Write {
		t.Errorf("Once: want exactly the write of total: %+v", o.accs)
	}
	// Own: nothing shared
	if e := find("in Own/"); e != nil {
		t.Errorf("Own: a goroutine's own variables are not shared: %+v", e)
	}
	// Nested: the inner goroutine (level 2) writes res (level 1) under mu (level 1): the copy for level 1 keeps the lock
	n := find("/L2 in Nested/v1")
	if n == nil {
		t.Fatalf("Nested: no copy of the inner goroutine for level 1: %v", r.Entries)
	}
	if n.single || count(n, "ILock") != 1 || len(n.accs) != 1 {
		t.Errorf("Nested: want a multi-instance goroutine writing res under mu: single=%v %v %+v", n.single, n.instrs, n.accs)
	}
	if e := find("in Nested/v0"); e != nil {
		t.Errorf("Nested: nothing of the invocation itself is shared: %+v", e)
	}
}

func TestTranslatorLocalsIterations(t *testing.T) {
	r0, err := analysePackage("testdata/src", "loc", "Service")
	if err != nil {
		t.Fatal(err)
	}
	r := r0.locals
	single := map[string]bool{}
	for i, g := range r.Groups {
		single[g] = r.Single[i]
	}
	writes := map[string][]string{} // entry -> fields written
	for _, a := range r.Accesses {
		if a.Write {
			writes[a.Entry] = append(writes[a.Entry], a.Field)
		}
	}
	var per, shared string
	for e := range writes {
		if strings.Contains(e, "in PerIteration/") {
			per = e
		}
		if strings.Contains(e, "in Shared/") {
			shared = e
		}
	}
	if per == "" || !single[per] || !strings.HasSuffix(per, "/v1") {
		t.Errorf("PerIteration: the goroutine is the only one of its iteration's variable: entry %q single=%v (%v)", per, single[per], r.Groups)
	}
	for _, f := range writes[per] {
		if strings.HasPrefix(f, "results@") {
			t.Errorf("PerIteration: an element assignment of a slice is not a write of the slice: %v", writes[per])
		}
	}
	if shared == "" || single[shared] || !strings.HasSuffix(shared, "/v0") {
		t.Errorf("Shared: every goroutine of the loop writes the one variable: entry %q single=%v (%v)", shared, single[shared], r.Groups)
	}
}
