// Value derivation ("taint") pass of the service graphs: the DERIVED PAIRS (r, w) of a graph.
//
// r is a read access node and w a write access node of the SAME field in the SAME entry copy (one walk of
// one entry point, code of inlined methods included) such that the value stored at w (the assigned value, the
// index/key, the thing deleted or appended) is derived from what was read at r.  A later check demands that no
// unlock of the field's guard lies on a path from r to w (read-copy-update across two critical sections).
//
// Derivation follows data only (no control dependence).  The walk of main.go records, per entry, a small
// structured program of FLOWS (a value flows into local variables and into field write nodes), if-statements
// and loops; the program is evaluated over the state  variable -> read nodes  as soon as its outermost
// statement is complete:
//   - a variable is an *ast.Object (shadowing is respected) of a function context (entry, inlined call; a
//     function literal shares the context of the function it is written in); an identifier the parser did
//     not resolve (a global of another file) goes by its name;
//   - reads(e) = the read access nodes emitted while e was walked (inlined callees included), and the state
//     of the variables mentioned in e (function literal bodies are not entered), and the return values of
//     the calls inlined while e was walked;
//   - x := e, x = e, var x = e REPLACE the state of x unless the statement is inside a loop, switch or select
//     of its own function or inside a function literal (break/continue/the next iteration would bypass the
//     replacement: there the state only grows); x op= e, x++, x[k] = e, x.f = e, *x = e let it grow;
//     a call x.m(args), f(&x), copy(x, ..) that is not inlined may store its arguments in x: x grows;
//   - the branches of an if-statement start from the same state and are joined afterwards; a loop body (also
//     a function literal used as a value: the graph runs it any number of times) is evaluated until the state
//     at its head is stable; the clauses of a switch/select are evaluated one after the other (the state only
//     grows there); an early return is treated as falling through;
//   - parameters of an inlined call get reads(argument); the variables of the call start empty.
//
// Atomicity is per API operation: a pair whose write node lies in an inlined call of an EXPORTED method (an
// operation in its own right) that does not also contain the read node is a COMPOSITE of operations; such
// pairs are listed apart (derived_composite, information only).
//
// Nothing is computed in locals mode (b.loc != nil).  The pairs are kept on the write node (node.from), so
// they follow the fate of the node: constructor nodes are dropped with their scratch graph and the first of
// the two build passes is forgotten with its nodes; node indices are final (nodes are never renumbered).
package main

import (
	"fmt"
	"go/ast"
	"go/token"
	"io"
	"sort"
	"strings"
)

// atomRet stands for the return value of a function context.
var atomRet = ast.NewObj(ast.Var, "$ret")

// atomCtx identifies the variables of one function context.
type atomCtx struct {
	owner *fnCtx // the function the variables belong to (function literals inside it share the context)
	loops int    // loops of that function (and function literal values in it) that are open
}

type atomVar struct {
	c *atomCtx
	k any // *ast.Object, or the name of an unresolved identifier
}

// atomVal is a value before evaluation: read nodes and the variables whose state it includes.
type atomVal struct {
	reads []int
	vars  []atomVar
}

type atomMark struct{ n, r int } // len(b.res.nodes), len(b.atom.rets)

// atomOp is a statement of the recorded program: a flow (val into the variables set, replaced when strong,
// and add, grown, and into the field write nodes ws), the start of an inlined call (fresh: its variables are
// empty), a loop (body) or an if-statement (body, els).
type atomOp struct {
	kind      int
	val       atomVal
	set, add  []atomVar
	ws        []int
	strong    bool
	fresh     *atomCtx
	body, els []atomOp
}

const (
	atomFlowOp = iota
	atomFreshOp
	atomLoopOp
	atomIfOp
)

// atomFrame is one inlined call of an exported method; every node emitted during the call points to the
// innermost one.
type atomFrame struct {
	name   string
	parent *atomFrame
}

type atomSets map[atomVar]map[int]bool // the sets are never modified, only replaced

type atomState struct {
	rets  []atomVar  // return values of the inlined calls finished so far
	w     []int      // field write nodes emitted by the statement being walked
	open  [][]atomOp // bodies being recorded (innermost last); none: statements are evaluated at once
	thens [][]atomOp // then-branches whose else-branch is being recorded
	state atomSets
	frame *atomFrame // the innermost inlined call of an exported method being walked
}

func (b *builder) atomOf(fc *fnCtx) *atomCtx {
	if b.loc != nil {
		return nil
	}
	if fc.at == nil {
		fc.at = &atomCtx{owner: fc}
	}
	return fc.at
}

func (b *builder) atomMark() atomMark { return atomMark{len(b.res.nodes), len(b.atom.rets)} }

// atomReset starts the program of a new entry.
func (b *builder) atomReset() { b.atom = atomState{} }

// atomInlined is called when the walk of an inlined call of the method starts; the result ends it.
func (b *builder) atomInlined(method string) func() {
	if b.loc != nil || !ast.IsExported(method) {
		return func() {}
	}
	outer := b.atom.frame
	b.atom.frame = &atomFrame{name: method, parent: outer}
	return func() { b.atom.frame = outer }
}

// atomComposite: the exported method whose inlined call contains the node w but not the node r ("" if none).
func atomComposite(nodes []node, r, w int) string {
	fw := nodes[w].frame
	if fw == nil {
		return ""
	}
	for f := nodes[r].frame; f != nil; f = f.parent {
		if f == fw {
			return ""
		}
	}
	return fw.name
}

// atomWrote is called by access for every field write node.
func (b *builder) atomWrote(id int) {
	if b.loc == nil {
		b.atom.w = append(b.atom.w, id)
	}
}

func (b *builder) atomTakeWrites() []int {
	ws := b.atom.w
	b.atom.w = nil
	return ws
}

// atomDo appends a statement to the body being recorded; outside every body it is evaluated at once.
func (b *builder) atomDo(op atomOp) {
	if n := len(b.atom.open); n > 0 {
		b.atom.open[n-1] = append(b.atom.open[n-1], op)
		return
	}
	if b.atom.state == nil {
		b.atom.state = atomSets{}
	}
	b.atomEval([]atomOp{op}, b.atom.state)
}

func (b *builder) atomClose() []atomOp {
	n := len(b.atom.open) - 1
	body := b.atom.open[n]
	b.atom.open = b.atom.open[:n]
	return body
}

// atomLoop brackets a body of fc that runs any number of times (d = +1 / -1).
func (b *builder) atomLoop(fc *fnCtx, d int) {
	if b.loc != nil {
		return
	}
	b.atomOf(fc).loops += d
	if d > 0 {
		b.atom.open = append(b.atom.open, nil)
		return
	}
	b.atomDo(atomOp{kind: atomLoopOp, body: b.atomClose()})
}

// atomIf marks the start of the then-branch (0), of the else-branch (1) and the end (2) of an if-statement.
func (b *builder) atomIf(stage int) {
	if b.loc != nil {
		return
	}
	switch stage {
	case 1:
		b.atom.thens = append(b.atom.thens, b.atomClose())
	case 2:
		n := len(b.atom.thens) - 1
		op := atomOp{kind: atomIfOp, body: b.atom.thens[n], els: b.atomClose()}
		b.atom.thens = b.atom.thens[:n]
		b.atomDo(op)
		return
	}
	b.atom.open = append(b.atom.open, nil)
}

func (st atomSets) join(from atomSets) (changed bool) {
	for k, s := range from {
		old := st[k]
		var ns map[int]bool
		for r := range s {
			if !old[r] {
				if ns == nil {
					ns = make(map[int]bool, len(old)+len(s))
					for o := range old {
						ns[o] = true
					}
				}
				ns[r] = true
			}
		}
		if ns != nil {
			st[k] = ns
			changed = true
		}
	}
	return changed
}

func (st atomSets) clone() atomSets {
	c := make(atomSets, len(st))
	for k, s := range st {
		c[k] = s
	}
	return c
}

// atomEval runs the statements over the state (updated in place) and adds the pairs to the write nodes.
func (b *builder) atomEval(ops []atomOp, st atomSets) {
	for i := range ops {
		op := &ops[i]
		switch op.kind {
		case atomFreshOp:
			for k := range st {
				if k.c == op.fresh {
					delete(st, k)
				}
			}
		case atomLoopOp:
			for {
				s := st.clone()
				b.atomEval(op.body, s)
				if !st.join(s) {
					break
				}
			}
		case atomIfOp:
			s := st.clone()
			b.atomEval(op.body, s)
			b.atomEval(op.els, st)
			st.join(s)
		case atomFlowOp:
			val := map[int]bool{}
			for _, r := range op.val.reads {
				val[r] = true
			}
			for _, v := range op.val.vars {
				for r := range st[v] {
					val[r] = true
				}
			}
			one := atomSets{}
			for _, x := range op.set {
				if op.strong {
					delete(st, x)
				}
				one[x] = val
			}
			for _, x := range op.add {
				one[x] = val
			}
			st.join(one)
			for _, w := range op.ws {
				nd := &b.res.nodes[w]
			next:
				for r := range val {
					if a := b.res.nodes[r].acc; a == nil || a.Write || a.Field != nd.acc.Field {
						continue // only same-field derivation
					}
					for _, have := range nd.from {
						if have == r {
							continue next
						}
					}
					nd.from = append(nd.from, r)
				}
			}
		}
	}
}

// atomKey: the variable an identifier denotes (not the service value, not a function, type, constant or package).
func atomKey(id *ast.Ident, fc *fnCtx) (any, bool) {
	if id == nil || id.Name == "_" || fc.recv[id.Name] {
		return nil, false
	}
	if id.Obj == nil {
		return id.Name, true
	}
	return id.Obj, id.Obj.Kind == ast.Var
}

// atomVars lists the variables mentioned in the expressions.
func (b *builder) atomVars(fc *fnCtx, exprs []ast.Expr) []atomVar {
	at := b.atomOf(fc)
	var out []atomVar
	var walk func(n ast.Node)
	walk = func(n ast.Node) {
		ast.Inspect(n, func(n ast.Node) bool {
			switch x := n.(type) {
			case *ast.FuncLit:
				return false
			case *ast.SelectorExpr:
				walk(x.X) // not the selected name
				return false
			case *ast.Ident:
				if k, ok := atomKey(x, fc); ok {
					out = append(out, atomVar{at, k})
				}
			}
			return true
		})
	}
	for _, e := range exprs {
		if e != nil {
			walk(e)
		}
	}
	return out
}

// atomReads is reads(exprs) for expressions that were walked since the mark.
func (b *builder) atomReads(fc *fnCtx, mk atomMark, exprs ...ast.Expr) atomVal {
	var v atomVal
	if b.loc != nil {
		return v
	}
	for i := mk.n; i < len(b.res.nodes); i++ {
		if a := b.res.nodes[i].acc; a != nil && !a.Write {
			v.reads = append(v.reads, i)
		}
	}
	v.vars = append(v.vars, b.atom.rets[mk.r:]...)
	v.vars = append(v.vars, b.atomVars(fc, exprs)...)
	return v
}

// atomStraight: no loop, switch or select of fc's own function is open around the statement being walked and it
// is not in a function literal (if-branches are evaluated one by one): an assignment replaces.
func (b *builder) atomStraight(fc *fnCtx) bool {
	at := b.atomOf(fc)
	return len(fc.breaks) == 0 && at.loops == 0 && at.owner == fc
}

// atomIndexes: the index expressions on the way to an assignment target.
func atomIndexes(e ast.Expr) []ast.Expr {
	var out []ast.Expr
	for {
		switch x := e.(type) {
		case *ast.IndexExpr:
			out = append(out, x.Index)
			e = x.X
		case *ast.SelectorExpr:
			e = x.X
		case *ast.StarExpr:
			e = x.X
		case *ast.ParenExpr:
			e = x.X
		default:
			return out
		}
	}
}

// atomAssign: lhs = rhs (or lhs op= rhs, lhs++ when opAssign; or `for lhs := range rhs`), walked since the mark.
func (b *builder) atomAssign(fc *fnCtx, mk atomMark, lhs, rhs []ast.Expr, opAssign bool) {
	if b.loc != nil {
		return
	}
	at := b.atomOf(fc)
	ev := atomOp{ws: b.atomTakeWrites()}
	exprs := append([]ast.Expr{}, rhs...)
	for _, l := range lhs {
		if l == nil {
			continue
		}
		if opAssign {
			exprs = append(exprs, l)
		} else {
			exprs = append(exprs, atomIndexes(l)...)
		}
		if id, ok := l.(*ast.Ident); ok {
			if k, ok := atomKey(id, fc); ok {
				if opAssign {
					ev.add = append(ev.add, atomVar{at, k})
				} else {
					ev.set = append(ev.set, atomVar{at, k})
				}
			}
		} else if k, ok := atomKey(baseIdentNode(l), fc); ok {
			ev.add = append(ev.add, atomVar{at, k})
		}
	}
	if len(ev.set)+len(ev.add)+len(ev.ws) == 0 {
		return
	}
	ev.val = b.atomReads(fc, mk, exprs...)
	ev.strong = b.atomStraight(fc)
	b.atomDo(ev)
}

// atomDecl: var names = values.
func (b *builder) atomDecl(fc *fnCtx, mk atomMark, vs *ast.ValueSpec) {
	lhs := make([]ast.Expr, len(vs.Names))
	for i, n := range vs.Names {
		lhs[i] = n
	}
	b.atomAssign(fc, mk, lhs, vs.Values, false)
}

// atomReturn: return results.
func (b *builder) atomReturn(fc *fnCtx, mk atomMark, results []ast.Expr) {
	if b.loc != nil || len(results) == 0 {
		return
	}
	b.atomDo(atomOp{val: b.atomReads(fc, mk, results...), add: []atomVar{{b.atomOf(fc), atomRet}}})
}

// atomCall runs when the walk of a call is finished: delete(recv.f, k) / clear(recv.f) store into the field;
// a call that is not inlined may store its arguments in its receiver, in x for an argument &x, in the target of copy.
func (b *builder) atomCall(call *ast.CallExpr, fc *fnCtx, mk atomMark) {
	if b.loc != nil {
		return
	}
	at := b.atomOf(fc)
	var ev atomOp
	from := call.Args
	var targets []ast.Expr
	switch f := call.Fun.(type) {
	case *ast.Ident:
		if (f.Name == "delete" || f.Name == "clear") && len(call.Args) > 0 {
			ev.ws = b.atomTakeWrites()
			from = call.Args[1:]
		}
		if f.Name == "copy" && len(call.Args) > 0 {
			targets = append(targets, call.Args[0])
		}
	case *ast.SelectorExpr:
		targets = append(targets, f.X)
		from = append(append([]ast.Expr{}, from...), f.X)
	}
	for _, a := range call.Args {
		if u, ok := a.(*ast.UnaryExpr); ok && u.Op == token.AND {
			targets = append(targets, u.X)
		}
	}
	for _, t := range targets {
		if id := baseIdentNode(t); id != nil && id.Obj != nil {
			if k, ok := atomKey(id, fc); ok {
				ev.add = append(ev.add, atomVar{at, k})
			}
		}
	}
	if len(ev.add)+len(ev.ws) == 0 {
		return
	}
	ev.val = b.atomReads(fc, mk, from...)
	b.atomDo(ev)
}

// atomBind gives the parameters of a callee (variables of the context at) the values of the arguments;
// fresh: at is the context of this call alone (an inlined method), its variables start empty.
func (b *builder) atomBind(ft *ast.FuncType, args []atomVal, at *atomCtx, fresh bool) {
	if at == nil {
		return
	}
	if fresh {
		b.atomDo(atomOp{kind: atomFreshOp, fresh: at})
	}
	if ft == nil || ft.Params == nil {
		return
	}
	i := 0
	for _, fl := range ft.Params.List {
		_, variadic := fl.Type.(*ast.Ellipsis)
		names := fl.Names
		if len(names) == 0 {
			names = []*ast.Ident{nil}
		}
		for _, nm := range names {
			var v atomVal
			for j := i; j < len(args) && (j == i || variadic); j++ {
				v.reads = append(v.reads, args[j].reads...)
				v.vars = append(v.vars, args[j].vars...)
			}
			i++
			if nm == nil || nm.Name == "_" || nm.Obj == nil {
				continue
			}
			b.atomDo(atomOp{val: v, add: []atomVar{{at, nm.Obj}}})
		}
	}
}

// atomLeave: the inlined call of the context sub is finished; its return value becomes part of the expressions
// being walked (named results count as returned).
func (b *builder) atomLeave(ft *ast.FuncType, sub *fnCtx) {
	at := b.atomOf(sub)
	if at == nil {
		return
	}
	if ft != nil && ft.Results != nil {
		var v atomVal
		for _, fl := range ft.Results.List {
			for _, nm := range fl.Names {
				if nm.Obj != nil && nm.Name != "_" {
					v.vars = append(v.vars, atomVar{at, nm.Obj})
				}
			}
		}
		if len(v.vars) > 0 {
			b.atomDo(atomOp{val: v, add: []atomVar{{at, atomRet}}})
		}
	}
	b.atom.rets = append(b.atom.rets, atomVar{at, atomRet})
}

// derivedPairs collects the pairs of a finished graph, sorted: the ordinary ones and the composite ones.
func derivedPairs(nodes []node) (ordinary, composite [][2]int) {
	ordinary, composite = [][2]int{}, [][2]int{}
	for w, n := range nodes {
		for _, r := range n.from {
			if atomComposite(nodes, r, w) != "" {
				composite = append(composite, [2]int{r, w})
			} else {
				ordinary = append(ordinary, [2]int{r, w})
			}
		}
	}
	for _, ps := range [][][2]int{ordinary, composite} {
		sort.Slice(ps, func(i, j int) bool {
			if ps[i][0] != ps[j][0] {
				return ps[i][0] < ps[j][0]
			}
			return ps[i][1] < ps[j][1]
		})
	}
	return ordinary, composite
}

// atomSplit: "SPLIT" when some graph path r -> ... -> w passes an IUnlock node, "ok" when w is reachable from r
// but never across an unlock, "nopath" when w is not reachable from r.
func atomSplit(nodes []node, r, w int) string {
	type st struct {
		n        int
		unlocked bool
	}
	seen := map[st]bool{}
	work := []st{{r, false}}
	res := "nopath"
	for len(work) > 0 {
		cur := work[len(work)-1]
		work = work[:len(work)-1]
		for _, s := range nodes[cur.n].succ {
			nx := st{s, cur.unlocked || strings.HasPrefix(nodes[s].instr, "IUnlock")}
			if s == w {
				if nx.unlocked {
					return "SPLIT"
				}
				res = "ok"
			}
			if !seen[nx] {
				seen[nx] = true
				work = append(work, nx)
			}
		}
	}
	return res
}

// printDerived is the -derived listing.
func printDerived(out io.Writer, r *pkgResult) {
	fmt.Fprintf(out, "%s: %d derived pairs, %d composite\n", r.Name, len(r.Derived), len(r.DerivedComposite))
	for _, p := range append(append([][2]int{}, r.Derived...), r.DerivedComposite...) {
		rn, wn := r.nodes[p[0]], r.nodes[p[1]]
		status := atomSplit(r.nodes, p[0], p[1])
		if m := atomComposite(r.nodes, p[0], p[1]); m != "" {
			status += " COMPOSITE(" + m + ")"
		}
		fmt.Fprintf(out, "  (%d, %d) %s  read %s  write %s  entry %s  %s\n", p[0], p[1], wn.acc.Field, rn.pos, wn.pos, wn.acc.Entry, status)
	}
}

// derivedDefinition is the Gallina definition derived_pairs (the ordinary pairs) or derived_composite (one
// entry per service, in order).
func derivedDefinition(results []*pkgResult, composite bool) string {
	var sb strings.Builder
	name := "derived_pairs"
	if composite {
		name = "derived_composite"
	}
	fmt.Fprintf(&sb, "Definition %s : list (string * list (nat * nat)) := [\n", name)
	for i, r := range results {
		pairs := r.Derived
		if composite {
			pairs = r.DerivedComposite
		}
		ps := make([]string, 0, len(pairs))
		for _, p := range pairs {
			ps = append(ps, fmt.Sprintf("(%d%%nat, %d%%nat)", p[0], p[1]))
		}
		sep := ";"
		if i == len(results)-1 {
			sep = ""
		}
		fmt.Fprintf(&sb, "  (\"%s\"%%string, [%s])%s\n", r.Name, strings.Join(ps, "; "), sep)
	}
	sb.WriteString("].\n")
	return sb.String()
}
