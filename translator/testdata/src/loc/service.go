// Package loc is input for the translator's self-test of the locals pass (never compiled).
package loc

import "sync"

type Service struct {
	mutex sync.RWMutex
	items map[string]int
}

type wallet struct{ names []string }

// Good: one map, one mutex of the same invocation, one goroutine per account (the wallets one after another).
func (s *Service) Good(wallets []wallet) {
	accounts := make(map[string]int)
	for _, w := range wallets {
		s.fetch(w, accounts)
	}
	s.mutex.Lock()
	s.items = accounts
	s.mutex.Unlock()
}

// Bad: the wallets in parallel: the mutex of fetch now exists once per wallet goroutine.
func (s *Service) Bad(wallets []wallet) {
	accounts := make(map[string]int)
	var wg sync.WaitGroup
	for _, w := range wallets {
		wg.Add(1)
		go func(w wallet) {
			defer wg.Done()
			s.fetch(w, accounts)
		}(w)
	}
	wg.Wait()
}

func (s *Service) fetch(w wallet, accounts map[string]int) {
	var mu sync.Mutex
	var wg sync.WaitGroup
	for _, n := range w.names {
		wg.Add(1)
		go func(n string, accounts map[string]int, mu *sync.Mutex) {
			defer wg.Done()
			mu.Lock()
			accounts[n] = len(n)
			mu.Unlock()
		}(n, accounts, &mu)
	}
	wg.Wait()
}

// Once: a goroutine started once writes a captured variable; a value parameter is a copy.
func (s *Service) Once(n int) int {
	total := 0
	done := make(chan struct{})
	go func(n int) {
		n = n + 1
		total = n
		close(done)
	}(n)
	<-done
	return total
}

// Own: what a goroutine declares itself is its own (nothing shared).
func (s *Service) Own(names []string) {
	for _, n := range names {
		go func(n string) {
			seen := map[string]bool{}
			seen[n] = true
		}(n)
	}
}

// Nested: a goroutine per wallet owns a map and a mutex that its own account goroutines share.
func (s *Service) Nested(wallets []wallet) {
	for _, w := range wallets {
		go func(w wallet) {
			res := map[string]int{}
			var mu sync.Mutex
			for _, n := range w.names {
				go func(n string) {
					mu.Lock()
					res[n] = 1
					mu.Unlock()
				}(n)
			}
		}(w)
	}
}

// PerIteration: a variable declared inside the loop that starts the goroutine exists once per iteration;
// a slice of results is written element by element.
func (s *Service) PerIteration(wallets []wallet) []int {
	results := make([]int, len(wallets))
	for i, w := range wallets {
		res := &wallet{}
		go func() {
			res.names = w.names
			results[i] = len(res.names)
		}()
	}
	return results
}

// Shared: the same without the per-iteration declaration: every goroutine writes the one variable.
func (s *Service) Shared(wallets []wallet) {
	res := &wallet{}
	for _, w := range wallets {
		go func() {
			res.names = w.names
		}()
	}
}
