// Package atom is input for the self-test of the value derivation pass (atomic.go); never compiled.
package atom

import "sync"

type Service struct {
	mu sync.RWMutex
	m  map[int]int
	n  int
}

// Incr (a): read-modify-write in one critical section.
func (s *Service) Incr() {
	s.mu.Lock()
	s.n = s.n + 1
	s.mu.Unlock()
}

// Clean (b): copy under the read lock, release, swap under the write lock.
func (s *Service) Clean(min int) {
	s.mu.RLock()
	kept := make(map[int]int)
	for k, v := range s.m {
		if v >= min {
			kept[k] = v
		}
	}
	cleaned := len(s.m) - len(kept)
	s.mu.RUnlock()

	if cleaned > 0 {
		s.mu.Lock()
		s.m = kept
		s.mu.Unlock()
	}
}

// Fill (c): check-then-act miss fill; the stored value does not come from the map.
func (s *Service) Fill(k int) {
	s.mu.RLock()
	_, ok := s.m[k]
	s.mu.RUnlock()
	if !ok {
		v := fetch(k)
		s.mu.Lock()
		s.m[k] = v
		s.mu.Unlock()
	}
}

// Bump (d): through a local alias of the map.
func (s *Service) Bump(k int) {
	s.mu.Lock()
	m := s.m
	m[k] = m[k] + 1
	s.mu.Unlock()
}

func (s *Service) get(k int) int {
	s.mu.RLock()
	defer s.mu.RUnlock()
	return s.m[k]
}

// Next (e): the read is in an inlined helper.
func (s *Service) Next(k int) {
	v := s.get(k)
	s.mu.Lock()
	s.m[k] = v + 1
	s.mu.Unlock()
}

// Carry (f): the value travels round the loop to a write that comes earlier in the text.
func (s *Service) Carry() {
	x := 0
	for i := 0; i < 3; i++ {
		s.mu.Lock()
		s.n = x
		s.mu.Unlock()
		s.mu.RLock()
		x = s.n
		s.mu.RUnlock()
	}
}

// Refill (g): the variable that held the old value is reassigned on the miss path before it is stored.
func (s *Service) Refill(k int) int {
	s.mu.RLock()
	v, ok := s.m[k]
	s.mu.RUnlock()
	if !ok {
		v = fetch(k)
		s.mu.Lock()
		s.m[k] = v
		s.mu.Unlock()
	}
	return v
}

// Keep (h): the old value survives on the path around the branch.
func (s *Service) Keep(fresh bool) {
	s.mu.RLock()
	v := s.n
	s.mu.RUnlock()
	if fresh {
		v = fetch(0)
	}
	s.mu.Lock()
	s.n = v
	s.mu.Unlock()
}

func (s *Service) double(x int) (y int) {
	y = 2 * x
	return
}

// Twice (i): through the parameter and the named result of an inlined method, and a deletion by a derived key.
func (s *Service) Twice() {
	s.mu.RLock()
	a := s.n
	var keys []int
	for k := range s.m { // collect in Twice
		keys = append(keys, k)
	}
	s.mu.RUnlock()
	b := s.double(a)
	s.mu.Lock()
	s.n = b
	for _, k := range keys {
		delete(s.m, k) // in Twice
	}
	s.mu.Unlock()
}

// Drop is an operation of its own.
func (s *Service) Drop(k int) {
	s.mu.Lock()
	delete(s.m, k) // in Drop
	s.mu.Unlock()
}

// DropAll (j): a composite of operations: collect under the lock, then one Drop per key.
func (s *Service) DropAll() {
	s.mu.Lock()
	var names []int
	for k := range s.m { // collect in DropAll
		names = append(names, k)
	}
	s.mu.Unlock()
	for _, k := range names {
		s.Drop(k)
	}
}

// DropAllInOne (k): the same inside one operation.
func (s *Service) DropAllInOne() {
	s.mu.RLock()
	var names []int
	for k := range s.m { // collect in DropAllInOne
		names = append(names, k)
	}
	s.mu.RUnlock()
	s.mu.Lock()
	for _, k := range names {
		delete(s.m, k) // in DropAllInOne
	}
	s.mu.Unlock()
}

func fetch(k int) int { return k }
