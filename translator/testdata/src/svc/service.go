// Package svc is input for the translator's self-test (never compiled).
package svc

import (
	"context"
	"sync"
	"time"
)

type Service struct {
	mu      sync.RWMutex
	items   map[string]int
	counter int
	last    string
	events  eventsProvider
	sched   scheduler
}

func New(ctx context.Context, clients []eventsProvider) *Service {
	s := &Service{items: map[string]int{}}
	// one subscription: single-instance
	_ = s.events.Events(ctx, []string{"head"}, s.handleHead)
	// the same handler subscribed twice: two goroutines
	_ = s.events.Events(ctx, []string{"block"}, s.handleBlock)
	_ = s.events.Events(ctx, []string{"block2"}, s.handleBlock)
	// a subscription per client: several goroutines
	for _, c := range clients {
		_ = c.Events(ctx, []string{"reorg"}, s.handleReorg)
	}
	// a function value bound to a local and handed to the scheduler by name
	runtime := func(_ context.Context) (time.Time, error) {
		if s.counter == 0 {
			return time.Now(), nil
		}
		return time.Now().Add(time.Second), nil
	}
	_ = s.sched.SchedulePeriodicJob(ctx, "c", "n", runtime, s.tick)
	go s.once(ctx)
	for i := 0; i < 2; i++ {
		go s.worker(ctx)
	}
	return s
}

func (s *Service) handleHead(_ *event)  { s.last = "head" }
func (s *Service) handleBlock(_ *event) { s.last = "block" }
func (s *Service) handleReorg(_ *event) { s.last = "reorg" }
func (s *Service) tick(_ context.Context) { s.counter++ }
func (s *Service) once(_ context.Context) { s.counter = 1 }
func (s *Service) worker(_ context.Context) { s.counter = 2 }

// Get reads under the read lock with an early return before the deferred unlock.
func (s *Service) Get(k string) (int, bool) {
	s.mu.RLock()
	defer s.mu.RUnlock()
	v, ok := s.items[k]
	if !ok {
		return 0, false
	}
	return v, true
}

// Put writes through a local alias of the map.
func (s *Service) Put(k string, v int) {
	s.mu.Lock()
	m := s.items
	m[k] = v
	s.mu.Unlock()
}

// Leak forgets the unlock on one path.
func (s *Service) Leak(k string) int {
	s.mu.RLock()
	v, ok := s.items[k]
	if !ok {
		return 0
	}
	s.mu.RUnlock()
	return v
}
