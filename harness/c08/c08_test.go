// C08: drives the real services/submitter/multinode.Service (all eight submission kinds), the
// real services/submitter/immediate.Service and util.Scatter with recording, scripted beacon-node
// mocks inside testing/synctest bubbles, and prints each scenario with what the implementation
// did as a Gallina case for Check.C08.
//
// A panic in one of vouch's own goroutines cannot be recovered by a caller, so the scenarios run
// in a child process (this test binary re-executed); a crash is attributed to the scenario that
// was running and the child is restarted behind it.
package c08

import (
	"bufio"
	"context"
	"encoding/json"
	"errors"
	"fmt"
	"io"
	"os"
	"os/exec"
	"path/filepath"
	"runtime"
	"sort"
	"strconv"
	"strings"
	"sync"
	"sync/atomic"
	"testing"
	"testing/synctest"
	"time"

	eth2client "github.com/attestantio/go-eth2-client"
	"github.com/attestantio/go-eth2-client/api"
	apiv1 "github.com/attestantio/go-eth2-client/api/v1"
	apiv1bellatrix "github.com/attestantio/go-eth2-client/api/v1/bellatrix"
	apiv1capella "github.com/attestantio/go-eth2-client/api/v1/capella"
	apiv1deneb "github.com/attestantio/go-eth2-client/api/v1/deneb"
	"github.com/attestantio/go-eth2-client/spec"
	"github.com/attestantio/go-eth2-client/spec/altair"
	"github.com/attestantio/go-eth2-client/spec/bellatrix"
	"github.com/attestantio/go-eth2-client/spec/capella"
	"github.com/attestantio/go-eth2-client/spec/deneb"
	"github.com/attestantio/go-eth2-client/spec/phase0"
	"github.com/attestantio/vouch/services/metrics"
	nullmetrics "github.com/attestantio/vouch/services/metrics/null"
	"github.com/attestantio/vouch/services/submitter/immediate"
	"github.com/attestantio/vouch/services/submitter/multinode"
	"github.com/attestantio/vouch/util"
	"github.com/rs/zerolog"
	zerologger "github.com/rs/zerolog/log"

	. "verifharness/common"
)

// ---------------------------------------------------------------------------------------------
// Input language (JSON; also the corpus / replay format).

type ErrDesc struct {
	Shape   string    `json:"shape"`             // plain | garbled | wrongtypes | nofailures | nullfailures | failures
	Entries []*string `json:"entries"`           // phrase names; null = a JSON null inside the failures array
	Variant int       `json:"variant,omitempty"` // garbled: 0 truncated, 1 trailing text
}

type Beh struct {
	Hang  bool     `json:"hang,omitempty"`
	Delay uint64   `json:"delay"`         // fake ms before the call returns
	Err   *ErrDesc `json:"err,omitempty"` // nil = accept
}

type Override struct {
	Item uint64 `json:"item"`
	Beh  Beh    `json:"beh"`
}

// VBeh: how the node's version endpoint answers one request (fake ms, or never).
type VBeh struct {
	Hang  bool   `json:"hang,omitempty"`
	Delay uint64 `json:"delay,omitempty"`
}

type Node struct {
	Client  string     `json:"client"`          // lighthouse | lodestar | prysm | teku | nimbus | unknown
	Style   int        `json:"style,omitempty"` // rendering of the version string / kind of "unknown"
	Default Beh        `json:"default"`
	Over    []Override `json:"over,omitempty"`
	// Ver[0]: the version requests (NodeVersion) made to the node before it has been handed the payload
	// of the observed submission; Ver[1]: those made afterwards (the error classifiers').  Missing =
	// answered at once.  Ignored (and cleared by normalise) for a node without a version endpoint.
	Ver []VBeh `json:"ver,omitempty"`
}

func (nd Node) hasVersionEndpoint() bool { return !(nd.Client == "unknown" && nd.Style%3 == 2) }

func (nd Node) ver(phase int) VBeh {
	if phase < len(nd.Ver) && nd.hasVersionEndpoint() {
		return nd.Ver[phase]
	}
	return VBeh{}
}

// normalise: the canonical form of an input (what the Gallina term is printed from).
func normalise(in Input) Input {
	if in.Mode != "submit" {
		in.DeadlineMs = 0
	}
	if in.DeadlineMs == 0 {
		in.Deaf = false
		in.Cancelled = false
	}
	if in.Mode != "submit" || in.DeadlineMs > 0 {
		in.MonMs = 0
	}
	for i := range in.Nodes {
		nd := &in.Nodes[i]
		if !nd.hasVersionEndpoint() {
			nd.Ver = nil
		}
		if len(nd.Ver) > 2 {
			nd.Ver = nd.Ver[:2]
		}
		for len(nd.Ver) > 0 && nd.Ver[len(nd.Ver)-1] == (VBeh{}) {
			nd.Ver = nd.Ver[:len(nd.Ver)-1]
		}
		for k := range nd.Ver {
			if nd.Ver[k].Hang {
				nd.Ver[k].Delay = 0
			}
		}
		if len(nd.Ver) == 0 {
			nd.Ver = nil
		}
	}
	return in
}

type Input struct {
	Mode      string   `json:"mode"` // submit | scatter | immediate
	Kind      string   `json:"kind,omitempty"`
	Len       int      `json:"len"`
	Conc      int64    `json:"conc,omitempty"`
	TimeoutMs uint64   `json:"timeout_ms,omitempty"`
	Nodes     []Node   `json:"nodes,omitempty"`
	Trace     bool     `json:"trace,omitempty"`   // run vouch at zerolog.TraceLevel instead of Disabled
	Variant   int      `json:"variant,omitempty"` // proposal: fork version / blinded
	Warm      int      `json:"warm,omitempty"`    // submit: identical submissions made on the same service instance before the observed one
	Tags      []string `json:"tags,omitempty"`
	// submit: the context the caller passes to the observed Submit<Kind> carries a deadline this many
	// fake ms after the call (0 = a context without deadline); the warm-up submissions never have one
	DeadlineMs uint64 `json:"deadline_ms,omitempty"`
	// submit, with a deadline: the scripted nodes ignore the request context in every method (a
	// submitter need not honour it); otherwise they honour it the way the HTTP client does
	Deaf bool `json:"deaf,omitempty"`
	// submit, with a deadline: the caller's context carries no deadline but is cancelled by the caller
	// at that instant (ctx.Deadline() says "none"; everything else is the same, so the Coq case is too)
	Cancelled bool `json:"cancelled,omitempty"`
	// submit, without a caller's deadline: every ClientOperation call of the service's client monitor
	// takes this many fake ms (a contended metrics backend); 0 = the null monitor
	MonMs uint64 `json:"monitor_ms,omitempty"`
}

// slowMonitor: a client monitor whose bookkeeping takes (fake) time.
type slowMonitor struct {
	d   time.Duration
	rec *recorder
}

func (m slowMonitor) ClientOperation(_ string, _ string, _ bool, _ time.Duration) {
	m.rec.mu.Lock()
	over := m.rec.closed // the calls released when the scenario ends are not part of it
	m.rec.mu.Unlock()
	if !over {
		time.Sleep(m.d)
	}
}
func (slowMonitor) StrategyOperation(_ string, _ string, _ string, _ time.Duration) {}

type Call struct {
	At  uint64   `json:"at"`
	IDs []uint64 `json:"ids"`
}

type CutRec struct {
	At   uint64 `json:"at"`
	Hang bool   `json:"hang,omitempty"` // the request was scripted never to be answered
}

type Obs struct {
	Panic   bool   `json:"panic,omitempty"`
	PanicAt string `json:"panic_text,omitempty"`
	Success bool   `json:"success"`
	Ret     uint64 `json:"ret"`
	// the submission (or a warm-up submission before it) had not returned when every scripted answer
	// that is ever given had been given (Ret is then that instant, far beyond the timeout)
	NoReturn bool     `json:"no_return,omitempty"`
	Order    []int    `json:"order,omitempty"`
	Nodes    [][]Call `json:"nodes,omitempty"`
	// per node: the instants at which a request to it was abandoned because the context vouch made
	// it with was finished (refused at entry or cut short while in flight), before the scenario's end
	Cut [][]CutRec `json:"cut,omitempty"`
	// scatter
	GoMax   int      `json:"gomax,omitempty"`
	ScErr   bool     `json:"scatter_error,omitempty"`
	ScCalls [][2]int `json:"scatter_calls,omitempty"`
	ScRes   [][2]int `json:"scatter_results,omitempty"`
}

var kinds = []string{"attestations", "proposal", "aggregates", "syncmessages", "synccontributions", "beaconsubs", "syncsubs", "proposalpreps"}
var kindCtor = map[string]string{"attestations": "KAttestations", "proposal": "KProposal", "aggregates": "KAggregates",
	"syncmessages": "KSyncMessages", "synccontributions": "KSyncContributions", "beaconsubs": "KBeaconSubs",
	"syncsubs": "KSyncSubs", "proposalpreps": "KProposalPreps"}
var clients = []string{"lighthouse", "lodestar", "prysm", "teku", "nimbus", "unknown"}
var clientCtor = map[string]string{"lighthouse": "Lighthouse", "lodestar": "Lodestar", "prysm": "Prysm", "teku": "Teku", "nimbus": "Nimbus", "unknown": "Unknown"}
var shapeCtor = map[string]string{"plain": "ShPlain", "garbled": "ShGarbled", "wrongtypes": "ShWrongTypes",
	"nofailures": "ShNoFailures", "nullfailures": "ShNullFailures", "failures": "ShFailures"}

var versionStrings = map[string][]string{
	"lighthouse": {"Lighthouse/v5.1.3-3058b96/x86_64-linux", "lighthouse/v4.6.0", "LIGHTHOUSE/v5.0.0"},
	"lodestar":   {"Lodestar/v1.17.0/8dbf3ab", "lodestar/v1.15.1"},
	"prysm":      {"Prysm/v5.0.1 (linux amd64)", "prysm/v4.2.1"},
	"teku":       {"teku/v24.3.0/linux-x86_64/-privatebuild-openjdk64bitservervm-java-17", "Teku/v24.1.0"},
	"nimbus":     {"Nimbus/v24.2.2-fc9bc1-stateofus", "nimbus/v23.11.0"},
	"unknown":    {"Grandine/0.4.0"}, // style 1: NodeVersion fails; style 2: no NodeVersionProvider
}

var phraseText = map[string]string{
	"PriorAtt":          "PriorAttestationKnown { validator_index: 7, epoch: Epoch(3) }",
	"UnknownHead":       "UnknownHeadBlock { beacon_block_root: 0x0102 }",
	"UnknownTarget":     "Attempt to send attestation for unknown target",
	"PriorSyncMsg":      "Verification: PriorSyncCommitteeMessageKnown { validator_index: 7, slot: Slot(3) }",
	"PriorSyncMsgInfix": "Error: Verification: PriorSyncCommitteeMessageKnown { validator_index: 7, slot: Slot(3) }",
	"TekuDupSync":       "Ignoring sync committee message as a duplicate was processed during validation",
	"TekuDupSyncExt":    "Ignoring sync committee message as a duplicate was processed during validation (slot 3)",
	"AggKnown":          "Verification: AggregatorAlreadyKnown(7)",
	"AggKnownInfix":     "Error: Verification: AggregatorAlreadyKnown(7)",
	"Real":              "Verification: InvalidSignature",
	"Empty":             "",
}
var phraseNames = []string{"PriorAtt", "UnknownHead", "UnknownTarget", "PriorSyncMsg", "PriorSyncMsgInfix", "TekuDupSync",
	"TekuDupSyncExt", "AggKnown", "AggKnownInfix", "Real", "Empty"}

// the phrases vouch tolerates (used by the generators and for tagging only; the check's own
// table is Check.C08.spec_table)
func tolPhrases(kind, client string) []string {
	switch {
	case kind == "attestations" && client == "lighthouse":
		return []string{"PriorAtt", "UnknownHead"}
	case kind == "attestations" && client == "nimbus":
		return []string{"UnknownTarget"}
	case kind == "syncmessages" && client == "lighthouse":
		return []string{"PriorSyncMsg"}
	case kind == "syncmessages" && client == "teku":
		return []string{"TekuDupSync"}
	case kind == "synccontributions" && client == "lighthouse":
		return []string{"AggKnown"}
	}
	return nil
}

func isTol(kind, client, phrase string) bool {
	for _, p := range tolPhrases(kind, client) {
		if p == phrase {
			return true
		}
	}
	return false
}

// renderError turns a structured description into the text of the error a go-eth2-client call
// would return; vouch's own string searching and JSON parsing then run on it.
func renderError(e *ErrDesc, client string) string {
	const prefix = "POST failed with status 400: "
	teku := client == "teku"
	if e.Shape == "wrongtypes" {
		teku = !teku
	}
	q := func(s string) string { b, _ := json.Marshal(s); return string(b) }
	code := func(c int) string {
		if teku {
			return `"` + strconv.Itoa(c) + `"`
		}
		return strconv.Itoa(c)
	}
	failures := func() string {
		parts := make([]string, 0, len(e.Entries))
		for i, en := range e.Entries {
			if en == nil {
				parts = append(parts, "null")
				continue
			}
			parts = append(parts, fmt.Sprintf(`{"index":%s,"message":%s}`, code(i), q(phraseText[*en])))
		}
		return "[" + strings.Join(parts, ",") + "]"
	}
	switch e.Shape {
	case "plain":
		var ps []string
		for _, en := range e.Entries {
			if en != nil {
				ps = append(ps, strings.NewReplacer("{", "(", "}", ")").Replace(phraseText[*en]))
			}
		}
		return "POST failed: connection reset by peer; " + strings.Join(ps, "; ")
	case "nofailures":
		return prefix + fmt.Sprintf(`{"code":%s,"message":"Beacon node is currently syncing and not serving request on that endpoint"}`, code(503))
	case "nullfailures":
		return prefix + fmt.Sprintf(`{"code":%s,"message":"BAD_REQUEST: rejected","failures":null}`, code(400))
	}
	body := fmt.Sprintf(`{"code":%s,"message":"BAD_REQUEST: some items failed","failures":%s}`, code(400), failures())
	if e.Shape == "garbled" {
		if e.Variant%2 == 0 {
			return prefix + body[:len(body)-1]
		}
		return prefix + body + " (see the node's log)"
	}
	return prefix + body
}

// ---------------------------------------------------------------------------------------------
// The recording, scripted node.

type recorder struct {
	mu      sync.Mutex
	start   time.Time
	closed  bool
	release chan struct{}
	seq     int
	warming bool // calls made by the warm-up submissions are not recorded
}

type nodeCore struct {
	rec      *recorder
	spec     Node
	proposal *api.VersionedSignedProposal
	firstSeq int
	reached  bool // the node has been handed (a part of) the payload of the current submission
	calls    []Call
	cuts     []CutRec
	deaf     bool // the node ignores the request context
}

// noteCut: a request to this node ended because its context was finished by the submitter (the
// harness finishes the scenario's own context only after rec.closed is set).
func (n *nodeCore) noteCut(hang bool) {
	n.rec.mu.Lock()
	if !n.rec.closed && !n.rec.warming {
		n.cuts = append(n.cuts, CutRec{At: uint64(time.Since(n.rec.start) / time.Millisecond), Hang: hang})
	}
	n.rec.mu.Unlock()
}

func (n *nodeCore) touchLocked() {
	if n.firstSeq < 0 {
		n.firstSeq = n.rec.seq
		n.rec.seq++
	}
}

func (n *nodeCore) behFor(ids []uint64) Beh {
	for _, o := range n.spec.Over {
		for _, id := range ids {
			if id == o.Item {
				return o.Beh
			}
		}
	}
	return n.spec.Default
}

func (n *nodeCore) do(ctx context.Context, ids []uint64) error {
	if n.deaf {
		ctx = context.Background()
	}
	n.rec.mu.Lock()
	if n.rec.closed {
		n.rec.mu.Unlock()
		return errors.New("scenario over")
	}
	n.reached = true
	// The node honours the request context in every method the way the HTTP client does: a request
	// made with a finished context fails with the context's error without reaching the node ...
	if err := ctx.Err(); err != nil {
		if !n.rec.warming {
			n.touchLocked()
			n.cuts = append(n.cuts, CutRec{At: uint64(time.Since(n.rec.start) / time.Millisecond)}) // never reached the node, whatever its script
		}
		n.rec.mu.Unlock()
		return err
	}
	if !n.rec.warming {
		n.touchLocked()
		n.calls = append(n.calls, Call{At: uint64(time.Since(n.rec.start) / time.Millisecond), IDs: ids})
	}
	n.rec.mu.Unlock()
	b := n.behFor(ids)
	if b.Hang {
		select {
		case <-ctx.Done():
			n.noteCut(true)
			return ctx.Err()
		case <-n.rec.release:
			return errors.New("scenario over")
		}
	}
	// ... and a request in flight ends with the context's error as soon as the context is finished.
	if b.Delay > 0 {
		tm := time.NewTimer(time.Duration(b.Delay) * time.Millisecond)
		select {
		case <-tm.C:
		case <-ctx.Done():
			tm.Stop()
			n.noteCut(false)
			return ctx.Err()
		}
	}
	if b.Err == nil {
		return nil
	}
	return errors.New(renderError(b.Err, n.spec.Client))
}

const foreign = 1 << 40 // id of an item the harness did not put into the payload

func (n *nodeCore) SubmitAttestations(ctx context.Context, xs []*phase0.Attestation) error {
	ids := make([]uint64, len(xs))
	for i, x := range xs {
		ids[i] = foreign
		if x != nil && x.Data != nil {
			ids[i] = uint64(x.Data.Index)
		}
	}
	return n.do(ctx, ids)
}

func (n *nodeCore) SubmitProposal(ctx context.Context, opts *api.SubmitProposalOpts) error {
	id := uint64(foreign)
	if opts != nil && opts.Proposal == n.proposal {
		id = 0
	}
	return n.do(ctx, []uint64{id})
}

func (n *nodeCore) SubmitAggregateAttestations(ctx context.Context, xs []*phase0.SignedAggregateAndProof) error {
	ids := make([]uint64, len(xs))
	for i, x := range xs {
		ids[i] = foreign
		if x != nil && x.Message != nil {
			ids[i] = uint64(x.Message.AggregatorIndex)
		}
	}
	return n.do(ctx, ids)
}

func (n *nodeCore) SubmitSyncCommitteeMessages(ctx context.Context, xs []*altair.SyncCommitteeMessage) error {
	ids := make([]uint64, len(xs))
	for i, x := range xs {
		ids[i] = foreign
		if x != nil {
			ids[i] = uint64(x.ValidatorIndex)
		}
	}
	return n.do(ctx, ids)
}

func (n *nodeCore) SubmitSyncCommitteeContributions(ctx context.Context, xs []*altair.SignedContributionAndProof) error {
	ids := make([]uint64, len(xs))
	for i, x := range xs {
		ids[i] = foreign
		if x != nil && x.Message != nil {
			ids[i] = uint64(x.Message.AggregatorIndex)
		}
	}
	return n.do(ctx, ids)
}

func (n *nodeCore) SubmitBeaconCommitteeSubscriptions(ctx context.Context, xs []*apiv1.BeaconCommitteeSubscription) error {
	ids := make([]uint64, len(xs))
	for i, x := range xs {
		ids[i] = foreign
		if x != nil {
			ids[i] = uint64(x.ValidatorIndex)
		}
	}
	return n.do(ctx, ids)
}

func (n *nodeCore) SubmitSyncCommitteeSubscriptions(ctx context.Context, xs []*apiv1.SyncCommitteeSubscription) error {
	ids := make([]uint64, len(xs))
	for i, x := range xs {
		ids[i] = foreign
		if x != nil {
			ids[i] = uint64(x.ValidatorIndex)
		}
	}
	return n.do(ctx, ids)
}

func (n *nodeCore) SubmitProposalPreparations(ctx context.Context, xs []*apiv1.ProposalPreparation) error {
	ids := make([]uint64, len(xs))
	for i, x := range xs {
		ids[i] = foreign
		if x != nil {
			ids[i] = uint64(x.ValidatorIndex)
		}
	}
	return n.do(ctx, ids)
}

// nodeV adds the NodeVersionProvider (and Service) side that helpers.go serviceInfo looks for.
type nodeV struct{ *nodeCore }

func (n nodeV) NodeVersion(ctx context.Context, _ *api.NodeVersionOpts) (*api.Response[string], error) {
	if n.deaf {
		ctx = context.Background()
	}
	n.rec.mu.Lock()
	if n.rec.closed {
		n.rec.mu.Unlock()
		return nil, errors.New("scenario over")
	}
	if !n.rec.warming {
		n.touchLocked()
	}
	phase := 0
	if n.reached {
		phase = 1
	}
	vb := n.spec.ver(phase)
	n.rec.mu.Unlock()
	if err := ctx.Err(); err != nil {
		// a version request made with a finished context fails like any other request
		n.noteCut(vb.Hang)
		return nil, err
	}
	// the version endpoint has a latency of its own (it is a request to the node like any other) ...
	if vb.Hang {
		select {
		case <-ctx.Done():
			n.noteCut(true)
			return nil, ctx.Err()
		case <-n.rec.release:
			return nil, errors.New("scenario over")
		}
	}
	if vb.Delay > 0 {
		tm := time.NewTimer(time.Duration(vb.Delay) * time.Millisecond)
		select {
		case <-tm.C:
		case <-ctx.Done():
			tm.Stop()
			n.noteCut(false)
			return nil, ctx.Err()
		}
	}
	if n.spec.Client == "unknown" && n.spec.Style%3 == 1 {
		return nil, errors.New("node version unavailable")
	}
	vs := versionStrings[n.spec.Client]
	return &api.Response[string]{Data: vs[n.spec.Style%len(vs)], Metadata: map[string]any{}}, nil
}
func (n nodeV) Name() string    { return "mock" }
func (n nodeV) Address() string { return "mock:5052" }
func (n nodeV) IsActive() bool  { return true }
func (n nodeV) IsSynced() bool  { return true }

type submitterAll interface {
	eth2client.AttestationsSubmitter
	eth2client.ProposalSubmitter
	eth2client.AggregateAttestationsSubmitter
	eth2client.SyncCommitteeMessagesSubmitter
	eth2client.SyncCommitteeContributionsSubmitter
	eth2client.BeaconCommitteeSubscriptionsSubmitter
	eth2client.SyncCommitteeSubscriptionsSubmitter
	eth2client.ProposalPreparationsSubmitter
}

func asSubmitter(n *nodeCore) submitterAll {
	if n.spec.Client == "unknown" && n.spec.Style%3 == 2 {
		return n
	}
	return nodeV{n}
}

// ---------------------------------------------------------------------------------------------
// Payloads: item i carries id i in a field the mock reads back.

func attData() *phase0.AttestationData {
	return &phase0.AttestationData{Slot: 12345, Source: &phase0.Checkpoint{Epoch: 384}, Target: &phase0.Checkpoint{Epoch: 385}}
}

// newProposal: the versions for which go-eth2-client v0.21's VersionedSignedProposal.Slot() works
// (it reports phase0/altair proposals as unsupported, and vouch then submits nothing).
func newProposal(variant int) *api.VersionedSignedProposal {
	switch variant % 6 {
	case 0:
		return &api.VersionedSignedProposal{Version: spec.DataVersionDeneb, Deneb: &apiv1deneb.SignedBlockContents{
			SignedBlock: &deneb.SignedBeaconBlock{Message: &deneb.BeaconBlock{Slot: 12345}}}}
	case 1:
		return &api.VersionedSignedProposal{Version: spec.DataVersionDeneb, Blinded: true,
			DenebBlinded: &apiv1deneb.SignedBlindedBeaconBlock{Message: &apiv1deneb.BlindedBeaconBlock{Slot: 12345}}}
	case 2:
		return &api.VersionedSignedProposal{Version: spec.DataVersionCapella,
			Capella: &capella.SignedBeaconBlock{Message: &capella.BeaconBlock{Slot: 12345}}}
	case 3:
		return &api.VersionedSignedProposal{Version: spec.DataVersionCapella, Blinded: true,
			CapellaBlinded: &apiv1capella.SignedBlindedBeaconBlock{Message: &apiv1capella.BlindedBeaconBlock{Slot: 12345}}}
	case 4:
		return &api.VersionedSignedProposal{Version: spec.DataVersionBellatrix,
			Bellatrix: &bellatrix.SignedBeaconBlock{Message: &bellatrix.BeaconBlock{Slot: 12345}}}
	default:
		return &api.VersionedSignedProposal{Version: spec.DataVersionBellatrix, Blinded: true,
			BellatrixBlinded: &apiv1bellatrix.SignedBlindedBeaconBlock{Message: &apiv1bellatrix.BlindedBeaconBlock{Slot: 12345}}}
	}
}

func millis(d time.Duration) uint64 { return uint64(d / time.Millisecond) }

func logLevel(in Input) zerolog.Level {
	if in.Trace {
		return zerolog.TraceLevel
	}
	return zerolog.Disabled
}

// horizon: by then every call that ever returns has returned, whatever the semaphore order.
func horizon(in Input) time.Duration {
	total := in.TimeoutMs + 1000
	for _, nd := range in.Nodes {
		m := nd.Default.Delay
		for _, o := range nd.Over {
			if o.Beh.Delay > m {
				m = o.Beh.Delay
			}
		}
		total += m + in.MonMs
		for _, v := range nd.Ver {
			total += v.Delay
		}
	}
	// a call that (wrongly) waits for the caller's deadline is seen to return then
	if in.DeadlineMs+1 > total {
		total = in.DeadlineMs + 1
	}
	return time.Duration(total) * time.Millisecond
}

func runSubmit(t *testing.T, in Input) Obs {
	var obs Obs
	synctest.Test(t, func(t *testing.T) {
		rec := &recorder{start: time.Now(), release: make(chan struct{})}
		ctx, cancel := context.WithCancel(context.Background())
		defer cancel()
		proposal := newProposal(in.Variant)
		cores := make([]*nodeCore, len(in.Nodes))
		mAtt := map[string]eth2client.AttestationsSubmitter{}
		mProp := map[string]eth2client.ProposalSubmitter{}
		mAgg := map[string]eth2client.AggregateAttestationsSubmitter{}
		mSM := map[string]eth2client.SyncCommitteeMessagesSubmitter{}
		mSC := map[string]eth2client.SyncCommitteeContributionsSubmitter{}
		mBS := map[string]eth2client.BeaconCommitteeSubscriptionsSubmitter{}
		mSS := map[string]eth2client.SyncCommitteeSubscriptionsSubmitter{}
		mPP := map[string]eth2client.ProposalPreparationsSubmitter{}
		for i, nd := range in.Nodes {
			cores[i] = &nodeCore{rec: rec, spec: nd, proposal: proposal, firstSeq: -1, deaf: in.Deaf && in.DeadlineMs > 0}
			s := asSubmitter(cores[i])
			name := fmt.Sprintf("node%d:5052", i)
			mAtt[name], mProp[name], mAgg[name], mSM[name], mSC[name], mBS[name], mSS[name], mPP[name] = s, s, s, s, s, s, s, s
		}
		var monitor metrics.ClientMonitor = nullmetrics.New()
		if in.MonMs > 0 {
			monitor = slowMonitor{d: time.Duration(in.MonMs) * time.Millisecond, rec: rec}
		}
		svc, err := multinode.New(ctx,
			multinode.WithLogLevel(logLevel(in)),
			multinode.WithClientMonitor(monitor),
			multinode.WithTimeout(time.Duration(in.TimeoutMs)*time.Millisecond),
			multinode.WithProcessConcurrency(in.Conc),
			multinode.WithAttestationsSubmitters(mAtt),
			multinode.WithProposalSubmitters(mProp),
			multinode.WithAggregateAttestationsSubmitters(mAgg),
			multinode.WithSyncCommitteeMessagesSubmitters(mSM),
			multinode.WithSyncCommitteeContributionsSubmitters(mSC),
			multinode.WithBeaconCommitteeSubscriptionsSubmitters(mBS),
			multinode.WithSyncCommitteeSubscriptionsSubmitters(mSS),
			multinode.WithProposalPreparationsSubmitters(mPP),
		)
		if err != nil {
			t.Fatalf("multinode constructor: %v", err)
		}
		submit := func(ctx context.Context) error {
			var err error
			n := in.Len
			switch in.Kind {
			case "attestations":
				xs := make([]*phase0.Attestation, n)
				for i := range xs {
					d := attData()
					d.Index = phase0.CommitteeIndex(i)
					xs[i] = &phase0.Attestation{AggregationBits: []byte{0x03}, Data: d}
				}
				err = svc.SubmitAttestations(ctx, xs)
			case "proposal":
				err = svc.SubmitProposal(ctx, proposal)
			case "aggregates":
				xs := make([]*phase0.SignedAggregateAndProof, n)
				for i := range xs {
					xs[i] = &phase0.SignedAggregateAndProof{Message: &phase0.AggregateAndProof{AggregatorIndex: phase0.ValidatorIndex(i),
						Aggregate: &phase0.Attestation{AggregationBits: []byte{0x03}, Data: attData()}}}
				}
				err = svc.SubmitAggregateAttestations(ctx, xs)
			case "syncmessages":
				xs := make([]*altair.SyncCommitteeMessage, n)
				for i := range xs {
					xs[i] = &altair.SyncCommitteeMessage{Slot: 12345, ValidatorIndex: phase0.ValidatorIndex(i)}
				}
				err = svc.SubmitSyncCommitteeMessages(ctx, xs)
			case "synccontributions":
				xs := make([]*altair.SignedContributionAndProof, n)
				for i := range xs {
					xs[i] = &altair.SignedContributionAndProof{Message: &altair.ContributionAndProof{AggregatorIndex: phase0.ValidatorIndex(i),
						Contribution: &altair.SyncCommitteeContribution{Slot: 12345}}}
				}
				err = svc.SubmitSyncCommitteeContributions(ctx, xs)
			case "beaconsubs":
				xs := make([]*apiv1.BeaconCommitteeSubscription, n)
				for i := range xs {
					xs[i] = &apiv1.BeaconCommitteeSubscription{ValidatorIndex: phase0.ValidatorIndex(i), Slot: 12345}
				}
				err = svc.SubmitBeaconCommitteeSubscriptions(ctx, xs)
			case "syncsubs":
				xs := make([]*apiv1.SyncCommitteeSubscription, n)
				for i := range xs {
					xs[i] = &apiv1.SyncCommitteeSubscription{ValidatorIndex: phase0.ValidatorIndex(i)}
				}
				err = svc.SubmitSyncCommitteeSubscriptions(ctx, xs)
			case "proposalpreps":
				xs := make([]*apiv1.ProposalPreparation, n)
				for i := range xs {
					xs[i] = &apiv1.ProposalPreparation{ValidatorIndex: phase0.ValidatorIndex(i)}
				}
				err = svc.SubmitProposalPreparations(ctx, xs)
			default:
				t.Fatalf("unknown kind %q", in.Kind)
			}
			return err
		}
		// A submission must not depend on what earlier submissions on the same service left behind
		// (goroutines still waiting for a hanging or slow node): the warm-up calls are not recorded
		// and the observed call is compared with the model of a single, independent submission.
		// The submission runs in a goroutine of its own: a Submit<Kind> that has not returned by the time
		// every scripted answer that is ever given has been given is reported as such (it can only be
		// waiting for a node that never answers) instead of blocking the scenario.
		pending := []chan error{}
		within := func(ctx context.Context) (error, bool) {
			ch := make(chan error, 1)
			go func() { ch <- submit(ctx) }()
			tm := time.NewTimer(horizon(in))
			select {
			case err := <-ch:
				tm.Stop()
				return err, true
			case <-tm.C:
				pending = append(pending, ch)
				return nil, false
			}
		}
		stuck := false
		if in.Warm > 0 {
			rec.mu.Lock()
			rec.warming = true
			rec.mu.Unlock()
			for k := 0; k < in.Warm && !stuck; k++ {
				t0 := time.Now()
				_, returned := within(ctx)
				stuck = !returned
				// let every warm-up call that ever returns return (only hanging calls stay behind)
				if d := horizon(in) - time.Since(t0); d > 0 {
					time.Sleep(d)
				}
				synctest.Wait()
			}
			rec.mu.Lock()
			rec.warming = false
			if !stuck {
				rec.start = time.Now()
			}
			for _, c := range cores {
				c.reached = false
			}
			rec.mu.Unlock()
		}
		if !stuck {
			var returned bool
			cctx := ctx
			if in.DeadlineMs > 0 {
				// the caller's own deadline, counted from the observed call
				var ccancel context.CancelFunc
				if in.Cancelled {
					cctx, ccancel = context.WithCancel(ctx)
					tm := time.AfterFunc(time.Duration(in.DeadlineMs)*time.Millisecond, ccancel)
					defer tm.Stop()
				} else {
					cctx, ccancel = context.WithTimeout(ctx, time.Duration(in.DeadlineMs)*time.Millisecond)
				}
				defer ccancel()
			}
			err, returned = within(cctx)
			stuck = !returned
		}
		obs.Success = err == nil && !stuck
		obs.Ret = millis(time.Since(rec.start))
		obs.NoReturn = stuck
		// let everything that ever finishes finish, then end the scenario
		if d := horizon(in) - time.Since(rec.start); d > 0 {
			time.Sleep(d)
		}
		synctest.Wait()
		rec.mu.Lock()
		rec.closed = true
		rec.mu.Unlock()
		close(rec.release)
		cancel()
		for _, ch := range pending {
			<-ch
		}
		synctest.Wait()
		// canonical form
		idx := make([]int, len(cores))
		for i := range idx {
			idx[i] = i
		}
		seqOf := func(i int) int {
			if cores[i].firstSeq < 0 {
				return 1<<30 + i
			}
			return cores[i].firstSeq
		}
		sort.Slice(idx, func(a, b int) bool { return seqOf(idx[a]) < seqOf(idx[b]) })
		obs.Order = idx
		obs.Nodes = make([][]Call, len(cores))
		for i, c := range cores {
			cs := append([]Call{}, c.calls...)
			first := func(c Call) uint64 {
				if len(c.IDs) == 0 {
					return 0
				}
				return c.IDs[0]
			}
			sort.SliceStable(cs, func(a, b int) bool { return first(cs[a]) < first(cs[b]) })
			obs.Nodes[i] = cs
		}
		obs.Cut = make([][]CutRec, len(cores))
		for i, c := range cores {
			cs := append([]CutRec{}, c.cuts...)
			sort.SliceStable(cs, func(a, b int) bool { return cs[a].At < cs[b].At || (cs[a].At == cs[b].At && !cs[a].Hang && cs[b].Hang) })
			obs.Cut[i] = cs
		}
	})
	return obs
}

func runScatter(in Input) Obs {
	obs := Obs{GoMax: runtime.GOMAXPROCS(0)}
	var mu sync.Mutex
	res, err := util.Scatter(in.Len, int(in.Conc), func(offset int, entries int, _ *sync.RWMutex) (interface{}, error) {
		mu.Lock()
		obs.ScCalls = append(obs.ScCalls, [2]int{offset, entries})
		mu.Unlock()
		return entries, nil
	})
	obs.ScErr = err != nil
	for _, r := range res {
		if r == nil {
			obs.ScRes = append(obs.ScRes, [2]int{-1, -1})
			continue
		}
		e, _ := r.Extent.(int)
		obs.ScRes = append(obs.ScRes, [2]int{r.Offset, e})
	}
	less := func(xs [][2]int) func(a, b int) bool {
		return func(a, b int) bool { return xs[a][0] < xs[b][0] || (xs[a][0] == xs[b][0] && xs[a][1] < xs[b][1]) }
	}
	sort.Slice(obs.ScCalls, less(obs.ScCalls))
	sort.Slice(obs.ScRes, less(obs.ScRes))
	obs.Success = err == nil
	return obs
}

func runImmediate(t *testing.T, in Input) Obs {
	var obs Obs
	synctest.Test(t, func(t *testing.T) {
		rec := &recorder{start: time.Now(), release: make(chan struct{})}
		ctx, cancel := context.WithCancel(context.Background())
		defer cancel()
		proposal := newProposal(in.Variant)
		core := &nodeCore{rec: rec, spec: in.Nodes[0], proposal: proposal, firstSeq: -1}
		s := asSubmitter(core)
		svc, err := immediate.New(ctx,
			immediate.WithLogLevel(logLevel(in)),
			immediate.WithClientMonitor(nullmetrics.New()),
			immediate.WithAttestationsSubmitter(s),
			immediate.WithProposalSubmitter(s),
			immediate.WithAggregateAttestationsSubmitter(s),
			immediate.WithSyncCommitteeMessagesSubmitter(s),
			immediate.WithSyncCommitteeContributionsSubmitter(s),
			immediate.WithBeaconCommitteeSubscriptionsSubmitter(s),
			immediate.WithSyncCommitteeSubscriptionsSubmitter(s),
			immediate.WithProposalPreparationsSubmitter(s),
		)
		if err != nil {
			t.Fatalf("immediate constructor: %v", err)
		}
		n := in.Len
		switch in.Kind {
		case "attestations":
			xs := make([]*phase0.Attestation, n)
			for i := range xs {
				d := attData()
				d.Index = phase0.CommitteeIndex(i)
				xs[i] = &phase0.Attestation{AggregationBits: []byte{0x03}, Data: d}
			}
			err = svc.SubmitAttestations(ctx, xs)
		case "proposal":
			err = svc.SubmitProposal(ctx, proposal)
		case "aggregates":
			xs := make([]*phase0.SignedAggregateAndProof, n)
			for i := range xs {
				xs[i] = &phase0.SignedAggregateAndProof{Message: &phase0.AggregateAndProof{AggregatorIndex: phase0.ValidatorIndex(i),
					Aggregate: &phase0.Attestation{AggregationBits: []byte{0x03}, Data: attData()}}}
			}
			err = svc.SubmitAggregateAttestations(ctx, xs)
		case "syncmessages":
			xs := make([]*altair.SyncCommitteeMessage, n)
			for i := range xs {
				xs[i] = &altair.SyncCommitteeMessage{Slot: 12345, ValidatorIndex: phase0.ValidatorIndex(i)}
			}
			err = svc.SubmitSyncCommitteeMessages(ctx, xs)
		case "synccontributions":
			xs := make([]*altair.SignedContributionAndProof, n)
			for i := range xs {
				xs[i] = &altair.SignedContributionAndProof{Message: &altair.ContributionAndProof{AggregatorIndex: phase0.ValidatorIndex(i),
					Contribution: &altair.SyncCommitteeContribution{Slot: 12345}}}
			}
			err = svc.SubmitSyncCommitteeContributions(ctx, xs)
		case "beaconsubs":
			xs := make([]*apiv1.BeaconCommitteeSubscription, n)
			for i := range xs {
				xs[i] = &apiv1.BeaconCommitteeSubscription{ValidatorIndex: phase0.ValidatorIndex(i), Slot: 12345}
			}
			err = svc.SubmitBeaconCommitteeSubscriptions(ctx, xs)
		case "syncsubs":
			xs := make([]*apiv1.SyncCommitteeSubscription, n)
			for i := range xs {
				xs[i] = &apiv1.SyncCommitteeSubscription{ValidatorIndex: phase0.ValidatorIndex(i)}
			}
			err = svc.SubmitSyncCommitteeSubscriptions(ctx, xs)
		case "proposalpreps":
			xs := make([]*apiv1.ProposalPreparation, n)
			for i := range xs {
				xs[i] = &apiv1.ProposalPreparation{ValidatorIndex: phase0.ValidatorIndex(i)}
			}
			err = svc.SubmitProposalPreparations(ctx, xs)
		default:
			t.Fatalf("unknown kind %q", in.Kind)
		}
		obs.Success = err == nil
		obs.Ret = millis(time.Since(rec.start))
		close(rec.release)
		obs.Nodes = [][]Call{append([]Call{}, core.calls...)}
	})
	return obs
}

func runCase(t *testing.T, in Input) Obs {
	switch in.Mode {
	case "scatter":
		return runScatter(in)
	case "immediate":
		return runImmediate(t, in)
	default:
		return runSubmit(t, in)
	}
}

// ---------------------------------------------------------------------------------------------
// Crash isolation: the scenarios run in a re-executed copy of this test binary.

type childLine struct {
	I   int `json:"i"`
	Obs Obs `json:"obs"`
}

func childMain(t *testing.T) {
	data, err := os.ReadFile(os.Getenv("C08_CHILD_INPUTS"))
	if err != nil {
		t.Fatal(err)
	}
	var ins []Input
	if err := json.Unmarshal(data, &ins); err != nil {
		t.Fatal(err)
	}
	from, _ := strconv.Atoi(os.Getenv("C08_CHILD_FROM"))
	out, err := os.OpenFile(os.Getenv("C08_CHILD_OUT"), os.O_APPEND|os.O_CREATE|os.O_WRONLY, 0o644)
	if err != nil {
		t.Fatal(err)
	}
	defer out.Close()
	// A scenario takes milliseconds of real time (its time is fake).  One that does not finish within
	// 45 s of real time is stuck where fake time cannot help (e.g. goroutines waiting for a lock held
	// across a request that is never answered): reported as a crash of that scenario.  (Once two
	// scenarios have been reported that way the parent shortens the limit to 5 s.)
	limit := time.Duration(EnvInt("C08_CHILD_WATCHDOG_S", 45)) * time.Second
	var progress atomic.Int64
	go func() {
		last, since := int64(-1), time.Now()
		for {
			time.Sleep(time.Second)
			if p := progress.Load(); p != last {
				last, since = p, time.Now()
			} else if time.Since(since) > limit {
				fmt.Fprintf(os.Stderr, "fatal error: watchdog: the scenario did not finish within %v of real time\n", limit)
				os.Exit(3)
			}
		}
	}()
	for i := from; i < len(ins); i++ {
		progress.Add(1)
		obs := runCase(t, ins[i])
		line, _ := json.Marshal(childLine{I: i, Obs: obs})
		if _, err := out.Write(append(line, '\n')); err != nil {
			t.Fatal(err)
		}
	}
}

// maxStuck: once this many scenarios have been reported as stuck by the watchdog the run has its
// failing inputs; the remaining scenarios are not run (each would cost seconds of real time).
const maxStuck = 6

func runAll(t *testing.T, ins []Input) []Obs {
	dir := os.Getenv("VERIF_OUT")
	if dir == "" {
		dir = t.TempDir()
	}
	inPath := filepath.Join(dir, "c08_inputs.json")
	outPath := filepath.Join(dir, "c08_observed.jsonl")
	data, _ := json.Marshal(ins)
	if err := os.WriteFile(inPath, data, 0o644); err != nil {
		t.Fatal(err)
	}
	os.Remove(outPath)
	res := make([]Obs, len(ins))
	done := 0
	stuck := 0
	for restarts := 0; done < len(ins); restarts++ {
		if restarts > 300 {
			t.Fatalf("more than 300 crashes of the implementation; giving up at case %d", done)
		}
		cmd := exec.Command(os.Args[0], "-test.run", "^TestC08$", "-test.count=1", "-test.timeout", "3600s")
		cmd.Env = append(os.Environ(), "C08_CHILD_INPUTS="+inPath, "C08_CHILD_FROM="+strconv.Itoa(done), "C08_CHILD_OUT="+outPath)
		if stuck >= 2 {
			cmd.Env = append(cmd.Env, "C08_CHILD_WATCHDOG_S=5")
		}
		var stderr strings.Builder
		cmd.Stderr = &stderr
		cmd.Stdout = &stderr
		runErr := cmd.Run()
		f, err := os.Open(outPath)
		if err != nil {
			t.Fatalf("child wrote nothing: %v\n%s", err, tail(stderr.String(), 2000))
		}
		sc := bufio.NewScanner(f)
		sc.Buffer(make([]byte, 1<<20), 1<<26)
		got := 0
		for sc.Scan() {
			var l childLine
			if json.Unmarshal(sc.Bytes(), &l) != nil {
				break
			}
			if l.I >= done+got {
				res[l.I] = l.Obs
				got = l.I - done + 1
			}
		}
		f.Close()
		os.Remove(outPath)
		done += got
		if done < len(ins) {
			if runErr == nil {
				t.Fatalf("child exited cleanly after %d of %d cases", done, len(ins))
			}
			// the case that was running crashed the process
			res[done] = Obs{Panic: true, PanicAt: firstPanicLine(stderr.String())}
			if strings.Contains(res[done].PanicAt, "watchdog:") {
				stuck++
			}
			done++
			if stuck >= maxStuck {
				t.Logf("C08: %d scenarios stuck in real time; the %d scenarios after them are not run", stuck, len(ins)-done)
				res = res[:done]
				break
			}
		}
	}
	os.Remove(inPath)
	return res
}

func tail(s string, n int) string {
	if len(s) > n {
		return s[len(s)-n:]
	}
	return s
}

func firstPanicLine(s string) string {
	for _, l := range strings.Split(s, "\n") {
		if strings.HasPrefix(l, "panic:") || strings.HasPrefix(l, "fatal error:") {
			if len(l) > 200 {
				l = l[:200]
			}
			return l
		}
	}
	return tail(strings.TrimSpace(s), 200)
}

// ---------------------------------------------------------------------------------------------
// Gallina terms.

func errTerm(e *ErrDesc) string {
	ents := make([]string, 0, len(e.Entries))
	for _, en := range e.Entries {
		if en == nil {
			ents = append(ents, None())
		} else {
			ents = append(ents, Some("Ph"+*en))
		}
	}
	return Record("e_shape", shapeCtor[e.Shape], "e_entries", List(ents))
}

func behTerm(b Beh) string {
	if b.Hang {
		return "BHang"
	}
	if b.Err == nil {
		return App("BReply", N(b.Delay), "RAccept")
	}
	return App("BReply", N(b.Delay), App("RError", errTerm(b.Err)))
}

func nodeTerm(nd Node) string {
	ov := make([]string, 0, len(nd.Over))
	for _, o := range nd.Over {
		ov = append(ov, Pair(N(o.Item), behTerm(o.Beh)))
	}
	vt := func(v VBeh) string {
		if v.Hang {
			return None()
		}
		return Some(N(v.Delay))
	}
	return Record("n_client", clientCtor[nd.Client], "n_default", behTerm(nd.Default), "n_over", List(ov),
		"n_ver1", vt(nd.ver(0)), "n_ver2", vt(nd.ver(1)))
}

func pairsTerm(xs [][2]int) string {
	ps := make([]string, 0, len(xs))
	for _, x := range xs {
		ps = append(ps, Pair(Z(int64(x[0])), Z(int64(x[1]))))
	}
	return List(ps)
}

func idsTerm(ids []uint64) string {
	s := make([]string, 0, len(ids))
	for _, id := range ids {
		s = append(s, N(id))
	}
	return List(s)
}

func term(id uint64, in Input, obs Obs) string {
	var body string
	switch in.Mode {
	case "scatter":
		calls := None()
		if !obs.ScErr {
			calls = Some(pairsTerm(obs.ScCalls))
		}
		body = App("CScatter", Z(int64(in.Len)), Z(in.Conc), Z(int64(obs.GoMax)), calls, pairsTerm(obs.ScRes))
	case "immediate":
		calls := []string{}
		if len(obs.Nodes) > 0 {
			for _, c := range obs.Nodes[0] {
				calls = append(calls, idsTerm(c.IDs))
			}
		}
		r := "RAccept"
		if in.Nodes[0].Default.Err != nil {
			r = App("RError", errTerm(in.Nodes[0].Default.Err))
		}
		body = App("CImmediate", N(uint64(in.Len)), r, List(calls), Bool(obs.Success))
		if len(in.Nodes[0].Over) > 0 {
			body = App("CImmediateN", nodeTerm(in.Nodes[0]), N(uint64(in.Len)), List(calls), Bool(obs.Success))
		}
	default:
		nodes := make([]string, 0, len(in.Nodes))
		for _, nd := range in.Nodes {
			nodes = append(nodes, nodeTerm(nd))
		}
		inp := Record("i_kind", kindCtor[in.Kind], "i_len", N(uint64(in.Len)), "i_conc", Z(in.Conc),
			"i_timeout", N(in.TimeoutMs), "i_nodes", List(nodes))
		order := make([]string, 0, len(obs.Order))
		for _, i := range obs.Order {
			order = append(order, Nat(i))
		}
		if obs.Panic { // nothing was observed: any order
			order = order[:0]
			for i := range in.Nodes {
				order = append(order, Nat(i))
			}
		}
		onodes := make([]string, 0, len(obs.Nodes))
		for _, cs := range obs.Nodes {
			ct := make([]string, 0, len(cs))
			for _, c := range cs {
				ct = append(ct, Pair(N(c.At), idsTerm(c.IDs)))
			}
			onodes = append(onodes, List(ct))
		}
		ocut := make([]string, 0, len(obs.Cut))
		for _, cs := range obs.Cut {
			ct := make([]string, 0, len(cs))
			for _, c := range cs {
				ct = append(ct, Pair(N(c.At), Bool(c.Hang)))
			}
			ocut = append(ocut, List(ct))
		}
		o := Record("o_panic", Bool(obs.Panic), "o_success", Bool(obs.Success), "o_ret", N(obs.Ret), "o_nodes", List(onodes),
			"o_cut", List(ocut))
		cl := None()
		if in.DeadlineMs > 0 {
			cl = Some(Record("cl_deadline", N(in.DeadlineMs), "cl_deaf", Bool(in.Deaf)))
		}
		body = App("CSubmit", inp, cl, List(order), o)
		if in.MonMs > 0 {
			body = App("CSubmitMon", N(in.MonMs), inp, List(order), o)
		}
	}
	return Record("c_id", N(id), "c_body", body)
}

// ---------------------------------------------------------------------------------------------
// Generators.

func sp(s string) *string { return &s }

// extents as util.Scatter computes them for concurrency > 0 (for tagging only)
func tagExtents(n int, conc int64) [][2]int {
	if n <= 0 || conc <= 0 {
		return nil
	}
	e := n / int(conc)
	if e == 0 {
		e = 1
	} else if n%e > 0 {
		e++
	}
	var out [][2]int
	for off := 0; off < n; off += e {
		c := e
		if off+c > n {
			c = n - off
		}
		out = append(out, [2]int{off, c})
	}
	return out
}

// genErr: an error description; want: "tol" (every entry tolerated for kind/client, if the table
// has one), "mixed" (tolerated + real), "real", "near" (near misses), "any".
func genErr(r *Rand, kind, client, want string) *ErrDesc {
	tol := tolPhrases(kind, client)
	e := &ErrDesc{Shape: "failures", Variant: r.Intn(2)}
	pick := func(xs []string) *string { return sp(xs[r.Intn(len(xs))]) }
	near := []string{"PriorSyncMsgInfix", "TekuDupSyncExt", "AggKnownInfix", "Empty", "PriorSyncMsg", "TekuDupSync", "AggKnown", "PriorAtt", "UnknownHead", "UnknownTarget"}
	n := r.Range(1, 3)
	switch want {
	case "tol":
		if len(tol) == 0 {
			// what another client would have tolerated
			for i := 0; i < n; i++ {
				e.Entries = append(e.Entries, pick(near[4:]))
			}
		} else {
			for i := 0; i < n; i++ {
				e.Entries = append(e.Entries, pick(tol))
			}
		}
	case "mixed":
		if len(tol) == 0 {
			tol = near[4:]
		}
		e.Entries = append(e.Entries, pick(tol))
		if r.Chance(1, 4) {
			e.Entries = append(e.Entries, nil)
		} else {
			e.Entries = append(e.Entries, pick([]string{"Real", "Empty", "PriorSyncMsgInfix", "AggKnownInfix", "TekuDupSyncExt"}))
		}
		if r.Bool() {
			e.Entries[0], e.Entries[1] = e.Entries[1], e.Entries[0]
		}
	case "real":
		for i := 0; i < n; i++ {
			e.Entries = append(e.Entries, sp("Real"))
		}
	case "near":
		for i := 0; i < n; i++ {
			e.Entries = append(e.Entries, pick(near))
		}
	default:
		for i := 0; i < n; i++ {
			e.Entries = append(e.Entries, pick(phraseNames))
		}
	}
	// shape
	switch k := r.Intn(20); {
	case k < 11:
		e.Shape = "failures"
	case k < 13:
		e.Shape = "plain"
	case k < 15:
		e.Shape = "garbled"
	case k < 17:
		e.Shape = "wrongtypes"
	case k < 18:
		e.Shape = "nofailures"
	case k < 19:
		e.Shape = "nullfailures"
	default:
		e.Shape = "failures"
		e.Entries = []*string{} // "failures": []
	}
	if e.Shape == "plain" {
		kept := e.Entries[:0]
		for _, en := range e.Entries {
			if en != nil {
				kept = append(kept, en)
			}
		}
		e.Entries = kept
	}
	if e.Entries == nil {
		e.Entries = []*string{}
	}
	return e
}

func genDelay(r *Rand, T uint64) uint64 {
	switch k := r.Intn(20); {
	case k < 15:
		return uint64(r.Range(1, int(T)-1))
	case k < 16:
		return T - 1
	case k < 18:
		return T + uint64(r.Range(1, 500)) // slow
	case k < 19:
		return T // tie with the timeout
	default:
		return 0 // answers at once (the signal may be sent before the caller waits)
	}
}

func genBeh(r *Rand, kind, client string, T uint64) Beh {
	switch k := r.Intn(20); {
	case k < 7:
		return Beh{Delay: genDelay(r, T)}
	case k < 9:
		return Beh{Hang: true}
	case k < 12:
		return Beh{Delay: genDelay(r, T), Err: genErr(r, kind, client, "tol")}
	case k < 14:
		return Beh{Delay: genDelay(r, T), Err: genErr(r, kind, client, "real")}
	case k < 16:
		return Beh{Delay: genDelay(r, T), Err: genErr(r, kind, client, "near")}
	case k < 17:
		return Beh{Delay: genDelay(r, T), Err: genErr(r, kind, client, "mixed")}
	default:
		return Beh{Delay: genDelay(r, T), Err: genErr(r, kind, client, "any")}
	}
}

func genClient(r *Rand, kind string) (string, int) {
	// bias towards the clients the kind's handler knows
	var c string
	switch {
	case kind == "attestations" && r.Chance(1, 2):
		c = []string{"lighthouse", "nimbus"}[r.Intn(2)]
	case kind == "syncmessages" && r.Chance(1, 2):
		c = []string{"lighthouse", "teku"}[r.Intn(2)]
	case kind == "synccontributions" && r.Chance(1, 2):
		c = "lighthouse"
	default:
		c = clients[r.Intn(len(clients))]
	}
	return c, r.Intn(6)
}

func genLen(r *Rand, kind string, conc int64) int {
	if kind == "proposal" {
		return 1
	}
	if r.Chance(1, 40) {
		return 0
	}
	if kind == "attestations" || r.Chance(1, 3) {
		// around multiples of the concurrency
		m := r.Range(0, 6)
		l := m*int(conc) + r.Range(-1, 1)
		if l < 1 {
			l = r.Range(1, 3)
		}
		if l > 48 {
			l = 48
		}
		return l
	}
	return r.Range(1, 40)
}

func genSubmit(r *Rand) Input {
	in := Input{Mode: "submit"}
	in.Kind = kinds[r.Intn(len(kinds))]
	if r.Chance(1, 5) {
		in.Kind = "attestations"
	}
	if r.Chance(1, 6) {
		in.Kind = []string{"syncmessages", "synccontributions"}[r.Intn(2)]
	}
	n := r.Range(1, 5)
	in.TimeoutMs = []uint64{200, 500, 1000, 2000}[r.Intn(4)]
	fam := r.Intn(13)
	switch {
	case fam == 0 && n > 1:
		in.Conc = int64(r.Range(1, n-1)) // below the number of nodes
	case fam <= 4:
		in.Conc = int64(n)
	default:
		in.Conc = int64(r.Range(1, n+2))
	}
	in.Len = genLen(r, in.Kind, in.Conc)
	in.Variant = r.Intn(6)
	T := in.TimeoutMs
	for i := 0; i < n; i++ {
		c, st := genClient(r, in.Kind)
		in.Nodes = append(in.Nodes, Node{Client: c, Style: st})
	}
	nd := in.Nodes
	switch fam {
	case 1: // every node rejects
		in.Tags = append(in.Tags, "all-reject")
		for i := range nd {
			nd[i].Default = Beh{Delay: genDelay(r, T), Err: genErr(r, in.Kind, nd[i].Client, []string{"real", "near", "any"}[r.Intn(3)])}
		}
	case 2: // every node rejects, one of them with what would be its client's tolerated rejection
		in.Tags = append(in.Tags, "one-duplicate-reject")
		for i := range nd {
			nd[i].Default = Beh{Delay: genDelay(r, T), Err: genErr(r, in.Kind, nd[i].Client, "real")}
		}
		j := r.Intn(n)
		e := genErr(r, in.Kind, nd[j].Client, "tol")
		if r.Chance(3, 4) {
			e.Shape = "failures"
		}
		nd[j].Default = Beh{Delay: uint64(r.Range(1, int(T)-1)), Err: e}
	case 3: // one node hangs, concurrency = number of nodes
		in.Tags = append(in.Tags, "hang-with-c=n")
		in.Conc = int64(n)
		in.Len = genLen(r, in.Kind, in.Conc)
		for i := range nd {
			nd[i].Default = genBeh(r, in.Kind, nd[i].Client, T)
		}
		nd[r.Intn(n)].Default = Beh{Hang: true}
		if n > 1 && r.Chance(2, 3) {
			j := r.Intn(n)
			if !nd[j].Default.Hang {
				nd[j].Default = Beh{Delay: uint64(r.Range(1, int(T)-1))}
			}
		}
	case 4: // error bodies without a usable failures list, on the kinds that parse bodies
		in.Tags = append(in.Tags, "body-without-failures")
		if in.Kind != "syncmessages" && in.Kind != "synccontributions" {
			in.Kind = []string{"syncmessages", "synccontributions"}[r.Intn(2)]
			in.Len = genLen(r, in.Kind, in.Conc)
		}
		for i := range nd {
			nd[i].Client = []string{"lighthouse", "teku", "lighthouse", "prysm"}[r.Intn(4)]
			e := &ErrDesc{Shape: []string{"nofailures", "nullfailures", "failures"}[r.Intn(3)], Entries: []*string{}}
			if e.Shape == "failures" && r.Bool() {
				e.Entries = []*string{nil}
				if r.Bool() {
					e.Entries = append(e.Entries, sp(append(tolPhrases(in.Kind, nd[i].Client), "Real")[0]))
				}
			}
			nd[i].Default = Beh{Delay: uint64(r.Range(1, int(T)-1)), Err: e}
			if r.Chance(1, 5) {
				nd[i].Default = genBeh(r, in.Kind, nd[i].Client, T)
			}
		}
	case 12:
		// Nobody plainly accepts in time; success can only come from a node that rejects for a reason
		// vouch tolerates from that client (the kinds that have such a table), for attestations
		// preferably with the payload split into chunks of which some are accepted and some rejected
		// for a tolerated reason at different instants (never a tolerated and a real rejection in one
		// node: that is the known finding att-chunk-mixed).
		in.Tags = append(in.Tags, "tolerated-reject-only")
		switch k := r.Intn(10); {
		case k < 6:
			in.Kind = "attestations"
		case k < 8:
			in.Kind = "syncmessages"
		default:
			in.Kind = "synccontributions"
		}
		if in.Kind == "attestations" && r.Chance(3, 4) {
			if in.Conc < 2 {
				in.Conc = int64(r.Range(2, 4))
			}
			in.Len = r.Range(2, 3*int(in.Conc))
		} else {
			in.Len = genLen(r, in.Kind, in.Conc)
			if in.Len == 0 {
				in.Len = 1
			}
		}
		tolClients := map[string][]string{"attestations": {"lighthouse", "nimbus"}, "syncmessages": {"lighthouse", "teku"},
			"synccontributions": {"lighthouse"}}[in.Kind]
		tolBeh := func(client string, d uint64) Beh {
			e := genErr(r, in.Kind, client, "tol")
			if r.Chance(5, 6) {
				e.Shape = "failures"
				if len(e.Entries) == 0 {
					e.Entries = []*string{sp(tolPhrases(in.Kind, client)[0])}
				}
			}
			return Beh{Delay: d, Err: e}
		}
		for i := range nd {
			switch k := r.Intn(8); {
			case k < 3:
				nd[i].Default = Beh{Delay: genDelay(r, T), Err: genErr(r, in.Kind, nd[i].Client, "real")}
			case k < 4:
				nd[i].Default = Beh{Hang: true}
			case k < 5:
				nd[i].Default = Beh{Delay: T + uint64(r.Range(1, 300))} // accepts, but too late
			case k < 6:
				nd[i].Default = Beh{Delay: genDelay(r, T), Err: genErr(r, in.Kind, nd[i].Client, "near")}
			default:
				nd[i].Client = tolClients[r.Intn(len(tolClients))]
				nd[i].Default = tolBeh(nd[i].Client, genDelay(r, T))
			}
		}
		j := r.Intn(n)
		nd[j].Client = tolClients[r.Intn(len(tolClients))]
		nd[j].Default = tolBeh(nd[j].Client, uint64(r.Range(1, int(T)-1)))
		if exts := tagExtents(in.Len, in.Conc); in.Kind == "attestations" && len(exts) > 1 {
			// per chunk: accepted or rejected for a tolerated reason, each at its own instant
			used := map[uint64]bool{nd[j].Default.Delay: true}
			fresh := func() uint64 {
				d := uint64(r.Range(0, int(T)-1))
				for used[d] {
					d = uint64(r.Range(1, int(T)-1))
				}
				used[d] = true
				return d
			}
			if r.Bool() {
				nd[j].Default = Beh{Delay: nd[j].Default.Delay} // the other chunks are accepted
			}
			for _, x := range r.Perm(len(exts))[:r.Range(1, len(exts)-1)] {
				b := tolBeh(nd[j].Client, fresh())
				if nd[j].Default.Err != nil && r.Bool() {
					b = Beh{Delay: b.Delay}
				}
				nd[j].Over = append(nd[j].Over, Override{Item: uint64(exts[x][0] + r.Intn(exts[x][1])), Beh: b})
			}
		}
	default:
		for i := range nd {
			nd[i].Default = genBeh(r, in.Kind, nd[i].Client, T)
		}
	}
	// earlier submissions on the same service instance (a hanging node keeps their goroutines alive)
	if fam == 3 && r.Chance(2, 3) {
		in.Warm = r.Range(1, int(in.Conc)+2)
	} else if r.Chance(1, 6) {
		in.Warm = r.Range(1, 3)
	}
	if in.Warm > 0 {
		in.Tags = append(in.Tags, "after-earlier-submissions")
	}
	// chunk-specific behaviour: only attestations are split, but the rule is the same everywhere
	if fam == 12 {
		// the family has laid out its own chunks
	} else if in.Kind == "attestations" && in.Len > 1 && r.Chance(1, 2) || in.Len > 0 && r.Chance(1, 25) {
		for i := range nd {
			if r.Chance(1, 2) {
				continue
			}
			used := map[uint64]bool{nd[i].Default.Delay: true}
			for k := r.Range(1, 2); k > 0; k-- {
				b := genBeh(r, in.Kind, nd[i].Client, T)
				// keep the chunk results at distinct instants (ties between chunks are rare on purpose)
				for !b.Hang && used[b.Delay] && !r.Chance(1, 30) {
					b.Delay = uint64(r.Range(1, int(T)+200))
				}
				used[b.Delay] = true
				nd[i].Over = append(nd[i].Over, Override{Item: uint64(r.Intn(in.Len)), Beh: b})
			}
		}
	}
	genVersions(r, &in)
	genDeadline(r, &in)
	genMonitor(r, &in)
	return in
}

// genMonitor: the service's client monitor takes time in ClientOperation (1 in 2 of the scenarios
// without a caller's deadline): whatever vouch does between a node's answer and counting it takes
// fake time here, so a caller released before the answer is counted is seen.  Drawn last.
func genMonitor(r *Rand, in *Input) {
	if in.DeadlineMs > 0 || !r.Chance(1, 2) {
		return
	}
	T := in.TimeoutMs
	switch r.Intn(6) {
	case 0:
		in.MonMs = 1
	case 1, 2, 3:
		in.MonMs = uint64(r.Range(2, 40))
	case 4:
		in.MonMs = uint64(r.Range(41, int(T)/2))
	default:
		in.MonMs = uint64(r.Range(int(T)/2, int(T)+50))
	}
	in.Tags = append(in.Tags, "monitor-slow")
}

// genDeadline: the caller's context carries a deadline of its own, different from the configured
// timeout (the callers of the submitter pass contexts bounded by the slot's schedule): beyond the
// timeout (the call must still return by the timeout), equal to it, or before it (a node that ignores
// the context and accepts between the two must still make the call succeed; nodes that honour it are
// cut by the caller, and the call still answers at the timeout or with the first acceptance).  Drawn
// last, so the rest of the scenario is what it would have been without it.
func genDeadline(r *Rand, in *Input) {
	if !r.Chance(1, 2) {
		return
	}
	T := in.TimeoutMs
	nd := in.Nodes
	switch fam := r.Intn(10); {
	case fam < 5:
		in.Tags = append(in.Tags, "deadline-long")
		switch r.Intn(4) {
		case 0:
			in.DeadlineMs = T + uint64(r.Range(1, 20))
		case 1:
			in.DeadlineMs = T * uint64(r.Range(2, 20))
		default:
			in.DeadlineMs = T + uint64(r.Range(21, 3000))
		}
		in.Deaf = r.Chance(1, 4)
		if r.Chance(1, 2) {
			// nobody accepts in time: the timeout alone ends the call
			for i := range nd {
				b := &nd[i].Default
				if b.Hang || b.Err != nil || b.Delay >= T {
					continue
				}
				switch r.Intn(3) {
				case 0:
					*b = Beh{Hang: true}
				case 1:
					b.Delay = T + uint64(r.Range(1, 300))
				default:
					b.Err = genErr(r, in.Kind, nd[i].Client, "real")
				}
			}
		}
	case fam < 6:
		in.Tags = append(in.Tags, "deadline-equal")
		in.DeadlineMs = T
		in.Deaf = r.Chance(1, 4)
	default:
		in.Tags = append(in.Tags, "deadline-short")
		in.DeadlineMs = uint64(r.Range(1, int(T)-2))
		if r.Chance(1, 3) {
			in.DeadlineMs = uint64(r.Range(int(T)/2, int(T)-2))
		}
		in.Deaf = r.Chance(2, 3)
		if r.Chance(3, 4) {
			// one node plainly accepts between the caller's deadline and the timeout
			j := r.Intn(len(nd))
			nd[j].Default = Beh{Delay: uint64(r.Range(int(in.DeadlineMs)+1, int(T)-1))}
			if r.Chance(1, 2) {
				nd[j].Ver = nil
			}
		}
	}
	// the caller cancels at that instant instead of having set a deadline
	in.Cancelled = r.Chance(1, 5)
}

// genVersions scripts the nodes' version endpoints (helpers.go serviceInfo asks every node that has
// one for its version before submitting to it, and the error classifiers ask again): slow or hanging
// at the request made before the payload is handed over and/or at the one made afterwards.  Drawn
// last, so the rest of the scenario is what it would have been without it.
func genVersions(r *Rand, in *Input) {
	if !r.Chance(2, 5) {
		return
	}
	T := in.TimeoutMs
	nd := in.Nodes
	var elig []int
	for i := range nd {
		if nd[i].hasVersionEndpoint() {
			elig = append(elig, i)
		}
	}
	if len(elig) == 0 {
		return
	}
	vdelay := func() VBeh {
		switch k := r.Intn(20); {
		case k < 14:
			return VBeh{Delay: uint64(r.Range(1, int(T)-1))}
		case k < 15:
			return VBeh{Delay: T}
		case k < 17:
			return VBeh{Delay: T + uint64(r.Range(1, 300))}
		default:
			return VBeh{Delay: uint64(r.Range(1, 20))}
		}
	}
	set := func(i, phase int, v VBeh) {
		for len(nd[i].Ver) <= phase {
			nd[i].Ver = append(nd[i].Ver, VBeh{})
		}
		nd[i].Ver[phase] = v
	}
	// somebody else plainly accepts in time (so that success via the other nodes is at stake)
	acceptor := func(not int) {
		if len(nd) > 1 && r.Chance(2, 3) {
			j := r.Intn(len(nd))
			if j != not && !nd[j].Default.Hang {
				nd[j].Default = Beh{Delay: uint64(r.Range(1, int(T)-1))}
			}
		}
	}
	switch fam := r.Intn(8); {
	case fam < 3: // slow at the first version request
		in.Tags = append(in.Tags, "version-slow")
		j := elig[r.Intn(len(elig))]
		set(j, 0, vdelay())
		for _, i := range elig {
			if i != j && r.Chance(1, 3) {
				set(i, 0, vdelay())
			}
		}
		acceptor(j)
	case fam < 5: // one node never answers the version request
		in.Tags = append(in.Tags, "version-hang")
		j := elig[r.Intn(len(elig))]
		set(j, 0, VBeh{Hang: true})
		for _, i := range elig {
			if i != j && r.Chance(1, 4) {
				set(i, 0, vdelay())
			}
		}
		if r.Chance(1, 2) && in.Conc < int64(len(nd)) {
			in.Conc = int64(len(nd))
		}
		acceptor(j)
	case fam < 7: // the classifier's version request is slow or never answered
		in.Tags = append(in.Tags, "version-again")
		for _, i := range elig {
			if r.Chance(2, 3) {
				if r.Chance(1, 4) {
					set(i, 1, VBeh{Hang: true})
				} else {
					set(i, 1, vdelay())
				}
			}
			if r.Chance(1, 4) {
				set(i, 0, vdelay())
			}
		}
	default: // anything
		in.Tags = append(in.Tags, "version-any")
		for _, i := range elig {
			for ph := 0; ph < 2; ph++ {
				switch k := r.Intn(6); {
				case k < 1:
					set(i, ph, VBeh{Hang: true})
				case k < 4:
					set(i, ph, vdelay())
				}
			}
		}
	}
}

func genScatter(r *Rand) Input {
	in := Input{Mode: "scatter"}
	switch k := r.Intn(20); {
	case k < 1:
		in.Len, in.Conc = -r.Intn(3), int64(r.Range(-2, 8))
	case k < 3:
		in.Len, in.Conc = r.Range(1, 200), int64(-r.Intn(3)) // GOMAXPROCS
	case k < 12:
		in.Conc = int64(r.Range(1, 17))
		in.Len = r.Range(0, 12)*int(in.Conc) + r.Range(-1, 1)
		if in.Len < 1 {
			in.Len = r.Range(1, 5)
		}
	default:
		in.Len, in.Conc = r.Range(1, 300), int64(r.Range(1, 40))
	}
	return in
}

func genImmediate(r *Rand) Input {
	in := Input{Mode: "immediate", Kind: kinds[r.Intn(len(kinds))]}
	in.Len = genLen(r, in.Kind, int64(r.Range(1, 6)))
	in.Variant = r.Intn(6)
	c, st := genClient(r, in.Kind)
	b := Beh{Delay: uint64(r.Range(0, 50))}
	if r.Chance(1, 2) {
		b.Err = genErr(r, in.Kind, c, []string{"tol", "real", "any"}[r.Intn(3)])
	}
	in.Nodes = []Node{{Client: c, Style: st, Default: b}}
	// The node answers per request, by the items the request carries (1 in 2): a payload larger than
	// any batch size a submitter might think of, answered differently for some of its items.  On the
	// one request that carries everything the first matching override decides.
	if in.Kind != "proposal" && r.Chance(1, 2) {
		in.Tags = append(in.Tags, "immediate-per-request")
		if r.Chance(3, 4) {
			in.Len = []int{r.Range(513, 700), r.Range(1025, 1400), r.Range(129, 400), r.Range(2049, 2500)}[r.Intn(4)]
		} else if in.Len == 0 {
			in.Len = r.Range(2, 40)
		}
		nd := &in.Nodes[0]
		rej := Beh{Delay: uint64(r.Range(0, 50)), Err: genErr(r, in.Kind, c, []string{"tol", "real", "any"}[r.Intn(3)])}
		acc := Beh{Delay: uint64(r.Range(0, 50))}
		item := func() uint64 {
			switch r.Intn(4) {
			case 0:
				return 0
			case 1:
				return uint64(in.Len - 1)
			default:
				return uint64(r.Intn(in.Len))
			}
		}
		if r.Chance(2, 3) {
			// accepts everything but a request that carries one particular item
			nd.Default = acc
			nd.Over = []Override{{Item: item(), Beh: rej}}
		} else {
			nd.Default = rej
			nd.Over = []Override{{Item: item(), Beh: acc}}
		}
		if r.Chance(1, 4) {
			b := acc
			if r.Bool() {
				b = rej
			}
			nd.Over = append(nd.Over, Override{Item: item(), Beh: b})
		}
	}
	return in
}

func gen(r *Rand) Input {
	switch k := r.Intn(20); {
	case k < 2:
		return genScatter(r)
	case k < 4:
		return genImmediate(r)
	default:
		return genSubmit(r)
	}
}

// ---------------------------------------------------------------------------------------------
// Tags and counts, computed from the input alone.

func errVisible(e *ErrDesc) (vis []string, nulls int) {
	if e.Shape == "nofailures" || e.Shape == "nullfailures" {
		return nil, 0
	}
	for _, en := range e.Entries {
		if en == nil {
			if e.Shape != "plain" {
				nulls++
			}
		} else {
			vis = append(vis, *en)
		}
	}
	return vis, nulls
}

// class of a scripted call as vouch's attestation handler sees it: "ok", "tol", "err", "hang"
func attClass(b Beh, client string) string {
	if b.Hang {
		return "hang"
	}
	if b.Err == nil {
		return "ok"
	}
	vis, _ := errVisible(b.Err)
	for _, p := range vis {
		if isTol("attestations", client, p) {
			return "tol"
		}
	}
	return "err"
}

func inputTags(in Input) []string {
	tags := append([]string{}, in.Tags...)
	add := func(s string) {
		for _, t := range tags {
			if t == s {
				return
			}
		}
		tags = append(tags, s)
	}
	add("mode:" + in.Mode)
	if in.Mode != "submit" {
		return tags
	}
	if in.Conc < int64(len(in.Nodes)) {
		add("c<n")
	}
	switch {
	case in.DeadlineMs == 0:
	case in.DeadlineMs > in.TimeoutMs:
		add("caller-deadline:after-timeout")
	case in.DeadlineMs == in.TimeoutMs:
		add("caller-deadline:at-timeout")
	default:
		add("caller-deadline:before-timeout")
	}
	if in.Deaf {
		add("nodes-ignore-context")
	}
	if in.Cancelled {
		add("caller-cancels")
	}
	if in.Len == 0 {
		add("empty-payload")
	}
	behs := func(nd Node) []Beh {
		bs := []Beh{nd.Default}
		for _, o := range nd.Over {
			bs = append(bs, o.Beh)
		}
		return bs
	}
	for _, nd := range in.Nodes {
		for ph, v := range nd.Ver {
			if !nd.hasVersionEndpoint() {
				break
			}
			switch {
			case v.Hang:
				add(fmt.Sprintf("hang-at-version-%d", ph+1))
			case v.Delay > 0:
				add(fmt.Sprintf("slow-at-version-%d", ph+1))
			}
		}
		for _, b := range behs(nd) {
			if b.Hang {
				add("hang")
				continue
			}
			if b.Delay == 0 {
				add("zero-delay")
			}
			if b.Delay == in.TimeoutMs {
				add("tie-at-timeout")
			}
			if b.Delay > in.TimeoutMs {
				add("slow")
			}
			if b.Err == nil {
				continue
			}
			vis, nulls := errVisible(b.Err)
			if nulls > 0 {
				add("null-failure")
			}
			if b.Err.Shape == "nofailures" || b.Err.Shape == "nullfailures" || (b.Err.Shape == "failures" && len(b.Err.Entries) == 0) {
				add("no-failures-list")
			}
			nt, nn := 0, 0
			for _, p := range vis {
				if isTol(in.Kind, nd.Client, p) {
					nt++
				} else {
					nn++
				}
			}
			if nt > 0 && nn == 0 && nulls == 0 {
				add("tolerated-reject:" + nd.Client)
			}
			if in.Kind == "attestations" && nt > 0 && (nn > 0 || nulls > 0) {
				// known finding: substring match on the whole text
				add("att-mixed-body")
			}
		}
		if in.Kind == "attestations" && len(nd.Over) > 0 {
			// known finding: only the last chunk error is classified
			seen := map[string]bool{}
			for _, ex := range tagExtents(in.Len, in.Conc) {
				b := nd.Default
				for _, o := range nd.Over {
					if int(o.Item) >= ex[0] && int(o.Item) < ex[0]+ex[1] {
						b = o.Beh
						break
					}
				}
				seen[attClass(b, nd.Client)] = true
			}
			if seen["tol"] && seen["err"] {
				add("att-chunk-mixed")
			}
		}
	}
	if in.Kind == "attestations" && len(tagExtents(in.Len, in.Conc)) > 1 {
		add("chunked")
	}
	return tags
}

func nontrivial(in Input) bool {
	switch in.Mode {
	case "scatter":
		return in.Len > 0
	case "immediate":
		return in.Len > 0
	}
	if in.Len == 0 && in.Kind != "beaconsubs" {
		return false
	}
	if in.DeadlineMs > 0 {
		return true
	}
	for _, nd := range in.Nodes {
		if nd.Default.Hang || nd.Default.Err != nil || nd.Default.Delay >= in.TimeoutMs || len(nd.Over) > 0 {
			return true
		}
		if nd.ver(0) != (VBeh{}) || nd.ver(1) != (VBeh{}) {
			return true
		}
	}
	return false
}

// ---------------------------------------------------------------------------------------------

func TestC08(t *testing.T) {
	zerologger.Logger = zerolog.New(io.Discard)
	if os.Getenv("C08_CHILD_INPUTS") != "" {
		childMain(t)
		return
	}
	col := NewCollector("C08", "Check.C08",
		"submit scenarios: kind x 1-5 scripted nodes (accept / reject with a structured error body / slow / hang, per chunk for attestations; every method fails with the context's error once its context is finished; the version endpoint serviceInfo queries answers at once, late or never, before and after the payload is handed over) x concurrency x payload length x the caller's context (without deadline, or with one after / at / before the configured timeout, the nodes then honouring or ignoring it), run on the real multinode service in a synctest bubble, its client monitor answering at once or (without a caller's deadline) taking fake time in every ClientOperation call; plus util.Scatter and the immediate submitter (payloads of up to 2500 items, the node answering per request by the items it carries). Non-trivial = the submission passes the empty-payload guard and at least one node does something other than answer its version request at once and accept before the timeout, or the caller's context has a deadline (scatter/immediate: non-empty input); distinct by input text")
	n := EnvInt("VERIF_N", 800)
	thorough := os.Getenv("VERIF_TIER") == "thorough"
	var ins []Input
	for _, in := range LoadInputs[Input]("C08") {
		in.Tags = append(in.Tags, "corpus")
		ins = append(ins, normalise(in))
	}
	// common.NewRand(seed) starts at position seed of ONE splitmix sequence, so seeds n and n+1 would
	// yield the same scenarios shifted by one; start from a hashed seed instead.
	rng := NewRand(NewRand(Seed()).U64())
	for i := 0; i < n; i++ {
		in := gen(rng.Fork())
		if thorough && i%2 == 1 {
			in.Trace = true
		}
		ins = append(ins, normalise(in))
	}
	obs := runAll(t, ins)
	ins = ins[:len(obs)]
	for i, in := range ins {
		col.Count("mode:" + in.Mode)
		if in.Mode == "submit" {
			col.Count("kind:" + in.Kind)
			col.Count(fmt.Sprintf("nodes:%d", len(in.Nodes)))
			if in.Conc >= int64(len(in.Nodes)) {
				col.Count("c>=n")
			} else {
				col.Count("c<n")
			}
			if obs[i].Success {
				col.Count("result:success")
			} else {
				col.Count("result:failure")
			}
			for _, nd := range in.Nodes {
				col.Count("client:" + nd.Client)
				if nd.ver(0).Hang || nd.ver(1).Hang {
					col.Count("version:hang")
				} else if nd.ver(0).Delay > 0 || nd.ver(1).Delay > 0 {
					col.Count("version:slow")
				}
			}
			if obs[i].NoReturn {
				col.Count("result:no-return")
			}
			switch {
			case in.DeadlineMs == 0:
				col.Count("caller-deadline:none")
			case in.DeadlineMs > in.TimeoutMs:
				col.Count("caller-deadline:after-timeout")
			case in.DeadlineMs == in.TimeoutMs:
				col.Count("caller-deadline:at-timeout")
			default:
				col.Count("caller-deadline:before-timeout")
			}
			if in.Deaf {
				col.Count("nodes-ignore-context")
			}
			if in.Cancelled {
				col.Count("caller-cancels")
			}
		}
		if obs[i].Panic {
			col.Count("result:panic")
		}
		key, _ := json.Marshal(in)
		id := col.NextID()
		col.Add(Case{Term: term(id, in, obs[i]), Key: string(key), Nontrivial: nontrivial(in), Tags: inputTags(in),
			Sample: map[string]any{"input": in, "observed": obs[i]}})
	}
	if err := col.Flush(); err != nil {
		t.Fatal(err)
	}
}
