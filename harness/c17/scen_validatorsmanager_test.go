// C17 scenario for services/validatorsmanager/standard: the account managers refresh the validator
// set (RefreshValidatorsFromBeaconNode, from their own refresh goroutines) while they and the
// other services look validators up (ValidatorsByIndex, ValidatorsByPubKey, ValidatorStateAtEpoch).
// Two goroutines per entry point on one real service.
package c17

import (
	"context"
	"encoding/binary"
	"sync/atomic"
	"testing"

	"github.com/attestantio/go-eth2-client/api"
	apiv1 "github.com/attestantio/go-eth2-client/api/v1"
	"github.com/attestantio/go-eth2-client/spec/phase0"
	nullmetrics "github.com/attestantio/vouch/services/metrics/null"
	standardvalidatorsmanager "github.com/attestantio/vouch/services/validatorsmanager/standard"
	"github.com/rs/zerolog"
)

func c17vmPubKey(i uint64) phase0.BLSPubKey {
	var k phase0.BLSPubKey
	k[0] = 0xa0
	binary.BigEndian.PutUint64(k[40:], i)
	return k
}

// c17vmNode answers with a fresh set of validators on every call; the size of the set changes from
// call to call and every fourth answer is empty (which the service must not install).
type c17vmNode struct{ n atomic.Uint64 }

func (p *c17vmNode) Validators(_ context.Context, _ *api.ValidatorsOpts) (*api.Response[map[phase0.ValidatorIndex]*apiv1.Validator], error) {
	n := p.n.Add(1)
	res := map[phase0.ValidatorIndex]*apiv1.Validator{}
	if n%4 != 0 {
		for i := uint64(0); i < 8+n%8; i++ {
			res[phase0.ValidatorIndex(i)] = &apiv1.Validator{
				Index:   phase0.ValidatorIndex(i),
				Balance: 32000000000,
				Status:  apiv1.ValidatorStateActiveOngoing,
				Validator: &phase0.Validator{
					PublicKey:                  c17vmPubKey(i),
					EffectiveBalance:           32000000000,
					ActivationEligibilityEpoch: phase0.Epoch(n % 3),
					ActivationEpoch:            phase0.Epoch(n % 5),
					ExitEpoch:                  0xffffffffffffffff,
					WithdrawableEpoch:          0xffffffffffffffff,
				},
			}
		}
	}
	return &api.Response[map[phase0.ValidatorIndex]*apiv1.Validator]{Data: res, Metadata: map[string]any{}}, nil
}

func init() {
	scenarios["validatorsmanager-refresh"] = scenario{"validatorsmanager_standard", func(t *testing.T) {
		ctx := context.Background()
		svc, err := standardvalidatorsmanager.New(ctx,
			standardvalidatorsmanager.WithLogLevel(zerolog.Disabled),
			standardvalidatorsmanager.WithMonitor(nullmetrics.New()),
			standardvalidatorsmanager.WithClientMonitor(nullmetrics.New()),
			standardvalidatorsmanager.WithValidatorsProvider(&c17vmNode{}),
			standardvalidatorsmanager.WithFarFutureEpoch(0xffffffffffffffff),
		)
		if err != nil {
			t.Fatalf("validators manager constructor: %v", err)
		}
		pubKeys := make([]phase0.BLSPubKey, 16)
		indices := make([]phase0.ValidatorIndex, 16)
		for i := range pubKeys {
			pubKeys[i] = c17vmPubKey(uint64(i))
			indices[i] = phase0.ValidatorIndex(i)
		}
		var found atomic.Int64
		hammer(2, 300,
			func(i int) {
				if err := svc.RefreshValidatorsFromBeaconNode(ctx, pubKeys); err != nil {
					t.Errorf("refresh: %v", err)
				}
			},
			func(i int) { found.Add(int64(len(svc.ValidatorsByIndex(ctx, indices)))) },
			func(i int) { found.Add(int64(len(svc.ValidatorsByPubKey(ctx, pubKeys)))) },
			func(i int) {
				if _, err := svc.ValidatorStateAtEpoch(ctx, phase0.ValidatorIndex(i%16), phase0.Epoch(i%7)); err == nil {
					found.Add(1)
				}
			},
		)
		if found.Load() == 0 {
			t.Fatalf("no lookup ever found a validator: the scenario does not read the refreshed maps")
		}
	}}
}
