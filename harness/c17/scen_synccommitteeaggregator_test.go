// C17 scenario for services/synccommitteeaggregator/standard: the sync committee messenger stores the
// root it signed over (SetBeaconBlockRoot) while the aggregation jobs of the same and of other
// slots (one-off scheduler jobs, hence arbitrary goroutines) read and delete the stored roots.
package c17

import (
	"context"
	"testing"

	"github.com/attestantio/go-eth2-client/spec/phase0"
	"github.com/attestantio/vouch/mock"
	mockaccountmanager "github.com/attestantio/vouch/services/accountmanager/mock"
	nullmetrics "github.com/attestantio/vouch/services/metrics/null"
	mocksigner "github.com/attestantio/vouch/services/signer/mock"
	"github.com/attestantio/vouch/services/synccommitteeaggregator"
	standardsyncaggregator "github.com/attestantio/vouch/services/synccommitteeaggregator/standard"
	"github.com/rs/zerolog"
	e2wtypes "github.com/wealdtech/go-eth2-wallet-types/v2"

	"verifharness/mocks"
)

func init() {
	scenarios["syncaggregator-roots"] = scenario{"synccommitteeaggregator_standard", func(t *testing.T) {
		ctx := context.Background()
		ct := mocks.NewChainTime(32)
		svc, err := standardsyncaggregator.New(ctx,
			standardsyncaggregator.WithLogLevel(zerolog.Disabled),
			standardsyncaggregator.WithMonitor(nullmetrics.New()),
			standardsyncaggregator.WithSpecProvider(mock.NewSpecProvider()),
			standardsyncaggregator.WithBeaconBlockRootProvider(mock.NewBeaconBlockRootProvider()),
			standardsyncaggregator.WithContributionAndProofSigner(mocksigner.New()),
			standardsyncaggregator.WithValidatingAccountsProvider(mockaccountmanager.NewValidatingAccountsProvider()),
			standardsyncaggregator.WithSyncCommitteeContributionProvider(mock.NewSyncCommitteeContributionProvider()),
			standardsyncaggregator.WithSyncCommitteeContributionsSubmitter(mock.NewSyncCommitteeContributionsSubmitter()),
			standardsyncaggregator.WithChainTime(ct),
		)
		if err != nil {
			t.Fatalf("sync committee aggregator constructor: %v", err)
		}
		// every call builds its own duty: a duty belongs to one aggregation job
		duty := func(slot phase0.Slot) *synccommitteeaggregator.Duty {
			return &synccommitteeaggregator.Duty{
				Slot:             slot,
				ValidatorIndices: []phase0.ValidatorIndex{1, 2, 3},
				SelectionProofs: map[phase0.ValidatorIndex]map[uint64]phase0.BLSSignature{
					1: {0: {1}, 2: {2}},
					2: {1: {3}},
					3: {3: {4}}, // no account: skipped
				},
				Accounts: map[phase0.ValidatorIndex]e2wtypes.Account{1: c17Account{1}, 2: c17Account{2}},
			}
		}
		// slots cycle over a small window so that aggregations find the stored root (read + delete)
		// as well as miss it (fall back to the head root)
		hammer(2, 300,
			func(i int) { svc.SetBeaconBlockRoot(phase0.Slot(i%16), phase0.Root{byte(i), byte(i >> 8)}) },
			func(i int) { svc.Aggregate(ctx, duty(phase0.Slot(i%16))) },
		)
	}}
}
