// C17 scenario dirk-churn for services/accountmanager/dirk: accounts come and go between refreshes
// (an operator adds and removes accounts in Dirk while Vouch runs), while the duty services look the
// validating accounts up.  A lookup must see the accounts of ONE refresh: either the old or the new
// set, never the public keys of one and the account objects of the other.
package c17

import (
	"context"
	"runtime"
	"sync/atomic"
	"testing"

	"github.com/attestantio/go-eth2-client/spec/phase0"
	dirkaccountmanager "github.com/attestantio/vouch/services/accountmanager/dirk"
	"github.com/google/uuid"
	"github.com/rs/zerolog"
	e2wtypes "github.com/wealdtech/go-eth2-wallet-types/v2"

	"verifharness/mocks"
)

// c17churnWallet lists all its accounts on every second listing and only the first half otherwise.
type c17churnWallet struct {
	name     string
	first, n uint64
	listings atomic.Uint64
}

func (w *c17churnWallet) ID() uuid.UUID { return uuid.UUID{0x3b, byte(w.first)} }
func (w *c17churnWallet) Type() string  { return "c17" }
func (w *c17churnWallet) Name() string  { return w.name }
func (w *c17churnWallet) Version() uint { return 1 }
func (w *c17churnWallet) Accounts(context.Context) <-chan e2wtypes.Account {
	n := w.n
	if w.listings.Add(1)%2 == 0 {
		n = w.n / 2
	}
	ch := make(chan e2wtypes.Account, n)
	for i := uint64(0); i < n; i++ {
		ch <- c17Account{w.first + i}
	}
	close(ch)
	return ch
}

// c17churnValidators yields the processor inside the lookup of the validators (the beacon node
// round trip of production sits there), otherwise as c17dirkValidators.
type c17churnValidators struct{ c17dirkValidators }

func (v *c17churnValidators) ValidatorsByPubKey(ctx context.Context, pubKeys []phase0.BLSPubKey) map[phase0.ValidatorIndex]*phase0.Validator {
	res := v.c17dirkValidators.ValidatorsByPubKey(ctx, pubKeys)
	runtime.Gosched()
	return res
}

func init() {
	scenarios["dirk-churn"] = scenario{"accountmanager_dirk", func(t *testing.T) {
		ctx := context.Background()
		ct := mocks.NewChainTime(32)
		ct.SetEpoch(5)
		vm := &c17churnValidators{}
		wallets := map[string]e2wtypes.Wallet{
			"W1": &c17churnWallet{name: "W1", first: 1, n: 8},
			"W2": &c17churnWallet{name: "W2", first: 11, n: 8},
		}
		svc := dirkaccountmanager.NewForVerifC13(ctx, zerolog.Disabled, wallets, []string{"W1", "W2"}, 2, vm, c17dirkFarFuture, ct)
		lookups := []func(i int){
			func(i int) {
				res, err := svc.ValidatingAccountsForEpoch(ctx, 6)
				if err != nil {
					t.Errorf("ValidatingAccountsForEpoch: %v", err)
				}
				for index, account := range res {
					if account == nil {
						t.Errorf("ValidatingAccountsForEpoch returned no account for validator %d", index)
						return
					}
				}
			},
			func(i int) {
				res, err := svc.ValidatingAccountsForEpochByIndex(ctx, 6, []phase0.ValidatorIndex{1, 2, 7, 8, 15, 18})
				if err != nil {
					t.Errorf("ValidatingAccountsForEpochByIndex: %v", err)
				}
				for index, account := range res {
					if account == nil {
						t.Errorf("ValidatingAccountsForEpochByIndex returned no account for validator %d", index)
						return
					}
				}
			},
		}
		wait := single(400, func(int) { svc.Refresh(ctx) })
		hammer(3, 400, lookups...)
		wait()
	}}
}
