// C17 scenario dirk-churn for services/accountmanager/dirk: accounts come and go between refreshes
// (an operator adds and removes accounts in Dirk while Vouch runs), while the duty services look the
// validating accounts up.  A lookup must see the accounts of ONE refresh: either the old or the new
// set, never the public keys of one and the account objects of the other.
package c17

import (
	"context"
	"encoding/json"
	"fmt"
	"runtime"
	"sort"
	"sync"
	"sync/atomic"
	"testing"

	"github.com/attestantio/go-eth2-client/spec/phase0"
	dirkaccountmanager "github.com/attestantio/vouch/services/accountmanager/dirk"
	"github.com/google/uuid"
	"github.com/rs/zerolog"
	e2wtypes "github.com/wealdtech/go-eth2-wallet-types/v2"

	"verifharness/mocks"
)

// c17churnWallet lists all its accounts on every second listing and only the first half otherwise.
type c17churnWallet struct {
	name     string
	first, n uint64
	listings atomic.Uint64
}

func (w *c17churnWallet) ID() uuid.UUID { return uuid.UUID{0x3b, byte(w.first)} }
func (w *c17churnWallet) Type() string  { return "c17" }
func (w *c17churnWallet) Name() string  { return w.name }
func (w *c17churnWallet) Version() uint { return 1 }
func (w *c17churnWallet) Accounts(context.Context) <-chan e2wtypes.Account {
	n := w.n
	if w.listings.Add(1)%2 == 0 {
		n = w.n / 2
	}
	ch := make(chan e2wtypes.Account, n)
	for i := uint64(0); i < n; i++ {
		ch <- c17Account{w.first + i}
	}
	close(ch)
	return ch
}

// c17churnValidators yields the processor inside the lookup of the validators (the beacon node
// round trip of production sits there), otherwise as c17dirkValidators.
type c17churnValidators struct{ c17dirkValidators }

func (v *c17churnValidators) ValidatorsByPubKey(ctx context.Context, pubKeys []phase0.BLSPubKey) map[phase0.ValidatorIndex]*phase0.Validator {
	res := v.c17dirkValidators.ValidatorsByPubKey(ctx, pubKeys)
	runtime.Gosched()
	return res
}

// c17churnData is what the scenario reports to the driver (one line "C17-DATA {json}" on stdout): the key
// sets the wallets list in the two phases, and every distinct answer of the lookups as sorted
// (validator index, account present) pairs.
type c17churnData struct {
	Listings   [][]uint64    `json:"listings"`
	Active     []uint64      `json:"active"`    // validators that the validators manager mock reports as validating at the lookup epoch
	Requested  []uint64      `json:"requested"` // indices asked for by the ByIndex lookups
	Answers    [][][2]uint64 `json:"answers"`     // ValidatingAccountsForEpoch
	AnswersIdx [][][2]uint64 `json:"answers_idx"` // ValidatingAccountsForEpochByIndex
}

type c17answerSet struct {
	mu   sync.Mutex
	seen map[string][][2]uint64
}

func (a *c17answerSet) add(res map[phase0.ValidatorIndex]e2wtypes.Account) {
	ans := make([][2]uint64, 0, len(res))
	for index, account := range res {
		present := uint64(1)
		if account == nil {
			present = 0
		}
		ans = append(ans, [2]uint64{uint64(index), present})
	}
	sort.Slice(ans, func(i, j int) bool { return ans[i][0] < ans[j][0] })
	key := fmt.Sprint(ans)
	a.mu.Lock()
	if a.seen == nil {
		a.seen = map[string][][2]uint64{}
	}
	a.seen[key] = ans
	a.mu.Unlock()
}

func (a *c17answerSet) list() [][][2]uint64 {
	a.mu.Lock()
	defer a.mu.Unlock()
	keys := make([]string, 0, len(a.seen))
	for k := range a.seen {
		keys = append(keys, k)
	}
	sort.Strings(keys)
	out := make([][][2]uint64, 0, len(keys))
	for _, k := range keys {
		out = append(out, a.seen[k])
	}
	return out
}

func init() {
	scenarios["dirk-churn"] = scenario{"accountmanager_dirk", func(t *testing.T) {
		ctx := context.Background()
		ct := mocks.NewChainTime(32)
		ct.SetEpoch(5)
		vm := &c17churnValidators{}
		w1 := &c17churnWallet{name: "W1", first: 1, n: 8}
		w2 := &c17churnWallet{name: "W2", first: 11, n: 8}
		wallets := map[string]e2wtypes.Wallet{"W1": w1, "W2": w2}
		svc := dirkaccountmanager.NewForVerifC13(ctx, zerolog.Disabled, wallets, []string{"W1", "W2"}, 2, vm, c17dirkFarFuture, ct)
		requested := []phase0.ValidatorIndex{1, 2, 7, 8, 15, 18}
		var answers, answersIdx c17answerSet
		lookups := []func(i int){
			func(i int) {
				res, err := svc.ValidatingAccountsForEpoch(ctx, 6)
				if err != nil {
					t.Errorf("ValidatingAccountsForEpoch: %v", err)
				}
				answers.add(res)
			},
			func(i int) {
				res, err := svc.ValidatingAccountsForEpochByIndex(ctx, 6, requested)
				if err != nil {
					t.Errorf("ValidatingAccountsForEpochByIndex: %v", err)
				}
				answersIdx.add(res)
			},
		}
		// ONE refresher (the wallets then change phase together: every refresh lists both in the same phase)
		wait := single(400, func(int) { svc.Refresh(ctx) })
		hammer(3, 400, lookups...)
		wait()
		data := c17churnData{Answers: answers.list(), AnswersIdx: answersIdx.list()}
		for _, r := range requested {
			data.Requested = append(data.Requested, uint64(r))
		}
		for _, half := range []bool{false, true} {
			var l []uint64
			for _, w := range []*c17churnWallet{w1, w2} {
				n := w.n
				if half {
					n = w.n / 2
				}
				for i := uint64(0); i < n; i++ {
					l = append(l, w.first+i)
				}
			}
			data.Listings = append(data.Listings, l)
		}
		for _, k := range data.Listings[0] {
			if k%5 != 0 { // c17dirkValidators: every fifth validator has exited
				data.Active = append(data.Active, k)
			}
		}
		js, _ := json.Marshal(data)
		fmt.Printf("\n%s %s\n", dataMarker, js)
	}}
}
