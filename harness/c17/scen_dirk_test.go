// C17 scenarios for services/accountmanager/dirk.
//
// dirk-accounts: the service over injected wallets (constructor of verif_hooks_c13.go: everything New
// does after parameter parsing, without TLS credentials), every refresh installing a new accounts
// map and public key list while the duty services look accounts up (fields accounts, pubKeys under
// `mutex`).
//
// dirk-wallets: the service built by the public constructor with several wallets on an endpoint
// where nothing listens: the first refresh opens the wallets in parallel (field wallets under
// `walletsMutex`; dirk.Open does not connect), the later refreshes find them there.  Listing the
// accounts fails (connection refused on the loopback interface), which leaves the accounts empty.
package c17

import (
	"context"
	"encoding/binary"
	"sync/atomic"
	"testing"
	"time"

	apiv1 "github.com/attestantio/go-eth2-client/api/v1"
	"github.com/attestantio/go-eth2-client/spec/phase0"
	"github.com/attestantio/vouch/mock"
	dirkaccountmanager "github.com/attestantio/vouch/services/accountmanager/dirk"
	nullmetrics "github.com/attestantio/vouch/services/metrics/null"
	"github.com/attestantio/vouch/testing/resources"
	"github.com/google/uuid"
	"github.com/rs/zerolog"
	e2wtypes "github.com/wealdtech/go-eth2-wallet-types/v2"

	"verifharness/mocks"
)

const c17dirkFarFuture = phase0.Epoch(0xffffffffffffffff)

// c17dirkWallet lists a fixed set of accounts (new account objects on every listing).
type c17dirkWallet struct {
	name     string
	first, n uint64
	listings atomic.Uint64
}

func (w *c17dirkWallet) ID() uuid.UUID { return uuid.UUID{0x3a, byte(w.first)} }
func (w *c17dirkWallet) Type() string  { return "c17" }
func (w *c17dirkWallet) Name() string  { return w.name }
func (w *c17dirkWallet) Version() uint { return 1 }
func (w *c17dirkWallet) Accounts(context.Context) <-chan e2wtypes.Account {
	w.listings.Add(1)
	ch := make(chan e2wtypes.Account, w.n)
	for i := uint64(0); i < w.n; i++ {
		ch <- c17Account{w.first + i}
	}
	close(ch)
	return ch
}

// c17dirkValidators is the validators manager: every known public key (c17PubKey layout) is an
// active validator whose index is the key's number; keys of another layout are unknown.
type c17dirkValidators struct {
	refreshes atomic.Uint64
}

func (v *c17dirkValidators) RefreshValidatorsFromBeaconNode(context.Context, []phase0.BLSPubKey) error {
	v.refreshes.Add(1)
	return nil
}
func (*c17dirkValidators) ValidatorsByIndex(context.Context, []phase0.ValidatorIndex) map[phase0.ValidatorIndex]*phase0.Validator {
	return map[phase0.ValidatorIndex]*phase0.Validator{}
}
func (*c17dirkValidators) ValidatorsByPubKey(_ context.Context, pubKeys []phase0.BLSPubKey) map[phase0.ValidatorIndex]*phase0.Validator {
	res := make(map[phase0.ValidatorIndex]*phase0.Validator, len(pubKeys))
	for _, pk := range pubKeys {
		idx := binary.BigEndian.Uint64(pk[40:])
		v := &phase0.Validator{PublicKey: pk, WithdrawalCredentials: make([]byte, 32), EffectiveBalance: 32000000000,
			ActivationEligibilityEpoch: 0, ActivationEpoch: 0, ExitEpoch: c17dirkFarFuture, WithdrawableEpoch: c17dirkFarFuture}
		if idx%5 == 0 {
			v.ExitEpoch, v.WithdrawableEpoch = 3, 300 // exited: still eligible for sync committees
		}
		res[phase0.ValidatorIndex(idx)] = v
	}
	return res
}
func (*c17dirkValidators) ValidatorStateAtEpoch(context.Context, phase0.ValidatorIndex, phase0.Epoch) (apiv1.ValidatorState, error) {
	return apiv1.ValidatorStateActiveOngoing, nil
}

// c17dirkLookups are the read entry points of the account manager.
func c17dirkLookups(t *testing.T, svc *dirkaccountmanager.Service, wantAccounts bool) []func(i int) {
	ctx := context.Background()
	var key1 phase0.BLSPubKey
	copy(key1[:], c17PubKey{1}.Marshal())
	check := func(what string, n int, err error) {
		if err != nil {
			t.Errorf("%s: %v", what, err)
		}
		if wantAccounts && n == 0 {
			t.Errorf("%s: no accounts", what)
		}
	}
	return []func(i int){
		func(i int) {
			res, err := svc.ValidatingAccountsForEpoch(ctx, phase0.Epoch(5+i%2)) // epoch 5 is the current epoch: metrics branch
			check("ValidatingAccountsForEpoch", len(res), err)
		},
		func(i int) {
			res, err := svc.ValidatingAccountsForEpochByIndex(ctx, 5, []phase0.ValidatorIndex{1, 2, 7, 99})
			check("ValidatingAccountsForEpochByIndex", len(res), err)
		},
		func(i int) {
			res, err := svc.SyncCommitteeAccountsForEpoch(ctx, phase0.Epoch(5+i%2))
			check("SyncCommitteeAccountsForEpoch", len(res), err)
		},
		func(i int) {
			res, err := svc.SyncCommitteeAccountsForEpochByIndex(ctx, 5, []phase0.ValidatorIndex{1, 5, 10, 99})
			check("SyncCommitteeAccountsForEpochByIndex", len(res), err)
		},
		func(i int) {
			_, err := svc.AccountByPublicKey(ctx, key1)
			if wantAccounts && err != nil {
				t.Errorf("AccountByPublicKey: %v", err)
			}
			_, _ = svc.AccountByPublicKey(ctx, phase0.BLSPubKey{0xee, byte(i)})
		},
	}
}

func init() {
	scenarios["dirk-accounts"] = scenario{"accountmanager_dirk", func(t *testing.T) {
		ctx := context.Background()
		ct := mocks.NewChainTime(32)
		ct.SetEpoch(5)
		vm := &c17dirkValidators{}
		wallets := map[string]e2wtypes.Wallet{
			"W1": &c17dirkWallet{name: "W1", first: 1, n: 6},
			"W2": &c17dirkWallet{name: "W2", first: 7, n: 6},
			"W3": &c17dirkWallet{name: "W3", first: 13, n: 6},
		}
		// W1: short-circuit (whole wallet), W2: two regular expressions, W3: one that leaves some accounts out
		paths := []string{"W1", "W2/validator-[0-9]$", "W2/validator-1[0-9]", "W3/validator-1[3-6]"}
		svc := dirkaccountmanager.NewForVerifC13(ctx, zerolog.Disabled, wallets, paths, 2, vm, c17dirkFarFuture, ct)
		if vm.refreshes.Load() != 1 {
			t.Fatalf("the constructor's refresh found no accounts")
		}
		// the refresher of the controller and the epoch-boundary refresh may overlap: two goroutines
		fs := append(c17dirkLookups(t, svc, true), func(i int) { svc.Refresh(ctx) })
		hammer(2, 80, fs...)
		if vm.refreshes.Load() < 3 {
			t.Errorf("refreshes that reached the validators manager: %d", vm.refreshes.Load())
		}
	}}

	scenarios["dirk-wallets"] = scenario{"accountmanager_dirk", func(t *testing.T) {
		ctx := context.Background()
		ct := mocks.NewChainTime(32)
		ct.SetEpoch(5)
		svc, err := dirkaccountmanager.New(ctx,
			dirkaccountmanager.WithLogLevel(zerolog.Disabled),
			dirkaccountmanager.WithMonitor(nullmetrics.New()),
			dirkaccountmanager.WithClientMonitor(nullmetrics.New()),
			dirkaccountmanager.WithTimeout(500*time.Millisecond),
			dirkaccountmanager.WithProcessConcurrency(8),
			dirkaccountmanager.WithEndpoints([]string{"127.0.0.1:1"}), // nothing listens there
			dirkaccountmanager.WithAccountPaths([]string{"W1", "W2/a.*", "W3", "W4", "W5/b", "W6", "W7", "W8"}),
			dirkaccountmanager.WithClientCert([]byte(resources.ClientTest01Crt)),
			dirkaccountmanager.WithClientKey([]byte(resources.ClientTest01Key)),
			dirkaccountmanager.WithCACert([]byte(resources.CACrt)),
			dirkaccountmanager.WithValidatorsManager(&c17dirkValidators{}),
			dirkaccountmanager.WithDomainProvider(mock.NewDomainProvider()),
			dirkaccountmanager.WithFarFutureEpochProvider(mock.NewFarFutureEpochProvider(c17dirkFarFuture)),
			dirkaccountmanager.WithCurrentEpochProvider(ct),
		)
		if err != nil {
			t.Fatalf("dirk account manager constructor: %v", err)
		}
		fs := append(c17dirkLookups(t, svc, false), func(i int) { svc.Refresh(ctx) })
		hammer(2, 10, fs...)
	}}
}
