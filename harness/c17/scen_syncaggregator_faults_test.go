// C17 scenario syncaggregator-faults: the sync committee aggregator of scenario syncaggregator-roots with the
// FAILURE exits of Aggregate taken: the beacon node fails to provide a contribution, the signer fails, the
// submission fails, the duty has no account (all of them after the aggregation has taken the slot's root out of
// the store).  The messenger jobs of the neighbouring slots (SetBeaconBlockRoot: insert + prune, ranging over the
// store) and other aggregations run on the same service meanwhile, as the one-off scheduler jobs of production do.
// Whatever an aggregation does with the store on its way out of a failure (put the root back, note the failure)
// happens while those run: it has to happen under the store's mutex.
//
// Seeded change C17-11 (a deferred "restore the root" on the failure exits that does not take the mutex) never ran
// in the scenarios whose collaborators always succeed.
package c17

import (
	"context"
	"errors"
	"runtime"
	"sync/atomic"
	"testing"

	"github.com/attestantio/go-eth2-client/api"
	"github.com/attestantio/go-eth2-client/spec/altair"
	"github.com/attestantio/go-eth2-client/spec/phase0"
	"github.com/attestantio/vouch/mock"
	mockaccountmanager "github.com/attestantio/vouch/services/accountmanager/mock"
	nullmetrics "github.com/attestantio/vouch/services/metrics/null"
	mocksigner "github.com/attestantio/vouch/services/signer/mock"
	"github.com/attestantio/vouch/services/synccommitteeaggregator"
	standardsyncaggregator "github.com/attestantio/vouch/services/synccommitteeaggregator/standard"
	bitfield "github.com/prysmaticlabs/go-bitfield"
	"github.com/rs/zerolog"
	e2wtypes "github.com/wealdtech/go-eth2-wallet-types/v2"

	"verifharness/mocks"
)

// c17faultyContributions fails every third request (and honours a cancelled context).
type c17faultyContributions struct{ n atomic.Uint64 }

func (p *c17faultyContributions) SyncCommitteeContribution(ctx context.Context, opts *api.SyncCommitteeContributionOpts) (*api.Response[*altair.SyncCommitteeContribution], error) {
	if err := ctx.Err(); err != nil {
		return nil, err
	}
	if p.n.Add(1)%3 == 0 {
		return nil, errors.New("c17: no contribution available")
	}
	return &api.Response[*altair.SyncCommitteeContribution]{
		Data: &altair.SyncCommitteeContribution{
			Slot:              opts.Slot,
			BeaconBlockRoot:   opts.BeaconBlockRoot,
			SubcommitteeIndex: opts.SubcommitteeIndex,
			AggregationBits:   bitfield.NewBitvector128(),
		},
		Metadata: map[string]any{},
	}, nil
}

// c17faultySigner fails every fifth signing request.
type c17faultySigner struct {
	n    atomic.Uint64
	next interface {
		SignContributionAndProofs(ctx context.Context, accounts []e2wtypes.Account, contributionAndProofs []*altair.ContributionAndProof) ([]phase0.BLSSignature, error)
	}
}

func (p *c17faultySigner) SignContributionAndProofs(ctx context.Context, accounts []e2wtypes.Account, contributionAndProofs []*altair.ContributionAndProof) ([]phase0.BLSSignature, error) {
	if p.n.Add(1)%5 == 0 {
		return nil, errors.New("c17: signer unavailable")
	}
	return p.next.SignContributionAndProofs(ctx, accounts, contributionAndProofs)
}

// c17faultySubmitter fails every fourth submission.
type c17faultySubmitter struct{ n atomic.Uint64 }

func (p *c17faultySubmitter) SubmitSyncCommitteeContributions(ctx context.Context, _ []*altair.SignedContributionAndProof) error {
	if err := ctx.Err(); err != nil {
		return err
	}
	if p.n.Add(1)%4 == 0 {
		return errors.New("c17: submission refused")
	}
	return nil
}

func init() {
	scenarios["syncaggregator-faults"] = scenario{"synccommitteeaggregator_standard", func(t *testing.T) {
		ctx := context.Background()
		ct := mocks.NewChainTime(32)
		contributions := &c17faultyContributions{}
		signer := &c17faultySigner{next: mocksigner.New()}
		submitter := &c17faultySubmitter{}
		svc, err := standardsyncaggregator.New(ctx,
			standardsyncaggregator.WithLogLevel(zerolog.Disabled),
			standardsyncaggregator.WithMonitor(nullmetrics.New()),
			standardsyncaggregator.WithSpecProvider(mock.NewSpecProvider()),
			standardsyncaggregator.WithBeaconBlockRootProvider(mock.NewBeaconBlockRootProvider()),
			standardsyncaggregator.WithContributionAndProofSigner(signer),
			standardsyncaggregator.WithValidatingAccountsProvider(mockaccountmanager.NewValidatingAccountsProvider()),
			standardsyncaggregator.WithSyncCommitteeContributionProvider(contributions),
			standardsyncaggregator.WithSyncCommitteeContributionsSubmitter(submitter),
			standardsyncaggregator.WithChainTime(ct),
		)
		if err != nil {
			t.Fatalf("sync committee aggregator constructor: %v", err)
		}
		duty := func(slot phase0.Slot, i int) *synccommitteeaggregator.Duty {
			d := &synccommitteeaggregator.Duty{
				Slot:             slot,
				ValidatorIndices: []phase0.ValidatorIndex{1, 2},
				SelectionProofs: map[phase0.ValidatorIndex]map[uint64]phase0.BLSSignature{
					1: {0: {1}},
					2: {1: {3}},
				},
				Accounts: map[phase0.ValidatorIndex]e2wtypes.Account{1: c17Account{1}, 2: c17Account{2}},
			}
			if i%11 == 0 {
				// exited validators still in the sync committee: nothing to aggregate for
				d.Accounts = map[phase0.ValidatorIndex]e2wtypes.Account{}
			}
			return d
		}
		var cancelled atomic.Int64
		hammer(2, 300,
			// the messenger jobs of other slots
			func(i int) {
				svc.SetBeaconBlockRoot(phase0.Slot(i%16), phase0.Root{byte(i), byte(i >> 8)})
				runtime.Gosched()
			},
			// a slot's messenger job stores the root, its aggregation job takes it (and, two times out of three,
			// fails somewhere after that); yielding between the operations makes the jobs of the goroutines
			// alternate even on one processor, as jobs separated by seconds do
			func(i int) {
				slot := phase0.Slot(16 + i%16)
				svc.SetBeaconBlockRoot(slot, phase0.Root{byte(i), byte(i >> 8), 1})
				runtime.Gosched()
				svc.Aggregate(ctx, duty(slot, i))
				runtime.Gosched()
			},
			func(i int) { svc.Aggregate(ctx, duty(phase0.Slot(i%16), i)); runtime.Gosched() },
			func(i int) {
				// the aggregation job of a slot whose deadline passes while it runs
				if i%8 != 0 {
					return
				}
				cctx, cancel := context.WithCancel(ctx)
				cancel()
				svc.Aggregate(cctx, duty(phase0.Slot(i%16), i+1))
				cancelled.Add(1)
			},
		)
		if contributions.n.Load() < 6 || signer.n.Load() < 10 || submitter.n.Load() < 8 {
			t.Fatalf("the failure exits were not all taken: %d contribution requests, %d signing requests, %d submissions",
				contributions.n.Load(), signer.n.Load(), submitter.n.Load())
		}
	}}
}
