// C17 scenario cache-linear: the block root to slot cache under overlapping sets, lookups (with miss fills from
// the node) and the periodic clean, observed as a HISTORY: every completed operation on a tracked root and every
// clean with a stamp taken before the call and one after the return (one atomic counter).  The check decides on the
// history whether every lookup result is one that some sequential order of the overlapping operations can produce
// (coq/Model/C17_Cache.v, lin_ok): a mapping that was set, or fetched from the node, before a lookup began is found
// unless a clean that removes its slot may sit in between; a slot that is found was put there.
//
// This is what the race detector cannot see: an operation made of several critical sections (every access locked,
// no data race) that loses an update made between its sections.
//
// Goroutine structure as in production: ONE goroutine for the periodic clean job, ONE for the block event
// subscription (the cache's own handler), two for SetBlockRootToSlot from elsewhere (the controller's block event
// handler) and two for BlockRootToSlot (attestation / sync committee paths).  Per round: stale entries are put in
// (the clean has something to remove), then the clean runs while the others work; when all have returned a sweep
// looks every tracked root up.
package c17

import (
	"context"
	"encoding/binary"
	"encoding/hex"
	"encoding/json"
	"errors"
	"fmt"
	"runtime"
	"sort"
	"strings"
	"sync"
	"sync/atomic"
	"testing"

	"github.com/attestantio/go-eth2-client/api"
	apiv1 "github.com/attestantio/go-eth2-client/api/v1"
	"github.com/attestantio/go-eth2-client/spec"
	"github.com/attestantio/go-eth2-client/spec/capella"
	"github.com/attestantio/go-eth2-client/spec/phase0"
	standardcache "github.com/attestantio/vouch/services/cache/standard"
	nullmetrics "github.com/attestantio/vouch/services/metrics/null"
	"github.com/rs/zerolog"

	. "verifharness/common"
	"verifharness/mocks"
)

// c17linChainTime tells the scenario when the clean is about to enter its critical section(s): the clean asks for
// the first slot of the oldest epoch to keep immediately before locking.
type c17linChainTime struct {
	*mocks.ChainTime
	onMinSlot atomic.Pointer[func()]
}

func (c *c17linChainTime) FirstSlotOfEpoch(epoch phase0.Epoch) phase0.Slot {
	if f := c.onMinSlot.Load(); f != nil {
		(*f)()
	}
	return c.ChainTime.FirstSlotOfEpoch(epoch)
}

type c17askedKey struct{}

// c17linHeaders is the node: it knows the slots of some roots, honours cancellation, and notes in the request's
// context that it was asked.
type c17linHeaders struct {
	known map[string]phase0.Slot // root.String() -> slot; read-only once the scenario runs
}

func (p *c17linHeaders) BeaconBlockHeader(ctx context.Context, opts *api.BeaconBlockHeaderOpts) (*api.Response[*apiv1.BeaconBlockHeader], error) {
	if a, ok := ctx.Value(c17askedKey{}).(*bool); ok {
		*a = true
	}
	if err := ctx.Err(); err != nil {
		return nil, err
	}
	slot, ok := p.known[opts.Block]
	if !ok {
		return nil, errors.New("block not found")
	}
	return &api.Response[*apiv1.BeaconBlockHeader]{
		Data: &apiv1.BeaconBlockHeader{
			Canonical: true,
			Header:    &phase0.SignedBeaconBlockHeader{Message: &phase0.BeaconBlockHeader{Slot: slot}},
		},
		Metadata: map[string]any{},
	}, nil
}

// c17linBlocks is the node's block store for the head events: the block of head number i carries execution block
// number i and an execution block hash that encodes i, so that a (hash, height) pair read from the cache shows
// whether both halves come from ONE head.
type c17linBlocks struct{}

func c17linHeadRoot(i uint64) phase0.Root {
	var r phase0.Root
	r[0] = 0x4e
	binary.LittleEndian.PutUint64(r[8:], i)
	return r
}

func c17linHash(i uint64) phase0.Hash32 {
	var h phase0.Hash32
	if i > 0 {
		h[0] = 0xee
	}
	binary.LittleEndian.PutUint64(h[8:], i)
	return h
}

func (c17linBlocks) SignedBeaconBlock(ctx context.Context, opts *api.SignedBeaconBlockOpts) (*api.Response[*spec.VersionedSignedBeaconBlock], error) {
	if err := ctx.Err(); err != nil {
		return nil, err
	}
	if raw, err := hex.DecodeString(strings.TrimPrefix(opts.Block, "0x")); err == nil && len(raw) == 32 && raw[0] == 0x4e {
		i := binary.LittleEndian.Uint64(raw[8:])
		return &api.Response[*spec.VersionedSignedBeaconBlock]{
			Data: &spec.VersionedSignedBeaconBlock{
				Version: spec.DataVersionCapella,
				Capella: &capella.SignedBeaconBlock{Message: &capella.BeaconBlock{Body: &capella.BeaconBlockBody{
					ExecutionPayload: &capella.ExecutionPayload{StateRoot: [32]byte{1}, BlockNumber: i, BlockHash: c17linHash(i)},
				}}},
			},
			Metadata: map[string]any{},
		}, nil
	}
	return nil, errors.New("block not found") // also for "head": the cache starts without an execution head
}

func c17linRoot(key uint64) phase0.Root {
	var r phase0.Root
	r[0] = 0xc1
	binary.LittleEndian.PutUint64(r[8:], key)
	return r
}

func c17linUntracked(i uint64) phase0.Root {
	var r phase0.Root
	r[0] = 0x57
	binary.LittleEndian.PutUint64(r[8:], i)
	return r
}

// c17linRecorder is the history of ONE goroutine.
type c17linRecorder struct {
	clock *atomic.Uint64
	ops   []histOp
}

func (r *c17linRecorder) set(key, slot uint64, f func()) {
	inv := r.clock.Add(1)
	f()
	resp := r.clock.Add(1)
	r.ops = append(r.ops, histOp{Kind: 0, Key: key, Val: slot, Res: -1, Inv: inv, Resp: resp})
}

func (r *c17linRecorder) clean(minSlot uint64, f func()) {
	inv := r.clock.Add(1)
	f()
	resp := r.clock.Add(1)
	r.ops = append(r.ops, histOp{Kind: 2, Val: minSlot, Res: -1, Inv: inv, Resp: resp})
}

func (r *c17linRecorder) lookup(svc *standardcache.Service, key uint64, nodeSlot uint64, fill bool) {
	asked := false
	ctx := context.WithValue(context.Background(), c17askedKey{}, &asked)
	root := c17linRoot(key)
	inv := r.clock.Add(1)
	slot, err := svc.BlockRootToSlot(ctx, root)
	resp := r.clock.Add(1)
	res := int64(-1)
	if err == nil {
		res = int64(slot)
	}
	r.ops = append(r.ops, histOp{Kind: 1, Key: key, Val: nodeSlot, Res: res, Fill: fill, Asked: asked, Inv: inv, Resp: resp})
}

func init() {
	scenarios["cache-linear"] = scenario{"cache_standard", func(t *testing.T) {
		ctx := context.Background()
		rng := NewRand(Seed())
		const spe = 32
		epoch := 100 + uint64(rng.Intn(20))
		minSlot := (epoch - 64) * spe
		ct := &c17linChainTime{ChainTime: mocks.NewChainTime(spe)}
		ct.SetEpoch(epoch)
		currentSlot := epoch * spe

		rounds := jitter(6 * scale())
		const (
			perSetter = 8    // sets per setting goroutine and round
			fillKeys  = 6    // roots per round that only the node knows
			stale     = 15000 // untracked old entries put in before every clean
		)
		// key numbering: round*1000 + class*100 + i
		key := func(round, class, i int) uint64 { return uint64(round*1000 + class*100 + i) }
		const (
			clsEvent   = 0 // recent roots delivered as block events
			clsDirectA = 1 // recent roots set by another service
			clsDirectB = 2
			clsFill    = 3 // recent roots that only the node knows: the first lookup stores the node's answer
			clsOld     = 4 // roots set before the clean with a slot around the clean's minimum (i even: just below, odd: at it)
			clsUnknown = 5 // roots nobody knows
			clsOldLive = 6 // old roots set while the clean runs (kept or removed: both have a sequential explanation)
		)
		fillSlot := func(round int) uint64 { return currentSlot - 40 + uint64(round) }
		node := &c17linHeaders{known: map[string]phase0.Slot{}}
		for r := 0; r < rounds; r++ {
			for i := 0; i < fillKeys; i++ {
				node.known[c17linRoot(key(r, clsFill, i)).String()] = phase0.Slot(fillSlot(r))
			}
		}

		ev := mocks.NewEventsProvider()
		sched := mocks.NewRecScheduler()
		svc, err := standardcache.New(ctx,
			standardcache.WithLogLevel(zerolog.Disabled),
			standardcache.WithMonitor(nullmetrics.New()),
			standardcache.WithChainTime(ct),
			standardcache.WithScheduler(sched),
			standardcache.WithEventsProvider(ev),
			standardcache.WithSignedBeaconBlockProvider(c17linBlocks{}),
			standardcache.WithBeaconBlockHeadersProvider(node),
		)
		if err != nil {
			t.Fatalf("cache constructor: %v", err)
		}
		cleanJob, ok := sched.Get("Clean block root to slot cache")
		if !ok || len(ev.Handlers["block"]) != 1 || len(ev.Handlers["head"]) != 1 {
			t.Fatalf("cache service: clean job or block / head subscription not found")
		}
		blockHandler := ev.Handlers["block"][0]
		headHandler := ev.Handlers["head"][0]
		headNumber := uint64(0)

		var clock atomic.Uint64
		mainRec := &c17linRecorder{clock: &clock}
		var history []histOp
		untracked := uint64(0)
		for r := 0; r < rounds; r++ {
			// old entries: the clean has something to remove
			for i := 0; i < stale; i++ {
				untracked++
				svc.SetBlockRootToSlot(c17linUntracked(untracked), phase0.Slot(1+untracked%spe))
			}
			for i := 0; i < 4; i++ {
				k, s := key(r, clsOld, i), minSlot-1+uint64(i%2)
				mainRec.set(k, s, func() { svc.SetBlockRootToSlot(c17linRoot(k), phase0.Slot(s)) })
			}

			// the others start when the clean is about to lock (or has returned already)
			started := make(chan struct{})
			var startedFlag atomic.Bool // the three setting goroutines spin on it: no wake-up latency
			var once sync.Once
			release := func() { once.Do(func() { startedFlag.Store(true); close(started) }) }
			spin := func() {
				for !startedFlag.Load() {
				}
			}
			ct.onMinSlot.Store(&release)

			recs := make([]*c17linRecorder, 9)
			for i := range recs {
				recs[i] = &c17linRecorder{clock: &clock}
			}
			var wg sync.WaitGroup
			run := func(rec *c17linRecorder, f func(rec *c17linRecorder)) {
				wg.Add(1)
				go func() {
					defer wg.Done()
					f(rec)
				}()
			}
			// the periodic job
			run(recs[0], func(rec *c17linRecorder) {
				rec.clean(minSlot, func() { cleanJob.Func(ctx) })
				release()
			})
			// the block event subscription
			run(recs[1], func(rec *c17linRecorder) {
				spin()
				for i := 0; i < perSetter; i++ {
					k, s := key(r, clsEvent, i), currentSlot+uint64(r)
					rec.set(k, s, func() {
						blockHandler(&apiv1.Event{Topic: "block", Data: &apiv1.BlockEvent{Slot: phase0.Slot(s), Block: c17linRoot(k)}})
					})
					runtime.Gosched()
				}
			})
			// SetBlockRootToSlot from other services
			for g, cls := range []int{clsDirectA, clsDirectB} {
				cls := cls
				run(recs[2+g], func(rec *c17linRecorder) {
					spin()
					for i := 0; i < perSetter; i++ {
						k, s := key(r, cls, i), currentSlot+uint64(r)
						if cls == clsDirectB && i%4 == 3 {
							k, s = key(r, clsOldLive, i), minSlot-2
						}
						if cls == clsDirectA && i == 0 {
							// an old root of this round is seen again with a recent slot while the clean runs
							// (a clean that decided on the old slot must not remove the new mapping)
							k = key(r, clsOld, 0)
						}
						rec.set(k, s, func() { svc.SetBlockRootToSlot(c17linRoot(k), phase0.Slot(s)) })
						runtime.Gosched()
					}
				})
			}
			// lookups: roots only the node knows (the miss path stores the answer), roots of the round before, unknown roots
			for g := 0; g < 2; g++ {
				g := g
				run(recs[4+g], func(rec *c17linRecorder) {
					<-started
					for i := 0; i < fillKeys; i++ {
						rec.lookup(svc, key(r, clsFill, (i+3*g)%fillKeys), fillSlot(r), true)
						if r > 0 {
							rec.lookup(svc, key(r-1, clsEvent+g, i%perSetter), 0, false)
							rec.lookup(svc, key(r-1, clsFill, i), fillSlot(r-1), true)
						}
						runtime.Gosched()
					}
					rec.lookup(svc, key(r, clsUnknown, g), 0, false)
				})
			}
			// the head event subscription (one goroutine) and two readers of the execution chain head: every pair
			// (hash, height) read must be the pair of ONE head (the hash encodes the height); every inconsistent
			// pair is recorded, and a sample of the others
			var headsDone atomic.Bool
			run(recs[6], func(rec *c17linRecorder) {
				<-started
				for i := 0; i < 150; i++ {
					headNumber++
					headHandler(&apiv1.Event{Topic: "head", Data: &apiv1.HeadEvent{Slot: phase0.Slot(currentSlot), Block: c17linHeadRoot(headNumber)}})
				}
				headsDone.Store(true)
			})
			for g := 0; g < 2; g++ {
				run(recs[7+g], func(rec *c17linRecorder) {
					<-started
					for i := 0; !headsDone.Load() || i < 100; i++ {
						inv := rec.clock.Add(1)
						hash, height := svc.ExecutionChainHead(ctx)
						resp := rec.clock.Add(1)
						inHash := binary.LittleEndian.Uint64(hash[8:])
						if inHash != height || i%5000 == 0 {
							if len(rec.ops) < 8 {
								rec.ops = append(rec.ops, histOp{Kind: 3, Key: inHash, Val: height, Res: -1, Inv: inv, Resp: resp})
							}
						}
					}
				})
			}
			wg.Wait()
			ct.onMinSlot.Store(nil)
			for _, rec := range recs {
				history = append(history, rec.ops...)
			}
			// everything has returned: look every tracked root of this round (and the recent ones of the round before) up
			for _, rr := range []int{r - 1, r} {
				if rr < 0 {
					continue
				}
				for _, cls := range []int{clsEvent, clsDirectA, clsDirectB} {
					for i := 0; i < perSetter; i++ {
						mainRec.lookup(svc, key(rr, cls, i), 0, false)
					}
				}
				for i := 0; i < fillKeys; i++ {
					mainRec.lookup(svc, key(rr, clsFill, i), fillSlot(rr), true)
				}
			}
			for i := 0; i < 4; i++ {
				mainRec.lookup(svc, key(r, clsOld, i), 0, false)
			}
			for i := 0; i < perSetter; i++ {
				mainRec.lookup(svc, key(r, clsOldLive, i), 0, false)
			}
			mainRec.lookup(svc, key(r, clsUnknown, 0), 0, false)
		}
		history = append(history, mainRec.ops...)
		sort.SliceStable(history, func(i, j int) bool { return history[i].Inv < history[j].Inv })
		js, _ := json.Marshal(scenarioData{History: history})
		fmt.Printf("\n%s %s\n", dataMarker, js)
	}}
}
