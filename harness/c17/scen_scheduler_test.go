// C17 scenario for services/scheduler/advanced: every method of the scheduler from two goroutines
// each on a small set of overlapping job names (one-off and periodic), in real time, with run times
// a few milliseconds ahead so that the job goroutines (timer, run signal, cancel signal, parent
// context) run as well.  Some jobs schedule a follow-up job from their own goroutine, as the
// controller's jobs do.  Everything is cancelled at the end.
//
// go-deadlock is disabled first: its lock-order bookkeeping takes a global mutex on every Lock,
// which would order all the accesses and hide every race from the detector.
package c17

import (
	"context"
	"fmt"
	"sync/atomic"
	"testing"
	"time"

	nullmetrics "github.com/attestantio/vouch/services/metrics/null"
	"github.com/attestantio/vouch/services/scheduler"
	advancedscheduler "github.com/attestantio/vouch/services/scheduler/advanced"
	"github.com/rs/zerolog"
	"github.com/sasha-s/go-deadlock"
)

func init() {
	scenarios["scheduler-jobs"] = scenario{"scheduler_advanced", func(t *testing.T) {
		deadlock.Opts.Disable = true
		ctx, cancel := context.WithCancel(context.Background())
		defer cancel()
		svc, err := advancedscheduler.New(ctx,
			advancedscheduler.WithLogLevel(zerolog.Disabled),
			advancedscheduler.WithMonitor(nullmetrics.New()),
		)
		if err != nil {
			t.Fatalf("scheduler constructor: %v", err)
		}
		const oneOffs, periodics = 8, 3
		job := func(i int) string { return fmt.Sprintf("job %d", i%oneOffs) }
		tick := func(i int) string { return fmt.Sprintf("tick %d", i%periodics) }
		var ran atomic.Int64
		plain := func(context.Context) { ran.Add(1) }
		// a job that schedules its successor from the job goroutine
		chain := func(i int) scheduler.JobFunc {
			return func(ctx context.Context) {
				ran.Add(1)
				_ = svc.ScheduleJob(ctx, "c17", job(i+1), time.Now().Add(2*time.Millisecond), plain)
			}
		}
		soon := func(context.Context) (time.Time, error) { return time.Now().Add(3 * time.Millisecond), nil }
		pause := func() { time.Sleep(300 * time.Microsecond) }

		hammer(2, 150,
			func(i int) {
				f := plain
				if i%3 == 0 {
					f = chain(i)
				}
				_ = svc.ScheduleJob(ctx, "c17", job(i), time.Now().Add(time.Duration(i%5)*time.Millisecond), f)
				pause()
			},
			func(i int) { _ = svc.SchedulePeriodicJob(ctx, "c17", tick(i), soon, plain); pause() },
			func(i int) { _ = svc.RunJob(ctx, job(i+3)); pause() },
			func(i int) { _ = svc.RunJob(ctx, tick(i+1)); pause() },
			func(i int) { svc.RunJobIfExists(ctx, job(i+5)); svc.RunJobIfExists(ctx, tick(i+2)); pause() },
			func(i int) { _ = svc.CancelJob(ctx, job(i+6)); pause() },
			func(i int) {
				svc.CancelJobIfExists(ctx, job(i+7))
				if i%10 == 0 {
					svc.CancelJobIfExists(ctx, tick(i))
				}
				pause()
			},
			func(i int) {
				if i%8 == 0 {
					svc.CancelJobs(ctx, "job 1")
				}
				if i%50 == 49 {
					svc.CancelJobs(ctx, "tick")
				}
				pause()
			},
			func(i int) { _ = svc.JobExists(ctx, job(i)); _ = svc.JobExists(ctx, tick(i)); pause() },
			func(i int) { _ = svc.ListJobs(ctx); pause() },
		)

		// stop: cancel whatever is left, wait for the table to empty, then end the parent context
		deadline := time.Now().Add(2 * time.Second)
		for time.Now().Before(deadline) {
			svc.CancelJobs(ctx, "")
			if len(svc.ListJobs(ctx)) == 0 {
				break
			}
			time.Sleep(2 * time.Millisecond)
		}
		time.Sleep(10 * time.Millisecond) // follow-up jobs of chains that were running
		svc.CancelJobs(ctx, "")
		cancel()
		time.Sleep(30 * time.Millisecond)
		if ran.Load() == 0 {
			t.Fatalf("no job ever ran: the scenario does not reach the job goroutines")
		}
	}}
}
