// C17 scenario validatorsmanager-stable: the validators manager over a LONG history of refreshes in which the
// validator set stays the same (what production sees nearly always: the same validators, an epoch or a balance
// altered) and only now and then gains or loses a validator.  ValidatorsByIndex / ValidatorsByPubKey hand the
// validators OUT of the manager's lock to the duty jobs and the account managers, which read their fields at
// their leisure; a validator, once handed out, is therefore never written again (a refresh publishes new ones).
//
// Every answer of the node carries its generation g twice: ExitEpoch = WithdrawableEpoch = c17vsBase + g.
//
// Phase 1 (one goroutine, deterministic): look the validators up, refresh, read the validators that were handed
// out BEFORE the refresh again.  One record of kind 3 per round (coq/Model/C17_Cache.v head_ok: the two halves of a
// pair that no sequential order separates): key = the generation read at hand-out, val = the generation read
// from the same object after the refresh.
// Phase 2 (race detector): two refreshers (the wallet and the dirk account manager each refresh on their own
// goroutine) against readers that use every field of what they were handed; a reader that sees a validator whose
// two generation fields differ records it (kind 3 again).
//
// Seeded change C17-12 (a refresh that finds the same validator set writes the new values INTO the validators
// it holds, under the write lock) passed scenario validatorsmanager-refresh: its node never answers with the same
// set twice and its readers never look into the validators.
package c17

import (
	"context"
	"encoding/json"
	"fmt"
	"sync"
	"sync/atomic"
	"testing"

	"github.com/attestantio/go-eth2-client/api"
	apiv1 "github.com/attestantio/go-eth2-client/api/v1"
	"github.com/attestantio/go-eth2-client/spec/phase0"
	nullmetrics "github.com/attestantio/vouch/services/metrics/null"
	standardvalidatorsmanager "github.com/attestantio/vouch/services/validatorsmanager/standard"
	"github.com/rs/zerolog"
)

const c17vsBase = 1000

// c17vsNode answers with freshly allocated validators (as the client library does): the same 16 validators with
// the generation of the answer in two fields; every ninth answer has a seventeenth validator.
type c17vsNode struct{ g atomic.Uint64 }

func (p *c17vsNode) Validators(ctx context.Context, _ *api.ValidatorsOpts) (*api.Response[map[phase0.ValidatorIndex]*apiv1.Validator], error) {
	if err := ctx.Err(); err != nil {
		return nil, err
	}
	g := p.g.Add(1)
	n := uint64(16)
	if g%9 == 0 {
		n = 17
	}
	res := make(map[phase0.ValidatorIndex]*apiv1.Validator, n)
	for i := uint64(0); i < n; i++ {
		res[phase0.ValidatorIndex(i)] = &apiv1.Validator{
			Index:   phase0.ValidatorIndex(i),
			Balance: phase0.Gwei(32000000000 + g),
			Status:  apiv1.ValidatorStateActiveOngoing,
			Validator: &phase0.Validator{
				PublicKey:             c17vmPubKey(i),
				WithdrawalCredentials: []byte{byte(g), byte(g >> 8), byte(i)},
				EffectiveBalance:      phase0.Gwei(32000000000 - g%2*1000000000),
				Slashed:               g%7 == 0 && i == 3,
				ActivationEpoch:       phase0.Epoch(i),
				ExitEpoch:             phase0.Epoch(c17vsBase + g),
				WithdrawableEpoch:     phase0.Epoch(c17vsBase + g),
			},
		}
	}
	return &api.Response[map[phase0.ValidatorIndex]*apiv1.Validator]{Data: res, Metadata: map[string]any{}}, nil
}

func init() {
	scenarios["validatorsmanager-stable"] = scenario{"validatorsmanager_standard", func(t *testing.T) {
		ctx := context.Background()
		svc, err := standardvalidatorsmanager.New(ctx,
			standardvalidatorsmanager.WithLogLevel(zerolog.Disabled),
			standardvalidatorsmanager.WithMonitor(nullmetrics.New()),
			standardvalidatorsmanager.WithClientMonitor(nullmetrics.New()),
			standardvalidatorsmanager.WithValidatorsProvider(&c17vsNode{}),
			standardvalidatorsmanager.WithFarFutureEpoch(0xffffffffffffffff),
		)
		if err != nil {
			t.Fatalf("validators manager constructor: %v", err)
		}
		pubKeys := make([]phase0.BLSPubKey, 17)
		indices := make([]phase0.ValidatorIndex, 17)
		for i := range pubKeys {
			pubKeys[i] = c17vmPubKey(uint64(i))
			indices[i] = phase0.ValidatorIndex(i)
		}
		refresh := func() {
			if err := svc.RefreshValidatorsFromBeaconNode(ctx, pubKeys); err != nil {
				t.Errorf("refresh: %v", err)
			}
		}
		var clock atomic.Uint64
		var history []histOp

		// phase 1: what was handed out before a refresh reads the same after it
		refresh()
		rounds := jitter(24)
		for round := 0; round < rounds; round++ {
			inv := clock.Add(1)
			var held map[phase0.ValidatorIndex]*phase0.Validator
			if round%2 == 0 {
				held = svc.ValidatorsByIndex(ctx, indices)
			} else {
				held = svc.ValidatorsByPubKey(ctx, pubKeys)
			}
			if len(held) < 16 {
				t.Fatalf("round %d: %d validators handed out", round, len(held))
			}
			before := make(map[phase0.ValidatorIndex]uint64, len(held))
			for i, v := range held {
				before[i] = uint64(v.ExitEpoch) - c17vsBase
			}
			refresh()
			op := histOp{Kind: 3, Key: before[0], Val: uint64(held[0].WithdrawableEpoch) - c17vsBase, Res: -1}
			for _, i := range indices {
				if v, ok := held[i]; ok && uint64(v.WithdrawableEpoch)-c17vsBase != before[i] {
					op.Key, op.Val = before[i], uint64(v.WithdrawableEpoch)-c17vsBase
					break
				}
			}
			op.Inv, op.Resp = inv, clock.Add(1)
			history = append(history, op)
		}

		// phase 2: readers using what they were handed while refreshes run
		var mu sync.Mutex
		var used atomic.Uint64
		look := func(held map[phase0.ValidatorIndex]*phase0.Validator, inv uint64) {
			for _, v := range held {
				used.Add(uint64(v.EffectiveBalance) + uint64(len(v.WithdrawalCredentials)) + uint64(v.ActivationEpoch))
				if v.Slashed {
					used.Add(1)
				}
				if e, w := uint64(v.ExitEpoch), uint64(v.WithdrawableEpoch); e != w {
					mu.Lock()
					if len(history) < 64 {
						history = append(history, histOp{Kind: 3, Key: e - c17vsBase, Val: w - c17vsBase, Res: -1, Inv: inv, Resp: clock.Add(1)})
					}
					mu.Unlock()
				}
			}
		}
		hammer(2, 150,
			func(i int) { refresh() },
			func(i int) { inv := clock.Add(1); look(svc.ValidatorsByIndex(ctx, indices), inv) },
			func(i int) { inv := clock.Add(1); look(svc.ValidatorsByPubKey(ctx, pubKeys), inv) },
			func(i int) {
				if _, err := svc.ValidatorStateAtEpoch(ctx, phase0.ValidatorIndex(i%16), phase0.Epoch(i%7)); err == nil {
					used.Add(1)
				}
			},
		)
		if used.Load() == 0 {
			t.Fatalf("no reader ever looked into a validator")
		}
		js, _ := json.Marshal(scenarioData{History: history})
		fmt.Printf("\n%s %s\n", dataMarker, js)
	}}
}
