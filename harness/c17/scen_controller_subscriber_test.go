// C17 scenario for services/controller/standard wired to the REAL standard beacon committee
// subscriber (scenario controller-duties uses a stateless stand-in whose result nobody else holds).
//
// The real subscriber's Subscribe returns its subscription information map while the goroutine it
// has just started ("Submitting subscription") is still ranging over that very map, without a lock,
// to build the request for the beacon node; the controller keeps the same map in subscriptionInfos
// and reads it from AttestAndScheduleAggregate.  The map (outer map, inner maps, the Subscription
// values) is therefore SHARED between two services and must be read-only for both from the moment
// Subscribe returns.  Neither service's struct shows this: it is a property of the composition, and
// only a run of the composition sees it.
//
// Shape, as in production:
//   - ONE controller and ONE subscriber for the whole run;
//   - the node starts PART WAY THROUGH an epoch (slot 12 of 32): the start-up subscription for the
//     current epoch covers slots that have already gone (the next-epoch one does not);
//   - ONE goroutine for the head subscription; the current duty dependent root changes every few slots
//     (reorg), so that the controller re-subscribes the current epoch with `go` from its handler;
//   - ONE goroutine for the epoch ticker (next-epoch subscription once the epoch has changed);
//   - the attestation jobs fire when due and read the stored subscription information;
//   - two goroutines calling subscribeToBeaconCommittees for the current and the next epoch, two
//     calling AttestAndScheduleAggregate (an attestation job running late or twice);
//   - the beacon node takes 1-2 ms to accept a subscription request (the submission goroutine is still
//     alive while the controller goes on), and every request must carry exactly the future slots of the epoch.
package c17

import (
	"context"
	"fmt"
	"strings"
	"sync"
	"testing"
	"time"

	apiv1 "github.com/attestantio/go-eth2-client/api/v1"
	"github.com/attestantio/go-eth2-client/spec/phase0"
	"github.com/attestantio/vouch/mock"
	mockaccountmanager "github.com/attestantio/vouch/services/accountmanager/mock"
	mockattestationaggregator "github.com/attestantio/vouch/services/attestationaggregator/mock"
	"github.com/attestantio/vouch/services/attester"
	mockbeaconblockproposer "github.com/attestantio/vouch/services/beaconblockproposer/mock"
	standardsubscriber "github.com/attestantio/vouch/services/beaconcommitteesubscriber/standard"
	standardcontroller "github.com/attestantio/vouch/services/controller/standard"
	nullmetrics "github.com/attestantio/vouch/services/metrics/null"
	mockproposalpreparer "github.com/attestantio/vouch/services/proposalpreparer/mock"
	mocksynccommitteeaggregator "github.com/attestantio/vouch/services/synccommitteeaggregator/mock"
	mocksynccommitteemessenger "github.com/attestantio/vouch/services/synccommitteemessenger/mock"
	mocksynccommitteesubscriber "github.com/attestantio/vouch/services/synccommitteesubscriber/mock"
	"github.com/rs/zerolog"
	"github.com/sasha-s/go-deadlock"
	e2wtypes "github.com/wealdtech/go-eth2-wallet-types/v2"

	"verifharness/mocks"
)

// c17csSubmitter is the beacon node's subscription endpoint: it takes a moment, and it checks what it
// is given (every entry complete, no slot twice for one committee).  It only reads its argument.
type c17csSubmitter struct {
	mu   sync.Mutex
	n    int
	errs []string
}

func (c *c17csSubmitter) SubmitBeaconCommitteeSubscriptions(_ context.Context, subs []*apiv1.BeaconCommitteeSubscription) error {
	time.Sleep(time.Millisecond)
	type key struct {
		slot phase0.Slot
		c    phase0.CommitteeIndex
	}
	seen := map[key]bool{}
	var bad string
	for _, s := range subs {
		if s == nil {
			bad = "nil subscription"
			break
		}
		k := key{s.Slot, s.CommitteeIndex}
		if seen[k] {
			bad = fmt.Sprintf("slot %d committee %d twice", s.Slot, s.CommitteeIndex)
			break
		}
		seen[k] = true
	}
	c.mu.Lock()
	c.n++
	if bad != "" && len(c.errs) < 4 {
		c.errs = append(c.errs, bad)
	}
	c.mu.Unlock()
	return nil
}

func init() {
	scenarios["controller-subscriber"] = scenario{"controller_standard", func(t *testing.T) {
		deadlock.Opts.Disable = true // go-deadlock cannot tell goroutines apart on this toolchain (plain sync locks instead)
		ctx := context.Background()
		const startEpoch = 100
		const startSlot = startEpoch*c17ctlSPE + 12 // part way through the epoch
		ct := mocks.NewChainTime(c17ctlSPE)
		ct.SetSlot(startSlot)
		ev := mocks.NewEventsProvider()
		sched := mocks.NewRecScheduler()
		sched.RunInline = true
		vap := mockaccountmanager.NewValidatingAccountsProvider()
		accounts := map[phase0.ValidatorIndex]e2wtypes.Account{}
		for i := uint64(1); i <= c17ctlValidators; i++ {
			vap.AddAccount(phase0.ValidatorIndex(i), c17Account{i})
			accounts[phase0.ValidatorIndex(i)] = c17Account{i}
		}
		submitter := &c17csSubmitter{}
		subscriber, err := standardsubscriber.New(ctx,
			standardsubscriber.WithLogLevel(zerolog.Disabled),
			standardsubscriber.WithProcessConcurrency(4),
			standardsubscriber.WithMonitor(nullmetrics.New()),
			standardsubscriber.WithChainTimeService(ct),
			standardsubscriber.WithAttesterDutiesProvider(c17ctlDuties{}),
			standardsubscriber.WithAttestationAggregator(c17slAggregator{}),
			standardsubscriber.WithBeaconCommitteeSubmitter(submitter),
		)
		if err != nil {
			t.Fatalf("beacon committee subscriber constructor: %v", err)
		}
		svc, err := standardcontroller.New(ctx,
			standardcontroller.WithLogLevel(zerolog.Disabled),
			standardcontroller.WithMonitor(nullmetrics.New()),
			standardcontroller.WithSpecProvider(c17ctlSpec{}),
			standardcontroller.WithChainTimeService(ct),
			standardcontroller.WithProposerDutiesProvider(mock.NewProposerDutiesProvider()),
			standardcontroller.WithAttesterDutiesProvider(c17ctlDuties{}),
			standardcontroller.WithSyncCommitteeDutiesProvider(mock.NewSyncCommitteeDutiesProvider()),
			standardcontroller.WithEventsProvider(ev),
			standardcontroller.WithValidatingAccountsProvider(vap),
			standardcontroller.WithProposalsPreparer(mockproposalpreparer.New()),
			standardcontroller.WithScheduler(sched),
			standardcontroller.WithAttester(c17ctlAttester{}),
			standardcontroller.WithSyncCommitteeMessenger(mocksynccommitteemessenger.New()),
			standardcontroller.WithSyncCommitteeAggregator(mocksynccommitteeaggregator.New()),
			standardcontroller.WithSyncCommitteeSubscriber(mocksynccommitteesubscriber.New()),
			standardcontroller.WithBeaconBlockProposer(mockbeaconblockproposer.New()),
			standardcontroller.WithBeaconCommitteeSubscriber(subscriber),
			standardcontroller.WithAttestationAggregator(mockattestationaggregator.New()),
			standardcontroller.WithAccountsRefresher(mockaccountmanager.NewRefresher()),
			standardcontroller.WithBlockToSlotSetter(&c17ctlSlotSetter{m: map[phase0.Root]phase0.Slot{}}),
			standardcontroller.WithBeaconBlockHeadersProvider(mock.NewBeaconBlockHeadersProvider()),
			standardcontroller.WithSignedBeaconBlockProvider(mock.NewSignedBeaconBlockProvider()),
			standardcontroller.WithMaxProposalDelay(time.Second),
			standardcontroller.WithFastTrackAttestations(true),
			standardcontroller.WithFastTrackGrace(time.Millisecond),
		)
		if err != nil {
			t.Fatalf("controller constructor: %v", err)
		}
		if len(ev.Handlers["head"]) < 1 {
			t.Fatalf("expected a head subscription")
		}
		ticker, ok := sched.Get("Epoch ticker")
		if !ok {
			t.Fatalf("epoch ticker not registered: %v", sched.ListJobs(ctx))
		}

		stop := make(chan struct{})
		stopped := func() bool {
			select {
			case <-stop:
				return true
			default:
				return false
			}
		}
		var wg sync.WaitGroup
		wg.Add(1)
		go func() {
			defer wg.Done()
			for !stopped() {
				_, _ = ticker.Runtime(ctx)
				ticker.Func(ctx)
				time.Sleep(3 * time.Millisecond)
			}
		}()
		fireDue := func(all bool) {
			for _, j := range sched.Snapshot() {
				if j.Periodic || !(all || c17ctlDue(ct, j)) {
					continue
				}
				if strings.HasPrefix(j.Name, "Attestations for slot ") || strings.HasPrefix(j.Name, "Beacon block attestation aggregation ") {
					sched.Fire(ctx, j.Name)
				}
			}
		}
		wg.Add(1)
		go func() {
			defer wg.Done()
			for !stopped() {
				fireDue(false)
				time.Sleep(time.Millisecond)
			}
		}()

		// the head subscription: one slot per event, the current duty dependent root changes every 5 slots
		head := ev.Handlers["head"][0]
		waitHead := single(c17ctlSPE+8, func(i int) {
			slot := uint64(startSlot + i)
			ct.SetSlot(slot)
			head(&apiv1.Event{Topic: "head", Data: &apiv1.HeadEvent{
				Slot:                      phase0.Slot(slot),
				Block:                     phase0.Root{byte(slot), byte(slot >> 8), 1},
				PreviousDutyDependentRoot: phase0.Root{1, byte(i / 16)},
				CurrentDutyDependentRoot:  phase0.Root{2, byte(i / 5)},
			}})
			time.Sleep(5 * time.Millisecond)
		})

		hammer(2, 40,
			func(i int) {
				svc.VerifSubscribeToBeaconCommittees(ctx, ct.CurrentEpoch()+phase0.Epoch(i%2), accounts)
				time.Sleep(2 * time.Millisecond)
			},
			func(i int) {
				slot := ct.CurrentSlot() + phase0.Slot(i%3)
				v := phase0.ValidatorIndex(uint64(slot)%c17ctlValidators + 1)
				duty, err := attester.NewDuty(ctx, slot, 2, []phase0.ValidatorIndex{v}, []phase0.CommitteeIndex{phase0.CommitteeIndex(i % 2)},
					[]uint64{3}, map[phase0.CommitteeIndex]uint64{0: 16, 1: 16})
				if err == nil {
					svc.AttestAndScheduleAggregate(ctx, duty)
				}
				time.Sleep(2 * time.Millisecond)
			},
		)
		waitHead()
		close(stop)
		wg.Wait()
		fireDue(true)
		time.Sleep(100 * time.Millisecond) // the controller's and the subscriber's own goroutines finish
		submitter.mu.Lock()
		defer submitter.mu.Unlock()
		if submitter.n == 0 {
			t.Fatalf("no beacon committee subscription reached the beacon node")
		}
		if len(submitter.errs) > 0 {
			t.Errorf("malformed beacon committee subscription requests: %v", submitter.errs)
		}
	}}
}
