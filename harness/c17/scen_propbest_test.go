// C17 scenario for strategies/beaconblockproposal/best: the head event stream (ONE goroutine: the
// strategy makes one Events() subscription) records the votes of the prior blocks and prunes the
// old ones, while proposals are requested for several validators at once (one-off scheduler jobs).
package c17

import (
	"context"
	"fmt"
	"testing"
	"time"

	eth2client "github.com/attestantio/go-eth2-client"
	"github.com/attestantio/go-eth2-client/api"
	apiv1 "github.com/attestantio/go-eth2-client/api/v1"
	"github.com/attestantio/go-eth2-client/spec"
	"github.com/attestantio/go-eth2-client/spec/phase0"
	"github.com/attestantio/vouch/mock"
	"github.com/attestantio/vouch/services/cache"
	mockcache "github.com/attestantio/vouch/services/cache/mock"
	nullmetrics "github.com/attestantio/vouch/services/metrics/null"
	bestproposal "github.com/attestantio/vouch/strategies/beaconblockproposal/best"
	"github.com/prysmaticlabs/go-bitfield"
	"github.com/rs/zerolog"

	"verifharness/mocks"
)

// c17propBlocks answers block requests from a table built before the scenario starts (read-only afterwards).
type c17propBlocks struct {
	blocks map[string]*spec.VersionedSignedBeaconBlock
}

func (p *c17propBlocks) SignedBeaconBlock(_ context.Context, opts *api.SignedBeaconBlockOpts) (*api.Response[*spec.VersionedSignedBeaconBlock], error) {
	b, ok := p.blocks[opts.Block]
	if !ok {
		return nil, fmt.Errorf("no block %s", opts.Block)
	}
	return &api.Response[*spec.VersionedSignedBeaconBlock]{Data: b, Metadata: map[string]any{}}, nil
}

func init() {
	scenarios["propbest-priorvotes"] = scenario{"strategies_beaconblockproposal_best", func(t *testing.T) {
		ctx := context.Background()
		const firstSlot, nBlocks = 2000, 200
		ct := mocks.NewChainTime(32)
		ct.SetSlot(firstSlot)
		ev := mocks.NewEventsProvider()

		// a chain of blocks with a few attestations each; the head events name their real roots
		provider := &c17propBlocks{blocks: map[string]*spec.VersionedSignedBeaconBlock{}}
		roots := make([]phase0.Root, nBlocks)
		parent := phase0.Root{0x01}
		for i := 0; i < nBlocks; i++ {
			slot := phase0.Slot(firstSlot + i)
			atts := make([]*phase0.Attestation, 3)
			for a := range atts {
				bits := bitfield.NewBitlist(64)
				bits.SetBitAt(uint64((i+a)%64), true)
				atts[a] = &phase0.Attestation{
					AggregationBits: bits,
					Data: &phase0.AttestationData{Slot: slot - 1, Index: phase0.CommitteeIndex(a), BeaconBlockRoot: parent,
						Source: &phase0.Checkpoint{}, Target: &phase0.Checkpoint{}},
				}
			}
			block := &spec.VersionedSignedBeaconBlock{
				Version: spec.DataVersionPhase0,
				Phase0: &phase0.SignedBeaconBlock{Message: &phase0.BeaconBlock{
					Slot: slot, ProposerIndex: phase0.ValidatorIndex(i), ParentRoot: parent,
					Body: &phase0.BeaconBlockBody{
						ETH1Data: &phase0.ETH1Data{BlockHash: make([]byte, 32)}, Attestations: atts,
						ProposerSlashings: []*phase0.ProposerSlashing{}, AttesterSlashings: []*phase0.AttesterSlashing{},
						Deposits: []*phase0.Deposit{}, VoluntaryExits: []*phase0.SignedVoluntaryExit{},
					},
				}},
			}
			root, err := block.Root()
			if err != nil {
				t.Fatalf("block root: %v", err)
			}
			roots[i] = root
			provider.blocks[fmt.Sprintf("%#x", root)] = block
			parent = root
		}

		svc, err := bestproposal.New(ctx,
			bestproposal.WithLogLevel(zerolog.Disabled),
			bestproposal.WithClientMonitor(nullmetrics.New()),
			bestproposal.WithProcessConcurrency(2),
			bestproposal.WithTimeout(4*time.Second),
			bestproposal.WithEventsProvider(ev),
			bestproposal.WithChainTimeService(ct),
			bestproposal.WithSpecProvider(mock.NewSpecProvider()),
			bestproposal.WithProposalProviders(map[string]eth2client.ProposalProvider{
				"one": mock.NewProposalProvider(), "two": mock.NewProposalProvider(), "bad": mock.NewErroringProposalProvider(),
			}),
			bestproposal.WithSignedBeaconBlockProvider(provider),
			bestproposal.WithBlockRootToSlotCache(mockcache.New(map[phase0.Root]phase0.Slot{}).(cache.BlockRootToSlotProvider)),
		)
		if err != nil {
			t.Fatalf("best beacon block proposal strategy constructor: %v", err)
		}
		if len(ev.Handlers["head"]) < 1 {
			t.Fatalf("expected a head event subscription, have %d", len(ev.Handlers["head"]))
		}
		// the head event stream(s), one goroutine per subscription as in production: every block is announced twice
		// (the second announcement finds the recorded votes), chain time advancing with the blocks; blocks older than
		// two epochs are pruned
		var waits []func()
		for _, head := range ev.Handlers["head"] {
			head := head
			waits = append(waits, single(2*nBlocks, func(i int) {
				k := (i / 2) % nBlocks
				ct.SetSlot(uint64(firstSlot + k))
				head(&apiv1.Event{Topic: "head", Data: &apiv1.HeadEvent{Slot: phase0.Slot(firstSlot + k), Block: roots[k]}})
			}))
		}
		wait := func() {
			for _, w := range waits {
				w()
			}
		}
		hammer(2, 120, func(i int) {
			resp, err := svc.Proposal(ctx, &api.ProposalOpts{Slot: phase0.Slot(firstSlot + i%nBlocks), Graffiti: [32]byte{'c', '1', '7'}})
			if err != nil || resp == nil || resp.Data == nil {
				t.Errorf("Proposal: %v", err)
			}
		})
		wait()
	}}
}
