// C17 scenario for services/blockrelay/standard: the two periodic jobs (configuration refresh,
// registration round), proposer-setting lookups, auctions, bid lookups and forwarded registrations
// of the REST daemon, all overlapping on one real service built by the public constructor.
package c17

import (
	"context"
	"encoding/binary"
	"fmt"
	"sync"
	"sync/atomic"
	"testing"

	blockrelaytypes "github.com/attestantio/go-block-relay/types"
	builderapi "github.com/attestantio/go-builder-client/api"
	"github.com/attestantio/go-eth2-client/spec/bellatrix"
	"github.com/attestantio/go-eth2-client/spec/phase0"
	"github.com/attestantio/vouch/mock"
	mockaccountmanager "github.com/attestantio/vouch/services/accountmanager/mock"
	standardblockrelay "github.com/attestantio/vouch/services/blockrelay/standard"
	nullmetrics "github.com/attestantio/vouch/services/metrics/null"
	mocksigner "github.com/attestantio/vouch/services/signer/mock"
	"github.com/attestantio/vouch/util"
	"github.com/google/uuid"
	"github.com/rs/zerolog"
	e2types "github.com/wealdtech/go-eth2-types/v2"
	e2wtypes "github.com/wealdtech/go-eth2-wallet-types/v2"

	"verifharness/mocks"
)

type c17PubKey struct{ idx uint64 }

func (k c17PubKey) Marshal() []byte {
	b := make([]byte, 48)
	binary.BigEndian.PutUint64(b[40:], k.idx)
	return b
}
func (k c17PubKey) Aggregate(e2types.PublicKey) {}
func (k c17PubKey) Copy() e2types.PublicKey     { return k }

type c17Account struct{ idx uint64 }

func (a c17Account) ID() uuid.UUID {
	var id uuid.UUID
	binary.BigEndian.PutUint64(id[8:], a.idx)
	return id
}
func (a c17Account) Name() string                 { return fmt.Sprintf("validator-%d", a.idx) }
func (a c17Account) PublicKey() e2types.PublicKey { return c17PubKey{a.idx} }

// c17Majordomo answers every fetch with one of two execution configurations, alternating, so that
// every refresh installs a new configuration object.
type c17Majordomo struct{ n atomic.Uint64 }

func (m *c17Majordomo) Fetch(_ context.Context, _ string) ([]byte, error) {
	i := m.n.Add(1)
	return []byte(fmt.Sprintf(`{"version":2,"fee_recipient":"0x%040x","gas_limit":"30000000","relays":{"http://relay-c17.invalid":{}}}`, i%2+1)), nil
}

// c17RelayClient accepts registrations and nothing else.
type c17RelayClient struct {
	addr string
	n    atomic.Uint64
}

func (c *c17RelayClient) Name() string              { return "c17" }
func (c *c17RelayClient) Address() string           { return c.addr }
func (c *c17RelayClient) Pubkey() *phase0.BLSPubKey { return nil }
func (c *c17RelayClient) SubmitValidatorRegistrations(context.Context, *builderapi.SubmitValidatorRegistrationsOpts) error {
	c.n.Add(1)
	return nil
}

func init() {
	scenarios["blockrelay-config"] = scenario{"blockrelay_standard", func(t *testing.T) {
		ctx := context.Background()
		ct := mocks.NewChainTime(32)
		sched := mocks.NewRecScheduler()
		vap := mockaccountmanager.NewValidatingAccountsProvider()
		for i := uint64(1); i <= 3; i++ {
			vap.AddAccount(phase0.ValidatorIndex(i), c17Account{i})
		}
		const relay = "http://relay-c17.invalid"
		util.InjectBuilderClientC09(relay, &c17RelayClient{addr: relay})
		svc, err := standardblockrelay.New(ctx,
			standardblockrelay.WithLogLevel(zerolog.Disabled),
			standardblockrelay.WithMonitor(nullmetrics.New()),
			standardblockrelay.WithMajordomo(&c17Majordomo{}),
			standardblockrelay.WithScheduler(sched),
			standardblockrelay.WithListenAddress("127.0.0.1:0"),
			standardblockrelay.WithChainTime(ct),
			standardblockrelay.WithConfigURL("file:///c17/execconfig.json"),
			standardblockrelay.WithFallbackFeeRecipient(bellatrix.ExecutionAddress{1}),
			standardblockrelay.WithFallbackGasLimit(10000000),
			standardblockrelay.WithAccountsProvider(mockaccountmanager.NewAccountsProvider()),
			standardblockrelay.WithValidatorsProvider(mock.NewValidatorsProvider()),
			standardblockrelay.WithValidatingAccountsProvider(vap),
			standardblockrelay.WithValidatorRegistrationSigner(mocksigner.New()),
			standardblockrelay.WithReleaseVersion("c17"),
			standardblockrelay.WithBuilderBidProvider(mock.BuilderBidProvider{}),
		)
		if err != nil {
			t.Fatalf("blockrelay constructor: %v", err)
		}
		fetch, ok1 := sched.Get("Fetch execution configuration")
		register, ok2 := sched.Get("Submit validator registrations")
		if !ok1 || !ok2 {
			t.Fatalf("periodic jobs not registered: %v", sched.ListJobs(ctx))
		}
		// the two periodic jobs: one goroutine each (a periodic job never overlaps itself, C02)
		var wg sync.WaitGroup
		wg.Add(2)
		go func() {
			defer wg.Done()
			for i := 0; i < 150; i++ {
				fetch.Func(ctx)
			}
		}()
		go func() {
			defer wg.Done()
			for i := 0; i < 150; i++ {
				register.Func(ctx)
			}
		}()
		accounts := map[phase0.ValidatorIndex]c17Account{4: {4}, 5: {5}}
		// entry points of other goroutines: proposer (lookup, auction), REST daemon (bid, forwarded registrations),
		// controller (registrations for new accounts)
		hammer(2, 100,
			func(i int) { _, _ = svc.ProposerConfig(ctx, c17Account{uint64(i%3) + 1}, phase0.BLSPubKey{byte(i)}) },
			func(i int) {
				_, _ = svc.AuctionBlock(ctx, phase0.Slot(i%4), phase0.Hash32{byte(i)}, phase0.BLSPubKey{byte(i)})
			},
			func(i int) {
				_, _ = svc.BuilderBid(ctx, phase0.Slot(i%4), phase0.Hash32{byte(i)}, phase0.BLSPubKey{byte(i)})
			},
			func(i int) {
				_, _ = svc.ValidatorRegistrations(ctx, []*blockrelaytypes.SignedValidatorRegistration{{
					Message: &blockrelaytypes.ValidatorRegistration{Pubkey: phase0.BLSPubKey{0xee, byte(i)}, GasLimit: 30000000},
				}})
			},
			func(i int) {
				accts := map[phase0.ValidatorIndex]e2wtypes.Account{}
				for k, v := range accounts {
					accts[k] = v
				}
				_ = svc.SubmitValidatorRegistrations(ctx, accts)
			},
		)
		wg.Wait()
	}}
}
