// C17 scenario for services/controller/standard: one real controller built by the public
// constructor over the recording scheduler and the capturing events provider.  Goroutine structure
// as in production:
//   - ONE goroutine for the "head" subscription, ONE for the "block" subscription;
//   - ONE goroutine per periodic job (epoch ticker, accounts refresher, proposals preparer), each
//     calling its runtime function and its job function in turn, as the scheduler's loop does;
//   - the one-off jobs the controller schedules ("Attestations for slot N", "Prepare for epoch N",
//     "Beacon block attestation aggregation ...") are fired when due from three runner goroutines
//     (a fired job is removed from the table first, so it runs exactly once);
//   - two goroutines each for HasPendingAttestations, subscribeToBeaconCommittees,
//     AttestAndScheduleAggregate and VerifySyncCommitteeMessages.
//
// The head events carry changing duty dependent roots, so that the controller's own goroutines
// (refreshAttesterDutiesForEpoch -> scheduleAttestations, subscribeToBeaconCommittees) run as well.
package c17

import (
	"context"
	"strings"
	"sync"
	"sync/atomic"
	"testing"
	"time"

	"github.com/attestantio/go-eth2-client/api"
	apiv1 "github.com/attestantio/go-eth2-client/api/v1"
	"github.com/attestantio/go-eth2-client/spec/phase0"
	"github.com/attestantio/vouch/mock"
	mockaccountmanager "github.com/attestantio/vouch/services/accountmanager/mock"
	mockattestationaggregator "github.com/attestantio/vouch/services/attestationaggregator/mock"
	"github.com/attestantio/vouch/services/attester"
	mockbeaconblockproposer "github.com/attestantio/vouch/services/beaconblockproposer/mock"
	"github.com/attestantio/vouch/services/beaconcommitteesubscriber"
	standardcontroller "github.com/attestantio/vouch/services/controller/standard"
	nullmetrics "github.com/attestantio/vouch/services/metrics/null"
	mockproposalpreparer "github.com/attestantio/vouch/services/proposalpreparer/mock"
	mocksynccommitteeaggregator "github.com/attestantio/vouch/services/synccommitteeaggregator/mock"
	"github.com/attestantio/vouch/services/synccommitteemessenger"
	mocksynccommitteemessenger "github.com/attestantio/vouch/services/synccommitteemessenger/mock"
	mocksynccommitteesubscriber "github.com/attestantio/vouch/services/synccommitteesubscriber/mock"
	"github.com/rs/zerolog"
	e2wtypes "github.com/wealdtech/go-eth2-wallet-types/v2"

	"verifharness/mocks"
)

const (
	c17ctlSPE        = 32
	c17ctlValidators = 32
)

// c17ctlSpec: a chain with all the forks at epoch 0 (stateless: a fresh map per call).
type c17ctlSpec struct{}

func (c17ctlSpec) Spec(context.Context, *api.SpecOpts) (*api.Response[map[string]any], error) {
	return &api.Response[map[string]any]{
		Data: map[string]any{
			"SECONDS_PER_SLOT":                 12 * time.Second,
			"SLOTS_PER_EPOCH":                  uint64(c17ctlSPE),
			"EPOCHS_PER_SYNC_COMMITTEE_PERIOD": uint64(256),
			"ALTAIR_FORK_EPOCH":                uint64(0),
			"BELLATRIX_FORK_EPOCH":             uint64(0),
			"CAPELLA_FORK_EPOCH":               uint64(0),
		},
		Metadata: map[string]any{},
	}, nil
}

// c17ctlDuties gives every requested validator one duty in the requested epoch, spread over the
// slots of the epoch (stateless).
type c17ctlDuties struct{}

func (c17ctlDuties) AttesterDuties(_ context.Context, opts *api.AttesterDutiesOpts) (*api.Response[[]*apiv1.AttesterDuty], error) {
	first := uint64(opts.Epoch) * c17ctlSPE
	duties := make([]*apiv1.AttesterDuty, 0, len(opts.Indices))
	for _, idx := range opts.Indices {
		duties = append(duties, &apiv1.AttesterDuty{
			Slot:                    phase0.Slot(first + (uint64(idx)+uint64(opts.Epoch))%c17ctlSPE),
			ValidatorIndex:          idx,
			CommitteeIndex:          phase0.CommitteeIndex(uint64(idx) % 2),
			CommitteeLength:         16,
			CommitteesAtSlot:        2,
			ValidatorCommitteeIndex: uint64(idx) % 16,
		})
	}
	return &api.Response[[]*apiv1.AttesterDuty]{Data: duties, Metadata: map[string]any{}}, nil
}

// c17ctlAttester returns one attestation per validator of the duty (stateless).
type c17ctlAttester struct{}

func (c17ctlAttester) Attest(_ context.Context, duty *attester.Duty) ([]*phase0.Attestation, error) {
	res := make([]*phase0.Attestation, 0, len(duty.ValidatorIndices()))
	for i := range duty.ValidatorIndices() {
		res = append(res, &phase0.Attestation{
			Data: &phase0.AttestationData{
				Slot:   duty.Slot(),
				Index:  duty.CommitteeIndices()[i],
				Source: &phase0.Checkpoint{},
				Target: &phase0.Checkpoint{Epoch: phase0.Epoch(uint64(duty.Slot()) / c17ctlSPE)},
			},
		})
	}
	return res, nil
}

// c17ctlSubscriber makes one of our validators the aggregator of both committees of every slot of
// the epoch (stateless: fresh maps per call, never written afterwards).
type c17ctlSubscriber struct{}

func (c17ctlSubscriber) Subscribe(_ context.Context, epoch phase0.Epoch, _ map[phase0.ValidatorIndex]e2wtypes.Account,
) (map[phase0.Slot]map[phase0.CommitteeIndex]*beaconcommitteesubscriber.Subscription, error) {
	res := make(map[phase0.Slot]map[phase0.CommitteeIndex]*beaconcommitteesubscriber.Subscription, c17ctlSPE)
	for i := uint64(0); i < c17ctlSPE; i++ {
		slot := phase0.Slot(uint64(epoch)*c17ctlSPE + i)
		res[slot] = map[phase0.CommitteeIndex]*beaconcommitteesubscriber.Subscription{}
		for c := phase0.CommitteeIndex(0); c < 2; c++ {
			res[slot][c] = &beaconcommitteesubscriber.Subscription{
				Duty:         &apiv1.AttesterDuty{Slot: slot, ValidatorIndex: phase0.ValidatorIndex(i%c17ctlValidators + 1), CommitteeIndex: c},
				IsAggregator: true,
			}
		}
	}
	return res, nil
}

// c17ctlSlotSetter is a locked block root to slot cache.
type c17ctlSlotSetter struct {
	mu sync.Mutex
	m  map[phase0.Root]phase0.Slot
}

func (s *c17ctlSlotSetter) SetBlockRootToSlot(root phase0.Root, slot phase0.Slot) {
	s.mu.Lock()
	s.m[root] = slot
	s.mu.Unlock()
}

func c17ctlDue(ct *mocks.ChainTime, j mocks.Job) bool {
	return j.Time.Before(ct.StartOfSlot(ct.CurrentSlot() + 1))
}

// c17ctlAccounts is vouch's mock provider, except that every second full listing leaves the highest
// validator out (a validator that is not active yet / any more): the number of active validators
// that the accounts refresher records changes from refresh to refresh, as it does in production.
type c17ctlAccounts struct {
	*mockaccountmanager.ValidatingAccountsProvider
	calls atomic.Uint64
}

func (a *c17ctlAccounts) ValidatingAccountsForEpoch(ctx context.Context, epoch phase0.Epoch) (map[phase0.ValidatorIndex]e2wtypes.Account, error) {
	all, err := a.ValidatingAccountsProvider.ValidatingAccountsForEpoch(ctx, epoch)
	if err != nil || a.calls.Add(1)%2 == 1 {
		return all, err
	}
	res := make(map[phase0.ValidatorIndex]e2wtypes.Account, len(all))
	for k, v := range all {
		if uint64(k) != c17ctlValidators {
			res[k] = v
		}
	}
	return res, nil
}

func init() {
	scenarios["controller-duties"] = scenario{"controller_standard", func(t *testing.T) {
		ctx := context.Background()
		const startEpoch = 100
		const startSlot = startEpoch * c17ctlSPE
		ct := mocks.NewChainTime(c17ctlSPE)
		ct.SetSlot(startSlot)
		ev := mocks.NewEventsProvider()
		sched := mocks.NewRecScheduler()
		sched.RunInline = true // the fast track of the head handler really runs the attestation job
		vap := mockaccountmanager.NewValidatingAccountsProvider()
		accounts := map[phase0.ValidatorIndex]e2wtypes.Account{}
		for i := uint64(1); i <= c17ctlValidators; i++ {
			vap.AddAccount(phase0.ValidatorIndex(i), c17Account{i})
			accounts[phase0.ValidatorIndex(i)] = c17Account{i}
		}
		// sync committee data for every slot of the run, so that the verification of the head handler has work
		messenger := mocksynccommitteemessenger.New()
		for s := uint64(startSlot) - 2; s < startSlot+20*c17ctlSPE; s++ {
			messenger.PrimeLastReported(phase0.Slot(s), synccommitteemessenger.SlotData{
				Root:                      phase0.Root{byte(s)},
				ValidatorToCommitteeIndex: map[phase0.ValidatorIndex][]phase0.CommitteeIndex{1: {2}, 2: {3}},
			})
		}
		svc, err := standardcontroller.New(ctx,
			standardcontroller.WithLogLevel(zerolog.Disabled),
			standardcontroller.WithMonitor(nullmetrics.New()),
			standardcontroller.WithSpecProvider(c17ctlSpec{}),
			standardcontroller.WithChainTimeService(ct),
			standardcontroller.WithProposerDutiesProvider(mock.NewProposerDutiesProvider()),
			standardcontroller.WithAttesterDutiesProvider(c17ctlDuties{}),
			standardcontroller.WithSyncCommitteeDutiesProvider(mock.NewSyncCommitteeDutiesProvider()),
			standardcontroller.WithEventsProvider(ev),
			standardcontroller.WithValidatingAccountsProvider(&c17ctlAccounts{ValidatingAccountsProvider: vap}),
			standardcontroller.WithProposalsPreparer(mockproposalpreparer.New()),
			standardcontroller.WithScheduler(sched),
			standardcontroller.WithAttester(c17ctlAttester{}),
			standardcontroller.WithSyncCommitteeMessenger(messenger),
			standardcontroller.WithSyncCommitteeAggregator(mocksynccommitteeaggregator.New()),
			standardcontroller.WithSyncCommitteeSubscriber(mocksynccommitteesubscriber.New()),
			standardcontroller.WithBeaconBlockProposer(mockbeaconblockproposer.New()),
			standardcontroller.WithBeaconCommitteeSubscriber(c17ctlSubscriber{}),
			standardcontroller.WithAttestationAggregator(mockattestationaggregator.New()),
			standardcontroller.WithAccountsRefresher(mockaccountmanager.NewRefresher()),
			standardcontroller.WithBlockToSlotSetter(&c17ctlSlotSetter{m: map[phase0.Root]phase0.Slot{}}),
			standardcontroller.WithBeaconBlockHeadersProvider(mock.NewBeaconBlockHeadersProvider()),
			standardcontroller.WithSignedBeaconBlockProvider(mock.NewSignedBeaconBlockProvider()),
			standardcontroller.WithMaxProposalDelay(time.Second),
			standardcontroller.WithVerifySyncCommitteeInclusion(true),
			standardcontroller.WithFastTrackAttestations(true),
			standardcontroller.WithFastTrackSyncCommittees(true),
			standardcontroller.WithFastTrackGrace(time.Millisecond),
		)
		if err != nil {
			t.Fatalf("controller constructor: %v", err)
		}
		if len(ev.Handlers["head"]) < 1 || len(ev.Handlers["block"]) < 1 {
			t.Fatalf("expected a head and a block subscription, have %d and %d", len(ev.Handlers["head"]), len(ev.Handlers["block"]))
		}
		var periodic []*mocks.Job
		for _, name := range []string{"Epoch ticker", "Account refresh ticker", "Prepare proposals ticker"} {
			j, ok := sched.Get(name)
			if !ok {
				t.Fatalf("periodic job %q not registered: %v", name, sched.ListJobs(ctx))
			}
			periodic = append(periodic, j)
		}

		stop := make(chan struct{})
		stopped := func() bool {
			select {
			case <-stop:
				return true
			default:
				return false
			}
		}
		var wg sync.WaitGroup
		// the periodic jobs: one goroutine each, runtime function then job function (the epoch ticker
		// takes 200 ms whenever the epoch has changed and returns at once otherwise)
		for _, j := range periodic {
			wg.Add(1)
			go func(j *mocks.Job) {
				defer wg.Done()
				for !stopped() {
					_, _ = j.Runtime(ctx)
					j.Func(ctx)
					time.Sleep(3 * time.Millisecond)
				}
			}(j)
		}
		// the one-off jobs, fired when their time has come on the harness clock
		fireDue := func(all bool) {
			for _, j := range sched.Snapshot() {
				if j.Periodic || !(all || c17ctlDue(ct, j)) {
					continue
				}
				if strings.HasPrefix(j.Name, "Attestations for slot ") || strings.HasPrefix(j.Name, "Prepare for epoch ") ||
					strings.HasPrefix(j.Name, "Beacon block attestation aggregation ") {
					sched.Fire(ctx, j.Name)
				}
			}
		}
		for r := 0; r < 3; r++ {
			wg.Add(1)
			go func() {
				defer wg.Done()
				for !stopped() {
					fireDue(false)
					time.Sleep(time.Millisecond)
				}
			}()
		}

		// the head subscription(s), one goroutine each as in production: the clock advances one slot per event; the
		// dependent roots change from time to time
		var waits []func()
		for hi, head := range ev.Handlers["head"] {
			hi, head := hi, head
			waits = append(waits, single(3*c17ctlSPE, func(i int) {
				slot := uint64(startSlot + i)
				if hi == 0 {
					ct.SetSlot(slot)
				}
				head(&apiv1.Event{Topic: "head", Data: &apiv1.HeadEvent{
					Slot:                      phase0.Slot(slot),
					Block:                     phase0.Root{byte(slot), byte(slot >> 8), 1},
					PreviousDutyDependentRoot: phase0.Root{1, byte(i / 24)},
					CurrentDutyDependentRoot:  phase0.Root{2, byte(i / 10)},
				}})
				time.Sleep(5 * time.Millisecond)
			}))
		}
		// the block subscription(s)
		for _, block := range ev.Handlers["block"] {
			block := block
			waits = append(waits, single(3*c17ctlSPE, func(i int) {
				slot := uint64(startSlot + i)
				block(&apiv1.Event{Topic: "block", Data: &apiv1.BlockEvent{Slot: phase0.Slot(slot), Block: phase0.Root{byte(slot), byte(slot >> 8), 1}}})
				time.Sleep(5 * time.Millisecond)
			}))
		}

		// everything that runs on arbitrary goroutines
		hammer(2, 250,
			func(i int) {
				cur := ct.CurrentSlot()
				for s := cur; s < cur+8; s++ {
					_ = svc.HasPendingAttestations(ctx, s)
				}
				time.Sleep(2 * time.Millisecond)
			},
			func(i int) {
				svc.VerifSubscribeToBeaconCommittees(ctx, ct.CurrentEpoch()+phase0.Epoch(i%2), accounts)
				time.Sleep(2 * time.Millisecond)
			},
			func(i int) {
				// an attestation job running late or twice (RunJob of a job whose timer fires as well)
				slot := ct.CurrentSlot() + phase0.Slot(i%3)
				v := phase0.ValidatorIndex(uint64(slot)%c17ctlValidators + 1)
				duty, err := attester.NewDuty(ctx, slot, 2, []phase0.ValidatorIndex{v}, []phase0.CommitteeIndex{phase0.CommitteeIndex(i % 2)},
					[]uint64{3}, map[phase0.CommitteeIndex]uint64{0: 16, 1: 16})
				if err == nil {
					svc.AttestAndScheduleAggregate(ctx, duty)
				}
				time.Sleep(2 * time.Millisecond)
			},
			func(i int) {
				slot := ct.CurrentSlot()
				svc.VerifySyncCommitteeMessages(ctx, &apiv1.HeadEvent{Slot: slot, Block: phase0.Root{byte(slot)}})
				time.Sleep(2 * time.Millisecond)
			},
		)
		for _, w := range waits {
			w()
		}
		close(stop)
		wg.Wait()
		// what is left in the table, from two goroutines; then let the controller's own goroutines finish
		hammer(2, 1, func(int) { fireDue(true) })
		time.Sleep(100 * time.Millisecond)
	}}
}
