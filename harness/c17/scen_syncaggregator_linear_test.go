// C17 scenario syncaggregator-linear: the sync committee aggregator's store of beacon block roots as a HISTORY
// (see scen_cache_linear_test.go and coq/Model/C17_Cache.v).  The sync committee messenger stores the root it
// signed over for a slot (SetBeaconBlockRoot: an insert, and in the same critical section the removal of the
// roots more than an epoch older than the slot); the aggregation job of the slot takes it (Aggregate: read and
// delete in one section; on a miss it asks the node for the head root).  Messenger jobs of neighbouring slots can
// overlap, so the sets of three neighbouring slots run together; every slot is aggregated once, after its set has
// returned.
//
// In the history a set of slot s is two records with the same stamps: the mapping s -> s (the stored root encodes
// the slot) and a clean with minimum s - slotsPerEpoch; an aggregation is a lookup that found the stored root
// (res = the slot in the root it asked contributions for) or missed (the head root was used).
package c17

import (
	"context"
	"encoding/binary"
	"encoding/json"
	"fmt"
	"runtime"
	"sort"
	"sync"
	"sync/atomic"
	"testing"

	"github.com/attestantio/go-eth2-client/api"
	"github.com/attestantio/go-eth2-client/spec/altair"
	"github.com/attestantio/go-eth2-client/spec/phase0"
	"github.com/attestantio/vouch/mock"
	mockaccountmanager "github.com/attestantio/vouch/services/accountmanager/mock"
	nullmetrics "github.com/attestantio/vouch/services/metrics/null"
	mocksigner "github.com/attestantio/vouch/services/signer/mock"
	"github.com/attestantio/vouch/services/synccommitteeaggregator"
	standardsyncaggregator "github.com/attestantio/vouch/services/synccommitteeaggregator/standard"
	bitfield "github.com/prysmaticlabs/go-bitfield"
	"github.com/rs/zerolog"
	e2wtypes "github.com/wealdtech/go-eth2-wallet-types/v2"

	"verifharness/mocks"
)

type c17aggRootKey struct{}

// c17aggContributions notes, in the request's context, the beacon block root the aggregation asks contributions for.
type c17aggContributions struct{}

func (c17aggContributions) SyncCommitteeContribution(ctx context.Context, opts *api.SyncCommitteeContributionOpts) (*api.Response[*altair.SyncCommitteeContribution], error) {
	if err := ctx.Err(); err != nil {
		return nil, err
	}
	if r, ok := ctx.Value(c17aggRootKey{}).(*phase0.Root); ok {
		*r = opts.BeaconBlockRoot
	}
	return &api.Response[*altair.SyncCommitteeContribution]{
		Data: &altair.SyncCommitteeContribution{
			Slot:              opts.Slot,
			BeaconBlockRoot:   opts.BeaconBlockRoot,
			SubcommitteeIndex: opts.SubcommitteeIndex,
			AggregationBits:   bitfield.NewBitvector128(),
		},
		Metadata: map[string]any{},
	}, nil
}

func c17aggRoot(slot uint64) phase0.Root {
	var r phase0.Root
	r[0] = 0xa9
	binary.LittleEndian.PutUint64(r[8:], slot)
	return r
}

func init() {
	scenarios["syncaggregator-linear"] = scenario{"synccommitteeaggregator_standard", func(t *testing.T) {
		ctx := context.Background()
		const spe = 32 // mock.NewSpecProvider: SLOTS_PER_EPOCH
		ct := mocks.NewChainTime(spe)
		svc, err := standardsyncaggregator.New(ctx,
			standardsyncaggregator.WithLogLevel(zerolog.Disabled),
			standardsyncaggregator.WithMonitor(nullmetrics.New()),
			standardsyncaggregator.WithSpecProvider(mock.NewSpecProvider()),
			standardsyncaggregator.WithBeaconBlockRootProvider(mock.NewBeaconBlockRootProvider()),
			standardsyncaggregator.WithContributionAndProofSigner(mocksigner.New()),
			standardsyncaggregator.WithValidatingAccountsProvider(mockaccountmanager.NewValidatingAccountsProvider()),
			standardsyncaggregator.WithSyncCommitteeContributionProvider(c17aggContributions{}),
			standardsyncaggregator.WithSyncCommitteeContributionsSubmitter(mock.NewSyncCommitteeContributionsSubmitter()),
			standardsyncaggregator.WithChainTime(ct),
		)
		if err != nil {
			t.Fatalf("sync committee aggregator constructor: %v", err)
		}
		duty := func(slot phase0.Slot) *synccommitteeaggregator.Duty {
			return &synccommitteeaggregator.Duty{
				Slot:             slot,
				ValidatorIndices: []phase0.ValidatorIndex{1},
				SelectionProofs:  map[phase0.ValidatorIndex]map[uint64]phase0.BLSSignature{1: {0: {1}}},
				Accounts:         map[phase0.ValidatorIndex]e2wtypes.Account{1: c17Account{1}},
			}
		}
		const setters = 3
		perSetter := jitter(60 * scale())
		var clock atomic.Uint64
		type rec struct{ ops []histOp }
		recs := make([]*rec, setters)
		for g := range recs {
			recs[g] = &rec{}
		}
		// per round the messenger jobs of three neighbouring slots overlap (three goroutines), each followed by the
		// aggregation job of its slot; the rounds follow each other as the slots of production do (a set 32 slots
		// ahead would legitimately remove a root before it is asked for)
		for i := 0; i < perSetter; i++ {
			var wg sync.WaitGroup
			var ready atomic.Int32
			var start atomic.Bool // the three sets are released together (spinning: a channel wakes them one by one)
			for g := 0; g < setters; g++ {
				wg.Add(1)
				go func(g int) {
					defer wg.Done()
					r := recs[g]
					slot := uint64(1000 + setters*i + g)
					ready.Add(1)
					for !start.Load() {
					}
					inv := clock.Add(1)
					svc.SetBeaconBlockRoot(phase0.Slot(slot), c17aggRoot(slot))
					resp := clock.Add(1)
					r.ops = append(r.ops,
						histOp{Kind: 0, Key: slot, Val: slot, Res: -1, Inv: inv, Resp: resp},
						histOp{Kind: 2, Val: slot - spe, Res: -1, Inv: inv, Resp: resp})
					var used phase0.Root
					actx := context.WithValue(ctx, c17aggRootKey{}, &used)
					inv = clock.Add(1)
					svc.Aggregate(actx, duty(phase0.Slot(slot)))
					resp = clock.Add(1)
					op := histOp{Kind: 1, Key: slot, Res: -1, Asked: true, Inv: inv, Resp: resp}
					if used == c17aggRoot(binary.LittleEndian.Uint64(used[8:])) {
						op.Res, op.Asked = int64(binary.LittleEndian.Uint64(used[8:])), false
					}
					r.ops = append(r.ops, op)
				}(g)
			}
			for ready.Load() < setters {
				runtime.Gosched()
			}
			start.Store(true)
			wg.Wait()
		}
		var history []histOp
		for _, r := range recs {
			history = append(history, r.ops...)
		}
		sort.SliceStable(history, func(i, j int) bool { return history[i].Inv < history[j].Inv })
		js, _ := json.Marshal(scenarioData{History: history})
		fmt.Printf("\n%s %s\n", dataMarker, js)
	}}
}
