// C17 scenarios: sync committee messenger, cache, wallet account manager, v1 execution configuration.
package c17

import (
	"context"
	"fmt"
	"sync"
	"testing"

	apiv1 "github.com/attestantio/go-eth2-client/api/v1"
	"github.com/attestantio/go-eth2-client/spec/bellatrix"
	"github.com/attestantio/go-eth2-client/spec/phase0"
	"github.com/attestantio/vouch/mock"
	mockaccountmanager "github.com/attestantio/vouch/services/accountmanager/mock"
	walletaccountmanager "github.com/attestantio/vouch/services/accountmanager/wallet"
	"github.com/attestantio/vouch/services/blockrelay"
	standardcache "github.com/attestantio/vouch/services/cache/standard"
	nullmetrics "github.com/attestantio/vouch/services/metrics/null"
	mocksigner "github.com/attestantio/vouch/services/signer/mock"
	mocksyncaggregator "github.com/attestantio/vouch/services/synccommitteeaggregator/mock"
	standardmessenger "github.com/attestantio/vouch/services/synccommitteemessenger/standard"
	"github.com/rs/zerolog"
	e2types "github.com/wealdtech/go-eth2-types/v2"
	keystorev4 "github.com/wealdtech/go-eth2-wallet-encryptor-keystorev4"
	nd "github.com/wealdtech/go-eth2-wallet-nd/v2"
	filesystem "github.com/wealdtech/go-eth2-wallet-store-filesystem"
	e2wtypes "github.com/wealdtech/go-eth2-wallet-types/v2"

	"verifharness/mocks"
)

func init() {
	scenarios["messenger-slotdata"] = scenario{"synccommitteemessenger_standard", func(t *testing.T) {
		ctx := context.Background()
		ct := mocks.NewChainTime(32)
		svc, err := standardmessenger.New(ctx,
			standardmessenger.WithLogLevel(zerolog.Disabled),
			standardmessenger.WithMonitor(nullmetrics.New()),
			standardmessenger.WithProcessConcurrency(2),
			standardmessenger.WithSpecProvider(mock.NewSpecProvider()),
			standardmessenger.WithChainTimeService(ct),
			standardmessenger.WithSyncCommitteeAggregator(mocksyncaggregator.New()),
			standardmessenger.WithBeaconBlockRootProvider(mock.NewBeaconBlockRootProvider()),
			standardmessenger.WithSyncCommitteeMessagesSubmitter(mock.NewSyncCommitteeMessagesSubmitter()),
			standardmessenger.WithSyncCommitteeSubscriptionsSubmitter(mock.NewSyncCommitteeSubscriptionsSubmitter()),
			standardmessenger.WithValidatingAccountsProvider(mockaccountmanager.NewValidatingAccountsProvider()),
			standardmessenger.WithSyncCommitteeSelectionSigner(mocksigner.New()),
			standardmessenger.WithSyncCommitteeRootSigner(mocksigner.New()),
		)
		if err != nil {
			t.Fatalf("messenger constructor: %v", err)
		}
		hammer(2, 300,
			func(i int) {
				svc.UpdateSyncCommitteeDataRecord(phase0.Slot(i), phase0.Root{byte(i)}, map[phase0.ValidatorIndex][]phase0.CommitteeIndex{1: {2}})
			},
			func(i int) { _, _ = svc.GetDataUsedForSlot(phase0.Slot(i)) },
			func(i int) { svc.RemoveHistoricDataUsedForSlotVerification(phase0.Slot(i + 1000)) },
		)
	}}

	scenarios["cache-blockroot"] = scenario{"cache_standard", func(t *testing.T) {
		ctx := context.Background()
		ct := mocks.NewChainTime(32)
		ev := mocks.NewEventsProvider()
		sched := mocks.NewRecScheduler()
		svc, err := standardcache.New(ctx,
			standardcache.WithLogLevel(zerolog.Disabled),
			standardcache.WithMonitor(nullmetrics.New()),
			standardcache.WithChainTime(ct),
			standardcache.WithScheduler(sched),
			standardcache.WithEventsProvider(ev),
			standardcache.WithSignedBeaconBlockProvider(mock.NewSignedBeaconBlockProvider()),
			standardcache.WithBeaconBlockHeadersProvider(mock.NewBeaconBlockHeadersProvider()),
		)
		if err != nil {
			t.Fatalf("cache constructor: %v", err)
		}
		clean, _ := sched.Get("Clean block root to slot cache")
		ct.SetEpoch(100)
		// event handlers of one subscription are sequential: one goroutine per subscription
		var wg sync.WaitGroup
		for _, h := range ev.Handlers["block"] {
			wg.Add(1)
			go func(h func(*apiv1.Event)) {
				defer wg.Done()
				for i := 0; i < 300; i++ {
					h(&apiv1.Event{Topic: "block", Data: &apiv1.BlockEvent{Slot: phase0.Slot(i), Block: phase0.Root{byte(i)}}})
				}
			}(h)
		}
		for _, h := range ev.Handlers["head"] {
			wg.Add(1)
			go func(h func(*apiv1.Event)) {
				defer wg.Done()
				for i := 0; i < 50; i++ {
					h(&apiv1.Event{Topic: "head", Data: &apiv1.HeadEvent{Slot: phase0.Slot(i), Block: phase0.Root{byte(i)}}})
				}
			}(h)
		}
		hammer(2, 200,
			func(i int) { _, _ = svc.BlockRootToSlot(ctx, phase0.Root{byte(i)}) },
			func(i int) { svc.SetBlockRootToSlot(phase0.Root{byte(i), 1}, phase0.Slot(i)) },
			func(i int) { _, _ = svc.ExecutionChainHead(ctx) },
		)
		clean.Func(ctx)
		wg.Wait()
	}}

	scenarios["wallet-accounts"] = scenario{"accountmanager_wallet", func(t *testing.T) {
		ctx := context.Background()
		if err := e2types.InitBLS(); err != nil {
			t.Fatalf("bls: %v", err)
		}
		dir := t.TempDir()
		store := filesystem.New(filesystem.WithLocation(dir))
		// light key derivation: the scenario unlocks the accounts on every refresh
		enc := keystorev4.New(keystorev4.WithCipher("pbkdf2"), keystorev4.WithCost(t, 10))
		w, err := nd.CreateWallet(ctx, "W", store, enc)
		if err != nil {
			t.Fatalf("create wallet: %v", err)
		}
		if err := w.(e2wtypes.WalletLocker).Unlock(ctx, nil); err != nil {
			t.Fatalf("unlock wallet: %v", err)
		}
		for i := 0; i < 2; i++ {
			if _, err := w.(e2wtypes.WalletAccountCreator).CreateAccount(ctx, fmt.Sprintf("a%d", i), []byte("pass")); err != nil {
				t.Fatalf("create account: %v", err)
			}
		}
		svc, err := walletaccountmanager.New(ctx,
			walletaccountmanager.WithLogLevel(zerolog.Disabled),
			walletaccountmanager.WithMonitor(nullmetrics.New()),
			walletaccountmanager.WithProcessConcurrency(2),
			walletaccountmanager.WithLocations([]string{dir}),
			walletaccountmanager.WithAccountPaths([]string{"W"}),
			walletaccountmanager.WithPassphrases([][]byte{[]byte("pass")}),
			walletaccountmanager.WithValidatorsManager(mock.NewValidatorsManager()),
			walletaccountmanager.WithSpecProvider(mock.NewSpecProvider()),
			walletaccountmanager.WithFarFutureEpochProvider(mock.NewFarFutureEpochProvider(0xffffffffffffffff)),
			walletaccountmanager.WithDomainProvider(mock.NewDomainProvider()),
			walletaccountmanager.WithCurrentEpochProvider(mocks.NewChainTime(32)),
		)
		if err != nil {
			t.Fatalf("wallet account manager constructor: %v", err)
		}
		stop := make(chan struct{})
		var wg sync.WaitGroup
		for r := 0; r < 3; r++ {
			wg.Add(1)
			go func() {
				defer wg.Done()
				for {
					select {
					case <-stop:
						return
					default:
					}
					_, _ = svc.ValidatingAccountsForEpoch(ctx, 5)
					_, _ = svc.ValidatingAccountsForEpochByIndex(ctx, 5, []phase0.ValidatorIndex{1, 2})
					_, _ = svc.SyncCommitteeAccountsForEpoch(ctx, 5)
					_, _ = svc.AccountByPublicKey(ctx, phase0.BLSPubKey{1})
				}
			}()
		}
		for i := 0; i < 4; i++ {
			svc.Refresh(ctx)
		}
		close(stop)
		wg.Wait()
	}}

	scenarios["v1-proposerconfig"] = scenario{"blockrelay_v1", func(t *testing.T) {
		doc := `{"default_config":{"fee_recipient":"0x0200000000000000000000000000000000000000","builder":{"enabled":true,"relays":["https://relay.example.com/"]}},
                 "proposer_config":{"0xaaaaaaaaaaaaaaaaaaaaaaaaaaaaaaaaaaaaaaaaaaaaaaaaaaaaaaaaaaaaaaaaaaaaaaaaaaaaaaaaaaaaaaaaaaaaaaaa":{"fee_recipient":"0x0300000000000000000000000000000000000000"}}}`
		var cfg blockrelay.ExecutionConfigurator
		c, err := blockrelay.UnmarshalJSON([]byte(doc))
		if err != nil {
			t.Fatalf("unmarshal: %v", err)
		}
		cfg = c
		var k phase0.BLSPubKey
		for i := range k {
			k[i] = 0xaa
		}
		hammer(4, 100,
			func(i int) {
				_, _ = cfg.ProposerConfig(context.Background(), nil, phase0.BLSPubKey{byte(i)}, bellatrix.ExecutionAddress{1}, 30000000)
			},
			func(i int) {
				_, _ = cfg.ProposerConfig(context.Background(), nil, k, bellatrix.ExecutionAddress{1}, 30000000)
			},
		)
	}}

	// version 2 configuration: lookups run concurrently under the block relay's READ lock (and on the
	// registration round's snapshot without any lock), so the configuration object must not be written
	scenarios["v2-proposerconfig"] = scenario{"blockrelay_v2", func(t *testing.T) {
		doc := `{"version":2,"fee_recipient":"0x0200000000000000000000000000000000000000",
                 "relays":{"https://relay1.example.com/":{"public_key":"0xac6e77dfe25ecd6110b8e780608cce0dab71fdd5ebea22a16c0205200f2f8e2e3ad3b71d3499c54ad14d6c21b41a37ae"}},
                 "proposers":[{"proposer":"0xaaaaaaaaaaaaaaaaaaaaaaaaaaaaaaaaaaaaaaaaaaaaaaaaaaaaaaaaaaaaaaaaaaaaaaaaaaaaaaaaaaaaaaaaaaaaaaaa","fee_recipient":"0x0300000000000000000000000000000000000000",
                               "relays":{"https://relay2.example.com/":{}}},
                              {"proposer":"^Wallet/Account [0-9]+$","fee_recipient":"0x0400000000000000000000000000000000000000","reset_relays":true}]}`
		c, err := blockrelay.UnmarshalJSON([]byte(doc))
		if err != nil {
			t.Fatalf("unmarshal: %v", err)
		}
		var cfg blockrelay.ExecutionConfigurator = c
		var k phase0.BLSPubKey
		for i := range k {
			k[i] = 0xaa
		}
		hammer(4, 100,
			func(i int) {
				_, _ = cfg.ProposerConfig(context.Background(), nil, phase0.BLSPubKey{byte(i)}, bellatrix.ExecutionAddress{1}, 30000000)
			},
			func(i int) {
				_, _ = cfg.ProposerConfig(context.Background(), nil, k, bellatrix.ExecutionAddress{1}, 30000000)
			},
		)
	}}
}
