// C17 scenario wallet-multi for services/accountmanager/wallet: SEVERAL wallets, each holding several
// accounts (the refresh builds ONE account map out of all of them: whatever the refresh does per wallet
// and per account on its own goroutines meets in that map), a wallet that comes and goes between
// refreshes (an operator removes and restores a wallet directory while Vouch runs), one refresher (the
// controller's periodic account refresher is the only caller of Refresh in production) and the duty
// services looking accounts up all the while.
//
// Observed beyond race / hang / crash: every distinct answer of the validating-account lookups, as in
// dirk-churn: each must be the lookup on the accounts of ONE refresh (all wallets, or all but the
// wallet that was away) — an account lost while the map was being built, or a half-built map that
// was published, gives an answer that is the lookup of no listing.
package c17

import (
	"context"
	"encoding/json"
	"fmt"
	"os"
	"path/filepath"
	"runtime"
	"sync"
	"testing"

	apiv1 "github.com/attestantio/go-eth2-client/api/v1"
	"github.com/attestantio/go-eth2-client/spec/phase0"
	"github.com/attestantio/vouch/mock"
	walletaccountmanager "github.com/attestantio/vouch/services/accountmanager/wallet"
	nullmetrics "github.com/attestantio/vouch/services/metrics/null"
	"github.com/rs/zerolog"
	e2types "github.com/wealdtech/go-eth2-types/v2"
	keystorev4 "github.com/wealdtech/go-eth2-wallet-encryptor-keystorev4"
	nd "github.com/wealdtech/go-eth2-wallet-nd/v2"
	filesystem "github.com/wealdtech/go-eth2-wallet-store-filesystem"
	e2wtypes "github.com/wealdtech/go-eth2-wallet-types/v2"

	"verifharness/mocks"
)

// c17walletValidators knows the validators of the accounts created by the scenario: the validator
// index of a public key is the number the scenario gave its account; every fifth has exited.
type c17walletValidators struct {
	mu      sync.Mutex
	index   map[phase0.BLSPubKey]phase0.ValidatorIndex
	refresh int
}

func (v *c17walletValidators) RefreshValidatorsFromBeaconNode(context.Context, []phase0.BLSPubKey) error {
	v.mu.Lock()
	v.refresh++
	v.mu.Unlock()
	return nil
}

func (*c17walletValidators) ValidatorsByIndex(context.Context, []phase0.ValidatorIndex) map[phase0.ValidatorIndex]*phase0.Validator {
	return map[phase0.ValidatorIndex]*phase0.Validator{}
}

func (v *c17walletValidators) ValidatorsByPubKey(_ context.Context, pubKeys []phase0.BLSPubKey) map[phase0.ValidatorIndex]*phase0.Validator {
	res := make(map[phase0.ValidatorIndex]*phase0.Validator, len(pubKeys))
	v.mu.Lock()
	for _, pk := range pubKeys {
		idx, ok := v.index[pk]
		if !ok {
			continue
		}
		val := &phase0.Validator{PublicKey: pk, WithdrawalCredentials: make([]byte, 32), EffectiveBalance: 32000000000,
			ExitEpoch: c17dirkFarFuture, WithdrawableEpoch: c17dirkFarFuture}
		if idx%5 == 0 {
			val.ExitEpoch, val.WithdrawableEpoch = 3, 300
		}
		res[idx] = val
	}
	v.mu.Unlock()
	runtime.Gosched() // the beacon node round trip of production sits here
	return res
}

func (*c17walletValidators) ValidatorStateAtEpoch(context.Context, phase0.ValidatorIndex, phase0.Epoch) (apiv1.ValidatorState, error) {
	return apiv1.ValidatorStateActiveOngoing, nil
}

func init() {
	scenarios["wallet-multi"] = scenario{"accountmanager_wallet", func(t *testing.T) {
		ctx := context.Background()
		if err := e2types.InitBLS(); err != nil {
			t.Fatalf("bls: %v", err)
		}
		dir := t.TempDir()
		away := t.TempDir() // where the third wallet's directory is while it is "removed"
		store := filesystem.New(filesystem.WithLocation(dir))
		// light key derivation: the scenario unlocks every account on every refresh
		enc := keystorev4.New(keystorev4.WithCipher("pbkdf2"), keystorev4.WithCost(t, 10))
		vm := &c17walletValidators{index: map[phase0.BLSPubKey]phase0.ValidatorIndex{}}
		// wallet -> number of accounts; W2's path leaves its last account out
		type wdef struct {
			name string
			n    int
		}
		defs := []wdef{{"W1", 3}, {"W2", 4}, {"W3", 3}}
		var listings [2][]uint64 // all wallets / all but W3
		var w3dir string
		next := uint64(1)
		var anyKey phase0.BLSPubKey
		for _, d := range defs {
			w, err := nd.CreateWallet(ctx, d.name, store, enc)
			if err != nil {
				t.Fatalf("create wallet: %v", err)
			}
			if err := w.(e2wtypes.WalletLocker).Unlock(ctx, nil); err != nil {
				t.Fatalf("unlock wallet: %v", err)
			}
			if d.name == "W3" {
				w3dir = w.ID().String()
			}
			for i := 0; i < d.n; i++ {
				a, err := w.(e2wtypes.WalletAccountCreator).CreateAccount(ctx, fmt.Sprintf("a%d", i), []byte("pass"))
				if err != nil {
					t.Fatalf("create account: %v", err)
				}
				var pk phase0.BLSPubKey
				copy(pk[:], a.PublicKey().Marshal())
				anyKey = pk
				vm.index[pk] = phase0.ValidatorIndex(next)
				wanted := !(d.name == "W2" && i == d.n-1)
				if wanted {
					listings[0] = append(listings[0], next)
					if d.name != "W3" {
						listings[1] = append(listings[1], next)
					}
				}
				next++
			}
		}
		svc, err := walletaccountmanager.New(ctx,
			walletaccountmanager.WithLogLevel(zerolog.Disabled),
			walletaccountmanager.WithMonitor(nullmetrics.New()),
			walletaccountmanager.WithProcessConcurrency(4),
			walletaccountmanager.WithLocations([]string{dir}),
			walletaccountmanager.WithAccountPaths([]string{"W1", "W2/a[0-2]", "W3/a0", "W3/a[12]"}),
			walletaccountmanager.WithPassphrases([][]byte{[]byte("wrong"), []byte("pass")}),
			walletaccountmanager.WithValidatorsManager(vm),
			walletaccountmanager.WithSpecProvider(mock.NewSpecProvider()),
			walletaccountmanager.WithFarFutureEpochProvider(mock.NewFarFutureEpochProvider(c17dirkFarFuture)),
			walletaccountmanager.WithDomainProvider(mock.NewDomainProvider()),
			walletaccountmanager.WithCurrentEpochProvider(mocks.NewChainTime(32)),
		)
		if err != nil {
			t.Fatalf("wallet account manager constructor: %v", err)
		}
		requested := []phase0.ValidatorIndex{1, 2, 4, 6, 7, 8, 9, 10}
		var answers, answersIdx c17answerSet
		stop := make(chan struct{})
		var wg sync.WaitGroup
		lookups := []func(){
			func() {
				res, err := svc.ValidatingAccountsForEpoch(ctx, 6)
				if err != nil {
					t.Errorf("ValidatingAccountsForEpoch: %v", err)
				}
				answers.add(res)
			},
			func() {
				res, err := svc.ValidatingAccountsForEpochByIndex(ctx, 6, requested)
				if err != nil {
					t.Errorf("ValidatingAccountsForEpochByIndex: %v", err)
				}
				answersIdx.add(res)
			},
			func() {
				_, _ = svc.SyncCommitteeAccountsForEpoch(ctx, 6)
				_, _ = svc.SyncCommitteeAccountsForEpochByIndex(ctx, 6, requested)
				_, _ = svc.AccountByPublicKey(ctx, anyKey)
			},
		}
		for _, f := range lookups {
			for c := 0; c < 2; c++ {
				wg.Add(1)
				go func(f func()) {
					defer wg.Done()
					for {
						select {
						case <-stop:
							return
						default:
						}
						f()
						runtime.Gosched()
					}
				}(f)
			}
		}
		// ONE refresher; the third wallet is away on every second refresh
		wait := single(10, func(i int) {
			from, to := filepath.Join(dir, w3dir), filepath.Join(away, w3dir)
			if i%2 == 1 {
				from, to = to, from
			}
			if err := os.Rename(from, to); err != nil {
				t.Errorf("moving the wallet directory: %v", err)
			}
			svc.Refresh(ctx)
			// what the refresh installed, seen by a lookup after it
			res, err := svc.ValidatingAccountsForEpoch(ctx, 6)
			if err != nil {
				t.Errorf("ValidatingAccountsForEpoch: %v", err)
			}
			answers.add(res)
		})
		wait()
		close(stop)
		wg.Wait()
		data := c17churnData{Answers: answers.list(), AnswersIdx: answersIdx.list()}
		for _, r := range requested {
			data.Requested = append(data.Requested, uint64(r))
		}
		// the constructor's refresh saw all wallets; the refresher's first refresh sees W3 away
		data.Listings = [][]uint64{listings[0], listings[1]}
		for _, k := range listings[0] {
			if k%5 != 0 {
				data.Active = append(data.Active, k)
			}
		}
		js, _ := json.Marshal(data)
		fmt.Printf("\n%s %s\n", dataMarker, js)
	}}
}
