// C17: concurrent scenarios against the real services, run under the Go race detector.
//
// TestC17 re-executes this test binary once per input (TestC17Scenario with VERIF_C17_SCENARIO set)
// so that a race report or a hang in one scenario neither fails the harness nor hides the others.
// Observed per run:
//
//	race  — the output contains "WARNING: DATA RACE" or the runtime's fatal "concurrent map" error;
//	hang  — the scenario did not finish within its watchdog (goroutines blocked on a leaked lock):
//	        the goroutine dump is the replay;
//	crash — the process was aborted by a panic raised in Vouch's own code (the first frame of the
//	        panicking goroutine outside the Go runtime is in github.com/attestantio/vouch, not in a
//	        mock): an overlap made an operation see a state that no sequential order produces.
//
// A scenario that fails for any other reason is a harness problem and fails the harness run.
//
// Input (corpus / replay): {"scenario": <name>}.  The corpus holds the scenarios that witnessed the
// fixed defects; they run first, then every registered scenario VERIF_N times.
//
// Scenario files: scen_*_test.go, each registering into `scenarios` from an init function.  The
// goroutine structure of a scenario follows production: ONE goroutine per event subscription and
// per periodic job (their handlers never overlap themselves), several goroutines for everything
// that production calls from arbitrary goroutines (scheduler jobs, REST requests, other services).
package c17

import (
	"context"
	"encoding/json"
	"fmt"
	"os"
	"os/exec"
	"path/filepath"
	"runtime/pprof"
	"sort"
	"strings"
	"sync"
	"testing"
	"time"

	. "verifharness/common"
)

type scenario struct {
	service string // name in coq/Gen/C17_Extracted.v
	run     func(t *testing.T)
}

// Input is the JSON input of one case.
type Input struct {
	Scenario string `json:"scenario"`
}

var scenarios = map[string]scenario{}

// scale multiplies the number of rounds of the scenarios (thorough tier: 3).
func scale() int {
	if os.Getenv("VERIF_TIER") == "thorough" {
		return 3
	}
	return EnvInt("VERIF_C17_SCALE", 1)
}

// jitter varies a number of rounds by -25%..+25% from the run's seed (VERIF_SEED), so that different
// seeds exercise different overlaps.
var jitterRng = NewRand(Seed())
var jitterMu sync.Mutex

func jitter(rounds int) int {
	jitterMu.Lock()
	defer jitterMu.Unlock()
	r := rounds * (75 + jitterRng.Intn(51)) / 100
	if r < 1 {
		r = 1
	}
	return r
}

// hammer runs every function of fs concurrently, each `rounds` times from `copies` goroutines.
func hammer(copies, rounds int, fs ...func(i int)) {
	rounds = jitter(rounds * scale())
	var wg sync.WaitGroup
	start := make(chan struct{})
	for _, f := range fs {
		for c := 0; c < copies; c++ {
			wg.Add(1)
			go func(f func(int), c int) {
				defer wg.Done()
				<-start
				for i := 0; i < rounds; i++ {
					f(c*rounds + i)
				}
			}(f, c)
		}
	}
	close(start)
	wg.Wait()
}

// single runs f `rounds` times on ONE goroutine (an event stream, a periodic job); the returned
// function waits for it.
func single(rounds int, f func(i int)) (wait func()) {
	rounds = jitter(rounds * scale())
	done := make(chan struct{})
	go func() {
		defer close(done)
		for i := 0; i < rounds; i++ {
			f(i)
		}
	}()
	return func() { <-done }
}

const (
	dataMarker      = "C17-DATA"
	hangMarker      = "C17-HANG"
	scenarioTimeout = 25 * time.Second
)

func TestC17Scenario(t *testing.T) {
	name := os.Getenv("VERIF_C17_SCENARIO")
	sc, ok := scenarios[name]
	if !ok {
		t.Skip("no scenario selected")
	}
	done := make(chan struct{})
	go func() { defer close(done); sc.run(t) }()
	select {
	case <-done:
	case <-time.After(scenarioTimeout):
		fmt.Fprintf(os.Stderr, "%s: scenario %s did not finish within %s; goroutines:\n", hangMarker, name, scenarioTimeout)
		_ = pprof.Lookup("goroutine").WriteTo(os.Stderr, 1)
		os.Exit(3)
	}
}

type observed struct {
	race, hang, crash, broken bool
	report                    string
	data                      *scenarioData
}

// scenarioData is the optional structured output of a scenario (a line "C17-DATA {json}"): for the
// account-churn scenarios the key sets listed in each phase and the distinct answers of the lookups.
type scenarioData struct {
	Listings   [][]uint64    `json:"listings"`
	Active     []uint64      `json:"active"`
	Requested  []uint64      `json:"requested"`
	Answers    [][][2]uint64 `json:"answers"`
	AnswersIdx [][][2]uint64 `json:"answers_idx"`
	// cache history scenarios: every completed operation on a tracked root and every clean
	History []histOp `json:"history,omitempty"`
}

// histOp is one completed operation of an observed concurrent history (coq/Model/C17_Cache.v, record hop).
type histOp struct {
	Kind  uint64 `json:"kind"`  // 0 set (SetBlockRootToSlot / block event), 1 lookup (BlockRootToSlot), 2 clean, 3 ExecutionChainHead (Key: height encoded in the hash returned, Val: height returned)
	Key   uint64 `json:"key"`   // number of the root
	Val   uint64 `json:"val"`   // set: slot; clean: minimum slot; lookup: the slot the node answers (if Fill)
	Res   int64  `json:"res"`   // lookup: slot returned, -1 = error
	Fill  bool   `json:"fill"`  // lookup: the node knows the root
	Asked bool   `json:"asked"` // lookup: the node was asked (the read section missed)
	Inv   uint64 `json:"inv"`   // stamp taken before the call
	Resp  uint64 `json:"resp"`  // stamp taken after the return
}

func historyTerm(h []histOp) string {
	items := make([]string, 0, len(h))
	for _, o := range h {
		res := None()
		if o.Res >= 0 {
			res = Some(N(uint64(o.Res)))
		}
		items = append(items, App("mk_hop", N(o.Kind), N(o.Key), N(o.Val), res, Bool(o.Fill), Bool(o.Asked), N(o.Inv), N(o.Resp)))
	}
	return List(items)
}

func parseData(text string) *scenarioData {
	i := strings.Index(text, dataMarker+" ")
	if i < 0 {
		return nil
	}
	line := text[i+len(dataMarker)+1:]
	if j := strings.IndexByte(line, '\n'); j >= 0 {
		line = line[:j]
	}
	var d scenarioData
	if err := json.Unmarshal([]byte(line), &d); err != nil {
		return nil
	}
	return &d
}

func nList(xs []uint64) string {
	items := make([]string, 0, len(xs))
	for _, x := range xs {
		items = append(items, N(x))
	}
	return List(items)
}

func nLists(xss [][]uint64) string {
	items := make([]string, 0, len(xss))
	for _, xs := range xss {
		items = append(items, nList(xs))
	}
	return List(items)
}

func answerLists(as [][][2]uint64) string {
	items := make([]string, 0, len(as))
	for _, a := range as {
		ps := make([]string, 0, len(a))
		for _, p := range a {
			ps = append(ps, Pair(N(p[0]), Bool(p[1] != 0)))
		}
		items = append(items, List(ps))
	}
	return List(items)
}

// vouchPanic reports whether the output shows a panic whose first frame outside the runtime is Vouch code.
func vouchPanic(text string) (bool, string) {
	i := strings.Index(text, "\npanic: ")
	if i < 0 {
		if !strings.HasPrefix(text, "panic: ") {
			return false, ""
		}
		i = -1
	}
	rest := text[i+1:]
	j := strings.Index(rest, "[running]:")
	if j < 0 {
		return false, ""
	}
	for _, line := range strings.Split(rest[j:], "\n")[1:] {
		if line == "" {
			break
		}
		if strings.HasPrefix(line, "\t") || strings.HasPrefix(line, "panic(") || strings.HasPrefix(line, "runtime.") ||
			strings.HasPrefix(line, "testing.") || strings.HasPrefix(line, "sync.") || strings.HasPrefix(line, "internal/") {
			continue
		}
		inVouch := strings.HasPrefix(line, "github.com/attestantio/vouch/") && !strings.Contains(line, "/mock") && !strings.Contains(line, "vouch/testing/")
		return inVouch, rest
	}
	return false, ""
}

func runScenario(name string) observed {
	ctx, cancel := context.WithTimeout(context.Background(), scenarioTimeout+20*time.Second)
	defer cancel()
	cmd := exec.CommandContext(ctx, os.Args[0], "-test.run", "TestC17Scenario$", "-test.count=1")
	cmd.Env = append(os.Environ(), "VERIF_C17_SCENARIO="+name, "GORACE=halt_on_error=0")
	out, err := cmd.CombinedOutput()
	text := string(out)
	var o observed
	o.race = strings.Contains(text, "WARNING: DATA RACE") || strings.Contains(text, "fatal error: concurrent map")
	o.hang = strings.Contains(text, hangMarker) || strings.Contains(text, "all goroutines are asleep") || ctx.Err() != nil
	o.data = parseData(text)
	var panicText string
	o.crash, panicText = vouchPanic(text)
	o.broken = err != nil && !o.race && !o.hang && !o.crash
	switch {
	case o.crash:
		o.report = head(panicText, 2400)
	case o.race:
		o.report = head(raceReport(text), 2400)
	case o.hang:
		o.report = head(hangReport(text), 2400)
	case o.broken:
		o.report = head(text, 2400)
	case o.data != nil && len(o.data.History) > 0:
		// not a verdict (the verdict is lin_ok / history_sequential in coq/Check/C17.v): the lookups that missed a
		// mapping established before they began, for the reader of the replay file
		o.report = head(lostUpdates(o.data.History), 2400)
	}
	return o
}

func TestC17(t *testing.T) {
	col := NewCollector("C17", "Check.C17",
		"one case per run of a concurrent scenario (goroutines driving the entry points of one real service under the Go race detector, one goroutine per event stream / periodic job, several for everything else); all are non-trivial")
	col.Preamble = "Open Scope string_scope."
	var inputs []Input
	for _, in := range LoadInputs[Input]("C17") {
		if _, ok := scenarios[in.Scenario]; !ok {
			t.Errorf("corpus/replay names an unknown scenario %q", in.Scenario)
			continue
		}
		inputs = append(inputs, in)
		col.Count("corpus-or-replay")
	}
	if os.Getenv("VERIF_REPLAY") == "" {
		// every service the translator extracts must have a scenario (the meta file is written by bin/c17-translate)
		if data, err := os.ReadFile(filepath.Join("..", "..", "build", "c17_meta.json")); err == nil {
			var meta []struct {
				Name    string   `json:"name"`
				Entries []string `json:"entries"`
			}
			if json.Unmarshal(data, &meta) == nil {
				covered := map[string]bool{}
				for _, sc := range scenarios {
					covered[sc.service] = true
					// the scenario of a service also exercises the goroutines its methods start: the graph of
					// their shared local variables (translator/locals.go) is judged with the service's own
					covered[sc.service+"_locals"] = true
				}
				for _, m := range meta {
					if !covered[m.Name] {
						t.Errorf("extracted service %s (%d entries) has no race scenario in harness/c17", m.Name, len(m.Entries))
					}
				}
			}
		} else {
			col.Note("build/c17_meta.json not found: scenario coverage of the extracted services not checked")
		}
		names := make([]string, 0, len(scenarios))
		for n := range scenarios {
			names = append(names, n)
		}
		sort.Strings(names)
		repeats := EnvInt("VERIF_N", 1)
		for rep := 0; rep < repeats; rep++ {
			for _, n := range names {
				inputs = append(inputs, Input{Scenario: n})
			}
		}
	}
	// run (a few at a time: the race detector does not depend on timing luck, only on the
	// accesses happening without a happens-before edge)
	results := make([]observed, len(inputs))
	par := EnvInt("VERIF_C17_PAR", 4)
	sem := make(chan struct{}, par)
	var wg sync.WaitGroup
	for i := range inputs {
		wg.Add(1)
		sem <- struct{}{}
		go func(i int) {
			defer wg.Done()
			defer func() { <-sem }()
			results[i] = runScenario(inputs[i].Scenario)
		}(i)
	}
	wg.Wait()
	reps := map[string]int{}
	for i, in := range inputs {
		o := results[i]
		n := in.Scenario
		if o.broken {
			// a scenario that fails for another reason is a harness problem, not a verdict
			t.Errorf("scenario %s failed without a race report or a hang:\n%s", n, o.report)
		}
		col.Count("scenario:" + n)
		col.Count("service:" + scenarios[n].service)
		if o.race {
			col.Count("race:" + n)
		}
		if o.hang {
			col.Count("hang:" + n)
		}
		if o.crash {
			col.Count("crash:" + n)
		}
		d := o.data
		if d == nil {
			d = &scenarioData{}
		} else {
			col.Count("answers:" + n)
			if len(d.History) > 0 {
				col.Count("history:" + n)
			}
		}
		id := col.NextID()
		col.Add(Case{
			Term: Record("c_id", N(id), "c_service", fmt.Sprintf("%q", scenarios[n].service), "c_scenario", fmt.Sprintf("%q", n),
				"c_race", Bool(o.race), "c_hang", Bool(o.hang), "c_crash", Bool(o.crash),
				"c_listings", nLists(d.Listings), "c_active", nList(d.Active), "c_requested", nList(d.Requested),
				"c_answers", answerLists(d.Answers), "c_answers_idx", answerLists(d.AnswersIdx),
				"c_history", historyTerm(d.History)),
			Key: fmt.Sprintf("%s#%d", n, reps[n]), Nontrivial: true, Tags: []string{"scenario:" + n, "service:" + scenarios[n].service},
			Sample: map[string]any{"input": in, "observed": map[string]any{"race": o.race, "hang": o.hang, "crash": o.crash, "report": o.report, "data": o.data}},
		})
		reps[n]++
	}
	if err := col.Flush(); err != nil {
		t.Fatal(err)
	}
}

// lostUpdates names the lookups of a history whose read section missed (error, or the node was asked) although a
// set or an answered lookup of the same root had returned before the lookup was called and no clean that removes
// the slot overlaps or lies between the two.
func lostUpdates(h []histOp) string {
	var sb strings.Builder
	for _, l := range h {
		if l.Kind == 3 && l.Key != l.Val {
			fmt.Fprintf(&sb, "torn read: ExecutionChainHead returned the hash of execution block %d with height %d (stamps %d..%d): the two halves of no single head\n", l.Key, l.Val, l.Inv, l.Resp)
		}
	}
	for _, l := range h {
		if l.Kind != 1 || !(l.Asked || l.Res < 0) {
			continue
		}
		for _, w := range h {
			var v uint64
			switch {
			case w.Key != l.Key || w.Resp >= l.Inv:
				continue
			case w.Kind == 0:
				v = w.Val
			case w.Kind == 1 && w.Res >= 0:
				v = uint64(w.Res)
			default:
				continue
			}
			explained := false
			for _, c := range h {
				if c.Kind == 2 && v < c.Val && !(c.Resp < w.Inv) && !(l.Resp < c.Inv) {
					explained = true
				}
			}
			if !explained {
				what := map[uint64]string{0: "a set", 1: "an answered lookup"}[w.Kind]
				fmt.Fprintf(&sb, "lost update: the lookup of key %d called at stamp %d did not find it in the store, although %s had put %d -> %d there and returned at stamp %d, and no clean with a minimum above %d runs in between; cleans:", l.Key, l.Inv, what, w.Key, v, w.Resp, v)
				for _, c := range h {
					if c.Kind == 2 && !(c.Resp < w.Inv) && !(l.Resp < c.Inv) {
						fmt.Fprintf(&sb, " [stamps %d..%d, minimum %d]", c.Inv, c.Resp, c.Val)
					}
				}
				sb.WriteString("\n")
				break
			}
		}
	}
	return sb.String()
}

func raceReport(text string) string {
	i := strings.Index(text, "WARNING: DATA RACE")
	if i < 0 {
		i = strings.Index(text, "fatal error: concurrent map")
	}
	if i < 0 {
		return ""
	}
	return text[i:]
}

// hangReport keeps the goroutines blocked on a lock (the interesting part of the dump).
func hangReport(text string) string {
	i := strings.Index(text, hangMarker)
	if i < 0 {
		return text
	}
	text = text[i:]
	var keep []string
	for _, blk := range strings.Split(text, "\n\n") {
		if strings.Contains(blk, hangMarker) || strings.Contains(blk, "sync.(*RWMutex)") || strings.Contains(blk, "sync.(*Mutex)") || strings.Contains(blk, "sync.runtime_Sem") {
			keep = append(keep, blk)
		}
	}
	return strings.Join(keep, "\n\n")
}

func head(s string, n int) string {
	if len(s) <= n {
		return s
	}
	return s[:n]
}
