// C17 scenarios for strategies/builderbid/best and strategies/builderbid/deadline: auctions for
// several proposers at once (the block relay's AuctionBlock/BuilderBid are called from scheduler jobs
// and REST requests), each over several relays whose public keys the strategy caches on first sight
// (relayPubkeys): the relays of successive auctions carry new keys, so that insertions into the
// cache keep overlapping the lookups of the other auctions.
package c17

import (
	"context"
	"crypto/sha256"
	"encoding/binary"
	"errors"
	"fmt"
	"sync"
	"sync/atomic"
	"testing"
	"time"

	builderapi "github.com/attestantio/go-builder-client/api"
	apideneb "github.com/attestantio/go-builder-client/api/deneb"
	builderspec "github.com/attestantio/go-builder-client/spec"
	consensusapi "github.com/attestantio/go-eth2-client/api"
	consensusspec "github.com/attestantio/go-eth2-client/spec"
	"github.com/attestantio/go-eth2-client/spec/bellatrix"
	"github.com/attestantio/go-eth2-client/spec/deneb"
	"github.com/attestantio/go-eth2-client/spec/phase0"
	"github.com/attestantio/vouch/mock"
	"github.com/attestantio/vouch/services/beaconblockproposer"
	"github.com/attestantio/vouch/services/blockrelay"
	"github.com/attestantio/vouch/services/chaintime"
	nullmetrics "github.com/attestantio/vouch/services/metrics/null"
	"github.com/attestantio/vouch/strategies/builderbid"
	bestbid "github.com/attestantio/vouch/strategies/builderbid/best"
	deadlinebid "github.com/attestantio/vouch/strategies/builderbid/deadline"
	"github.com/attestantio/vouch/util"
	"github.com/holiman/uint256"
	"github.com/rs/zerolog"
	"github.com/shopspring/decimal"
	e2types "github.com/wealdtech/go-eth2-types/v2"

	"verifharness/mocks"
)

const (
	c17bidKeys   = 48 // relay keys cycled through by the auctions
	c17bidRelays = 4  // relays of one auction; the last one advertises its key itself (no key in the configuration)
)

// c17bidEnv holds the relay keys and the signed bids, built on demand per (key, timestamp) and then
// shared read-only between the relays.
type c17bidEnv struct {
	ct     chaintime.Service
	domain phase0.Domain
	keys   [c17bidKeys + 1]*e2types.BLSPrivateKey
	pubs   [c17bidKeys + 1]phase0.BLSPubKey

	mu   sync.Mutex
	bids map[[2]uint64]*builderspec.VersionedSignedBuilderBid
}

func c17bidNewEnv(t *testing.T, ct chaintime.Service) *c17bidEnv {
	if err := e2types.InitBLS(); err != nil {
		t.Fatalf("bls: %v", err)
	}
	env := &c17bidEnv{ct: ct, bids: map[[2]uint64]*builderspec.VersionedSignedBuilderBid{}}
	domain, err := mock.NewDomainProvider().GenesisDomain(context.Background(), phase0.DomainType{0x00, 0x00, 0x00, 0x01})
	if err != nil {
		t.Fatalf("domain: %v", err)
	}
	env.domain = domain
	for k := range env.keys {
		h := sha256.Sum256([]byte(fmt.Sprintf("verif-c17-relay-key-%d", k)))
		h[0] = 0 // below the group order
		key, err := e2types.BLSPrivateKeyFromBytes(h[:])
		if err != nil {
			t.Fatalf("key: %v", err)
		}
		env.keys[k] = key
		copy(env.pubs[k][:], key.PublicKey().Marshal())
	}
	return env
}

func c17bidFill(tag byte, id uint64) (r [32]byte) {
	r[0] = tag
	binary.BigEndian.PutUint64(r[24:], id)
	return r
}

// bid returns the bid signed by key k for a slot starting at the given time.
func (e *c17bidEnv) bid(k uint64, timestamp uint64) *builderspec.VersionedSignedBuilderBid {
	e.mu.Lock()
	defer e.mu.Unlock()
	if b, ok := e.bids[[2]uint64{k, timestamp}]; ok {
		return b
	}
	res := &builderspec.VersionedSignedBuilderBid{
		Version: consensusspec.DataVersionDeneb,
		Deneb: &apideneb.SignedBuilderBid{Message: &apideneb.BuilderBid{
			Header: &deneb.ExecutionPayloadHeader{
				ParentHash: c17bidFill(1, 7), FeeRecipient: bellatrix.ExecutionAddress{0xfe, 0xe0, 0x01}, StateRoot: c17bidFill(2, k), ReceiptsRoot: c17bidFill(3, k),
				PrevRandao: c17bidFill(4, 7), BlockNumber: 1000 + k, GasLimit: 30000000, GasUsed: 21000 * (k + 1), Timestamp: timestamp,
				ExtraData: []byte("verif"), BaseFeePerGas: uint256.NewInt(7), BlockHash: c17bidFill(5, k),
				TransactionsRoot: c17bidFill(6, k), WithdrawalsRoot: c17bidFill(7, k),
			},
			BlobKZGCommitments: []deneb.KZGCommitment{},
			Value:              uint256.NewInt(1000000 + k),
			Pubkey:             phase0.BLSPubKey{0xb0, byte(k)},
		}},
	}
	root, err := res.MessageHashTreeRoot()
	if err != nil {
		panic(err)
	}
	signingRoot, err := (&phase0.SigningData{ObjectRoot: root, Domain: e.domain}).HashTreeRoot()
	if err != nil {
		panic(err)
	}
	copy(res.Deneb.Signature[:], e.keys[k].Sign(signingRoot[:]).Marshal())
	e.bids[[2]uint64{k, timestamp}] = res
	return res
}

// c17bidRelay is a relay client supplying signed bids (and claiming to unblind).  The auction tells
// it through the first byte of the parent hash which key signs (the relay configuration of that
// auction names the same key).
type c17bidRelay struct {
	idx   uint64
	addr  string
	env   *c17bidEnv
	calls atomic.Uint64
}

func c17bidKeyOf(base byte, relay uint64) uint64 {
	if relay == c17bidRelays-1 {
		return c17bidKeys // the self-advertised key
	}
	return (uint64(base) + relay) % c17bidKeys
}

func (r *c17bidRelay) Name() string    { return fmt.Sprintf("c17bid-%d", r.idx) }
func (r *c17bidRelay) Address() string { return r.addr }
func (r *c17bidRelay) Pubkey() *phase0.BLSPubKey {
	if r.idx == c17bidRelays-1 {
		pk := r.env.pubs[c17bidKeys]
		return &pk
	}
	return nil
}
func (r *c17bidRelay) BuilderBid(_ context.Context, opts *builderapi.BuilderBidOpts) (*builderapi.Response[*builderspec.VersionedSignedBuilderBid], error) {
	r.calls.Add(1)
	ts := uint64(r.env.ct.StartOfSlot(opts.Slot).Unix())
	return &builderapi.Response[*builderspec.VersionedSignedBuilderBid]{
		Data: r.env.bid(c17bidKeyOf(opts.ParentHash[0], r.idx), ts), Metadata: map[string]any{}}, nil
}
func (*c17bidRelay) UnblindProposal(context.Context, *builderapi.UnblindProposalOpts) (*builderapi.Response[*consensusapi.VersionedSignedProposal], error) {
	return nil, errors.New("not scripted")
}

// c17bidSetup injects the relay clients; auction(i, slot) runs one auction with the i-th set of relay keys.
func c17bidSetup(t *testing.T, ct chaintime.Service, strat func() (builderbid.Provider, error)) (auction func(i int, slot phase0.Slot), relays []*c17bidRelay) {
	env := c17bidNewEnv(t, ct)
	for j := uint64(0); j < c17bidRelays; j++ {
		r := &c17bidRelay{idx: j, addr: fmt.Sprintf("http://relay-c17bid-%d.invalid", j), env: env}
		util.InjectBuilderClientC09(r.addr, r)
		relays = append(relays, r)
	}
	svc, err := strat()
	if err != nil {
		t.Fatalf("builder bid strategy constructor: %v", err)
	}
	ctx := context.Background()
	builderConfigs := map[phase0.BLSPubKey]*blockrelay.BuilderConfig{} // read-only
	auction = func(i int, slot phase0.Slot) {
		base := byte(i * (c17bidRelays - 1) % c17bidKeys)
		cfg := &beaconblockproposer.ProposerConfig{FeeRecipient: bellatrix.ExecutionAddress{0x01}}
		for j := uint64(0); j < c17bidRelays; j++ {
			rc := &beaconblockproposer.RelayConfig{
				Address: relays[j].addr, FeeRecipient: bellatrix.ExecutionAddress{0x01}, GasLimit: 30000000, MinValue: decimal.Zero,
			}
			if j != c17bidRelays-1 {
				pk := env.pubs[c17bidKeyOf(base, j)]
				rc.PublicKey = &pk
			}
			cfg.Relays = append(cfg.Relays, rc)
		}
		res, err := svc.BuilderBid(ctx, slot, phase0.Hash32{base}, phase0.BLSPubKey{0xaa, byte(i)}, cfg, builderConfigs)
		if err != nil {
			t.Errorf("BuilderBid: %v", err)
		}
		_ = res
	}
	return auction, relays
}

func init() {
	scenarios["builderbid-best-relaykeys"] = scenario{"strategies_builderbid_best", func(t *testing.T) {
		ct := mocks.NewChainTime(32)
		auction, relays := c17bidSetup(t, ct, func() (builderbid.Provider, error) {
			return bestbid.New(context.Background(), bestbid.WithLogLevel(zerolog.Disabled), bestbid.WithMonitor(nullmetrics.New()),
				bestbid.WithSpecProvider(mock.NewSpecProvider()), bestbid.WithDomainProvider(mock.NewDomainProvider()),
				bestbid.WithChainTime(ct), bestbid.WithTimeout(4*time.Second), bestbid.WithReleaseVersion("c17"))
		})
		hammer(3, 40, func(i int) { auction(i, 10) })
		for _, r := range relays {
			if r.calls.Load() == 0 {
				t.Errorf("relay %d was never asked for a bid", r.idx)
			}
		}
	}}

	scenarios["builderbid-deadline-relaykeys"] = scenario{"strategies_builderbid_deadline", func(t *testing.T) {
		// short slots: every auction is for the slot after the current one and polls its relays
		// until 40ms into that slot
		const slotDuration = 50 * time.Millisecond
		genesis := time.Now()
		ct := &mocks.ChainTime{Genesis: genesis, SlotDuration: slotDuration, SPE: 32}
		auction, relays := c17bidSetup(t, ct, func() (builderbid.Provider, error) {
			return deadlinebid.New(context.Background(), deadlinebid.WithLogLevel(zerolog.Disabled), deadlinebid.WithMonitor(nullmetrics.New()),
				deadlinebid.WithSpecProvider(mock.NewSpecProvider()), deadlinebid.WithDomainProvider(mock.NewDomainProvider()),
				deadlinebid.WithChainTime(ct), deadlinebid.WithDeadline(40*time.Millisecond), deadlinebid.WithBidGap(8*time.Millisecond),
				deadlinebid.WithReleaseVersion("c17"))
		})
		hammer(3, 16, func(i int) {
			auction(i, phase0.Slot(time.Since(genesis)/slotDuration)+1)
		})
		time.Sleep(60 * time.Millisecond) // the last polls of the relays end with their auction's deadline
		for _, r := range relays {
			if r.calls.Load() == 0 {
				t.Errorf("relay %d was never asked for a bid", r.idx)
			}
		}
	}}
}
