// C17 scenarios for three services whose struct is only read after construction (no mutex, no
// written field): beacon committee subscriber, proposal preparer, beacon block proposer.  Their
// entry points are called from scheduler jobs of different epochs / slots, which may overlap.
package c17

import (
	"context"
	"sync/atomic"
	"testing"

	"github.com/attestantio/go-block-relay/services/blockauctioneer"
	builderclient "github.com/attestantio/go-builder-client"
	eth2client "github.com/attestantio/go-eth2-client"
	"github.com/attestantio/go-eth2-client/api"
	apiv1 "github.com/attestantio/go-eth2-client/api/v1"
	"github.com/attestantio/go-eth2-client/spec/bellatrix"
	"github.com/attestantio/go-eth2-client/spec/phase0"
	"github.com/attestantio/vouch/mock"
	mockaccountmanager "github.com/attestantio/vouch/services/accountmanager/mock"
	"github.com/attestantio/vouch/services/attestationaggregator"
	"github.com/attestantio/vouch/services/beaconblockproposer"
	standardproposer "github.com/attestantio/vouch/services/beaconblockproposer/standard"
	standardsubscriber "github.com/attestantio/vouch/services/beaconcommitteesubscriber/standard"
	"github.com/attestantio/vouch/services/cache"
	mockcache "github.com/attestantio/vouch/services/cache/mock"
	staticgraffiti "github.com/attestantio/vouch/services/graffitiprovider/static"
	nullmetrics "github.com/attestantio/vouch/services/metrics/null"
	standardpreparer "github.com/attestantio/vouch/services/proposalpreparer/standard"
	mocksigner "github.com/attestantio/vouch/services/signer/mock"
	nullsubmitter "github.com/attestantio/vouch/services/submitter/null"
	"github.com/rs/zerolog"
	"github.com/sasha-s/go-deadlock"
	e2wtypes "github.com/wealdtech/go-eth2-wallet-types/v2"

	"verifharness/mocks"
)

// c17slDuties gives every requested validator one attester duty in the epoch.
type c17slDuties struct{}

func (c17slDuties) AttesterDuties(_ context.Context, opts *api.AttesterDutiesOpts) (*api.Response[[]*apiv1.AttesterDuty], error) {
	duties := make([]*apiv1.AttesterDuty, 0, len(opts.Indices))
	for _, idx := range opts.Indices {
		var pk phase0.BLSPubKey
		copy(pk[:], c17PubKey{uint64(idx)}.Marshal())
		duties = append(duties, &apiv1.AttesterDuty{
			PubKey: pk, Slot: phase0.Slot(uint64(opts.Epoch)*32 + uint64(idx)%8), ValidatorIndex: idx, CommitteeIndex: phase0.CommitteeIndex(idx % 3),
			CommitteeLength: 128, CommitteesAtSlot: 4, ValidatorCommitteeIndex: uint64(idx),
		})
	}
	return &api.Response[[]*apiv1.AttesterDuty]{Data: duties, Metadata: map[string]any{}}, nil
}

// c17slAggregator makes every second validator an aggregator.
type c17slAggregator struct{}

func (c17slAggregator) Aggregate(context.Context, *attestationaggregator.Duty) {}
func (c17slAggregator) AggregatorsAndSignatures(_ context.Context, accounts []e2wtypes.Account, _ phase0.Slot, _ []uint64) ([]phase0.BLSSignature, []bool, error) {
	sigs := make([]phase0.BLSSignature, len(accounts))
	aggs := make([]bool, len(accounts))
	for i := range accounts {
		sigs[i][0] = byte(i + 1)
		aggs[i] = i%2 == 0
	}
	return sigs, aggs, nil
}

type c17slCounter struct{ n atomic.Uint64 }

func (c *c17slCounter) SubmitBeaconCommitteeSubscriptions(context.Context, []*apiv1.BeaconCommitteeSubscription) error {
	c.n.Add(1)
	return nil
}
func (c *c17slCounter) SubmitProposalPreparations(context.Context, []*apiv1.ProposalPreparation) error {
	c.n.Add(1)
	return nil
}

// c17slExecConfig is the execution configuration provider of the proposal preparer.
type c17slExecConfig struct{}

func (c17slExecConfig) ProposerConfig(_ context.Context, _ e2wtypes.Account, pubkey phase0.BLSPubKey) (*beaconblockproposer.ProposerConfig, error) {
	return &beaconblockproposer.ProposerConfig{FeeRecipient: bellatrix.ExecutionAddress{0x01, pubkey[47]}}, nil
}

// c17slAuctioneer finds no bid: the proposer goes on with the local block.
type c17slAuctioneer struct{}

func (c17slAuctioneer) AuctionBlock(context.Context, phase0.Slot, phase0.Hash32, phase0.BLSPubKey) (*blockauctioneer.Results, error) {
	return &blockauctioneer.Results{
		Participation: map[string]*blockauctioneer.Participation{},
		AllProviders:  []builderclient.BuilderBidProvider{},
		Providers:     []builderclient.BuilderBidProvider{},
	}, nil
}

// c17slSigner is the mock signer with a RANDAO reveal that is not zero.
type c17slSigner struct{ *mocksigner.Service }

func (c17slSigner) SignRANDAOReveal(_ context.Context, _ e2wtypes.Account, slot phase0.Slot) (phase0.BLSSignature, error) {
	return phase0.BLSSignature{0xa0, byte(slot)}, nil
}

func c17slAccounts(n uint64) (*mockaccountmanager.ValidatingAccountsProvider, map[phase0.ValidatorIndex]e2wtypes.Account) {
	vap := mockaccountmanager.NewValidatingAccountsProvider()
	accounts := map[phase0.ValidatorIndex]e2wtypes.Account{}
	for i := uint64(1); i <= n; i++ {
		vap.AddAccount(phase0.ValidatorIndex(i), c17Account{i})
		accounts[phase0.ValidatorIndex(i)] = c17Account{i}
	}
	return vap, accounts
}

func init() {
	scenarios["subscriber-subscribe"] = scenario{"beaconcommitteesubscriber_standard", func(t *testing.T) {
		deadlock.Opts.Disable = true // go-deadlock cannot tell goroutines apart on this toolchain (plain sync locks instead)
		ctx := context.Background()
		ct := mocks.NewChainTime(32)
		submitter := &c17slCounter{}
		svc, err := standardsubscriber.New(ctx,
			standardsubscriber.WithLogLevel(zerolog.Disabled),
			standardsubscriber.WithProcessConcurrency(2),
			standardsubscriber.WithMonitor(nullmetrics.New()),
			standardsubscriber.WithChainTimeService(ct),
			standardsubscriber.WithAttesterDutiesProvider(c17slDuties{}),
			standardsubscriber.WithAttestationAggregator(c17slAggregator{}),
			standardsubscriber.WithBeaconCommitteeSubmitter(submitter),
		)
		if err != nil {
			t.Fatalf("beacon committee subscriber constructor: %v", err)
		}
		_, accounts := c17slAccounts(12) // read-only: the subscriber only looks accounts up
		hammer(2, 60, func(i int) {
			res, err := svc.Subscribe(ctx, phase0.Epoch(1+i%4), accounts)
			if err != nil || len(res) == 0 {
				t.Errorf("Subscribe: %v (%d slots)", err, len(res))
			}
		})
	}}

	scenarios["preparer-update"] = scenario{"proposalpreparer_standard", func(t *testing.T) {
		ctx := context.Background()
		ct := mocks.NewChainTime(32)
		vap, _ := c17slAccounts(12)
		s1, s2 := &c17slCounter{}, &c17slCounter{}
		svc, err := standardpreparer.New(ctx,
			standardpreparer.WithLogLevel(zerolog.Disabled),
			standardpreparer.WithMonitor(nullmetrics.New()),
			standardpreparer.WithChainTimeService(ct),
			standardpreparer.WithValidatingAccountsProvider(vap),
			standardpreparer.WithProposalPreparationsSubmitters([]eth2client.ProposalPreparationsSubmitter{s1, s2}),
			standardpreparer.WithExecutionConfigProvider(c17slExecConfig{}),
		)
		if err != nil {
			t.Fatalf("proposal preparer constructor: %v", err)
		}
		hammer(2, 150, func(i int) {
			if err := svc.UpdatePreparations(ctx); err != nil {
				t.Errorf("UpdatePreparations: %v", err)
			}
		})
	}}

	scenarios["proposer-propose"] = scenario{"beaconblockproposer_standard", func(t *testing.T) {
		ctx := context.Background()
		ct := mocks.NewChainTime(32)
		vap, _ := c17slAccounts(12)
		graffiti, err := staticgraffiti.New(ctx, staticgraffiti.WithLogLevel(zerolog.Disabled), staticgraffiti.WithGraffiti([]byte("c17")))
		if err != nil {
			t.Fatalf("graffiti provider: %v", err)
		}
		submitter, err := nullsubmitter.New(ctx, nullsubmitter.WithLogLevel(zerolog.Disabled))
		if err != nil {
			t.Fatalf("submitter: %v", err)
		}
		signer := c17slSigner{mocksigner.New()}
		svc, err := standardproposer.New(ctx,
			standardproposer.WithLogLevel(zerolog.Disabled),
			standardproposer.WithMonitor(nullmetrics.New()),
			standardproposer.WithChainTime(ct),
			standardproposer.WithBlockAuctioneer(c17slAuctioneer{}),
			standardproposer.WithExecutionChainHeadProvider(mockcache.New(map[phase0.Root]phase0.Slot{}).(cache.ExecutionChainHeadProvider)),
			standardproposer.WithProposalDataProvider(mock.NewProposalProvider()),
			standardproposer.WithValidatingAccountsProvider(vap),
			standardproposer.WithGraffitiProvider(graffiti),
			standardproposer.WithProposalSubmitter(submitter),
			standardproposer.WithRANDAORevealSigner(signer),
			standardproposer.WithBeaconBlockSigner(signer),
			standardproposer.WithBlobSidecarSigner(signer),
		)
		if err != nil {
			t.Fatalf("beacon block proposer constructor: %v", err)
		}
		// one duty per proposal: prepared, then proposed, by the jobs of its slot
		hammer(2, 60, func(i int) {
			duty := beaconblockproposer.NewDuty(phase0.Slot(100+i), phase0.ValidatorIndex(1+i%12))
			if err := svc.Prepare(ctx, duty); err != nil {
				t.Errorf("Prepare: %v", err)
				return
			}
			svc.Propose(ctx, duty)
		})
	}}
}
