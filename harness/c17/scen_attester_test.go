// C17 scenario for services/attester/standard: Attest is the body of the controller's
// "Attestations for slot N" jobs, each of which runs on its own goroutine.  Three goroutines attest
// duties of two neighbouring epochs with overlapping validator sets, epoch pair after epoch pair
// (the `attested` map: creation of an epoch's set, membership test and insertion per validator,
// housekeeping of epoch-2 at the end of every successful call).
//
// Only neighbouring epochs overlap: a call for epoch e that is still between the creation of its
// set and the per-validator insertions while a call for epoch e+2 reaches its housekeeping would
// write to a deleted (nil) set; that is not a data race and not what this scenario is about.
package c17

import (
	"context"
	"sync/atomic"
	"testing"

	"github.com/attestantio/go-eth2-client/spec/phase0"
	"github.com/attestantio/vouch/mock"
	mockaccountmanager "github.com/attestantio/vouch/services/accountmanager/mock"
	"github.com/attestantio/vouch/services/attester"
	standardattester "github.com/attestantio/vouch/services/attester/standard"
	nullmetrics "github.com/attestantio/vouch/services/metrics/null"
	"github.com/rs/zerolog"
	e2wtypes "github.com/wealdtech/go-eth2-wallet-types/v2"

	"verifharness/mocks"
)

// c17attSigner returns one non-zero signature per account (stateless).
type c17attSigner struct{}

func (c17attSigner) SignBeaconAttestations(_ context.Context, accounts []e2wtypes.Account, slot phase0.Slot,
	_ []phase0.CommitteeIndex, _ phase0.Root, _ phase0.Epoch, _ phase0.Root, _ phase0.Epoch, _ phase0.Root,
) ([]phase0.BLSSignature, error) {
	sigs := make([]phase0.BLSSignature, len(accounts))
	for i := range sigs {
		sigs[i][0] = 0xc0
		sigs[i][1] = byte(slot)
		sigs[i][2] = byte(i + 1)
	}
	return sigs, nil
}

func init() {
	scenarios["attester-attested"] = scenario{"attester_standard", func(t *testing.T) {
		ctx := context.Background()
		const spe = 32
		const validators = 64
		vap := mockaccountmanager.NewValidatingAccountsProvider()
		for i := uint64(1); i <= validators; i++ {
			vap.AddAccount(phase0.ValidatorIndex(i), c17Account{i})
		}
		svc, err := standardattester.New(ctx,
			standardattester.WithLogLevel(zerolog.Disabled),
			standardattester.WithMonitor(nullmetrics.New()),
			standardattester.WithProcessConcurrency(2),
			standardattester.WithChainTime(mocks.NewChainTime(spe)),
			standardattester.WithSpecProvider(mock.NewSpecProvider()),
			standardattester.WithAttestationDataProvider(mock.NewAttestationDataProvider()),
			standardattester.WithAttestationsSubmitter(mock.NewAttestationsSubmitter()),
			standardattester.WithValidatingAccountsProvider(vap),
			standardattester.WithBeaconAttestationsSigner(c17attSigner{}),
		)
		if err != nil {
			t.Fatalf("attester constructor: %v", err)
		}
		var succeeded, failed atomic.Int64
		attest := func(epoch uint64, slotInEpoch uint64, first, count uint64) {
			vals := make([]phase0.ValidatorIndex, 0, count)
			comms := make([]phase0.CommitteeIndex, 0, count)
			poss := make([]uint64, 0, count)
			for k := uint64(0); k < count; k++ {
				v := (first+k)%validators + 1
				vals = append(vals, phase0.ValidatorIndex(v))
				comms = append(comms, phase0.CommitteeIndex(v%2))
				poss = append(poss, v%16)
			}
			duty, err := attester.NewDuty(ctx, phase0.Slot(epoch*spe+slotInEpoch%spe), 2, vals, comms, poss, map[phase0.CommitteeIndex]uint64{0: 16, 1: 16})
			if err != nil {
				t.Errorf("duty: %v", err)
				return
			}
			if atts, err := svc.Attest(ctx, duty); err == nil && len(atts) > 0 {
				succeeded.Add(1)
			} else {
				failed.Add(1)
			}
		}
		// epoch pairs (e, e+1), e = 10, 11, ...: the goroutines are joined between pairs
		for e := uint64(10); e < 34; e++ {
			hammer(1, 16,
				// the same validators from two goroutines, in the same epoch (the second one is refused per validator)
				func(i int) { attest(e, uint64(i), uint64(i*2), 4) },
				func(i int) { attest(e, uint64(i), uint64(i*2+1), 4) },
				// and the next epoch at the same time (its housekeeping deletes epoch e-1)
				func(i int) { attest(e+1, uint64(i), uint64(i*2), 3) },
			)
		}
		if succeeded.Load() == 0 {
			t.Fatalf("no call of Attest succeeded (%d failed): the scenario does not reach the housekeeping", failed.Load())
		}
	}}
}
