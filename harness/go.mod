module verifharness

go 1.26.8

require (
	github.com/attestantio/go-eth2-client v0.21.11
	github.com/attestantio/vouch v0.0.0
	github.com/rs/zerolog v1.33.0
)

require (
	github.com/attestantio/go-block-relay v0.4.1 // indirect
	github.com/attestantio/go-builder-client v0.5.1 // indirect
	github.com/beorn7/perks v1.0.1 // indirect
	github.com/cespare/xxhash/v2 v2.3.0 // indirect
	github.com/emicklei/dot v1.6.2 // indirect
	github.com/fatih/color v1.18.0 // indirect
	github.com/ferranbt/fastssz v0.1.4 // indirect
	github.com/go-logr/logr v1.4.2 // indirect
	github.com/go-logr/stdr v1.2.2 // indirect
	github.com/goccy/go-yaml v1.13.6 // indirect
	github.com/google/uuid v1.6.0 // indirect
	github.com/herumi/bls-eth-go-binary v1.36.1 // indirect
	github.com/holiman/uint256 v1.3.1 // indirect
	github.com/klauspost/cpuid/v2 v2.2.9 // indirect
	github.com/mattn/go-colorable v0.1.13 // indirect
	github.com/mattn/go-isatty v0.0.20 // indirect
	github.com/minio/sha256-simd v1.0.1 // indirect
	github.com/mitchellh/mapstructure v1.5.0 // indirect
	github.com/munnerz/goautoneg v0.0.0-20191010083416-a7dc8b61c822 // indirect
	github.com/pkg/errors v0.9.1 // indirect
	github.com/prometheus/client_golang v1.20.5 // indirect
	github.com/prometheus/client_model v0.6.1 // indirect
	github.com/prometheus/common v0.60.1 // indirect
	github.com/prometheus/procfs v0.15.1 // indirect
	github.com/prysmaticlabs/go-bitfield v0.0.0-20240618144021-706c95b2dd15 // indirect
	github.com/shopspring/decimal v1.4.0 // indirect
	github.com/wealdtech/go-eth2-types/v2 v2.8.2 // indirect
	github.com/wealdtech/go-eth2-wallet-types/v2 v2.12.0 // indirect
	go.opentelemetry.io/otel v1.32.0 // indirect
	go.opentelemetry.io/otel/metric v1.32.0 // indirect
	go.opentelemetry.io/otel/trace v1.32.0 // indirect
	golang.org/x/crypto v0.29.0 // indirect
	golang.org/x/sys v0.27.0 // indirect
	google.golang.org/protobuf v1.35.1 // indirect
	gopkg.in/yaml.v2 v2.4.0 // indirect
)

replace github.com/attestantio/vouch => /repo
