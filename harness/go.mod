module verifharness

go 1.26.8

require (
	github.com/attestantio/go-block-relay v0.4.1
	github.com/attestantio/go-builder-client v0.5.1
	github.com/attestantio/go-eth2-client v0.21.11
	github.com/attestantio/vouch v0.0.0
	github.com/google/uuid v1.6.0
	github.com/holiman/uint256 v1.3.1
	github.com/prysmaticlabs/go-bitfield v0.0.0-20240618144021-706c95b2dd15
	github.com/rs/zerolog v1.33.0
	github.com/sasha-s/go-deadlock v0.3.5
	github.com/shopspring/decimal v1.4.0
	github.com/spf13/viper v1.19.0
	github.com/wealdtech/go-eth2-types/v2 v2.8.2
	github.com/wealdtech/go-eth2-wallet-encryptor-keystorev4 v1.4.1
	github.com/wealdtech/go-eth2-wallet-nd/v2 v2.5.0
	github.com/wealdtech/go-eth2-wallet-store-filesystem v1.18.1
	github.com/wealdtech/go-eth2-wallet-types/v2 v2.12.0
	github.com/wealdtech/go-majordomo v1.1.1
)

require (
	github.com/aws/aws-sdk-go v1.55.5 // indirect
	github.com/beorn7/perks v1.0.1 // indirect
	github.com/cespare/xxhash/v2 v2.3.0 // indirect
	github.com/emicklei/dot v1.6.2 // indirect
	github.com/fatih/color v1.18.0 // indirect
	github.com/ferranbt/fastssz v0.1.4 // indirect
	github.com/fsnotify/fsnotify v1.8.0 // indirect
	github.com/gabriel-vasile/mimetype v1.4.6 // indirect
	github.com/gin-contrib/sse v0.1.0 // indirect
	github.com/gin-gonic/gin v1.10.0 // indirect
	github.com/go-logr/logr v1.4.2 // indirect
	github.com/go-logr/stdr v1.2.2 // indirect
	github.com/go-playground/locales v0.14.1 // indirect
	github.com/go-playground/universal-translator v0.18.1 // indirect
	github.com/go-playground/validator/v10 v10.22.1 // indirect
	github.com/goccy/go-yaml v1.13.6 // indirect
	github.com/gorilla/mux v1.8.1 // indirect
	github.com/hashicorp/hcl v1.0.0 // indirect
	github.com/herumi/bls-eth-go-binary v1.36.1 // indirect
	github.com/huandu/go-clone v1.7.2 // indirect
	github.com/jackc/puddle/v2 v2.2.2 // indirect
	github.com/jmespath/go-jmespath v0.4.0 // indirect
	github.com/klauspost/cpuid/v2 v2.2.9 // indirect
	github.com/leodido/go-urn v1.4.0 // indirect
	github.com/magiconair/properties v1.8.7 // indirect
	github.com/mattn/go-colorable v0.1.13 // indirect
	github.com/mattn/go-isatty v0.0.20 // indirect
	github.com/minio/sha256-simd v1.0.1 // indirect
	github.com/mitchellh/mapstructure v1.5.0 // indirect
	github.com/munnerz/goautoneg v0.0.0-20191010083416-a7dc8b61c822 // indirect
	github.com/pelletier/go-toml/v2 v2.2.3 // indirect
	github.com/petermattis/goid v0.0.0-20241025130422-66cb2e6d7274 // indirect
	github.com/pkg/errors v0.9.1 // indirect
	github.com/prometheus/client_golang v1.20.5 // indirect
	github.com/prometheus/client_model v0.6.1 // indirect
	github.com/prometheus/common v0.60.1 // indirect
	github.com/prometheus/procfs v0.15.1 // indirect
	github.com/sagikazarmark/slog-shim v0.1.0 // indirect
	github.com/shibukawa/configdir v0.0.0-20170330084843-e180dbdc8da0 // indirect
	github.com/spf13/afero v1.11.0 // indirect
	github.com/spf13/cast v1.7.0 // indirect
	github.com/spf13/pflag v1.0.5 // indirect
	github.com/subosito/gotenv v1.6.0 // indirect
	github.com/ugorji/go/codec v1.2.12 // indirect
	github.com/wealdtech/eth2-signer-api v1.7.2 // indirect
	github.com/wealdtech/go-bytesutil v1.2.1 // indirect
	github.com/wealdtech/go-ecodec v1.1.4 // indirect
	github.com/wealdtech/go-eth2-util v1.8.2 // indirect
	github.com/wealdtech/go-eth2-wallet v1.17.0 // indirect
	github.com/wealdtech/go-eth2-wallet-dirk v1.5.1 // indirect
	github.com/wealdtech/go-eth2-wallet-distributed v1.2.1 // indirect
	github.com/wealdtech/go-eth2-wallet-hd/v2 v2.7.0 // indirect
	github.com/wealdtech/go-eth2-wallet-keystore v1.0.0 // indirect
	github.com/wealdtech/go-eth2-wallet-store-s3 v1.12.0 // indirect
	github.com/wealdtech/go-eth2-wallet-store-scratch v1.7.2 // indirect
	github.com/wealdtech/go-indexer v1.1.0 // indirect
	go.opentelemetry.io/contrib/instrumentation/google.golang.org/grpc/otelgrpc v0.57.0 // indirect
	go.opentelemetry.io/otel v1.32.0 // indirect
	go.opentelemetry.io/otel/metric v1.32.0 // indirect
	go.opentelemetry.io/otel/trace v1.32.0 // indirect
	go.uber.org/atomic v1.11.0 // indirect
	golang.org/x/crypto v0.29.0 // indirect
	golang.org/x/net v0.31.0 // indirect
	golang.org/x/sync v0.9.0 // indirect
	golang.org/x/sys v0.27.0 // indirect
	golang.org/x/text v0.20.0 // indirect
	google.golang.org/genproto/googleapis/api v0.0.0-20241104194629-dd2ea8efbc28 // indirect
	google.golang.org/genproto/googleapis/rpc v0.0.0-20241104194629-dd2ea8efbc28 // indirect
	google.golang.org/grpc v1.68.0 // indirect
	google.golang.org/protobuf v1.35.1 // indirect
	gopkg.in/ini.v1 v1.67.0 // indirect
	gopkg.in/yaml.v2 v2.4.0 // indirect
	gopkg.in/yaml.v3 v3.0.1 // indirect
)

replace github.com/attestantio/vouch => /repo
