// C15: drives the real controller's scheduleSyncCommitteeMessages (hook wrapper, recording
// scheduler, integer chain time), the real sync committee messenger (Prepare, Message), aggregator
// (Aggregate) and subscriber behind it, with a scripted signer / beacon node / submitters, and prints
// each case with everything the implementation did as a Gallina case for Check.C15.
package c15

import (
	"context"
	"crypto/sha256"
	"encoding/binary"
	"errors"
	"fmt"
	"regexp"
	"sort"
	"strconv"
	"sync"
	"testing"
	"testing/synctest"
	"time"

	"github.com/attestantio/go-eth2-client/api"
	apiv1 "github.com/attestantio/go-eth2-client/api/v1"
	"github.com/attestantio/go-eth2-client/spec/altair"
	"github.com/attestantio/go-eth2-client/spec/phase0"
	standardcontroller "github.com/attestantio/vouch/services/controller/standard"
	nullmetrics "github.com/attestantio/vouch/services/metrics/null"
	"github.com/attestantio/vouch/services/synccommitteeaggregator"
	standardaggregator "github.com/attestantio/vouch/services/synccommitteeaggregator/standard"
	standardmessenger "github.com/attestantio/vouch/services/synccommitteemessenger/standard"
	standardsubscriber "github.com/attestantio/vouch/services/synccommitteesubscriber/standard"
	"github.com/google/uuid"
	bitfield "github.com/prysmaticlabs/go-bitfield"
	"github.com/rs/zerolog"
	e2types "github.com/wealdtech/go-eth2-types/v2"
	e2wtypes "github.com/wealdtech/go-eth2-wallet-types/v2"

	. "verifharness/common"
	"verifharness/mocks"
)

// ---------------------------------------------------------------------------------------------
// Input type (also the corpus / replay format).

type Params struct {
	SPE      uint64 `json:"spe"`
	EPP      uint64 `json:"epp"`
	Fork     uint64 `json:"fork"`
	SlotNs   int64  `json:"slot_ns"`
	MsgDelay int64  `json:"msg_delay"`
	AggDelay int64  `json:"agg_delay"`
	Size     uint64 `json:"size"`
	Subnets  uint64 `json:"subnets"`
	Target   uint64 `json:"target"`
}

type Duty struct {
	V   uint64   `json:"v"`
	Pos []uint64 `json:"pos"`
}

type Fire struct {
	Slot       uint64   `json:"slot"`
	Root       *uint64  `json:"root"` // what the node answers for block id "head"; nil: every root request fails
	// SlotRoot: what the node answers when asked for the slot's NUMBER as block id: the root of the
	// block proposed in the slot if it has one by now (the same as the head, or another root when the
	// head has moved on); nil: no block (yet) in this slot, 404.
	SlotRoot *uint64 `json:"slot_root,omitempty"`
	// SelSlow: the selection signer answers only after the slot's message time has come; whatever
	// message (and then aggregation) job exists by then runs first.
	SelSlow    bool     `json:"sel_slow,omitempty"`
	SelErr     bool     `json:"sel_err,omitempty"`
	SelZero    []uint64 `json:"sel_zero,omitempty"`
	Salt       uint64   `json:"salt"`
	RootErr    bool     `json:"root_err,omitempty"`
	RootZero   []uint64 `json:"root_zero,omitempty"`
	SubmitErr  bool     `json:"submit_err,omitempty"`
	ContribErr []uint64 `json:"contrib_err,omitempty"`
	CPErr      bool     `json:"cp_err,omitempty"`
}

type AggMember struct {
	V     uint64   `json:"v"`
	Subcs []uint64 `json:"subcs"`
}

type Agg struct {
	Slot       uint64      `json:"slot"`
	Aggs       []AggMember `json:"aggs"`
	Accts      []uint64    `json:"accts"`
	Cached     *uint64     `json:"cached"`
	Head       *uint64     `json:"head"`
	SlotRoot   *uint64     `json:"slot_root,omitempty"` // the node's answer for the slot's number; nil: 404
	ContribErr []uint64    `json:"contrib_err,omitempty"`
	CPErr      bool        `json:"cp_err,omitempty"`
}

type Input struct {
	Par       Params   `json:"par"`
	Epoch     uint64   `json:"epoch"`
	Cur       uint64   `json:"cur"`
	NotCur    bool     `json:"not_cur"`
	Indices   []uint64 `json:"indices"`
	Duties    []Duty   `json:"duties"`
	DutiesErr bool     `json:"duties_err,omitempty"`
	Accts     []uint64 `json:"accts"`
	AcctsErr  bool     `json:"accts_err,omitempty"`
	Fires     []Fire   `json:"fires,omitempty"`
	Agg       *Agg     `json:"agg,omitempty"`
	Hist      []HOp    `json:"hist,omitempty"` // a history on one controller (hist_test.go); the call fields above are unused
	Tags      []string `json:"tags,omitempty"`
}

// ---------------------------------------------------------------------------------------------
// Signatures and roots of the scripted environment.

const (
	kindRoot = 1
	kindSel  = 2
	kindCP   = 3
)

func mkSig(kind byte, a, b, c, salt uint64) phase0.BLSSignature {
	var s phase0.BLSSignature
	s[0] = kind
	binary.BigEndian.PutUint64(s[1:9], a)
	binary.BigEndian.PutUint64(s[9:17], b)
	binary.BigEndian.PutUint64(s[17:25], c)
	binary.BigEndian.PutUint64(s[25:33], salt)
	return s
}

// sigTerm decodes a signature into the model's sg.
func sigTerm(s phase0.BLSSignature) string {
	if s.IsZero() {
		return "SgZero"
	}
	for i := 33; i < len(s); i++ {
		if s[i] != 0 {
			return "SgBad"
		}
	}
	a, b, c := binary.BigEndian.Uint64(s[1:9]), binary.BigEndian.Uint64(s[9:17]), binary.BigEndian.Uint64(s[17:25])
	switch s[0] {
	case kindRoot:
		return App("SgRoot", N(a), N(b), N(c))
	case kindSel:
		return App("SgSel", N(a), N(b), N(c))
	case kindCP:
		return App("SgCP", N(a), N(b), N(c))
	}
	return "SgBad"
}

func rootOf(r uint64) phase0.Root {
	var root phase0.Root
	binary.BigEndian.PutUint64(root[24:], r)
	return root
}

func rootID(r phase0.Root) uint64 {
	for i := 0; i < 24; i++ {
		if r[i] != 0 {
			return ^uint64(0)
		}
	}
	return binary.BigEndian.Uint64(r[24:])
}

func hash8(sig phase0.BLSSignature) uint64 {
	h := sha256.Sum256(sig[:])
	return binary.LittleEndian.Uint64(h[:8])
}

func contains(l []uint64, x uint64) bool {
	for _, y := range l {
		if y == x {
			return true
		}
	}
	return false
}

// ---------------------------------------------------------------------------------------------
// Mocks.

// account of validator V.
type account struct{ V uint64 }

func (a *account) ID() uuid.UUID                { return uuid.UUID{byte(a.V)} }
func (a *account) Name() string                 { return fmt.Sprintf("v%d", a.V) }
func (a *account) PublicKey() e2types.PublicKey { return nil }

type env struct {
	mu sync.Mutex
	in *Input

	// script of the slot being fired
	fire *Fire
	agg  *Agg

	// recordings
	dutiesQuery  *uint64
	dutiesIdx    []uint64
	subUntil     *uint64
	subs         []Duty
	selCall      *[][2]uint64
	rootCall     *rootCall
	submitted    *[]string // msg terms
	submittedN   int
	contribs     *[]contribObs
	cpSignCalls  int
	contribFetch int
	asked        []string      // block ids the node was asked a root for
	selPark      chan struct{} // a selection signer that has not answered yet (closed by the harness)
	// call sites that make two calls (sites_test.go): a duties request for an epoch from split on is
	// answered with duties2, and waits at the node until the harness closes dutiesPark
	split      *uint64
	duties2    []Duty
	dutiesPark chan struct{}
}

type rootCall struct {
	accts []*uint64
	epoch uint64
	root  uint64
}

type contribObs struct {
	agg, slot, subc, root uint64
	proof, sig            string
}

func (e *env) Spec(_ context.Context, _ *api.SpecOpts) (*api.Response[map[string]any], error) {
	p := e.in.Par
	return &api.Response[map[string]any]{Data: map[string]any{
		"SECONDS_PER_SLOT":                         time.Duration(p.SlotNs),
		"SLOTS_PER_EPOCH":                          p.SPE,
		"EPOCHS_PER_SYNC_COMMITTEE_PERIOD":         p.EPP,
		"SYNC_COMMITTEE_SIZE":                      p.Size,
		"SYNC_COMMITTEE_SUBNET_COUNT":              p.Subnets,
		"TARGET_AGGREGATORS_PER_SYNC_SUBCOMMITTEE": p.Target,
		"ALTAIR_FORK_EPOCH":                        p.Fork,
	}, Metadata: map[string]any{}}, nil
}

func (e *env) SyncCommitteeDuties(ctx context.Context, opts *api.SyncCommitteeDutiesOpts) (*api.Response[[]*apiv1.SyncCommitteeDuty], error) {
	e.mu.Lock()
	park, second := e.dutiesPark, e.split != nil && uint64(opts.Epoch) >= *e.split
	e.mu.Unlock()
	if park != nil && second {
		select {
		case <-park:
		case <-ctx.Done():
			return nil, ctx.Err()
		}
	}
	e.mu.Lock()
	defer e.mu.Unlock()
	ep := uint64(opts.Epoch)
	e.dutiesQuery = &ep
	e.dutiesIdx = nil
	for _, i := range opts.Indices {
		e.dutiesIdx = append(e.dutiesIdx, uint64(i))
	}
	if e.in.DutiesErr {
		return nil, errors.New("scripted duties failure")
	}
	ds := e.in.Duties
	if second {
		ds = e.duties2
	}
	res := make([]*apiv1.SyncCommitteeDuty, 0, len(ds))
	for _, d := range ds {
		pos := make([]phase0.CommitteeIndex, 0, len(d.Pos))
		for _, x := range d.Pos {
			pos = append(pos, phase0.CommitteeIndex(x))
		}
		res = append(res, &apiv1.SyncCommitteeDuty{ValidatorIndex: phase0.ValidatorIndex(d.V), ValidatorSyncCommitteeIndices: pos})
	}
	return &api.Response[[]*apiv1.SyncCommitteeDuty]{Data: res, Metadata: map[string]any{}}, nil
}

// accountmanager.ValidatingAccountsProvider: the held accounts among the requested indices.
func (e *env) byIndex(indices []phase0.ValidatorIndex) (map[phase0.ValidatorIndex]e2wtypes.Account, error) {
	if e.in.AcctsErr {
		return nil, errors.New("scripted accounts failure")
	}
	res := map[phase0.ValidatorIndex]e2wtypes.Account{}
	for _, i := range indices {
		if contains(e.in.Accts, uint64(i)) {
			res[i] = &account{V: uint64(i)}
		}
	}
	return res, nil
}

func (e *env) all() (map[phase0.ValidatorIndex]e2wtypes.Account, error) {
	idx := make([]phase0.ValidatorIndex, 0, len(e.in.Accts))
	for _, v := range e.in.Accts {
		idx = append(idx, phase0.ValidatorIndex(v))
	}
	return e.byIndex(idx)
}

func (e *env) ValidatingAccountsForEpoch(_ context.Context, _ phase0.Epoch) (map[phase0.ValidatorIndex]e2wtypes.Account, error) {
	return e.all()
}

func (e *env) ValidatingAccountsForEpochByIndex(_ context.Context, _ phase0.Epoch, indices []phase0.ValidatorIndex) (map[phase0.ValidatorIndex]e2wtypes.Account, error) {
	return e.byIndex(indices)
}

func (e *env) SyncCommitteeAccountsForEpoch(_ context.Context, _ phase0.Epoch) (map[phase0.ValidatorIndex]e2wtypes.Account, error) {
	return e.all()
}

func (e *env) SyncCommitteeAccountsForEpochByIndex(_ context.Context, _ phase0.Epoch, indices []phase0.ValidatorIndex) (map[phase0.ValidatorIndex]e2wtypes.Account, error) {
	return e.byIndex(indices)
}

func (e *env) SubmitSyncCommitteeSubscriptions(_ context.Context, subscriptions []*apiv1.SyncCommitteeSubscription) error {
	e.mu.Lock()
	defer e.mu.Unlock()
	e.subs = nil
	for i, s := range subscriptions {
		u := uint64(s.UntilEpoch)
		if i == 0 {
			e.subUntil = &u
		} else if *e.subUntil != u {
			bad := ^uint64(0) // differing until epochs: cannot be what the model says
			e.subUntil = &bad
		}
		d := Duty{V: uint64(s.ValidatorIndex)}
		for _, x := range s.SyncCommitteeIndices {
			d.Pos = append(d.Pos, uint64(x))
		}
		e.subs = append(e.subs, d)
	}
	return nil
}

// BeaconBlockRoot answers like a beacon node: "head" is the root of the most recent block, a slot
// number is the root of the block proposed in that slot and 404 when the node has no block for it
// (an empty slot, a block that has not arrived yet, a slot in the future), a root is itself when the
// node knows the block.
func (e *env) BeaconBlockRoot(_ context.Context, opts *api.BeaconBlockRootOpts) (*api.Response[*phase0.Root], error) {
	var head, slotRoot *uint64
	var slot uint64
	switch {
	case e.fire != nil:
		head, slotRoot, slot = e.fire.Root, e.fire.SlotRoot, e.fire.Slot
	case e.agg != nil:
		head, slotRoot, slot = e.agg.Head, e.agg.SlotRoot, e.agg.Slot
	}
	id := ""
	if opts != nil {
		id = opts.Block
	}
	e.mu.Lock()
	e.asked = append(e.asked, id)
	e.mu.Unlock()
	if head == nil {
		return nil, errors.New("scripted head root failure")
	}
	notFound := &api.Error{Method: "GET", Endpoint: "/eth/v1/beacon/blocks/" + id + "/root", StatusCode: 404}
	var r uint64
	switch {
	case id == "head":
		r = *head
	case id == "genesis":
		r = 1 << 41
	case id == "finalized" || id == "justified":
		r = 1<<41 + 1
	case len(id) > 2 && id[:2] == "0x":
		known := false
		for _, k := range []*uint64{head, slotRoot} {
			if k != nil && fmt.Sprintf("%#x", rootOf(*k)) == id {
				r, known = *k, true
			}
		}
		if !known {
			return nil, notFound
		}
	default:
		n, err := strconv.ParseUint(id, 10, 64)
		switch {
		case err != nil:
			return nil, &api.Error{Method: "GET", Endpoint: "/eth/v1/beacon/blocks/" + id + "/root", StatusCode: 400}
		case n == slot && slotRoot != nil:
			r = *slotRoot
		case n < slot:
			r = 1<<40 + n // the block of an earlier slot: never the head served in this slot
		default:
			return nil, notFound
		}
	}
	root := rootOf(r)
	return &api.Response[*phase0.Root]{Data: &root, Metadata: map[string]any{}}, nil
}

func acctV(a e2wtypes.Account) *uint64 {
	if a == nil {
		return nil
	}
	if x, ok := a.(*account); ok {
		v := x.V
		return &v
	}
	bad := ^uint64(0)
	return &bad
}

// The signer answers like services/signer/standard for local accounts: a nil account anywhere in
// the batch fails the batch; a per-account failure is a zero signature.
func (e *env) SignSyncCommitteeSelections(ctx context.Context, accounts []e2wtypes.Account, slot phase0.Slot, subcommitteeIndices []uint64) ([]phase0.BLSSignature, error) {
	call := make([][2]uint64, 0, len(accounts))
	anyNil := false
	for i, a := range accounts {
		v := acctV(a)
		if v == nil {
			anyNil = true
			call = append(call, [2]uint64{^uint64(0), subcommitteeIndices[i]})
			continue
		}
		call = append(call, [2]uint64{*v, subcommitteeIndices[i]})
	}
	sort.Slice(call, func(i, j int) bool {
		if call[i][0] != call[j][0] {
			return call[i][0] < call[j][0]
		}
		return call[i][1] < call[j][1]
	})
	e.selCall = &call
	e.mu.Lock()
	park := e.selPark
	e.mu.Unlock()
	if park != nil {
		// a slow (remote) signer: the answer comes when the harness lets it, or not at all when the
		// request is cancelled
		select {
		case <-park:
		case <-ctx.Done():
			return nil, ctx.Err()
		}
	}
	if anyNil || len(accounts) != len(subcommitteeIndices) {
		return nil, errors.New("account is nil; cannot sign")
	}
	if e.fire.SelErr {
		return nil, errors.New("scripted selection signer failure")
	}
	sigs := make([]phase0.BLSSignature, len(accounts))
	for i, a := range accounts {
		v := *acctV(a)
		sigs[i] = e.selSig(v, uint64(slot), subcommitteeIndices[i])
	}
	return sigs, nil
}

func (e *env) selSig(v, slot, subc uint64) phase0.BLSSignature {
	if contains(e.fire.SelZero, v) {
		return phase0.BLSSignature{}
	}
	return mkSig(kindSel, v, slot, subc, e.fire.Salt)
}

func (e *env) SignSyncCommitteeRoots(_ context.Context, accounts []e2wtypes.Account, epoch phase0.Epoch, root phase0.Root) ([]phase0.BLSSignature, error) {
	rc := &rootCall{epoch: uint64(epoch), root: rootID(root)}
	anyNil := false
	for _, a := range accounts {
		v := acctV(a)
		if v == nil {
			anyNil = true
		}
		rc.accts = append(rc.accts, v)
	}
	// canonical order: nil holes first, then by validator
	sort.SliceStable(rc.accts, func(i, j int) bool {
		a, b := rc.accts[i], rc.accts[j]
		if a == nil || b == nil {
			return a == nil && b != nil
		}
		return *a < *b
	})
	e.rootCall = rc
	if anyNil {
		return nil, errors.New("unknown signer type; cannot sign")
	}
	if e.fire.RootErr {
		return nil, errors.New("scripted root signer failure")
	}
	sigs := make([]phase0.BLSSignature, len(accounts))
	for i, a := range accounts {
		v := *acctV(a)
		if contains(e.fire.RootZero, v) {
			continue
		}
		sigs[i] = mkSig(kindRoot, v, uint64(epoch), rootID(root), 0)
	}
	return sigs, nil
}

func (e *env) SignContributionAndProof(_ context.Context, a e2wtypes.Account, c *altair.ContributionAndProof) (phase0.BLSSignature, error) {
	sigs, err := e.SignContributionAndProofs(context.Background(), []e2wtypes.Account{a}, []*altair.ContributionAndProof{c})
	if err != nil {
		return phase0.BLSSignature{}, err
	}
	return sigs[0], nil
}

func (e *env) SignContributionAndProofs(_ context.Context, accounts []e2wtypes.Account, cps []*altair.ContributionAndProof) ([]phase0.BLSSignature, error) {
	e.cpSignCalls++
	if len(accounts) != len(cps) {
		return nil, errors.New("number of accounts and contribution and proofs do not match")
	}
	if len(accounts) == 0 {
		// services/signer/standard indexes contributionAndProofs[0]
		return nil, errors.New("no contribution and proofs")
	}
	cpErr := false
	if e.fire != nil {
		cpErr = e.fire.CPErr
	} else if e.agg != nil {
		cpErr = e.agg.CPErr
	}
	if cpErr {
		return nil, errors.New("scripted contribution signer failure")
	}
	sigs := make([]phase0.BLSSignature, len(accounts))
	for i, a := range accounts {
		v := acctV(a)
		if v == nil {
			return nil, errors.New("unknown signer type; cannot sign")
		}
		sigs[i] = mkSig(kindCP, *v, uint64(cps[i].Contribution.Slot), cps[i].Contribution.SubcommitteeIndex, 0)
	}
	return sigs, nil
}

func msgTerm(m *altair.SyncCommitteeMessage) string {
	return "(" + N(uint64(m.Slot)) + ", " + N(rootID(m.BeaconBlockRoot)) + ", " + N(uint64(m.ValidatorIndex)) + ", " + sigTerm(m.Signature) + ")"
}

func (e *env) SubmitSyncCommitteeMessages(_ context.Context, messages []*altair.SyncCommitteeMessage) error {
	ms := make([]*altair.SyncCommitteeMessage, len(messages))
	copy(ms, messages)
	sort.SliceStable(ms, func(i, j int) bool { return ms[i].ValidatorIndex < ms[j].ValidatorIndex })
	terms := make([]string, 0, len(ms))
	for _, m := range ms {
		terms = append(terms, msgTerm(m))
	}
	if e.submitted != nil {
		// a second submission for the same slot: both payloads (no member may message twice)
		terms = append(append([]string{}, *e.submitted...), terms...)
	}
	e.submitted = &terms
	e.submittedN = len(terms)
	if len(messages) == 0 {
		// services/submitter/{immediate,multinode}
		return errors.New("no sync committee messages supplied")
	}
	if e.fire.SubmitErr {
		return errors.New("scripted submission failure")
	}
	return nil
}

func (e *env) SyncCommitteeContribution(_ context.Context, opts *api.SyncCommitteeContributionOpts) (*api.Response[*altair.SyncCommitteeContribution], error) {
	e.contribFetch++
	var bad []uint64
	if e.fire != nil {
		bad = e.fire.ContribErr
	} else if e.agg != nil {
		bad = e.agg.ContribErr
	}
	if contains(bad, opts.SubcommitteeIndex) {
		return nil, errors.New("scripted contribution failure")
	}
	bits := bitfield.NewBitvector128()
	bits.SetBitAt(1, true)
	return &api.Response[*altair.SyncCommitteeContribution]{Data: &altair.SyncCommitteeContribution{
		Slot:              opts.Slot,
		BeaconBlockRoot:   opts.BeaconBlockRoot,
		SubcommitteeIndex: opts.SubcommitteeIndex,
		AggregationBits:   bits,
	}, Metadata: map[string]any{}}, nil
}

func (e *env) SubmitSyncCommitteeContributions(_ context.Context, cps []*altair.SignedContributionAndProof) error {
	obs := make([]contribObs, 0, len(cps))
	for _, c := range cps {
		o := contribObs{agg: uint64(c.Message.AggregatorIndex), proof: sigTerm(c.Message.SelectionProof), sig: sigTerm(c.Signature)}
		if c.Message.Contribution != nil {
			o.slot, o.subc, o.root = uint64(c.Message.Contribution.Slot), c.Message.Contribution.SubcommitteeIndex, rootID(c.Message.Contribution.BeaconBlockRoot)
		}
		obs = append(obs, o)
	}
	sort.SliceStable(obs, func(i, j int) bool {
		if obs[i].agg != obs[j].agg {
			return obs[i].agg < obs[j].agg
		}
		return obs[i].subc < obs[j].subc
	})
	e.contribs = &obs
	return nil
}

// ---------------------------------------------------------------------------------------------
// Observations.

type jobObs struct {
	Kind uint64 `json:"kind"`
	Slot uint64 `json:"slot"`
	T    int64  `json:"t"`
}

type fireObs struct {
	SelCall   *[][2]uint64  `json:"sel_call"`
	MsgJob    *int64        `json:"msg_job"`
	RootCall  *rootCallObs  `json:"root_call"`
	Submitted *[]string     `json:"submitted"`
	AggJob    *int64        `json:"agg_job"`
	Contribs  *[]contribObs `json:"-"`
	ContribsS *[]string     `json:"contribs"`
}

type rootCallObs struct {
	Accts []*uint64 `json:"accts"`
	Epoch uint64    `json:"epoch"`
	Root  uint64    `json:"root"`
}

type observed struct {
	Query    *uint64   `json:"query"`
	Jobs     []jobObs  `json:"jobs"`
	SubUntil *uint64   `json:"sub_until"`
	Subs     []Duty    `json:"subs"`
	Fires    []fireObs `json:"fires"`
	Agg      *[]string `json:"agg"`
	Hist     []histObs `json:"hist,omitempty"`
	Panic    string    `json:"panic,omitempty"`
	aggObs   *[]contribObs
}

var jobRe = []*regexp.Regexp{
	regexp.MustCompile(`^Prepare sync committee messages for slot (\d+)$`),
	regexp.MustCompile(`^Sync committee messages for slot (\d+)$`),
	regexp.MustCompile(`^Sync committee aggregation for slot (\d+)$`),
}

func jobName(kind int, slot uint64) string {
	switch kind {
	case 0:
		return fmt.Sprintf("Prepare sync committee messages for slot %d", slot)
	case 1:
		return fmt.Sprintf("Sync committee messages for slot %d", slot)
	}
	return fmt.Sprintf("Sync committee aggregation for slot %d", slot)
}

func snapshotJobs(ct *mocks.ChainTime, sched *mocks.RecScheduler) []jobObs {
	var res []jobObs
	for _, j := range sched.Snapshot() {
		o := jobObs{Kind: 99, T: int64(j.Time.Sub(ct.Genesis))}
		for k, re := range jobRe {
			if m := re.FindStringSubmatch(j.Name); m != nil {
				o.Kind = uint64(k)
				o.Slot, _ = strconv.ParseUint(m[1], 10, 64)
			}
		}
		res = append(res, o)
	}
	sort.SliceStable(res, func(i, j int) bool {
		if res[i].Slot != res[j].Slot {
			return res[i].Slot < res[j].Slot
		}
		return res[i].Kind < res[j].Kind
	})
	return res
}

func contribTerm(c contribObs) string {
	return Record("cp_agg", N(c.agg), "cp_slot", N(c.slot), "cp_subc", N(c.subc), "cp_root", N(c.root), "cp_proof", c.proof, "cp_sig", c.sig)
}

func contribTerms(cs *[]contribObs) *[]string {
	if cs == nil {
		return nil
	}
	res := make([]string, 0, len(*cs))
	for _, c := range *cs {
		res = append(res, contribTerm(c))
	}
	return &res
}

// ---------------------------------------------------------------------------------------------
// Running one case on the implementation.

func runCase(t *testing.T, in *Input) (obs observed) {
	defer func() {
		if r := recover(); r != nil {
			obs.Panic = fmt.Sprint(r)
		}
	}()
	if len(in.Hist) > 0 {
		return runHist(t, in)
	}
	ctx := context.Background()
	e := &env{in: in}
	ct := mocks.NewChainTime(in.Par.SPE)
	ct.SlotDuration = time.Duration(in.Par.SlotNs)
	ct.SetSlot(in.Cur)
	sched := mocks.NewRecScheduler()

	aggregator, err := standardaggregator.New(ctx,
		standardaggregator.WithLogLevel(zerolog.Disabled),
		standardaggregator.WithMonitor(nullmetrics.New()),
		standardaggregator.WithSpecProvider(e),
		standardaggregator.WithBeaconBlockRootProvider(e),
		standardaggregator.WithContributionAndProofSigner(e),
		standardaggregator.WithValidatingAccountsProvider(e),
		standardaggregator.WithSyncCommitteeContributionProvider(e),
		standardaggregator.WithSyncCommitteeContributionsSubmitter(e),
		standardaggregator.WithChainTime(ct),
	)
	if err != nil {
		t.Fatalf("aggregator constructor: %v", err)
	}

	if in.Agg != nil {
		a := in.Agg
		e.agg = a
		if a.Cached != nil {
			aggregator.SetBeaconBlockRoot(phase0.Slot(a.Slot), rootOf(*a.Cached))
		}
		duty := &synccommitteeaggregator.Duty{
			Slot:            phase0.Slot(a.Slot),
			SelectionProofs: map[phase0.ValidatorIndex]map[uint64]phase0.BLSSignature{},
			Accounts:        map[phase0.ValidatorIndex]e2wtypes.Account{},
		}
		for _, m := range a.Aggs {
			vi := phase0.ValidatorIndex(m.V)
			duty.ValidatorIndices = append(duty.ValidatorIndices, vi)
			duty.SelectionProofs[vi] = map[uint64]phase0.BLSSignature{}
			for _, c := range m.Subcs {
				duty.SelectionProofs[vi][c] = mkSig(kindSel, m.V, a.Slot, c, 0)
			}
		}
		for _, v := range a.Accts {
			duty.Accounts[phase0.ValidatorIndex(v)] = &account{V: v}
		}
		aggregator.Aggregate(ctx, duty)
		obs.aggObs = e.contribs
		obs.Agg = contribTerms(e.contribs)
		return obs
	}

	messenger, err := standardmessenger.New(ctx,
		standardmessenger.WithLogLevel(zerolog.Disabled),
		standardmessenger.WithProcessConcurrency(2),
		standardmessenger.WithMonitor(nullmetrics.New()),
		standardmessenger.WithChainTimeService(ct),
		standardmessenger.WithSyncCommitteeAggregator(aggregator),
		standardmessenger.WithSpecProvider(e),
		standardmessenger.WithBeaconBlockRootProvider(e),
		standardmessenger.WithSyncCommitteeMessagesSubmitter(e),
		standardmessenger.WithValidatingAccountsProvider(e),
		standardmessenger.WithSyncCommitteeRootSigner(e),
		standardmessenger.WithSyncCommitteeSelectionSigner(e),
		standardmessenger.WithSyncCommitteeSubscriptionsSubmitter(e),
	)
	if err != nil {
		t.Fatalf("messenger constructor: %v", err)
	}
	subscriber, err := standardsubscriber.New(ctx,
		standardsubscriber.WithLogLevel(zerolog.Disabled),
		standardsubscriber.WithMonitor(nullmetrics.New()),
		standardsubscriber.WithSyncCommitteeSubmitter(e),
	)
	if err != nil {
		t.Fatalf("subscriber constructor: %v", err)
	}
	ctrl := standardcontroller.NewForVerifC15(&standardcontroller.VerifConfigC15{
		ChainTime:                     ct,
		Scheduler:                     sched,
		SyncCommitteeDutiesProvider:   e,
		ValidatingAccountsProvider:    e,
		SyncCommitteeMessenger:        messenger,
		SyncCommitteeAggregator:       aggregator,
		SyncCommitteesSubscriber:      subscriber,
		SlotDuration:                  time.Duration(in.Par.SlotNs),
		SlotsPerEpoch:                 in.Par.SPE,
		EpochsPerSyncCommitteePeriod:  in.Par.EPP,
		AltairForkEpoch:               phase0.Epoch(in.Par.Fork),
		MaxSyncCommitteeMessageDelay:  time.Duration(in.Par.MsgDelay),
		SyncCommitteeAggregationDelay: time.Duration(in.Par.AggDelay),
	})

	indices := make([]phase0.ValidatorIndex, 0, len(in.Indices))
	for _, v := range in.Indices {
		indices = append(indices, phase0.ValidatorIndex(v))
	}
	// The per-slot scheduling runs in goroutines: wait until all of them are done.
	ctrl.ScheduleSyncCommitteeMessagesC15(ctx, phase0.Epoch(in.Epoch), indices, in.NotCur)
	synctest.Wait()

	e.mu.Lock()
	obs.Query, obs.SubUntil, obs.Subs = e.dutiesQuery, e.subUntil, e.subs
	e.mu.Unlock()
	obs.Jobs = snapshotJobs(ct, sched)

	for k := range in.Fires {
		fo := fireSlot(ctx, e, ct, sched, &in.Fires[k], nil, 0)
		obs.Fires = append(obs.Fires, fo)
	}
	return obs
}

// fireSlot runs the jobs of one slot in turn, as the scheduler would when their times arrive:
// prepare (during the previous slot), message, aggregation.
//
// With f.SelSlow the selection signer does not answer the prepare job's request until the slot's
// message time has come: the prepare job is run in a goroutine of its own, and once it waits for the
// signer the harness runs whatever message job the scheduler holds for the slot by then (its time has
// come, or a block event fast-tracks it) and whatever aggregation job that leaves; only then the
// signer answers, and the chain goes on with the jobs that exist afterwards.  A job is one-off: it
// runs once, so what ran early does not run again.
func fireSlot(ctx context.Context, e *env, ct *mocks.ChainTime, sched *mocks.RecScheduler, f *Fire, mid func(), midStage int) fireObs {
	e.fire = f
	e.selCall, e.rootCall, e.submitted, e.contribs = nil, nil, nil, nil
	var fo fireObs
	if f.Slot > 0 {
		ct.SetSlot(f.Slot - 1)
	}
	// the slot's message job and what follows it
	runMessage := func(j *mocks.Job, midAllowed bool) {
		tm := int64(j.Time.Sub(ct.Genesis))
		fo.MsgJob = &tm
		ct.SetSlot(f.Slot)
		sched.Fire(ctx, jobName(1, f.Slot))
		synctest.Wait() // the aggregation time is seconds away: whatever the job started has settled by then
		if e.rootCall != nil {
			fo.RootCall = &rootCallObs{Accts: e.rootCall.accts, Epoch: e.rootCall.epoch, Root: e.rootCall.root}
		}
		fo.Submitted = e.submitted
		aggJob, ok := sched.Get(jobName(2, f.Slot))
		if midAllowed && mid != nil && midStage == 2 {
			// ... or between its message job and its aggregation job
			mid()
			e.fire = f
			mid = nil
		}
		if j := aggJob; ok {
			tm := int64(j.Time.Sub(ct.Genesis))
			fo.AggJob = &tm
			sched.Fire(ctx, jobName(2, f.Slot))
			fo.Contribs = e.contribs
			fo.ContribsS = contribTerms(e.contribs)
		}
	}
	var prepared bool
	if f.SelSlow && mid == nil {
		park := make(chan struct{})
		e.mu.Lock()
		e.selPark = park
		e.mu.Unlock()
		done := make(chan bool, 1)
		go func() {
			defer func() {
				if r := recover(); r != nil {
					done <- false
				}
			}()
			done <- sched.Fire(ctx, jobName(0, f.Slot))
		}()
		synctest.Wait()
		// the prepare job has ended or waits for the signer; the message time of the slot comes
		if j, ok := sched.Get(jobName(1, f.Slot)); ok {
			runMessage(j, false)
		}
		e.mu.Lock()
		e.selPark = nil
		e.mu.Unlock()
		close(park)
		prepared = <-done
		synctest.Wait()
	} else {
		prepared = sched.Fire(ctx, jobName(0, f.Slot))
		// a signer that answers at once: the message time is more than a slot away, and whatever the
		// prepare job started has settled by then
		synctest.Wait()
	}
	var msgJob *mocks.Job
	if prepared {
		msgJob, _ = sched.Get(jobName(1, f.Slot))
	}
	if mid != nil && midStage != 2 {
		// something else happens between the slot's prepare job and its message job
		mid()
		e.fire = f
	}
	if prepared {
		fo.SelCall = e.selCall
		if j := msgJob; j != nil {
			runMessage(j, true)
		}
	}
	if mid != nil && midStage == 2 {
		mid() // the slot's chain ended before the aggregation stage: the operation still takes place
	}
	return fo
}

// ---------------------------------------------------------------------------------------------
// Gallina printing.

func listN(l []uint64) string {
	items := make([]string, 0, len(l))
	for _, x := range l {
		items = append(items, N(x))
	}
	return List(items)
}

func dutyTerms(ds []Duty) string {
	items := make([]string, 0, len(ds))
	for _, d := range ds {
		items = append(items, Pair(N(d.V), listN(d.Pos)))
	}
	return List(items)
}

func optZ(x *int64) string {
	if x == nil {
		return None()
	}
	return Some(Z(*x))
}

func optList(x *[]string) string {
	if x == nil {
		return None()
	}
	return Some(List(*x))
}

func dutyValidators(in *Input) []uint64 {
	var vs []uint64
	for _, d := range in.Duties {
		if !contains(vs, d.V) {
			vs = append(vs, d.V)
		}
	}
	sort.Slice(vs, func(i, j int) bool { return vs[i] < vs[j] })
	return vs
}

func fireInTerm(in *Input, f *Fire) string {
	// hash8 of the selection proof the signer hands out for every member and every subcommittee
	e := &env{in: in, fire: f}
	// (for the subcommittees of the member's positions: the only entries the model and the
	// predicate look up)
	var table []string
	per := in.Par.Size / in.Par.Subnets
	for _, v := range dutyValidators(in) {
		for c := uint64(0); c < in.Par.Subnets; c++ {
			used := false
			for _, d := range in.Duties {
				for _, pos := range d.Pos {
					if d.V == v && per > 0 && pos/per == c {
						used = true
					}
				}
			}
			if used {
				table = append(table, "("+N(v)+", "+N(c)+", "+N(hash8(e.selSig(v, f.Slot, c)))+")")
			}
		}
	}
	return Record("f_slot", N(f.Slot), "f_root", OptN(f.Root), "f_slot_root", OptN(f.SlotRoot), "f_sel_slow", Bool(f.SelSlow), "f_sel_err", Bool(f.SelErr), "f_sel_zero", listN(f.SelZero),
		"f_hash8", List(table), "f_root_err", Bool(f.RootErr), "f_root_zero", listN(f.RootZero),
		"f_submit_err", Bool(f.SubmitErr), "f_contrib_err", listN(f.ContribErr), "f_cp_err", Bool(f.CPErr))
}

func fireOutTerm(o *fireObs) string {
	sel := None()
	if o.SelCall != nil {
		items := make([]string, 0, len(*o.SelCall))
		for _, x := range *o.SelCall {
			items = append(items, Pair(N(x[0]), N(x[1])))
		}
		sel = Some(List(items))
	}
	rc := None()
	if o.RootCall != nil {
		items := make([]string, 0, len(o.RootCall.Accts))
		for _, a := range o.RootCall.Accts {
			items = append(items, OptN(a))
		}
		rc = Some("(" + List(items) + ", " + N(o.RootCall.Epoch) + ", " + N(o.RootCall.Root) + ")")
	}
	return Record("o_sel_call", sel, "o_msg_job", optZ(o.MsgJob), "o_root_call", rc, "o_submitted", optList(o.Submitted),
		"o_agg_job", optZ(o.AggJob), "o_contribs", optList(o.ContribsS))
}

func schedInTerm(epoch, cur uint64, notCur bool, indices []uint64, ds []Duty, dutiesErr bool, as []uint64, acctsErr bool) string {
	duties, accts := Some(dutyTerms(ds)), Some(listN(as))
	if dutiesErr {
		duties = None()
	}
	if acctsErr {
		accts = None()
	}
	return Record("si_epoch", N(epoch), "si_cur", N(cur), "si_notcur", Bool(notCur), "si_indices", listN(indices),
		"si_duties", duties, "si_accts", accts)
}

func jobTerms(js []jobObs) string {
	jobs := make([]string, 0, len(js))
	for _, j := range js {
		jobs = append(jobs, "("+N(j.Kind)+", "+N(j.Slot)+", "+Z(j.T)+")")
	}
	return List(jobs)
}

func parTerm(p Params) string {
	return Record("spe", N(p.SPE), "epp", N(p.EPP), "fork", N(p.Fork), "slot_ns", Z(p.SlotNs), "msg_delay", Z(p.MsgDelay),
		"agg_delay", Z(p.AggDelay), "csize", N(p.Size), "subnets", N(p.Subnets), "target", N(p.Target))
}

func term(id uint64, in *Input, obs *observed) string {
	par := parTerm(in.Par)
	sin := schedInTerm(in.Epoch, in.Cur, in.NotCur, in.Indices, in.Duties, in.DutiesErr, in.Accts, in.AcctsErr)
	fires := make([]string, 0, len(in.Fires))
	for k := range in.Fires {
		fires = append(fires, fireInTerm(in, &in.Fires[k]))
	}
	jobs := make([]string, 0, len(obs.Jobs))
	for _, j := range obs.Jobs {
		jobs = append(jobs, "("+N(j.Kind)+", "+N(j.Slot)+", "+Z(j.T)+")")
	}
	sub := None()
	if obs.SubUntil != nil {
		sub = Some(Pair(N(*obs.SubUntil), dutyTerms(obs.Subs)))
	}
	sout := Record("so_query", OptN(obs.Query), "so_jobs", List(jobs), "so_sub", sub)
	fouts := make([]string, 0, len(obs.Fires))
	for k := range obs.Fires {
		fouts = append(fouts, fireOutTerm(&obs.Fires[k]))
	}
	agg := None()
	if in.Agg != nil {
		a := in.Agg
		ms := make([]string, 0, len(a.Aggs))
		for _, m := range a.Aggs {
			ms = append(ms, Pair(N(m.V), listN(m.Subcs)))
		}
		ain := Record("a_slot", N(a.Slot), "a_aggs", List(ms), "a_accts", listN(a.Accts), "a_cached", OptN(a.Cached),
			"a_head", OptN(a.Head), "a_slot_root", OptN(a.SlotRoot), "a_contrib_err", listN(a.ContribErr), "a_cp_err", Bool(a.CPErr))
		agg = Some(Pair(ain, optList(obs.Agg)))
	}
	hist, hobs := histTerms(in, obs)
	return Record("c_id", N(id), "c_par", par, "c_in", sin, "c_fires", List(fires), "c_out", sout, "c_fouts", List(fouts), "c_agg", agg,
		"c_hist", hist, "c_hruns", hobs)
}

// ---------------------------------------------------------------------------------------------
// Generators.

// specWindow is the generator's own idea of the window (exact arithmetic); it is only used to aim
// clock positions and fired slots at interesting places.
func specWindow(p Params, epoch, cur uint64) (lo, hi uint64, ok bool) {
	if cur/p.SPE < p.Fork {
		return 0, 0, false
	}
	period := epoch / p.EPP
	fe, ne := period*p.EPP, (period+1)*p.EPP
	if fe < p.Fork {
		fe = p.Fork
	}
	if ne < p.Fork {
		ne = p.Fork
	}
	F, E := fe*p.SPE, ne*p.SPE
	lo = cur
	if F > 0 && F-1 > cur {
		lo = F - 1
	}
	if E < lo+2 {
		return 0, 0, false
	}
	return lo, E - 2, true
}

var committeeShapes = [][3]uint64{{512, 4, 16}, {32, 4, 16}, {32, 4, 2}, {64, 8, 1}, {16, 2, 4}, {128, 4, 16}, {12, 4, 1}, {8, 1, 2}}

func genParams(r *Rand) Params {
	p := Params{SPE: uint64(r.Range(1, 8)), EPP: uint64(r.Range(1, 8))}
	if p.SPE*p.EPP < 2 {
		// lastSlot = FirstSlotOfEpoch(1) - 2 wraps for a one-slot period: the loop would never end
		p.EPP = 2
	}
	if r.Chance(1, 12) {
		p.SPE, p.EPP = 32, uint64(r.Range(1, 3))
	}
	switch r.Intn(4) {
	case 0:
		p.SlotNs = int64(12 * time.Second)
	case 1:
		p.SlotNs = int64(6 * time.Second)
	case 2:
		p.SlotNs = int64(5 * time.Second)
	default:
		p.SlotNs = int64(2 * time.Second)
	}
	p.MsgDelay = p.SlotNs / 3
	p.AggDelay = p.SlotNs * 2 / 3
	if r.Chance(1, 4) {
		p.MsgDelay = int64(r.Range(0, 4000)) * int64(time.Millisecond)
		p.AggDelay = int64(r.Range(0, 8000)) * int64(time.Millisecond)
	}
	sh := committeeShapes[r.Intn(len(committeeShapes))]
	p.Size, p.Subnets, p.Target = sh[0], sh[1], sh[2]
	return p
}

func gen(r *Rand) Input {
	if r.Chance(1, 5) {
		if r.Chance(2, 5) {
			return genSites(r)
		}
		return genHist(r)
	}
	if r.Chance(1, 6) {
		return genAgg(r)
	}
	p := genParams(r)
	in := Input{Par: p}
	tag := func(s string) {
		for _, x := range in.Tags {
			if x == s {
				return
			}
		}
		in.Tags = append(in.Tags, s)
	}

	// period, fork, call and clock: mostly calls with a non-empty window (an empty window or a call
	// before the fork is kept one time in five), so that most cases reach the messages
	var lo, hi uint64
	var ok bool
	p0 := p
	for attempt := 0; ; attempt++ {
		in.Tags = nil
		p = p0
		// period and fork
		var period uint64
		switch r.Intn(10) {
		case 0, 1, 2, 3:
			period = 0
		case 4, 5:
			period = 1
		default:
			period = uint64(r.Range(2, 60))
		}
		switch r.Intn(4) {
		case 0, 1:
			p.Fork = 0
		case 2:
			// fork inside or at the start of the period
			p.Fork = period*p.EPP + uint64(r.Intn(int(p.EPP)))
		default:
			p.Fork = uint64(r.Intn(int((period+2)*p.EPP) + 1))
		}
		in.Par = p
		first := period * p.EPP // first epoch of the period, unclamped
		cl := first
		if cl < p.Fork {
			cl = p.Fork
		}
		next := (period + 1) * p.EPP
		F, E := cl*p.SPE, next*p.SPE

		// the call and the clock
		switch r.Intn(8) {
		case 0, 1: // start-up inside the period: (first epoch of this period, notCurrentSlot)
			in.Epoch, in.NotCur = cl, true
			in.Cur = first*p.SPE + uint64(r.Intn(int(p.EPP*p.SPE)))
			tag("call:startup-this-period")
		case 2: // start-up shortly before the period
			in.Epoch, in.NotCur = cl, true
			back := uint64(r.Range(1, int(5*p.SPE)))
			if back > F {
				back = F
			}
			in.Cur = F - back
			tag("call:startup-next-period")
		case 3: // epoch ticker, five epochs ahead
			in.Epoch, in.NotCur = first, false
			if first >= 5 {
				in.Cur = (first - 5) * p.SPE
			} else {
				in.Cur = 0
			}
			tag("call:ticker-next-period")
		case 4: // at the fork epoch
			in.Epoch, in.NotCur = p.Fork, false
			in.Cur = p.Fork*p.SPE + uint64(r.Intn(2))
			tag("call:fork-epoch")
		case 5: // around the edges of the window
			in.Epoch, in.NotCur = first+uint64(r.Intn(int(p.EPP))), r.Bool()
			edges := []uint64{F, F + 1, E - 1, E, E + 1}
			if F >= 1 {
				edges = append(edges, F-1)
			}
			if F >= 2 {
				edges = append(edges, F-2)
			}
			if E >= 2 {
				edges = append(edges, E-2)
			}
			if E >= 3 {
				edges = append(edges, E-3)
			}
			in.Cur = edges[r.Intn(len(edges))]
			tag("call:edge")
		default:
			in.Epoch, in.NotCur = first+uint64(r.Intn(int(p.EPP))), r.Bool()
			lo := uint64(0)
			if first > p.EPP {
				lo = (first - p.EPP) * p.SPE
			}
			in.Cur = lo + uint64(r.Intn(int(E+p.SPE-lo)))
			tag("call:arbitrary")
		}
		if period == 0 {
			tag("period0")
		}
		ce := in.Cur / p.SPE
		if ce == 0 && in.Epoch/p.EPP == 0 && p.Fork == 0 {
			tag("epoch0")
		}
		if ce == 1 && in.Epoch/p.EPP == 0 {
			tag("period0-epoch1")
		}
		if ce < p.Fork {
			tag("before-fork")
		}
		if ce == p.Fork && p.Fork > 0 {
			tag("at-fork")
		}
		if p.Fork > first && p.Fork < next {
			tag("fork-mid-period")
		}
		lo, hi, ok = specWindow(p, in.Epoch, in.Cur)
		if !ok {
			tag("window:empty")
		} else if hi-lo < 2 {
			tag("window:last-two-slots")
		}
		if ok && lo == in.Cur && in.NotCur {
			tag("window:starts-now-excluded")
		}
		if ok || attempt >= 4 || r.Chance(1, 5) {
			break
		}
	}

	// realistic magnitudes (mainnet preset, Altair at epoch 0 or 74240, periods up to ~1800): a late
	// start inside the last two epochs of a period, so that the window stays small
	if r.Chance(1, 20) {
		in.Tags = nil
		p = p0
		p.SPE, p.EPP = 32, 256
		p.Fork = []uint64{0, 74240}[r.Intn(2)]
		period := p.Fork/p.EPP + uint64(r.Range(0, 1500))
		cl := period * p.EPP
		if cl < p.Fork {
			cl = p.Fork
		}
		E := (period + 1) * p.EPP * p.SPE
		in.Par = p
		in.Epoch, in.NotCur = cl, r.Bool()
		in.Cur = E - uint64(r.Range(1, 70))
		tag("mainnet-magnitude")
		lo, hi, ok = specWindow(p, in.Epoch, in.Cur)
		if !ok {
			tag("window:empty")
		} else if hi-lo < 2 {
			tag("window:last-two-slots")
		}
		if ok && lo == in.Cur && in.NotCur {
			tag("window:starts-now-excluded")
		}
	}

	// members
	n := r.Range(1, 4)
	if r.Chance(1, 20) {
		n = 0
	}
	if r.Chance(1, 4) {
		n = 3
	}
	pool := r.Perm(7)
	for i := 0; i < n; i++ {
		d := Duty{V: uint64(pool[i] + 1)}
		np := r.Range(1, 3)
		if r.Chance(1, 25) {
			np = 0
		}
		for k := 0; k < np; k++ {
			d.Pos = append(d.Pos, uint64(r.Intn(int(p.Size))))
		}
		in.Duties = append(in.Duties, d)
	}
	if n > 0 && r.Chance(1, 15) {
		// the node reports a validator twice: the later entry wins
		d := in.Duties[r.Intn(n)]
		d.Pos = []uint64{uint64(r.Intn(int(p.Size)))}
		in.Duties = append(in.Duties, d)
		tag("duties:duplicate")
	}
	vs := dutyValidators(&in)
	in.Indices = append(in.Indices, vs...)
	if r.Chance(1, 5) {
		in.Indices = append(in.Indices, uint64(pool[6]+1))
	}
	if r.Chance(1, 25) {
		in.Indices = nil
		tag("indices:none")
	} else if len(vs) > 0 && r.Chance(1, 20) {
		// a duty for a validator that was not asked for
		drop := vs[r.Intn(len(vs))]
		var idx []uint64
		for _, v := range in.Indices {
			if v != drop {
				idx = append(idx, v)
			}
		}
		in.Indices = idx
		tag("indices:duty-not-requested")
	}
	missing := 0
	for _, v := range vs {
		if r.Chance(4, 5) {
			in.Accts = append(in.Accts, v)
		} else {
			missing++
		}
	}
	if len(vs) == 3 && r.Chance(1, 3) {
		// exactly one member of three without account
		k := r.Intn(3)
		in.Accts = nil
		for i, v := range vs {
			if i != k {
				in.Accts = append(in.Accts, v)
			}
		}
		missing = 1
	}
	if missing > 0 {
		tag("missing-account")
	}
	if missing > 0 && missing == len(vs) {
		tag("missing-account:all")
	}
	if r.Chance(1, 30) {
		in.DutiesErr = true
		tag("duties:error")
	}
	if r.Chance(1, 30) {
		in.AcctsErr = true
		tag("accounts:error")
	}
	if len(in.Duties) == 0 {
		tag("duties:none")
	}

	// fired slots
	var slots []uint64
	if ok {
		slots = append(slots, lo)
		if hi != lo {
			slots = append(slots, hi)
		}
		if hi > lo+1 && r.Chance(2, 3) {
			slots = append(slots, lo+1+uint64(r.Intn(int(hi-lo-1))))
		}
	}
	if r.Chance(1, 8) {
		// a slot outside the window
		switch {
		case ok && r.Bool():
			slots = append(slots, hi+1)
		case ok && lo > 0:
			slots = append(slots, lo-1)
		default:
			slots = append(slots, in.Cur)
		}
		tag("fire:outside-window")
	}
	for _, s := range slots {
		in.Fires = append(in.Fires, genFire(r, p, s, vs, in.Duties, tag))
	}
	return in
}

// genFire scripts the environment of one fired slot.
func genFire(r *Rand, p Params, s uint64, vs []uint64, duties []Duty, tag func(string)) Fire {
	root := uint64(r.Range(1, 1000))
	f := Fire{Slot: s, Root: &root, Salt: r.U64() % 100000}
	if r.Chance(1, 25) {
		f.Root = nil
		tag("fault:head-root")
	}
	// the block of the slot itself, as the node has it when the message job runs: none in one slot
	// out of two (a missed or late proposal; the usual case at StartOfSlot + delay without fast
	// track); otherwise it is the head, or the head has already moved on
	switch x := r.Intn(6); {
	case f.Root == nil || x < 3:
		tag("slot:no-block")
	case x < 5:
		sr := root
		f.SlotRoot = &sr
		tag("slot:block-is-head")
	default:
		sr := root + 1000
		f.SlotRoot = &sr
		tag("slot:head-moved-on")
	}
	if r.Chance(1, 4) {
		f.SelSlow = true
		tag("slow:selection-signer")
	}
	if r.Chance(1, 25) {
		f.SelErr = true
		tag("fault:selection-signer")
	}
	if r.Chance(1, 25) {
		f.RootErr = true
		tag("fault:root-signer")
	}
	if r.Chance(1, 25) {
		f.SubmitErr = true
		tag("fault:submit")
	}
	if r.Chance(1, 25) {
		f.CPErr = true
		tag("fault:contribution-signer")
	}
	if r.Chance(1, 12) {
		f.ContribErr = append(f.ContribErr, uint64(r.Intn(int(p.Subnets))))
		tag("fault:contribution-fetch")
	}
	zero := 0
	for _, v := range vs {
		if r.Chance(1, 7) {
			f.RootZero = append(f.RootZero, v)
			zero++
		}
		if r.Chance(1, 20) {
			f.SelZero = append(f.SelZero, v)
			tag("zero-selection-proof")
		}
	}
	if len(vs) == 3 && zero == 0 && r.Chance(1, 4) {
		f.RootZero = []uint64{vs[r.Intn(3)]}
		zero = 1
	}
	if zero > 0 {
		tag("zero-signature")
	}
	if zero > 0 && zero == len(vs) {
		tag("zero-signature:all")
	}
	if r.Chance(1, 2) {
		// look for a salt that selects at least one aggregator among the members' subcommittees
		mod := p.Size / p.Subnets / p.Target
		if mod < 1 {
			mod = 1
		}
		e := &env{}
		for try := 0; try < 64; try++ {
			e.fire = &f
			hit := false
			for _, d := range duties {
				for _, pos := range d.Pos {
					if hash8(e.selSig(d.V, s, pos/(p.Size/p.Subnets)))%mod == 0 {
						hit = true
					}
				}
			}
			if hit {
				break
			}
			f.Salt++
		}
	}
	return f
}

func genAgg(r *Rand) Input {
	p := genParams(r)
	in := Input{Par: p, Tags: []string{"aggregate-direct"}}
	a := &Agg{Slot: uint64(r.Range(0, 5000))}
	n := r.Range(1, 4)
	pool := r.Perm(7)
	missing := 0
	for i := 0; i < n; i++ {
		m := AggMember{V: uint64(pool[i] + 1)}
		k := r.Range(1, 2)
		if r.Chance(1, 15) {
			k = 0
		}
		for _, c := range r.Perm(int(p.Subnets)) {
			if len(m.Subcs) < k {
				m.Subcs = append(m.Subcs, uint64(c))
			}
		}
		sort.Slice(m.Subcs, func(i, j int) bool { return m.Subcs[i] < m.Subcs[j] })
		a.Aggs = append(a.Aggs, m)
		if r.Chance(3, 4) {
			a.Accts = append(a.Accts, m.V)
		} else {
			missing++
		}
	}
	sort.Slice(a.Aggs, func(i, j int) bool { return a.Aggs[i].V < a.Aggs[j].V })
	if r.Chance(1, 5) {
		a.Accts = append(a.Accts, uint64(pool[6]+1))
	}
	if missing > 0 {
		in.Tags = append(in.Tags, "aggregate-missing-account")
	}
	if r.Chance(3, 5) {
		c := uint64(r.Range(1, 1000))
		a.Cached = &c
	}
	if r.Chance(9, 10) {
		h := uint64(r.Range(1001, 2000))
		a.Head = &h
		switch x := r.Intn(6); {
		case x < 3:
			in.Tags = append(in.Tags, "slot:no-block")
		case x < 5:
			sr := h
			a.SlotRoot = &sr
			in.Tags = append(in.Tags, "slot:block-is-head")
		default:
			sr := h + 1000
			a.SlotRoot = &sr
			in.Tags = append(in.Tags, "slot:head-moved-on")
		}
	}
	if r.Chance(1, 10) {
		a.ContribErr = append(a.ContribErr, uint64(r.Intn(int(p.Subnets))))
		in.Tags = append(in.Tags, "fault:contribution-fetch")
	}
	if r.Chance(1, 20) {
		a.CPErr = true
		in.Tags = append(in.Tags, "fault:contribution-signer")
	}
	in.Agg = a
	return in
}

// ---------------------------------------------------------------------------------------------

func TestC15(t *testing.T) {
	col := NewCollector("C15", "Check.C15",
		"a call of scheduleSyncCommitteeMessages (period, clock position, fork epoch, spe/epp 1-8, 0-4 members, account subset) followed by the "+
			"prepare/message/aggregation jobs of up to 4 slots under scripted signer/node/submitter behaviour, or a direct Aggregate call, "+
			"or a history of 3-9 operations on one controller and one scheduler (calls for this and the next period, refreshes of a "+
			"period's duties directly or through head events with a changed dependent root, slots fired in between); "+
			"non-trivial = at least one sync committee message or contribution was submitted by the implementation; distinct by full case text")
	// reading a case costs coqc far more than evaluating it; smaller shards are read in parallel
	col.ShardSize = 160
	n := EnvInt("VERIF_N", 600)
	var ins []Input
	for _, in := range LoadInputs[Input]("C15") {
		in.Tags = append(in.Tags, "corpus")
		ins = append(ins, in)
	}
	// NewRand(n) and NewRand(n+1) are the same splitmix stream shifted by one draw; forking once
	// scrambles the state so that neighbouring seeds give unrelated case sets.
	rng := NewRand(Seed()).Fork()
	for i := 0; i < n; i++ {
		ins = append(ins, gen(rng.Fork()))
	}
	for k := range ins {
		in := &ins[k]
		// one-off jobs fire once: a slot is fired at most once per case
		var fires []Fire
		seen := map[uint64]bool{}
		for _, f := range in.Fires {
			if !seen[f.Slot] {
				seen[f.Slot] = true
				fires = append(fires, f)
			}
		}
		in.Fires = fires
		var obs observed
		synctest.Test(t, func(t *testing.T) {
			obs = runCase(t, in)
		})
		nt := false
		if obs.aggObs != nil && len(*obs.aggObs) > 0 {
			nt = true
		}
		fired := append([]fireObs{}, obs.Fires...)
		for _, h := range obs.Hist {
			if h.Fire != nil {
				fired = append(fired, *h.Fire)
			}
		}
		for _, f := range fired {
			if f.Submitted != nil && len(*f.Submitted) > 0 {
				nt = true
				col.Count("fired:messages-submitted")
			}
			if f.Contribs != nil && len(*f.Contribs) > 0 {
				col.Count("fired:contributions-submitted")
			}
			if f.AggJob != nil {
				col.Count("fired:aggregation-job")
			}
		}
		if obs.Panic != "" {
			col.Count("panic")
			col.Note(fmt.Sprintf("case %d: panic: %s", col.NextID(), obs.Panic))
			// drop the unfinished observation: the lists no longer line up, which fails both checks
			obs.Fires = nil
			obs.Hist = nil
			obs.Jobs = append(obs.Jobs, jobObs{Kind: 99})
			if in.Agg != nil {
				bad := []string{"{| cp_agg := 0; cp_slot := 0; cp_subc := 0; cp_root := 0; cp_proof := SgBad; cp_sig := SgBad |}"}
				obs.Agg = &bad
			}
		}
		if in.Agg != nil {
			col.Count("kind:aggregate-direct")
		} else if len(in.Hist) > 0 {
			col.Count("kind:history")
			col.Count(fmt.Sprintf("history-ops:%d", len(in.Hist)))
			for _, op := range in.Hist {
				col.Count("history-op:" + op.Kind)
				if op.Kind == "refresh" && op.ViaHead {
					col.Count("history-op:refresh-via-head-events")
				}
			}
		} else {
			col.Count("kind:chain")
			col.Count(fmt.Sprintf("members:%d", len(dutyValidators(in))))
			col.Count(fmt.Sprintf("fires:%d", len(in.Fires)))
			if len(obs.Jobs) == 0 {
				col.Count("jobs:none")
			} else {
				col.Count("jobs:some")
			}
		}
		id := col.NextID()
		col.Add(Case{Term: term(id, in, &obs), Nontrivial: nt, Tags: in.Tags,
			Sample: map[string]any{"input": in, "observed": obs}})
	}
	if err := col.Flush(); err != nil {
		t.Fatal(err)
	}
}
