// C15, call sites: the places of services/controller/standard/service.go that call
// scheduleSyncCommitteeMessages are run for real inside a history (hist_test.go): the epoch ticker
// (epochTicker through the hook VerifEpochTicker), the Altair fork handler
// (handleAltairForkEpoch) and start-up (the public constructor New).  The account manager of these
// histories distinguishes the ACTIVE validators (ValidatingAccountsForEpoch) from the sync committee
// eligible ones (SyncCommitteeAccountsForEpoch: active plus exited, not yet withdrawable), like
// services/accountmanager/*: a validator that exits during a period is still a member of the
// committees it was drawn into and owes their messages.
package c15

import (
	"context"
	"sort"
	"strconv"
	"strings"
	"testing"
	"testing/synctest"
	"time"

	eth2client "github.com/attestantio/go-eth2-client"
	"github.com/attestantio/go-eth2-client/api"
	"github.com/attestantio/go-eth2-client/spec/phase0"
	"github.com/attestantio/vouch/mock"
	mockaccountmanager "github.com/attestantio/vouch/services/accountmanager/mock"
	mockattestationaggregator "github.com/attestantio/vouch/services/attestationaggregator/mock"
	mockattester "github.com/attestantio/vouch/services/attester/mock"
	mockbeaconblockproposer "github.com/attestantio/vouch/services/beaconblockproposer/mock"
	mockbeaconcommitteesubscriber "github.com/attestantio/vouch/services/beaconcommitteesubscriber/mock"
	"github.com/attestantio/vouch/services/cache"
	mockcache "github.com/attestantio/vouch/services/cache/mock"
	standardcontroller "github.com/attestantio/vouch/services/controller/standard"
	nullmetrics "github.com/attestantio/vouch/services/metrics/null"
	mockproposalpreparer "github.com/attestantio/vouch/services/proposalpreparer/mock"
	"github.com/attestantio/vouch/services/synccommitteeaggregator"
	"github.com/attestantio/vouch/services/synccommitteemessenger"
	"github.com/attestantio/vouch/services/synccommitteesubscriber"
	"github.com/rs/zerolog"

	. "verifharness/common"
	"verifharness/mocks"
)

func isSite(kind string) bool { return kind == "tick" || kind == "forkepoch" || kind == "startup" }

func siteHops(kind string) int {
	if kind == "tick" {
		return 1
	}
	return 2
}

func hasSites(ops []HOp) bool {
	for _, op := range ops {
		if isSite(op.Kind) {
			return true
		}
	}
	return false
}

func minus(a, b []uint64) []uint64 {
	res := []uint64{}
	for _, x := range a {
		if !contains(b, x) {
			res = append(res, x)
		}
	}
	return res
}

// controllerSpec is the chain specification the public constructor reads.
type controllerSpec struct{ p Params }

func (c controllerSpec) Spec(_ context.Context, _ *api.SpecOpts) (*api.Response[map[string]any], error) {
	return &api.Response[map[string]any]{Data: map[string]any{
		"SECONDS_PER_SLOT":                 time.Duration(c.p.SlotNs),
		"SLOTS_PER_EPOCH":                  c.p.SPE,
		"EPOCHS_PER_SYNC_COMMITTEE_PERIOD": c.p.EPP,
		"ALTAIR_FORK_EPOCH":                c.p.Fork,
	}, Metadata: map[string]any{}}, nil
}

type siteParts struct {
	ct         *mocks.ChainTime
	sched      *mocks.RecScheduler
	duties     eth2client.SyncCommitteeDutiesProvider
	accounts   *ctrlAccounts
	messenger  synccommitteemessenger.Service
	aggregator synccommitteeaggregator.Service
	subscriber synccommitteesubscriber.Service
}

// fullController: the hook constructor with every part a ticker run touches (proposals and
// attestations find no duty: the node's mocks answer with empty lists).
func fullController(p Params, sp *siteParts) *standardcontroller.Service {
	return standardcontroller.NewForVerif(&standardcontroller.VerifDeps{
		LogLevel:                      zerolog.Disabled,
		Monitor:                       nullmetrics.New(),
		ChainTime:                     sp.ct,
		Scheduler:                     sp.sched,
		ProposerDutiesProvider:        mock.NewProposerDutiesProvider(),
		AttesterDutiesProvider:        mock.NewAttesterDutiesProvider(),
		SyncCommitteeDutiesProvider:   sp.duties,
		ValidatingAccountsProvider:    sp.accounts,
		ProposalsPreparer:             mockproposalpreparer.New(),
		Attester:                      mockattester.New(),
		SyncCommitteeMessenger:        sp.messenger,
		SyncCommitteeAggregator:       sp.aggregator,
		SyncCommitteesSubscriber:      sp.subscriber,
		BeaconBlockProposer:           mockbeaconblockproposer.New(),
		BeaconBlockHeadersProvider:    mock.NewBeaconBlockHeadersProvider(),
		SignedBeaconBlockProvider:     mock.NewSignedBeaconBlockProvider(),
		AttestationAggregator:         mockattestationaggregator.New(),
		BeaconCommitteeSubscriber:     mockbeaconcommitteesubscriber.New(),
		AccountsRefresher:             mockaccountmanager.NewRefresher(),
		BlockToSlotSetter:             mockcache.New(map[phase0.Root]phase0.Slot{}).(cache.BlockRootToSlotSetter),
		SlotDuration:                  time.Duration(p.SlotNs),
		SlotsPerEpoch:                 p.SPE,
		EpochsPerSyncCommitteePeriod:  p.EPP,
		MaxProposalDelay:              time.Duration(p.SlotNs) / 3,
		MaxAttestationDelay:           time.Duration(p.SlotNs) / 3,
		AttestationAggregationDelay:   2 * time.Duration(p.SlotNs) / 3,
		MaxSyncCommitteeMessageDelay:  time.Duration(p.MsgDelay),
		SyncCommitteeAggregationDelay: time.Duration(p.AggDelay),
		HandlingAltair:                true,
		AltairForkEpoch:               phase0.Epoch(p.Fork),
		BellatrixForkEpoch:            0xffffffffffffffff,
		CapellaForkEpoch:              0xffffffffffffffff,
	})
}

// startController: a fresh process, the public constructor.  It subscribes to events, starts its
// tickers (periodic jobs of the recording scheduler, never fired here) and schedules this period's
// and, within five epochs of it, the next period's sync committee messages.
func startController(t *testing.T, ctx context.Context, p Params, sp *siteParts) *standardcontroller.Service {
	svc, err := standardcontroller.New(ctx,
		standardcontroller.WithLogLevel(zerolog.Disabled),
		standardcontroller.WithMonitor(nullmetrics.New()),
		standardcontroller.WithSpecProvider(controllerSpec{p}),
		standardcontroller.WithChainTimeService(sp.ct),
		standardcontroller.WithProposerDutiesProvider(mock.NewProposerDutiesProvider()),
		standardcontroller.WithAttesterDutiesProvider(mock.NewAttesterDutiesProvider()),
		standardcontroller.WithSyncCommitteeDutiesProvider(sp.duties),
		standardcontroller.WithEventsProvider(mocks.NewEventsProvider()),
		standardcontroller.WithValidatingAccountsProvider(sp.accounts),
		standardcontroller.WithProposalsPreparer(mockproposalpreparer.New()),
		standardcontroller.WithScheduler(sp.sched),
		standardcontroller.WithAttester(mockattester.New()),
		standardcontroller.WithSyncCommitteeMessenger(sp.messenger),
		standardcontroller.WithSyncCommitteeAggregator(sp.aggregator),
		standardcontroller.WithSyncCommitteeSubscriber(sp.subscriber),
		standardcontroller.WithBeaconBlockProposer(mockbeaconblockproposer.New()),
		standardcontroller.WithBeaconCommitteeSubscriber(mockbeaconcommitteesubscriber.New()),
		standardcontroller.WithAttestationAggregator(mockattestationaggregator.New()),
		standardcontroller.WithAccountsRefresher(mockaccountmanager.NewRefresher()),
		standardcontroller.WithBlockToSlotSetter(mockcache.New(map[phase0.Root]phase0.Slot{}).(cache.BlockRootToSlotSetter)),
		standardcontroller.WithBeaconBlockHeadersProvider(mock.NewBeaconBlockHeadersProvider()),
		standardcontroller.WithSignedBeaconBlockProvider(mock.NewSignedBeaconBlockProvider()),
		standardcontroller.WithMaxProposalDelay(time.Duration(p.SlotNs)/3),
		standardcontroller.WithMaxAttestationDelay(time.Duration(p.SlotNs)/3),
		standardcontroller.WithAttestationAggregationDelay(2*time.Duration(p.SlotNs)/3),
		standardcontroller.WithMaxSyncCommitteeMessageDelay(time.Duration(p.MsgDelay)),
		standardcontroller.WithSyncCommitteeAggregationDelay(time.Duration(p.AggDelay)),
	)
	if err != nil {
		// caught per case and reported as that case's outcome
		panic("controller constructor: " + err.Error())
	}
	return svc
}

// snapshotSyncJobs: of a scheduler that also holds the tickers and the "Prepare for epoch" jobs of a
// whole controller, the sync committee jobs (by name; a sync committee job under a name that is none
// of the three known ones still shows, as kind 99).
func snapshotSyncJobs(ct *mocks.ChainTime, sched *mocks.RecScheduler) []jobObs {
	res := []jobObs{}
	for _, j := range sched.Snapshot() {
		if !strings.Contains(strings.ToLower(j.Name), "sync committee") {
			continue
		}
		o := jobObs{Kind: 99, T: int64(j.Time.Sub(ct.Genesis))}
		for k, re := range jobRe {
			if m := re.FindStringSubmatch(j.Name); m != nil {
				o.Kind = uint64(k)
				o.Slot, _ = strconv.ParseUint(m[1], 10, 64)
			}
		}
		res = append(res, o)
	}
	sort.SliceStable(res, func(i, j int) bool {
		if res[i].Slot != res[j].Slot {
			return res[i].Slot < res[j].Slot
		}
		return res[i].Kind < res[j].Kind
	})
	return res
}

// runSite runs one call site at the clock of the operation.  first: the scheduler's jobs after the
// site's first call, when it makes two (the second call's duties request waits at the node until
// the harness has looked).
func runSite(t *testing.T, ctx context.Context, in *Input, op *HOp, e *env, sp *siteParts, ctrl **standardcontroller.Service) (first []jobObs) {
	p := in.Par
	ce := op.Cur / p.SPE
	active := minus(op.Accts, op.Exited)
	sp.accounts.setActive(active)
	defer sp.accounts.setActive(nil)
	switch op.Kind {
	case "tick":
		// every tick operation is for an epoch the ticker has not run for: fresh ticker state
		(*ctrl).VerifEpochTicker(ctx, (*ctrl).VerifNewEpochTickerData())
		synctest.Wait()
		return nil
	case "forkepoch", "startup":
		split := (ce/p.EPP + 1) * p.EPP
		if op.Kind == "forkepoch" {
			split = (p.Fork/p.EPP + 1) * p.EPP
		}
		park := make(chan struct{})
		e.mu.Lock()
		e.split, e.duties2, e.dutiesPark = &split, op.Duties2, park
		e.mu.Unlock()
		if op.Kind == "startup" {
			*ctrl = startController(t, ctx, p, sp)
		} else {
			(*ctrl).VerifHandleAltairForkEpoch(ctx)
		}
		synctest.Wait()
		first = snapshotSyncJobs(sp.ct, sp.sched)
		close(park)
		synctest.Wait()
		e.mu.Lock()
		e.split, e.duties2, e.dutiesPark = nil, nil, nil
		e.mu.Unlock()
		return first
	}
	return nil
}

// siteTerm: the template(s) of the site: the clock, the sync committee eligible validators (every
// held account, exited ones included; none when the account manager fails), the node's answer.
func siteTerm(op *HOp) string {
	var idx []uint64
	if !op.AcctsErr {
		idx = op.Accts
	}
	i1 := schedInTerm(op.Epoch, op.Cur, false, idx, op.Duties, op.DutiesErr, op.Accts, op.AcctsErr)
	switch op.Kind {
	case "tick":
		return App("STick", i1)
	case "forkepoch":
		return App("SFork", i1, schedInTerm(op.Epoch, op.Cur, false, idx, op.Duties2, op.DutiesErr, op.Accts, op.AcctsErr))
	default:
		return App("SStart", i1, schedInTerm(op.Epoch, op.Cur, false, idx, op.Duties2, op.DutiesErr, op.Accts, op.AcctsErr))
	}
}

// ---------------------------------------------------------------------------------------------
// Generator: histories with call sites.  One or two of the held validators have exited.

func genSites(r *Rand) Input {
	p := genParams(r)
	p.SPE, p.EPP = uint64(r.Range(2, 4)), uint64(r.Range(5, 8))
	if r.Chance(1, 8) {
		p.EPP = uint64(r.Range(2, 4)) // the ticker never prepares the next period on such a chain (epp - 5 wraps)
	}
	in := Input{Par: p, Tags: []string{"history", "sites"}}
	tag := func(s string) {
		for _, x := range in.Tags {
			if x == s {
				return
			}
		}
		in.Tags = append(in.Tags, s)
	}
	q := uint64(r.Range(1, 4))
	p.Fork = 0
	family := r.Intn(10)
	if family < 5 && p.EPP == 5 {
		p.EPP = 6 // with five epochs the period's first epoch is the one in which the ticker prepares the next
	}
	in.Par = p
	per := p.EPP * p.SPE
	F, E, E2 := q*per, (q+1)*per, (q+2)*per

	d1 := genMembers(r, p, r.Range(1, 3))
	d2 := genMembers(r, p, r.Range(1, 3))
	var accts []uint64
	for v := uint64(1); v <= 7; v++ {
		if r.Chance(6, 7) {
			accts = append(accts, v)
		}
	}
	// who has exited: mostly a member of the next committee that we hold
	var exited []uint64
	for _, d := range d2 {
		if contains(accts, d.V) && !contains(exited, d.V) && r.Chance(2, 3) && len(exited) < 2 {
			exited = append(exited, d.V)
		}
	}
	if r.Chance(1, 4) || (family >= 5 && r.Bool()) {
		// start-up and the fork handler also set up the running period: a member of its committee
		for _, d := range d1 {
			if contains(accts, d.V) && !contains(exited, d.V) && r.Bool() {
				exited = append(exited, d.V)
			}
		}
	}
	if len(exited) > 0 {
		tag("sites:exited-member")
		if len(minus(accts, exited)) == 0 {
			tag("sites:no-active-validator")
		}
	}
	all := append(append([]Duty{}, d1...), d2...)
	vsAll := validatorsOf(all)
	fire := func(s uint64) HOp {
		f := genFire(r, p, s, vsAll, all, tag)
		return HOp{Kind: "fire", Fire: &f}
	}
	fireSome := func(lo, hi uint64, n int) {
		// slots lo..hi in increasing order: the ends and some in the middle
		if lo > hi {
			return
		}
		slots := []uint64{lo}
		if hi > lo {
			slots = append(slots, hi)
		}
		for ; n > 0 && hi > lo+1; n-- {
			s := lo + 1 + uint64(r.Intn(int(hi-lo-1)))
			if !contains(slots, s) {
				slots = append(slots, s)
			}
		}
		sortU(slots)
		for _, s := range slots {
			in.Hist = append(in.Hist, fire(s))
		}
	}
	site := func(kind string, cur uint64, ds, ds2 []Duty) HOp {
		op := HOp{Kind: kind, Cur: cur, Duties: ds, Duties2: ds2, Accts: accts, Exited: exited}
		if kind != "startup" && r.Chance(1, 30) {
			// (at start-up a failing account manager ends the constructor: no process)
			op.AcctsErr = true
			tag("accounts:error")
		}
		return op
	}

	switch k := family; {
	case k < 5:
		// the ticker: start-up (or a direct call) for the running period, then ticks in the epochs up
		// to the one five epochs before the next period, where the next period is set up
		tag("site:tick")
		startEpoch := q*p.EPP + uint64(r.Intn(int(max(p.EPP, 6)-5)))
		cur := startEpoch*p.SPE + uint64(r.Intn(int(p.SPE)))
		if r.Bool() {
			in.Hist = append(in.Hist, site("startup", cur, d1, d2))
			tag("site:startup")
		} else {
			in.Hist = append(in.Hist, HOp{Kind: "sched", Cur: cur, Epoch: q * p.EPP, NotCur: true, Indices: accts, Duties: d1, Accts: accts})
		}
		trigger := (q+1)*p.EPP - 5
		if p.EPP < 5 {
			trigger = startEpoch + 1
		}
		for ep := startEpoch + 1; ep <= trigger && ep < (q+1)*p.EPP; ep++ {
			if ep != trigger && !r.Chance(1, 3) {
				continue
			}
			cur = ep * p.SPE
			if cur > F+1 && r.Bool() {
				in.Hist = append(in.Hist, fire(cur-1))
			}
			in.Hist = append(in.Hist, site("tick", cur, d2, nil))
			if ep == trigger {
				tag("site:tick-prepares-next-period")
			}
		}
		if r.Chance(1, 4) && cur/p.SPE+1 < (q+1)*p.EPP {
			// a later tick must not disturb what is scheduled
			cur = (cur/p.SPE + 1) * p.SPE
			in.Hist = append(in.Hist, site("tick", cur, d2, nil))
		}
		if cur+1 <= E-2 && r.Bool() {
			in.Hist = append(in.Hist, fire(cur+1))
		}
		fireSome(E-1, E2-2, r.Range(0, 2))
	case k < 8:
		// start-up, anywhere in the period; in its last five epochs the next period is set up as well
		tag("site:startup")
		ep := q*p.EPP + uint64(r.Intn(int(p.EPP)))
		if r.Bool() && p.EPP >= 5 {
			// near the boundary: exactly five epochs before it half of the time
			ep = (q+1)*p.EPP - 5
			if r.Bool() {
				ep = (q+1)*p.EPP - uint64(r.Range(1, 6))
			}
		}
		cur := ep*p.SPE + uint64(r.Intn(int(p.SPE)))
		in.Hist = append(in.Hist, site("startup", cur, d1, d2))
		if (q+1)*p.EPP-ep <= 5 {
			tag("site:startup-prepares-next-period")
		}
		if cur+1 <= E-2 {
			fireSome(cur+1, E-2, r.Range(0, 1))
		}
		fireSome(E-1, E2-2, r.Range(0, 2))
	default:
		// the fork epoch: the handler sets up the fork epoch's period and, when near, the next one
		tag("site:fork-epoch")
		fe := q*p.EPP + uint64(r.Intn(int(p.EPP)))
		if r.Bool() && p.EPP >= 5 {
			fe = (q+1)*p.EPP - 5
			if r.Bool() {
				fe = (q+1)*p.EPP - uint64(r.Range(1, 6))
			}
		}
		p.Fork = fe
		in.Par = p
		cur := fe * p.SPE
		in.Hist = append(in.Hist, site("forkepoch", cur, d1, d2))
		if (q+1)*p.EPP-fe <= 5 {
			tag("site:fork-prepares-next-period")
		}
		if cur+1 <= E-2 {
			fireSome(cur+1, E-2, r.Range(0, 1))
		}
		fireSome(E-1, E2-2, r.Range(0, 2))
	}
	return in
}

func sortU(l []uint64) {
	for i := 1; i < len(l); i++ {
		for j := i; j > 0 && l[j-1] > l[j]; j-- {
			l[j-1], l[j] = l[j], l[j-1]
		}
	}
}
