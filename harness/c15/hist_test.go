// C15, histories: several operations on ONE controller with ONE scheduler (which implements the real
// name semantics: a name that exists is refused, CancelJob removes one name, CancelJobs removes every
// name with the prefix): calls of scheduleSyncCommitteeMessages for this and the next period, the
// refresh of a period's duties after a reorganisation (refreshSyncCommitteeDutiesForEpochPeriod,
// directly or through two head events whose current duty dependent root differs, in the first epoch
// of a period), and the jobs of slots fired in between.  After every operation the scheduler's job
// list is recorded; every fired slot records what its jobs did.
package c15

import (
	"context"
	"fmt"
	"sort"
	"testing"
	"testing/synctest"
	"time"

	"github.com/attestantio/go-eth2-client/spec/phase0"
	standardcontroller "github.com/attestantio/vouch/services/controller/standard"
	nullmetrics "github.com/attestantio/vouch/services/metrics/null"
	standardaggregator "github.com/attestantio/vouch/services/synccommitteeaggregator/standard"
	standardmessenger "github.com/attestantio/vouch/services/synccommitteemessenger/standard"
	standardsubscriber "github.com/attestantio/vouch/services/synccommitteesubscriber/standard"
	"github.com/rs/zerolog"
	e2wtypes "github.com/wealdtech/go-eth2-wallet-types/v2"

	. "verifharness/common"
	"verifharness/mocks"
)

// HOp is one operation of a history.
type HOp struct {
	Kind      string   `json:"kind"` // "sched" | "refresh" | "fire" | call sites (sites_test.go): "tick" | "forkepoch" | "startup"
	Cur       uint64   `json:"cur"`  // the clock (current slot) at the operation (sched, refresh)
	Epoch     uint64   `json:"epoch,omitempty"`
	NotCur    bool     `json:"not_cur,omitempty"`
	Indices   []uint64 `json:"indices,omitempty"` // sched only; a refresh uses the accounts held
	Duties    []Duty   `json:"duties,omitempty"`
	DutiesErr bool     `json:"duties_err,omitempty"`
	Accts     []uint64 `json:"accts,omitempty"`
	AcctsErr  bool     `json:"accts_err,omitempty"`
	// call sites: Accts are the accounts held, the sync committee eligible validators; those of them
	// in Exited have exited (not yet withdrawable) and are not among the active validators.  Duties2:
	// the node's answer for the next period (the second call of start-up and of the fork handler).
	Exited  []uint64 `json:"exited,omitempty"`
	Duties2 []Duty   `json:"duties2,omitempty"`
	// ViaHead: the refresh is brought about by head events (checkEventForReorg ->
	// handleCurrentDependentRootChanged) when the clock is in the first epoch of a period and the
	// epoch asked for is that of the next period; otherwise the function is called directly.
	ViaHead bool  `json:"via_head,omitempty"`
	Fire    *Fire `json:"fire,omitempty"`
	// Mid (fire only): a refresh that takes place while the slot's chain is under way: after its
	// prepare job (MidStage 1) or after its message job (MidStage 2).  The refresh is for a period
	// whose window does not hold the slot, so it is the history "fire; refresh" and is printed as
	// such; the job list recorded for the fire is the one at the time of the refresh without the
	// fired slot's own jobs in flight (the outcome of the fire records those).
	Mid      *HOp `json:"mid,omitempty"`
	MidStage int  `json:"mid_stage,omitempty"`
}

type histObs struct {
	Jobs []jobObs `json:"jobs"`
	Fire *fireObs `json:"fire,omitempty"`
}

// ctrlAccounts is the controller's account provider: the sync committee requests go to the scripted
// environment; the general request (used by the proposer and attester refreshes that a changed
// dependent root also starts, not C15's subject) reports no validator, so those refreshes end early.
type ctrlAccounts struct {
	e      *env
	active []uint64 // nil: no validator (every history without call sites)
}

func (c *ctrlAccounts) setActive(vs []uint64) {
	c.e.mu.Lock()
	defer c.e.mu.Unlock()
	c.active = vs
}

func (c *ctrlAccounts) activeAccounts(only []phase0.ValidatorIndex) map[phase0.ValidatorIndex]e2wtypes.Account {
	c.e.mu.Lock()
	defer c.e.mu.Unlock()
	res := map[phase0.ValidatorIndex]e2wtypes.Account{}
	for _, v := range c.active {
		if only != nil {
			found := false
			for _, i := range only {
				found = found || uint64(i) == v
			}
			if !found {
				continue
			}
		}
		res[phase0.ValidatorIndex(v)] = &account{V: v}
	}
	return res
}

func (c *ctrlAccounts) ValidatingAccountsForEpoch(_ context.Context, _ phase0.Epoch) (map[phase0.ValidatorIndex]e2wtypes.Account, error) {
	return c.activeAccounts(nil), nil
}

func (c *ctrlAccounts) ValidatingAccountsForEpochByIndex(_ context.Context, _ phase0.Epoch, indices []phase0.ValidatorIndex) (map[phase0.ValidatorIndex]e2wtypes.Account, error) {
	if indices == nil {
		indices = []phase0.ValidatorIndex{}
	}
	return c.activeAccounts(indices), nil
}

func (c *ctrlAccounts) SyncCommitteeAccountsForEpoch(ctx context.Context, epoch phase0.Epoch) (map[phase0.ValidatorIndex]e2wtypes.Account, error) {
	return c.e.SyncCommitteeAccountsForEpoch(ctx, epoch)
}

func (c *ctrlAccounts) SyncCommitteeAccountsForEpochByIndex(ctx context.Context, epoch phase0.Epoch, indices []phase0.ValidatorIndex) (map[phase0.ValidatorIndex]e2wtypes.Account, error) {
	return c.e.SyncCommitteeAccountsForEpochByIndex(ctx, epoch, indices)
}

func dependentRoot(k uint64) phase0.Root {
	r := rootOf(k)
	r[0] = 0xd0 // never the zero root
	return r
}

func runHist(t *testing.T, in *Input) (obs observed) {
	ctx := context.Background()
	e := &env{in: &Input{Par: in.Par}}
	ct := mocks.NewChainTime(in.Par.SPE)
	ct.SlotDuration = time.Duration(in.Par.SlotNs)
	sched := mocks.NewRecScheduler()

	aggregator, err := standardaggregator.New(ctx,
		standardaggregator.WithLogLevel(zerolog.Disabled),
		standardaggregator.WithMonitor(nullmetrics.New()),
		standardaggregator.WithSpecProvider(e),
		standardaggregator.WithBeaconBlockRootProvider(e),
		standardaggregator.WithContributionAndProofSigner(e),
		standardaggregator.WithValidatingAccountsProvider(e),
		standardaggregator.WithSyncCommitteeContributionProvider(e),
		standardaggregator.WithSyncCommitteeContributionsSubmitter(e),
		standardaggregator.WithChainTime(ct),
	)
	if err != nil {
		t.Fatalf("aggregator constructor: %v", err)
	}
	messenger, err := standardmessenger.New(ctx,
		standardmessenger.WithLogLevel(zerolog.Disabled),
		standardmessenger.WithProcessConcurrency(2),
		standardmessenger.WithMonitor(nullmetrics.New()),
		standardmessenger.WithChainTimeService(ct),
		standardmessenger.WithSyncCommitteeAggregator(aggregator),
		standardmessenger.WithSpecProvider(e),
		standardmessenger.WithBeaconBlockRootProvider(e),
		standardmessenger.WithSyncCommitteeMessagesSubmitter(e),
		standardmessenger.WithValidatingAccountsProvider(e),
		standardmessenger.WithSyncCommitteeRootSigner(e),
		standardmessenger.WithSyncCommitteeSelectionSigner(e),
		standardmessenger.WithSyncCommitteeSubscriptionsSubmitter(e),
	)
	if err != nil {
		t.Fatalf("messenger constructor: %v", err)
	}
	subscriber, err := standardsubscriber.New(ctx,
		standardsubscriber.WithLogLevel(zerolog.Disabled),
		standardsubscriber.WithMonitor(nullmetrics.New()),
		standardsubscriber.WithSyncCommitteeSubmitter(e),
	)
	if err != nil {
		t.Fatalf("subscriber constructor: %v", err)
	}
	// one controller for the whole history
	sites := hasSites(in.Hist)
	sp := &siteParts{ct: ct, sched: sched, duties: e, accounts: &ctrlAccounts{e: e}, messenger: messenger, aggregator: aggregator, subscriber: subscriber}
	snap := snapshotJobs
	var ctrl *standardcontroller.Service
	switch {
	case sites && in.Hist[0].Kind == "startup":
		// the controller is built by the first operation (public constructor)
		snap = snapshotSyncJobs
	case sites:
		snap = snapshotSyncJobs
		ctrl = fullController(in.Par, sp)
	default:
		ctrl = standardcontroller.NewForVerifC15(&standardcontroller.VerifConfigC15{
			ChainTime:                     ct,
			Scheduler:                     sched,
			SyncCommitteeDutiesProvider:   e,
			ValidatingAccountsProvider:    sp.accounts,
			SyncCommitteeMessenger:        messenger,
			SyncCommitteeAggregator:       aggregator,
			SyncCommitteesSubscriber:      subscriber,
			SlotDuration:                  time.Duration(in.Par.SlotNs),
			SlotsPerEpoch:                 in.Par.SPE,
			EpochsPerSyncCommitteePeriod:  in.Par.EPP,
			AltairForkEpoch:               phase0.Epoch(in.Par.Fork),
			MaxSyncCommitteeMessageDelay:  time.Duration(in.Par.MsgDelay),
			SyncCommitteeAggregationDelay: time.Duration(in.Par.AggDelay),
		})
	}

	// what the controller last saw in a head event
	var seenEpoch, nextRoot uint64
	seen := false

	// a call, a refresh or a call site; first: see runSite
	var first []jobObs
	runOp := func(op *HOp) {
		e.mu.Lock()
		e.in = &Input{Par: in.Par, Duties: op.Duties, DutiesErr: op.DutiesErr, Accts: op.Accts, AcctsErr: op.AcctsErr}
		e.mu.Unlock()
		ct.SetSlot(op.Cur)
		ce := op.Cur / in.Par.SPE
		switch {
		case isSite(op.Kind):
			first = runSite(t, ctx, in, op, e, sp, &ctrl)
		case op.Kind == "sched":
			indices := make([]phase0.ValidatorIndex, 0, len(op.Indices))
			for _, v := range op.Indices {
				indices = append(indices, phase0.ValidatorIndex(v))
			}
			ctrl.ScheduleSyncCommitteeMessagesC15(ctx, phase0.Epoch(op.Epoch), indices, op.NotCur)
		case op.ViaHead && ce > 0 && ce%in.Par.EPP == 0 && op.Epoch == ce+in.Par.EPP:
			// a head event for the current slot establishes the dependent roots of this epoch
			// (unless the controller has already seen one in it) ...
			if !seen || seenEpoch != ce {
				// the new previous root is the old current root: no change there
				_, _, storedCur := ctrl.VerifReorgState()
				nextRoot++
				ctrl.VerifCheckEventForReorg(ctx, phase0.Epoch(ce), phase0.Slot(op.Cur), storedCur, dependentRoot(nextRoot))
				synctest.Wait()
				seen, seenEpoch = true, ce
			}
			// ... and a second one shows a different current duty dependent root
			_, storedPrev, _ := ctrl.VerifReorgState()
			nextRoot++
			ctrl.VerifCheckEventForReorg(ctx, phase0.Epoch(ce), phase0.Slot(op.Cur), storedPrev, dependentRoot(nextRoot))
		default:
			ctrl.VerifRefreshSyncCommitteeDutiesForEpochPeriod(ctx, phase0.Epoch(op.Epoch))
		}
		// refreshes and the per-slot scheduling run in goroutines: wait for all of them
		synctest.Wait()
	}

	for k := range in.Hist {
		op := &in.Hist[k]
		var ho histObs
		var midJobs []jobObs
		func() {
			defer func() {
				if r := recover(); r != nil {
					obs.Panic = fmt.Sprint(r)
				}
			}()
			switch op.Kind {
			case "sched", "refresh", "tick", "forkepoch", "startup":
				runOp(op)
			case "fire":
				var mid func()
				if op.Mid != nil {
					mid = func() {
						for _, j := range snap(ct, sched) {
							if j.Slot != op.Fire.Slot {
								midJobs = append(midJobs, j)
							}
						}
						runOp(op.Mid)
					}
				}
				fo := fireSlot(ctx, e, ct, sched, op.Fire, mid, op.MidStage)
				ho.Fire = &fo
			}
		}()
		ho.Jobs = snap(ct, sched)
		if isSite(op.Kind) && siteHops(op.Kind) == 2 {
			// two calls: the scheduler after the first, then after both
			if first == nil {
				first = []jobObs{}
			}
			obs.Hist = append(obs.Hist, histObs{Jobs: first})
			first = nil
		}
		if op.Kind == "fire" && op.Mid != nil {
			// two entries: the fire (job list at the time of the refresh), then the refresh
			obs.Hist = append(obs.Hist, histObs{Jobs: midJobs, Fire: ho.Fire})
			ho.Fire = nil
		}
		obs.Hist = append(obs.Hist, ho)
		if obs.Panic != "" {
			break
		}
	}
	return obs
}

// histValidators: every validator that appears in a duty of the history.
func histInput(in *Input) *Input {
	all := &Input{Par: in.Par}
	for _, op := range in.Hist {
		all.Duties = append(all.Duties, op.Duties...)
		all.Duties = append(all.Duties, op.Duties2...)
		if op.Mid != nil {
			all.Duties = append(all.Duties, op.Mid.Duties...)
		}
	}
	return all
}

// jobRunTerms prints a job list (sorted by slot, then kind) as maximal runs (kind, first slot, count,
// time of the first, step) of jobs of one kind for consecutive slots whose times advance by a
// constant step; Check.C15.expand_runs gives the list back (checked here before printing).
func jobRunTerms(js []jobObs) string {
	type run struct {
		kind, slot, n uint64
		t, dt         int64
	}
	var runs []run
	for _, j := range js {
		if k := len(runs) - 1; k >= 0 {
			r := &runs[k]
			if r.kind == j.Kind && j.Slot == r.slot+r.n && (r.n == 1 || j.T == r.t+int64(r.n)*r.dt) {
				if r.n == 1 {
					r.dt = j.T - r.t
				}
				r.n++
				continue
			}
		}
		runs = append(runs, run{kind: j.Kind, slot: j.Slot, n: 1, t: j.T})
	}
	var back []jobObs
	items := make([]string, 0, len(runs))
	for _, r := range runs {
		for k := uint64(0); k < r.n; k++ {
			back = append(back, jobObs{Kind: r.kind, Slot: r.slot + k, T: r.t + int64(k)*r.dt})
		}
		items = append(items, "("+N(r.kind)+", "+N(r.slot)+", "+N(r.n)+", "+Z(r.t)+", "+Z(r.dt)+")")
	}
	if len(back) != len(js) {
		panic("job list encoding does not round-trip")
	}
	for k := range js {
		if back[k] != js[k] {
			panic("job list encoding does not round-trip")
		}
	}
	return List(items)
}

// refreshTerm: the call the refresh ends with has the sync committee eligible accounts as indices
// (none when that request fails: the refresh returns after cancelling) and notCurrentSlot false.
func refreshTerm(op *HOp) string {
	var idx []uint64
	if !op.AcctsErr {
		idx = op.Accts
	}
	return App("HRefresh", N(op.Epoch), schedInTerm(op.Epoch, op.Cur, false, idx, op.Duties, op.DutiesErr, op.Accts, op.AcctsErr))
}

func histTerms(in *Input, obs *observed) (string, string) {
	if len(in.Hist) == 0 {
		return List(nil), List(nil)
	}
	all := histInput(in)
	sites := hasSites(in.Hist)
	ops := make([]string, 0, len(in.Hist))
	add := func(hop string) {
		if sites {
			hop = App("SOp", hop)
		}
		ops = append(ops, hop)
	}
	for k := range in.Hist {
		op := &in.Hist[k]
		switch {
		case op.Kind == "sched":
			add(App("HSched", schedInTerm(op.Epoch, op.Cur, op.NotCur, op.Indices, op.Duties, op.DutiesErr, op.Accts, op.AcctsErr)))
		case op.Kind == "refresh":
			add(refreshTerm(op))
		case isSite(op.Kind):
			ops = append(ops, siteTerm(op))
		default:
			add(App("HFire", fireInTerm(all, op.Fire)))
			if op.Mid != nil {
				add(refreshTerm(op.Mid))
			}
		}
	}
	hobs := make([]string, 0, len(obs.Hist))
	for k := range obs.Hist {
		ho := &obs.Hist[k]
		fo := None()
		if ho.Fire != nil {
			fo = Some(fireOutTerm(ho.Fire))
		}
		hobs = append(hobs, Pair(jobRunTerms(ho.Jobs), fo))
	}
	if sites {
		// the model (Model/C15_Sites.v) decides which calls the sites make
		return App("sites_hops", parTerm(in.Par), List(ops)), List(hobs)
	}
	return List(ops), List(hobs)
}

// ---------------------------------------------------------------------------------------------
// Generator.

func genMembers(r *Rand, p Params, n int) []Duty {
	pool := r.Perm(7)
	var ds []Duty
	for i := 0; i < n; i++ {
		d := Duty{V: uint64(pool[i] + 1)}
		for k, np := 0, r.Range(1, 2); k < np; k++ {
			d.Pos = append(d.Pos, uint64(r.Intn(int(p.Size))))
		}
		ds = append(ds, d)
	}
	return ds
}

func validatorsOf(ds []Duty) []uint64 {
	var vs []uint64
	for _, d := range ds {
		if !contains(vs, d.V) {
			vs = append(vs, d.V)
		}
	}
	sort.Slice(vs, func(i, j int) bool { return vs[i] < vs[j] })
	return vs
}

func genHist(r *Rand) Input {
	p := genParams(r)
	if p.SPE*p.EPP > 40 {
		// two periods of pending jobs are recorded after every operation: keep the periods short
		p.SPE, p.EPP = uint64(r.Range(2, 5)), uint64(r.Range(2, 8))
	}
	in := Input{Par: p, Tags: []string{"history"}}
	tag := func(s string) {
		for _, x := range in.Tags {
			if x == s {
				return
			}
		}
		in.Tags = append(in.Tags, s)
	}
	q := uint64(r.Range(1, 6)) // the current period; a refresh for the next period needs q >= 1
	p.Fork = 0
	if r.Chance(1, 3) {
		p.Fork = uint64(r.Intn(int(q*p.EPP) + 1))
	}
	in.Par = p
	per := p.EPP * p.SPE
	F, E, E2 := q*per, (q+1)*per, (q+2)*per

	// members of this period and of the next, the accounts held
	d1 := genMembers(r, p, r.Range(1, 3))
	d2 := genMembers(r, p, r.Range(1, 3))
	d2r := d2
	if r.Bool() {
		// the reorganisation changed the next committee
		d2r = genMembers(r, p, r.Range(1, 3))
		tag("hist:duties-changed")
	}
	var accts []uint64
	for v := uint64(1); v <= 7; v++ {
		if r.Chance(5, 6) {
			accts = append(accts, v)
		}
	}
	all := append(append(append([]Duty{}, d1...), d2...), d2r...)
	vsAll := validatorsOf(all)
	fire := func(s uint64) HOp {
		f := genFire(r, p, s, vsAll, all, tag)
		return HOp{Kind: "fire", Fire: &f}
	}
	schedThis := func(cur uint64) HOp {
		return HOp{Kind: "sched", Cur: cur, Epoch: q * p.EPP, NotCur: true, Indices: validatorsOf(d1), Duties: d1, Accts: accts}
	}
	schedNext := func(cur uint64) HOp {
		return HOp{Kind: "sched", Cur: cur, Epoch: (q + 1) * p.EPP, NotCur: r.Bool(), Indices: validatorsOf(d2), Duties: d2, Accts: accts}
	}
	refresh := func(cur, epoch uint64, ds []Duty) HOp {
		op := HOp{Kind: "refresh", Cur: cur, Epoch: epoch, Duties: ds, Accts: accts, ViaHead: r.Chance(2, 3)}
		if r.Chance(1, 25) {
			op.AcctsErr = true
			tag("accounts:error")
		}
		if r.Chance(1, 25) {
			op.DutiesErr = true
			tag("duties:error")
		}
		return op
	}

	if r.Chance(2, 3) {
		// a reorganisation in the first epoch of the period: the next period's duties are refreshed
		// while this period's jobs are pending; then the remaining slots of this period run
		tag("hist:reorg-first-epoch")
		cur := F + uint64(r.Intn(int(p.SPE)))
		in.Hist = append(in.Hist, schedThis(cur))
		if r.Bool() {
			in.Hist = append(in.Hist, schedNext(cur))
			tag("hist:next-period-scheduled")
		}
		if cur+1 <= E-2 && cur+1 < F+p.SPE && r.Chance(1, 3) {
			cur++
			in.Hist = append(in.Hist, fire(cur))
		}
		rf := refresh(cur, (q+1)*p.EPP, d2r)
		midChain := cur+1 <= E-2 && r.Chance(1, 3)
		if !midChain {
			in.Hist = append(in.Hist, rf)
		}
		var slots []uint64
		if cur+1 <= E-2 {
			slots = append(slots, cur+1)
			if E-2 > cur+1 {
				slots = append(slots, E-2)
			}
			if E-2 > cur+2 && r.Chance(2, 3) {
				slots = append(slots, cur+2+uint64(r.Intn(int(E-2-cur-2))))
			}
		}
		slots = append(slots, E-1) // the first slot that belongs to the next period's window
		if r.Bool() {
			slots = append(slots, E+uint64(r.Intn(int(E2-2-E+1))))
		}
		sort.Slice(slots, func(i, j int) bool { return slots[i] < slots[j] })
		for k, s := range slots {
			op := fire(s)
			if k == 0 && midChain {
				// the reorganisation is noticed while the next slot's chain is under way: after its
				// prepare job or after its message job (slots[0] = cur+1 is a slot of this period)
				op.Mid, op.MidStage = &rf, r.Range(1, 2)
				op.Fire.SelSlow = false // one thing at a time: the refresh is what happens in the middle of this chain
				tag(fmt.Sprintf("hist:refresh-mid-chain:%d", op.MidStage))
			}
			in.Hist = append(in.Hist, op)
		}
		return in
	}

	// any order of calls, refreshes (of this period too) and fired slots, the clock never going back
	tag("hist:random")
	cur := F + uint64(r.Intn(int(per-2)))
	for n := r.Range(4, 7); n > 0; n-- {
		if cur+2 < E && r.Chance(1, 2) {
			cur += uint64(r.Intn(2))
		}
		switch r.Intn(7) {
		case 0:
			in.Hist = append(in.Hist, schedThis(cur))
		case 1:
			in.Hist = append(in.Hist, schedNext(cur))
		case 2:
			in.Hist = append(in.Hist, refresh(cur, (q+1)*p.EPP, d2r))
		case 3:
			// a refresh of the running period: all its jobs go, those from now on come back
			op := refresh(cur, q*p.EPP+uint64(r.Intn(int(p.EPP))), d1)
			in.Hist = append(in.Hist, op)
			tag("hist:refresh-this-period")
		default:
			var s uint64
			switch r.Intn(4) {
			case 0:
				s = E - 2
			case 1:
				s = E - 1
			case 2:
				s = cur + 1 + uint64(r.Intn(3))
			default:
				s = cur + uint64(r.Intn(int(E2-cur)))
			}
			in.Hist = append(in.Hist, fire(s))
			if s+2 < E && s > cur {
				cur = s
			}
		}
	}
	return in
}
