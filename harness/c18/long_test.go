// Long-chain histories of the C18 harness: the chain advances slot by slot over MORE than the
// 64-epoch retention window, one service instance, the clock advancing with the chain and the
// cleaning job running now and then as it does in production.  At the end the map legitimately
// holds 64 full epochs of roots plus the elapsed part of the current epoch (more with forks, and
// more still with what the next cleaning run has yet to remove), i.e. more than 64*spe entries;
// the beacon node then stops answering header requests and the oldest roots of the window, the
// newest ones and a sample of the others are looked up: all of them must be hits.
//
// The map has no size bound: an entry leaves it only through a cleaning run entitled to remove
// it.  The short histories (1-8 roots) cannot tell a bounded map from an unbounded one.
package c18

import (
	. "verifharness/common"
)

type longShape struct {
	class string // window (spe 1-4) | mid (spe 6-16) | mainnet (spe 32) | mainnet-forks (spe 32, two roots per slot)
}

// how the next root enters the map
func insertOp(r *Rand, root, slot uint64, missShare int) Op {
	switch k := r.Intn(100); {
	case k < missShare:
		// the strategies score a root the block event of which has not arrived: a successful miss
		s := slot
		return Op{Kind: "lookup", Root: root, Fetch: &s}
	case k < missShare+5:
		return Op{Kind: "set", Root: root, Slot: slot}
	default:
		return Op{Kind: "event", Root: root, Slot: slot}
	}
}

func failingLookup(r *Rand, root uint64) Op {
	op := Op{Kind: "lookup", Root: root, ErrKind: errKinds[r.Intn(len(errKinds))]}
	if r.Chance(1, 8) {
		op.CallerCtx = "cancelled"
	}
	return op
}

func genLong(r *Rand, class string) History {
	var spe uint64
	forkPct, emptyPct := 0, 0
	switch class {
	case "window":
		spe = uint64(r.Range(1, 4))
	case "mid":
		spe = []uint64{6, 8, 12, 16}[r.Intn(4)]
	default:
		spe = 32
	}
	switch {
	case class == "mainnet-forks":
		forkPct = 100 // two competing blocks in every slot: twice the window's slots
	case r.Chance(1, 2):
		// a block in every slot, no forks: exactly the window's slots and the current epoch's
	default:
		forkPct, emptyPct = r.Range(3, 12), r.Range(0, 2)
	}
	h := History{SPE: spe, Chain: map[uint64]uint64{}, Tags: []string{"long-chain", "long-chain:" + class}}

	// The chain starts at the first slot of epoch e0 (sometimes a little into it) and runs to slot
	// `last` of epoch e0+64+over: 64 full epochs and the elapsed part of the current one.
	e0 := uint64(r.Range(0, 150))
	if r.Chance(1, 5) {
		e0 = uint64(r.Range(0, 3))
	}
	over := uint64(0)
	if class != "mainnet-forks" && r.Chance(1, 3) {
		over = uint64(r.Range(1, 3))
	}
	first := e0 * spe
	if class != "mainnet" && r.Chance(1, 6) {
		first += uint64(r.Intn(int(spe)))
	}
	if class == "mainnet" {
		emptyPct = 0 // so that the window always holds more than 64*32 roots
	}
	elapsed := uint64(r.Intn(int(spe)))
	if r.Chance(1, 2) {
		elapsed = spe - 1 // late in the epoch: the window is at its fullest
	}
	last := (e0+64+over)*spe + elapsed

	// cleaning runs every 15 minutes (75 slots of 12 s); with the big maps only a few runs are
	// scripted (each costs the checker a pass over all roots)
	cleanEvery := uint64(r.Range(2, 5)) * spe
	if spe == 32 {
		cleanEvery = uint64(r.Range(14, 24)) * spe
	}
	missShare := r.Range(0, 15)

	next := uint64(1)
	var inWindowOldest []uint64 // filled after the walk
	sinceClean := uint64(0)
	for s := first; s <= last; s++ {
		nblocks := 1
		if r.Intn(100) < emptyPct {
			nblocks = 0
		}
		if nblocks == 1 && r.Intn(100) < forkPct {
			nblocks = 2
		}
		for b := 0; b < nblocks; b++ {
			h.Chain[next] = s
			h.Ops = append(h.Ops, insertOp(r, next, s, missShare))
			next++
		}
		sinceClean++
		if sinceClean >= cleanEvery && s < last {
			sinceClean = 0
			h.Ops = append(h.Ops, Op{Kind: "clean", Epoch: s / spe, Off: s % spe})
		}
		// now and then somebody asks for a recent root while the chain advances
		if next > 1 && r.Chance(1, 40) {
			root := next - 1 - uint64(r.Intn(int(min(next-1, 3*spe))))
			op := failingLookup(r, root)
			if r.Chance(1, 2) {
				sl := h.Chain[root]
				op = Op{Kind: "lookup", Root: root, Fetch: &sl}
			}
			h.Ops = append(h.Ops, op)
		}
	}
	nroots := next - 1
	curEpoch := last / spe
	// usually the cleaning job has just run at the current epoch; otherwise what it would remove is
	// still in the map (and still has to be: nothing else removes entries)
	if r.Chance(2, 3) {
		h.Ops = append(h.Ops, Op{Kind: "clean", Epoch: curEpoch, Off: elapsed})
	}
	windowStart := (curEpoch - 64) * spe
	for root := uint64(1); root <= nroots && len(inWindowOldest) < int(2*spe)+8; root++ {
		if h.Chain[root] >= windowStart {
			inWindowOldest = append(inWindowOldest, root)
		}
	}

	// the beacon node is gone: every root still retained must be answered from the cache
	probe := func() {
		k := r.Range(3, 12)
		for i := 0; i < k && i < len(inWindowOldest); i++ { // the oldest of the window, oldest first
			h.Ops = append(h.Ops, failingLookup(r, inWindowOldest[i]))
		}
		for i := 0; i < 4; i++ {
			h.Ops = append(h.Ops, failingLookup(r, inWindowOldest[r.Intn(len(inWindowOldest))]))
		}
		for i := 0; i < 3; i++ {
			h.Ops = append(h.Ops, failingLookup(r, uint64(r.Range(1, int(nroots)))))
		}
		h.Ops = append(h.Ops, failingLookup(r, nroots))
		if nroots > 1 {
			h.Ops = append(h.Ops, failingLookup(r, nroots-1))
		}
	}
	probe()
	if r.Chance(1, 2) {
		// the same roots asked for by overlapping goroutines, the node failing or slow
		op := Op{Kind: "par"}
		k := r.Range(2, 4)
		at := uint64(1)
		for i := 0; i < k; i++ {
			root := inWindowOldest[r.Intn(min(len(inWindowOldest), 6))]
			l := PLookup{ID: uint64(i + 1), Root: root, Start: at, Delay: uint64(2*k+1) + uint64(2*i), ErrKind: errKinds[r.Intn(len(errKinds))]}
			if r.Chance(1, 4) {
				l.ErrKind = "caller-deadline"
			}
			op.Lookups = append(op.Lookups, l)
			at += 2
		}
		h.Ops = append(h.Ops, op)
	}
	if r.Chance(1, 2) {
		// the chain goes on for a few slots (every insert into the full map), the cleaning job runs
		// again at the same epoch, and the window's oldest roots are asked for once more
		more := uint64(r.Range(1, int(spe)))
		for s := last + 1; s <= last+more && s/spe == curEpoch; s++ {
			h.Chain[next] = s
			h.Ops = append(h.Ops, insertOp(r, next, s, missShare))
			next++
		}
		nroots = next - 1
		h.Ops = append(h.Ops, Op{Kind: "clean", Epoch: curEpoch, Off: h.Chain[nroots] % spe})
		probe()
	}
	return h
}

// which long-chain family (if any) the i-th generated history of a run belongs to.  Per 1000
// histories: one mainnet-sized per-slot chain (the corpus holds another, minimal one) and one
// fork-heavy one, in different shards (the shards are checked in parallel), eight
// of spe 6-16, twenty-five of spe 1-4.
func longClassOf(i int) string {
	switch {
	case i%1000 == 323:
		return "mainnet"
	case i%1000 == 997:
		return "mainnet-forks"
	case i%125 == 57:
		return "mid"
	case i%40 == 11:
		return "window"
	}
	return ""
}

// counter of a long history: its class and by how much the map outgrows 64 epochs' worth of slots
func longFamily(h History) string {
	class := "corpus"
	for _, t := range h.Tags {
		if len(t) > len("long-chain:") && t[:len("long-chain:")] == "long-chain:" {
			class = t[len("long-chain:"):]
		}
	}
	switch n, w := uint64(len(h.Chain)), 64*h.SPE; {
	case n <= w:
		return "long:" + class + ":roots<=64*spe"
	case n <= 2*w:
		return "long:" + class + ":roots>64*spe"
	default:
		return "long:" + class + ":roots>128*spe"
	}
}
