// Scripted signed block provider of the C18 harness: answers the block of the head event's root
// (slot, parent root, fork version, a full body with an execution payload where the fork has one),
// or fails; answers block "head" during construction.
package c18

import (
	"context"
	"errors"
	"sync"

	"github.com/attestantio/go-eth2-client/api"
	"github.com/attestantio/go-eth2-client/spec"
	"github.com/attestantio/go-eth2-client/spec/altair"
	"github.com/attestantio/go-eth2-client/spec/bellatrix"
	"github.com/attestantio/go-eth2-client/spec/capella"
	"github.com/attestantio/go-eth2-client/spec/deneb"
	"github.com/attestantio/go-eth2-client/spec/phase0"
	"github.com/holiman/uint256"
)

type blockSpec struct {
	slot    uint64
	parent  uint64
	version string
}

type blocks struct {
	mu    sync.Mutex
	head  *blockSpec // answer for block "head" (construction); nil = error
	next  *blockSpec // answer for any other block id; nil = error
	Calls int
}

func (b *blocks) SignedBeaconBlock(_ context.Context, opts *api.SignedBeaconBlockOpts) (*api.Response[*spec.VersionedSignedBeaconBlock], error) {
	b.mu.Lock()
	defer b.mu.Unlock()
	b.Calls++
	bs := b.next
	if opts.Block == "head" {
		bs = b.head
	}
	if bs == nil {
		return nil, errors.New("scripted block failure")
	}
	return &api.Response[*spec.VersionedSignedBeaconBlock]{Data: build(*bs), Metadata: map[string]any{}}, nil
}

func build(bs blockSpec) *spec.VersionedSignedBeaconBlock {
	slot := phase0.Slot(bs.slot)
	parent := rootOf(bs.parent)
	stateRoot := phase0.Root{0x01}
	eth1 := &phase0.ETH1Data{}
	switch bs.version {
	case "phase0":
		return &spec.VersionedSignedBeaconBlock{Version: spec.DataVersionPhase0, Phase0: &phase0.SignedBeaconBlock{
			Message: &phase0.BeaconBlock{Slot: slot, ParentRoot: parent, StateRoot: stateRoot, Body: &phase0.BeaconBlockBody{ETH1Data: eth1}}}}
	case "altair":
		return &spec.VersionedSignedBeaconBlock{Version: spec.DataVersionAltair, Altair: &altair.SignedBeaconBlock{
			Message: &altair.BeaconBlock{Slot: slot, ParentRoot: parent, StateRoot: stateRoot,
				Body: &altair.BeaconBlockBody{ETH1Data: eth1, SyncAggregate: &altair.SyncAggregate{}}}}}
	case "bellatrix":
		return &spec.VersionedSignedBeaconBlock{Version: spec.DataVersionBellatrix, Bellatrix: &bellatrix.SignedBeaconBlock{
			Message: &bellatrix.BeaconBlock{Slot: slot, ParentRoot: parent, StateRoot: stateRoot,
				Body: &bellatrix.BeaconBlockBody{ETH1Data: eth1, SyncAggregate: &altair.SyncAggregate{},
					ExecutionPayload: &bellatrix.ExecutionPayload{StateRoot: [32]byte{0x02}, BlockNumber: bs.slot + 1000, BlockHash: phase0.Hash32{0x03}}}}}}
	case "capella":
		return &spec.VersionedSignedBeaconBlock{Version: spec.DataVersionCapella, Capella: &capella.SignedBeaconBlock{
			Message: &capella.BeaconBlock{Slot: slot, ParentRoot: parent, StateRoot: stateRoot,
				Body: &capella.BeaconBlockBody{ETH1Data: eth1, SyncAggregate: &altair.SyncAggregate{},
					ExecutionPayload: &capella.ExecutionPayload{StateRoot: [32]byte{0x02}, BlockNumber: bs.slot + 1000, BlockHash: phase0.Hash32{0x03}}}}}}
	default: // deneb
		return &spec.VersionedSignedBeaconBlock{Version: spec.DataVersionDeneb, Deneb: &deneb.SignedBeaconBlock{
			Message: &deneb.BeaconBlock{Slot: slot, ParentRoot: parent, StateRoot: stateRoot,
				Body: &deneb.BeaconBlockBody{ETH1Data: eth1, SyncAggregate: &altair.SyncAggregate{},
					ExecutionPayload: &deneb.ExecutionPayload{StateRoot: phase0.Root{0x02}, BlockNumber: bs.slot + 1000, BlockHash: phase0.Hash32{0x03},
						BaseFeePerGas: uint256.NewInt(7)}}}}}
	}
}
