// Storms of the C18 harness: block events, SetBlockRootToSlot calls and lookups performed by REAL
// goroutines while the periodic cleaning job is running (again and again) on the same service
// instance.  Everything that is written during a storm lies inside the retention window of the
// storm's clock, so the outcome does not depend on the interleaving: every completed write is in the
// map afterwards, every lookup of a root that was cached before is a hit, and the cleaning job
// removes exactly the old entries that were in the map before the storm (theorems
// C18_group_* of Properties/C18.v).  The time-scripted groups ("par") drive the micro-events one at
// a time; they cannot show what a job does between two of its own lock acquisitions.
//
// Pacing: the cleaner announces each run of the job by incrementing a generation counter right
// before calling it; every worker waits for the counter to move, spins for a scripted number of
// iterations (so that its writes land in different phases of the job) and performs its next batch of
// items.  The cleaner starts the next run when every worker has finished its batch.
package c18

import (
	"context"
	"fmt"
	"math"
	"os"
	"runtime"
	"strconv"
	"sync"
	"sync/atomic"
	"time"

	"github.com/attestantio/go-eth2-client/spec/phase0"

	. "verifharness/common"
)

// One thing a worker goroutine of a storm does.
type SItem struct {
	Kind string `json:"kind"` // event | set | lookup
	ID   uint64 `json:"id,omitempty"`
	Root uint64 `json:"root"`
	Slot uint64 `json:"slot,omitempty"` // event, set
	// lookup: what the node answers (nil = it fails with ErrKind: the root must be cached already)
	Fetch   *uint64 `json:"fetch,omitempty"`
	ErrKind string  `json:"errkind,omitempty"`
	// busy iterations between noticing that the job has been started and acting
	Spin uint64 `json:"spin,omitempty"`
	// performed right after the worker's previous item, without waiting for the job's next run
	More bool `json:"more,omitempty"`
}

type stormKey struct{}

var spinSink atomic.Uint64

func spin(n uint64) {
	for i := uint64(0); i < n; i++ {
		_ = spinSink.Load()
	}
}

// the epoch at which the k-th run (from 1) of a storm's job finds the clock
func stormEpoch(op Op, k uint64) uint64 {
	if op.Step == 0 || k == 0 {
		return op.Epoch
	}
	return op.Epoch + (k-1)/op.Step
}

// the batches of a worker: an item that waits for the next run, and the "more" items after it
func batches(items []SItem) [][]SItem {
	var bs [][]SItem
	for i, it := range items {
		if i == 0 || !it.More {
			bs = append(bs, nil)
		}
		bs[len(bs)-1] = append(bs[len(bs)-1], it)
	}
	return bs
}

// The micro-events of a storm in ONE order (run by run: the job, then each worker's batch); the
// outcome is the same for every order the goroutines can have taken (see stormCheck).
func stormMicro(op Op, spe uint64) []string {
	var evs []string
	item := func(it SItem) {
		switch it.Kind {
		case "event", "set":
			evs = append(evs, App("PEvent", N(it.Root), N(it.Slot)))
		case "lookup":
			evs = append(evs, App("PBegin", N(it.ID), N(it.Root)))
			evs = append(evs, App("PEnd", N(it.ID), N(it.Root), OptN(it.Fetch)))
		}
	}
	per := make([][][]SItem, len(op.Workers))
	longest := 0
	for w, items := range op.Workers {
		per[w] = batches(items)
		longest = max(longest, len(per[w]))
	}
	for g := 0; g < max(longest, int(op.Runs)); g++ {
		if g < int(op.Runs) {
			evs = append(evs, App("PClean", N(stormEpoch(op, uint64(g+1))), N(spe)))
		}
		for w := range per {
			if g < len(per[w]) {
				for _, it := range per[w][g] {
					item(it)
				}
			}
		}
	}
	return evs
}

// A storm is well formed when its outcome cannot depend on the interleaving: every root written or
// fetched lies inside the retention window of the storm's clock and carries the chain's slot; a
// lookup that the node fails asks for a root stored by an earlier sequential op of the history and
// not since eligible for cleaning; lookup ids are distinct.
func stormCheck(h History, k int) error {
	op := h.Ops[k]
	if len(op.Workers) == 0 {
		return fmt.Errorf("storm without workers")
	}
	minSlot := func(epoch uint64) uint64 {
		if epoch <= 64 {
			return 0
		}
		return (epoch - 64) * h.SPE
	}
	w := minSlot(stormEpoch(op, op.Runs)) // the window of the storm's last run
	ids := map[uint64]bool{}
	for _, items := range op.Workers {
		for _, it := range items {
			cs, ok := h.Chain[it.Root]
			if !ok || cs < w {
				return fmt.Errorf("storm: root %d is not a root of the chain inside the window", it.Root)
			}
			switch it.Kind {
			case "event", "set":
				if it.Slot != cs {
					return fmt.Errorf("storm: root %d set with a slot that is not the chain's", it.Root)
				}
			case "lookup":
				if ids[it.ID] {
					return fmt.Errorf("storm: lookup id %d used twice", it.ID)
				}
				ids[it.ID] = true
				if it.Fetch != nil {
					if *it.Fetch != cs {
						return fmt.Errorf("storm: root %d fetched with a slot that is not the chain's", it.Root)
					}
					continue
				}
				stored := false
				for _, prev := range h.Ops[:k] {
					switch prev.Kind {
					case "event", "set":
						stored = stored || prev.Root == it.Root
					case "lookup":
						stored = stored || (prev.Root == it.Root && prev.Fetch != nil)
					case "clean":
						if cs < minSlot(prev.Epoch) {
							stored = false
						}
					case "par":
						for _, x := range prev.Extras {
							if x.Kind == "clean" && cs < minSlot(x.Epoch) {
								stored = false
							}
						}
					case "storm":
						// what an earlier storm wrote lies inside that storm's window
						if cs < minSlot(stormEpoch(prev, prev.Runs)) {
							stored = false
						}
						for _, items := range prev.Workers {
							for _, p := range items {
								stored = stored || (p.Root == it.Root && (p.Kind != "lookup" || p.Fetch != nil))
							}
						}
					}
				}
				if !stored {
					return fmt.Errorf("storm: lookup %d of root %d has a failing fetch but the root need not be cached", it.ID, it.Root)
				}
			default:
				return fmt.Errorf("storm: unknown item kind %q", it.Kind)
			}
		}
	}
	return nil
}

func isStormHistory(h History) bool {
	for _, op := range h.Ops {
		if op.Kind == "storm" {
			return true
		}
	}
	return false
}

type stormStats struct {
	items, duringJob uint64
}

// runs one storm (real goroutines, real time; not inside a synctest bubble)
func (e *env) runStorm(ctx context.Context, op Op, st *stormStats) (answers []answer, hung bool) {
	var (
		mu       sync.Mutex
		wg       sync.WaitGroup
		gen      atomic.Uint64
		fin      atomic.Bool
		running  atomic.Bool
		during   atomic.Uint64
		nitems   atomic.Uint64
		progress = make([]atomic.Uint64, len(op.Workers))
	)
	// the fallback of the header provider for an implementation that drops the context's values
	byRoot := map[string]*SItem{}
	for w := range op.Workers {
		for i := range op.Workers[w] {
			if it := &op.Workers[w][i]; it.Kind == "lookup" {
				byRoot[rootOf(it.Root).String()] = it
			}
		}
	}
	e.hp.mu.Lock()
	e.hp.storm = byRoot
	e.hp.mu.Unlock()
	e.ct.SetSlot(op.Epoch*e.ct.SPE + op.Off%e.ct.SPE)

	act := func(it *SItem) {
		defer func() { _ = recover() }() // a panic is that item's observed outcome: no answer
		nitems.Add(1)
		if running.Load() {
			during.Add(1)
		}

		switch it.Kind {
		case "event":
			e.block(blockEvent(it.Root, it.Slot))
		case "set":
			e.svc.SetBlockRootToSlot(rootOf(it.Root), phase0.Slot(it.Slot))
		case "lookup":
			slot, err := e.svc.BlockRootToSlot(context.WithValue(ctx, stormKey{}, it), rootOf(it.Root))
			mu.Lock()
			answers = append(answers, answer{id: it.ID, root: it.Root, slot: uint64(slot), err: err != nil})
			mu.Unlock()
		}
	}
	// Busy-waiting, not runtime.Gosched: a goroutine that yields is put on the global run queue and is
	// as a rule picked up by a thread that has to be woken first, tens of microseconds later -- longer
	// than the job lasts.  Yield only when there are not enough processors for everybody to spin.
	yieldAfter := math.MaxInt
	if runtime.GOMAXPROCS(0) < len(op.Workers)+2 {
		yieldAfter = 2000
	}
	if v := os.Getenv("C18_YIELD_AFTER"); v != "" {
		yieldAfter, _ = strconv.Atoi(v)
	}
	for w := range op.Workers {
		wg.Add(1)
		go func() {
			defer wg.Done()
			defer progress[w].Store(math.MaxUint64)
			last := uint64(0)
			items := op.Workers[w]
			for i := range items {
				it := &items[i]
				if i == 0 || !it.More {
					progress[w].Store(last) // the batch of run `last` is done
					for n := 0; ; n++ {
						if g := gen.Load(); g != last {
							last = g
							break
						}
						if fin.Load() {
							break
						}
						if n > yieldAfter {
							runtime.Gosched()
						}
					}
				}
				spin(it.Spin)
				act(it)
			}
		}()
	}
	watchdog := time.Now().Add(20 * time.Second)
	for k := uint64(1); k <= op.Runs && !hung; k++ {
		e.ct.SetSlot(stormEpoch(op, k)*e.ct.SPE + op.Off%e.ct.SPE)
		gen.Store(k)
		running.Store(true)
		e.cleanJob(ctx)
		running.Store(false)
		for w := range progress {
			for n := 1; progress[w].Load() < k; n++ {
				if n%4096 == 0 && time.Now().After(watchdog) {
					hung = true
					break
				}
				if n > yieldAfter {
					runtime.Gosched()
				}
			}
		}
	}
	fin.Store(true)
	done := make(chan struct{})
	go func() { wg.Wait(); close(done) }()
	select {
	case <-done:
	case <-time.After(time.Until(watchdog) + time.Second):
		hung = true
	}
	e.hp.mu.Lock()
	e.hp.storm = nil
	e.hp.mu.Unlock()
	st.items += nitems.Load()
	st.duringJob += during.Load()
	mu.Lock()
	defer mu.Unlock()
	return append([]answer(nil), answers...), hung
}

// ---------------------------------------------------------------------------------------------
// generator

// which storm family (if any) the i-th generated history of a run belongs to: per 1000 histories
// twenty small ones (map of 20-190 entries before the storm) and four big ones (300-750 entries)
func stormClassOf(i int) string {
	switch {
	case i%250 == 113:
		return "big"
	case i%50 == 29:
		return "small"
	}
	return ""
}

func genStorm(r *Rand, class string) History {
	spe := uint64(r.Range(1, 32))
	epoch := uint64(r.Range(66, 200))
	if r.Chance(1, 8) {
		epoch = uint64(r.Range(3, 64)) // the job deletes nothing
	}
	off := genCleanOff(r, spe)
	big := class == "big"
	// the storms of the history: in half of them the clock advances by one epoch every `step` runs of
	// the job, so that run after run finds something to delete
	type plan struct {
		nw, runs, step int
		start          uint64
	}
	plans := make([]plan, 1)
	if r.Chance(1, 4) {
		plans = make([]plan, 2)
	}
	last := epoch
	for i := range plans {
		p := plan{nw: r.Range(2, 3), runs: r.Range(8, 20), start: last}
		if big {
			p.nw, p.runs = r.Range(3, 4), r.Range(25, 45)
		}
		if r.Chance(1, 2) {
			p.step = r.Range(1, max(1, p.runs/3))
			last += uint64((p.runs - 1) / p.step)
		}
		plans[i] = p
	}
	// the window of the LAST run: everything the storms write lies inside it
	cur := last*spe + off
	w, wFirst := uint64(0), uint64(0)
	if last > 64 {
		w = (last - 64) * spe
	}
	if epoch > 64 {
		wFirst = (epoch - 64) * spe
	}
	nOld, nIn, maxSpin := r.Range(0, 30), r.Range(20, 160), 3000
	if big {
		nOld, nIn, maxSpin = r.Range(0, 150), r.Range(300, 600), 30000
	}
	if w == 0 {
		nOld = 0
	}
	oldFrom := wFirst - min(wFirst, 3*spe) // old entries: some below the first run's window, the others fall out of it as the clock advances
	h := History{SPE: spe, Chain: map[uint64]uint64{}, Tags: []string{"storm", "storm:" + class}}
	next := uint64(1)
	inWindowSlot := func() uint64 {
		switch {
		case r.Chance(1, 8):
			return w // the window's first slot
		case r.Chance(1, 10):
			return cur + uint64(r.Range(1, int(spe))) // ahead of the clock
		}
		return w + uint64(r.Intn(int(cur-w)+1))
	}
	missShare := r.Range(0, 15)
	var old, in []uint64
	for i := 0; i < nOld+nIn; i++ {
		var s uint64
		if r.Intn(nOld+nIn) < nOld {
			s = oldFrom + uint64(r.Intn(int(w-oldFrom)))
			old = append(old, next)
		} else {
			s = inWindowSlot()
			in = append(in, next)
		}
		h.Chain[next] = s
		h.Ops = append(h.Ops, insertOp(r, next, s, missShare))
		next++
	}
	if len(in) == 0 {
		h.Chain[next] = w
		h.Ops = append(h.Ops, Op{Kind: "event", Root: next, Slot: w})
		in = append(in, next)
		next++
	}
	if r.Chance(1, 2) {
		h.Ops = append(h.Ops, Op{Kind: "clean", Epoch: epoch, Off: off})
	}
	spinOf := func() uint64 {
		switch r.Intn(5) {
		case 0:
			return 0
		case 1:
			return uint64(r.Intn(200))
		case 2:
			return uint64(r.Intn(maxSpin/10 + 1))
		}
		return uint64(r.Intn(maxSpin + 1))
	}
	for n, p := range plans {
		op := Op{Kind: "storm", Epoch: p.start, Off: off, Step: uint64(p.step)}
		nw, runs := p.nw, p.runs
		op.Runs = uint64(runs)
		var fresh []uint64
		id := uint64(0)
		newRoot := func() (uint64, uint64) {
			h.Chain[next] = inWindowSlot()
			fresh = append(fresh, next)
			next++
			return next - 1, h.Chain[next-1]
		}
		for wk := 0; wk < nw; wk++ {
			var items []SItem
			nb := runs
			if r.Chance(1, 4) {
				nb = r.Range(max(1, runs/2), runs+2)
			}
			for b := 0; b < nb; b++ {
				cnt := 1
				for cnt < 4 && r.Chance(1, 3) {
					cnt++
				}
				for j := 0; j < cnt; j++ {
					it := SItem{Spin: spinOf(), More: j > 0}
					switch k := r.Intn(20); {
					case k < 9:
						it.Kind = "event"
						it.Root, it.Slot = newRoot()
					case k < 13:
						it.Kind = "set"
						it.Root, it.Slot = newRoot()
					case k < 16:
						// the miss path stores: a root nobody has announced yet
						it.Kind = "lookup"
						root, s := newRoot()
						it.Root, it.Fetch = root, &s
					case k < 18:
						// a root cached before the storm, the node failing: a hit at any moment of the job
						it.Kind, it.Root, it.ErrKind = "lookup", in[r.Intn(len(in))], errKinds[r.Intn(len(errKinds))]
					case k < 19 && len(fresh) > 0:
						// the same block announced once more (by another node), or set by the controller too
						it.Kind = []string{"event", "set"}[r.Intn(2)]
						it.Root = fresh[r.Intn(len(fresh))]
						it.Slot = h.Chain[it.Root]
					case len(fresh) > 0:
						// somebody asks for a root that is being announced: a hit or a successful miss
						it.Kind, it.Root = "lookup", fresh[r.Intn(len(fresh))]
						s := h.Chain[it.Root]
						it.Fetch = &s
					default:
						it.Kind = "event"
						it.Root, it.Slot = newRoot()
					}
					if it.Kind == "lookup" {
						id++
						it.ID = id
					}
					items = append(items, it)
				}
			}
			op.Workers = append(op.Workers, items)
		}
		h.Ops = append(h.Ops, op)
		// the node is gone: what the storm wrote must be answered from the cache
		k := r.Range(6, 15)
		for i := 0; i < k; i++ {
			h.Ops = append(h.Ops, failingLookup(r, fresh[r.Intn(len(fresh))]))
		}
		h.Ops = append(h.Ops, failingLookup(r, fresh[len(fresh)-1]), failingLookup(r, in[r.Intn(len(in))]))
		if len(old) > 0 {
			h.Ops = append(h.Ops, failingLookup(r, old[r.Intn(len(old))]))
		}
		in = append(in, fresh...)
		if n+1 < len(plans) {
			for i := r.Range(0, 5); i > 0; i-- {
				h.Chain[next] = inWindowSlot()
				h.Ops = append(h.Ops, insertOp(r, next, h.Chain[next], missShare))
				in = append(in, next)
				next++
			}
		}
	}
	return h
}

func stormFamily(h History) string {
	for _, t := range h.Tags {
		if len(t) > len("storm:") && t[:len("storm:")] == "storm:" {
			return t[len("storm:"):]
		}
	}
	return "corpus"
}

func stormItemFamily(it SItem) string {
	switch {
	case it.Kind != "lookup":
		return it.Kind
	case it.Fetch == nil:
		return "lookup-of-a-cached-root-node-failing"
	}
	return "lookup-node-answering"
}
