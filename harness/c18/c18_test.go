// C18: drives the real services/cache/standard.Service through histories of block events, head
// events, lookups (hits, misses, failing fetches), groups of OVERLAPPING lookups (goroutines inside
// the synctest bubble, the header provider answering after a fake delay), cleaning runs and storms
// (storm_test.go: real goroutines writing and reading while the cleaning job runs), and
// prints each history with the observed outputs as a Gallina case for Check.C18.
package c18

import (
	"context"
	"errors"
	"fmt"
	"os"
	"sort"
	"sync"
	"testing"
	"testing/synctest"
	"time"

	"github.com/attestantio/go-eth2-client/api"
	apiv1 "github.com/attestantio/go-eth2-client/api/v1"
	"github.com/attestantio/go-eth2-client/spec/phase0"
	standardcache "github.com/attestantio/vouch/services/cache/standard"
	nullmetrics "github.com/attestantio/vouch/services/metrics/null"
	"github.com/rs/zerolog"

	. "verifharness/common"
	"verifharness/mocks"
)

// One lookup of a group of overlapping lookups.  The goroutine enters BlockRootToSlot at fake
// instant Start (ms after the group's begin); if it has to fetch, the header provider answers at
// Start+Delay with Fetch (nil = error of kind ErrKind).  ErrKind "caller-deadline": the caller's
// own context has a deadline of Delay; the provider would answer much later and honours the
// cancellation, so the fetch fails at Start+Delay with the context's error.
type PLookup struct {
	ID      uint64  `json:"id"`
	Root    uint64  `json:"root"`
	Start   uint64  `json:"start"`
	Delay   uint64  `json:"delay"`
	Fetch   *uint64 `json:"fetch,omitempty"`
	ErrKind string  `json:"errkind,omitempty"`
}

// Something else that happens while the lookups of a group are in flight.
type PExtra struct {
	At    uint64 `json:"at"`
	Kind  string `json:"kind"` // event | set | clean
	Root  uint64 `json:"root,omitempty"`
	Slot  uint64 `json:"slot,omitempty"`
	Epoch uint64 `json:"epoch,omitempty"`
	Off   uint64 `json:"off,omitempty"` // clean: see Op.Off
}

type Op struct {
	Kind  string  `json:"kind"` // event | set | lookup | clean | head | par | storm
	Root  uint64  `json:"root,omitempty"`
	Slot  uint64  `json:"slot,omitempty"`
	Fetch *uint64 `json:"fetch,omitempty"` // lookup: what the node answers (nil = error)
	Epoch uint64  `json:"epoch,omitempty"` // clean
	// clean: the cleaning job runs when the clock stands at slot Off (< spe) of epoch Epoch.  The
	// retention window starts at the first slot of Epoch-64 wherever in the epoch the clock stands.
	Off uint64 `json:"off,omitempty"`
	// lookup with a failing fetch: the kind of error the node/client reports, and whether the
	// caller's own context is already cancelled.  The property says: always an error, never a slot.
	ErrKind   string `json:"errkind,omitempty"`   // plain | canceled | deadline | wrapped-deadline | api404 | api503
	CallerCtx string `json:"callerctx,omitempty"` // live (default) | cancelled
	// head: the head event carries Root and Slot; the signed block provider answers the block of
	// that root: slot Slot, parent root Parent, of fork Version -- or fails (BlockFail).
	Parent    uint64 `json:"parent,omitempty"`
	Version   string `json:"version,omitempty"` // phase0 | altair | bellatrix | capella | deneb
	BlockFail bool   `json:"blockfail,omitempty"`
	// par
	Lookups []PLookup `json:"lookups,omitempty"`
	Extras  []PExtra  `json:"extras,omitempty"`
	// storm (storm_test.go): the cleaning job runs Runs times with the clock at slot Off of Epoch
	// while the worker goroutines perform their items
	Runs    uint64    `json:"runs,omitempty"`
	Step    uint64    `json:"step,omitempty"` // storm: the clock advances by one epoch every Step runs (0 = it stands)
	Workers [][]SItem `json:"workers,omitempty"`
}

// What the node answers for block "head" while the service is constructed (nil = error).
type StartHead struct {
	Root    uint64 `json:"root"`
	Slot    uint64 `json:"slot"`
	Parent  uint64 `json:"parent"`
	Version string `json:"version"`
}

type History struct {
	SPE       uint64            `json:"spe"`
	Chain     map[uint64]uint64 `json:"chain"`
	StartHead *StartHead        `json:"starthead,omitempty"`
	Ops       []Op              `json:"ops"`
	Tags      []string          `json:"tags,omitempty"`
}

func failure(kind string) error {
	switch kind {
	case "canceled":
		return context.Canceled
	case "deadline":
		return context.DeadlineExceeded
	case "wrapped-deadline":
		return fmt.Errorf("failed to call GET endpoint: %w", context.DeadlineExceeded)
	case "wrapped-canceled":
		return fmt.Errorf("failed to call GET endpoint: %w", context.Canceled)
	case "api404":
		return &api.Error{Method: "GET", Endpoint: "/eth/v1/beacon/headers/0x00", StatusCode: 404, Data: []byte(`{"code":404,"message":"NOT_FOUND"}`)}
	case "api503":
		return &api.Error{Method: "GET", Endpoint: "/eth/v1/beacon/headers/0x00", StatusCode: 503, Data: []byte(`{"code":503,"message":"syncing"}`)}
	default:
		return errors.New("scripted failure")
	}
}

func rootOf(r uint64) phase0.Root {
	var root phase0.Root
	for i := 0; i < 8; i++ {
		root[31-i] = byte(r >> (8 * i))
	}
	return root
}

// ---------------------------------------------------------------------------------------------
// scripted header provider.  Sequential lookups: answers the next lookup with what the op says.
// Lookups of a group: the goroutine's script travels in the context (falling back on the oldest
// unanswered lookup of that root if an implementation drops the context's values); the answer
// comes after the scripted fake delay unless the request context ends first.

type parKey struct{}

type parLookup struct {
	PLookup
	called bool
}

type headers struct {
	mu      sync.Mutex
	next    *uint64
	errKind string
	used    bool
	group   []*parLookup      // lookups of the group in flight, in order of their start
	storm   map[string]*SItem // lookups of the storm in flight, by root (fallback, see runStorm)
	// Like a real node the provider answers for the block NAMED IN THE REQUEST (opts.Block), which
	// the client may read at any moment between the call and the answer (the multi client reads it
	// again for every node it fails over to): chain maps the root strings of the history's chain to
	// their slots, expect is the root string a sequential lookup is expected to ask for.
	chain  map[string]uint64
	expect string
}

// What the node answers when the request names block `asked` while the script is about `root`
// (scripted answer `fetch`): the scripted answer if the request names the scripted root; otherwise
// the header of the block that was asked for (404 if the chain has no such block).
func (h *headers) answerFor(asked string, root uint64, fetch uint64) (*api.Response[*apiv1.BeaconBlockHeader], error) {
	if asked == rootOf(root).String() {
		return headerResponse(fetch), nil
	}
	h.mu.Lock()
	slot, ok := h.chain[asked]
	h.mu.Unlock()
	if !ok {
		return nil, failure("api404")
	}
	return headerResponse(slot), nil
}

func headerResponse(slot uint64) *api.Response[*apiv1.BeaconBlockHeader] {
	return &api.Response[*apiv1.BeaconBlockHeader]{
		Data: &apiv1.BeaconBlockHeader{
			Header: &phase0.SignedBeaconBlockHeader{Message: &phase0.BeaconBlockHeader{Slot: phase0.Slot(slot)}},
		},
		Metadata: map[string]any{},
	}
}

func (h *headers) BeaconBlockHeader(ctx context.Context, opts *api.BeaconBlockHeaderOpts) (*api.Response[*apiv1.BeaconBlockHeader], error) {
	// a lookup of a storm: answered at once, from any goroutine
	it, _ := ctx.Value(stormKey{}).(*SItem)
	h.mu.Lock()
	if it == nil && h.storm != nil {
		it = h.storm[opts.Block]
	}
	if it != nil {
		h.mu.Unlock()
		if it.Fetch == nil {
			return nil, failure(it.ErrKind)
		}
		return h.answerFor(opts.Block, it.Root, *it.Fetch)
	}
	var pl *parLookup
	if h.group != nil {
		if v, ok := ctx.Value(parKey{}).(*parLookup); ok && !v.called {
			pl = v
		} else {
			for _, c := range h.group {
				if !c.called && rootOf(c.Root).String() == opts.Block {
					pl = c
					break
				}
			}
		}
	}
	if pl == nil {
		h.used = true
		next, kind, expect := h.next, h.errKind, h.expect
		h.mu.Unlock()
		if next == nil {
			return nil, failure(kind)
		}
		if expect != "" && opts.Block != expect {
			// the request names another block than the one looked up
			h.mu.Lock()
			slot, ok := h.chain[opts.Block]
			h.mu.Unlock()
			if !ok {
				return nil, failure("api404")
			}
			return headerResponse(slot), nil
		}
		return headerResponse(*next), nil
	}
	pl.called = true
	h.mu.Unlock()

	delay := time.Duration(pl.Delay) * time.Millisecond
	if pl.ErrKind == "caller-deadline" {
		delay += time.Second // the node is slow; the caller's deadline comes first
	}
	timer := time.NewTimer(delay)
	defer timer.Stop()
	select {
	case <-timer.C:
	case <-ctx.Done():
		return nil, ctx.Err()
	}
	if pl.Fetch == nil {
		return nil, failure(pl.ErrKind)
	}
	// the request is read (again) when the answer is made: a request struct shared between callers
	// names by now the block of whoever wrote it last
	return h.answerFor(opts.Block, pl.Root, *pl.Fetch)
}

// ---------------------------------------------------------------------------------------------
// The run of one history.

type answer struct {
	id, root uint64
	slot     uint64
	err      bool
}

type micro struct {
	at   uint64
	term string
	act  func() // what the main goroutine does at that instant (nil: a provider timer does it)
}

// the micro-events of a group in the order of their instants (which must be pairwise distinct)
func microEvents(op Op, spe uint64) ([]micro, error) {
	var ms []micro
	for _, l := range op.Lookups {
		if l.Delay == 0 {
			return nil, fmt.Errorf("lookup %d: zero delay", l.ID)
		}
		ms = append(ms, micro{at: l.Start, term: App("PBegin", N(l.ID), N(l.Root))})
		ms = append(ms, micro{at: l.Start + l.Delay, term: App("PEnd", N(l.ID), N(l.Root), OptN(l.Fetch))})
	}
	for _, x := range op.Extras {
		switch x.Kind {
		case "event", "set":
			ms = append(ms, micro{at: x.At, term: App("PEvent", N(x.Root), N(x.Slot))})
		case "clean":
			ms = append(ms, micro{at: x.At, term: App("PClean", N(x.Epoch), N(spe))})
		default:
			return nil, fmt.Errorf("unknown extra %q", x.Kind)
		}
	}
	sort.SliceStable(ms, func(i, j int) bool { return ms[i].at < ms[j].at })
	for i := 1; i < len(ms); i++ {
		if ms[i].at == ms[i-1].at {
			return nil, fmt.Errorf("two micro-events at instant %d", ms[i].at)
		}
	}
	return ms, nil
}

type env struct {
	svc      *standardcache.Service
	ct       *mocks.ChainTime
	hp       *headers
	bp       *blocks
	block    func(*apiv1.Event)
	head     func(*apiv1.Event)
	cleanJob func(context.Context)
}

func blockEvent(root, slot uint64) *apiv1.Event {
	return &apiv1.Event{Topic: "block", Data: &apiv1.BlockEvent{Slot: phase0.Slot(slot), Block: rootOf(root)}}
}

// runs one group inside the bubble; the answers in order of completion
func (e *env) runPar(ctx context.Context, op Op) []answer {
	type mainAct struct {
		at  uint64
		act func()
	}
	var (
		mu      sync.Mutex
		answers []answer
		wg      sync.WaitGroup
		acts    []mainAct
	)
	group := make([]*parLookup, 0, len(op.Lookups))
	for _, l := range op.Lookups {
		pl := &parLookup{PLookup: l}
		group = append(group, pl)
		acts = append(acts, mainAct{at: l.Start, act: func() {
			wg.Add(1)
			go func() {
				defer wg.Done()
				defer func() {
					// a panic is that lookup's observed outcome: no answer
					_ = recover()
				}()
				lctx := context.WithValue(ctx, parKey{}, pl)
				if pl.ErrKind == "caller-deadline" {
					c, cancel := context.WithTimeout(lctx, time.Duration(pl.Delay)*time.Millisecond)
					defer cancel()
					lctx = c
				}
				slot, err := e.svc.BlockRootToSlot(lctx, rootOf(pl.Root))
				mu.Lock()
				answers = append(answers, answer{id: pl.ID, root: pl.Root, slot: uint64(slot), err: err != nil})
				mu.Unlock()
			}()
		}})
	}
	sort.SliceStable(group, func(i, j int) bool { return group[i].Start < group[j].Start })
	for _, x := range op.Extras {
		switch x.Kind {
		case "event":
			acts = append(acts, mainAct{at: x.At, act: func() { e.block(blockEvent(x.Root, x.Slot)) }})
		case "set":
			acts = append(acts, mainAct{at: x.At, act: func() { e.svc.SetBlockRootToSlot(rootOf(x.Root), phase0.Slot(x.Slot)) }})
		case "clean":
			acts = append(acts, mainAct{at: x.At, act: func() { e.ct.SetSlot(x.Epoch*e.ct.SPE + x.Off%e.ct.SPE); e.cleanJob(ctx) }})
		}
	}
	sort.SliceStable(acts, func(i, j int) bool { return acts[i].at < acts[j].at })

	e.hp.mu.Lock()
	e.hp.group = group
	e.hp.mu.Unlock()
	begin := time.Now()
	for _, a := range acts {
		time.Sleep(time.Until(begin.Add(time.Duration(a.at) * time.Millisecond)))
		a.act()
		synctest.Wait()
	}
	wg.Wait()
	e.hp.mu.Lock()
	e.hp.group = nil
	e.hp.mu.Unlock()
	return answers
}

func runHistory(t *testing.T, h History, st *stormStats) (outs []string, final [][2]uint64, nontrivial bool) {
	ctx := context.Background()
	ct := mocks.NewChainTime(h.SPE)
	ev := mocks.NewEventsProvider()
	sched := mocks.NewRecScheduler()
	hp := &headers{chain: map[string]uint64{}}
	for r, sl := range h.Chain {
		hp.chain[rootOf(r).String()] = sl
	}
	bp := &blocks{}
	if h.StartHead != nil {
		bp.head = &blockSpec{slot: h.StartHead.Slot, parent: h.StartHead.Parent, version: h.StartHead.Version}
	}
	svc, err := standardcache.New(ctx,
		standardcache.WithLogLevel(zerolog.Disabled),
		standardcache.WithMonitor(nullmetrics.New()),
		standardcache.WithChainTime(ct),
		standardcache.WithScheduler(sched),
		standardcache.WithEventsProvider(ev),
		standardcache.WithSignedBeaconBlockProvider(bp),
		standardcache.WithBeaconBlockHeadersProvider(hp),
	)
	if err != nil {
		t.Fatalf("cache constructor: %v", err)
	}
	if len(ev.Handlers["block"]) != 1 {
		t.Fatalf("expected one block handler, got %d", len(ev.Handlers["block"]))
	}
	if len(ev.Handlers["head"]) != 1 {
		t.Fatalf("expected one head handler, got %d", len(ev.Handlers["head"]))
	}
	cleanJob, ok := sched.Get("Clean block root to slot cache")
	if !ok {
		t.Fatalf("clean job not scheduled")
	}
	e := &env{svc: svc, ct: ct, hp: hp, bp: bp, block: ev.Handlers["block"][0], head: ev.Handlers["head"][0], cleanJob: cleanJob.Func}

	miss, hit := false, false
	// one op; a panic of the implementation is that op's observed outcome
	do := func(op Op) (out string) {
		defer func() {
			if r := recover(); r != nil {
				out = "(OMany [])" // agrees with no model output of a sequential op, and violates P_b
				if op.Kind == "par" || op.Kind == "storm" {
					out = "OErr"
				}
			}
		}()
		switch op.Kind {
		case "event":
			e.block(blockEvent(op.Root, op.Slot))
			return "ONone"
		case "set":
			svc.SetBlockRootToSlot(rootOf(op.Root), phase0.Slot(op.Slot))
			return "ONone"
		case "head":
			bp.next = nil
			if !op.BlockFail {
				bp.next = &blockSpec{slot: op.Slot, parent: op.Parent, version: op.Version}
			}
			e.head(&apiv1.Event{Topic: "head", Data: &apiv1.HeadEvent{Slot: phase0.Slot(op.Slot), Block: rootOf(op.Root)}})
			return "ONone"
		case "lookup":
			hp.next, hp.errKind, hp.used, hp.expect = op.Fetch, op.ErrKind, false, rootOf(op.Root).String()
			lctx := ctx
			if op.CallerCtx == "cancelled" {
				c, cancel := context.WithCancel(ctx)
				cancel()
				lctx = c
			}
			slot, err := svc.BlockRootToSlot(lctx, rootOf(op.Root))
			if hp.used && op.Fetch != nil {
				miss = true
			}
			if !hp.used {
				hit = true
			}
			if err != nil {
				return "OErr"
			}
			return App("OSlot", N(uint64(slot)))
		case "clean":
			ct.SetSlot(op.Epoch*h.SPE + op.Off%h.SPE)
			e.cleanJob(ctx)
			return "ONone"
		case "par", "storm":
			var answers []answer
			if op.Kind == "storm" {
				var hung bool
				if answers, hung = e.runStorm(ctx, op, st); hung {
					return "OErr"
				}
			} else {
				answers = e.runPar(ctx, op)
			}
			sort.SliceStable(answers, func(i, j int) bool { return answers[i].id < answers[j].id })
			items := make([]string, 0, len(answers))
			for _, a := range answers {
				res := None()
				if !a.err {
					res = Some(N(a.slot))
				}
				items = append(items, "("+N(a.id)+", "+N(a.root)+", "+res+")")
			}
			return App("OMany", List(items))
		}
		t.Fatalf("unknown op kind %q", op.Kind)
		return ""
	}
	for _, op := range h.Ops {
		outs = append(outs, do(op))
	}
	// Read the final map through the public API with a failing fetcher: an error means absent.
	roots := make([]uint64, 0, len(h.Chain))
	for r := range h.Chain {
		roots = append(roots, r)
	}
	sort.Slice(roots, func(i, j int) bool { return roots[i] < roots[j] })
	hp.next, hp.expect = nil, ""
	for _, r := range roots {
		if slot, err := svc.BlockRootToSlot(ctx, rootOf(r)); err == nil {
			final = append(final, [2]uint64{r, uint64(slot)})
		}
	}
	return outs, final, miss && hit
}

func term(t *testing.T, id uint64, h History, outs []string, final [][2]uint64) string {
	ops := make([]string, 0, len(h.Ops))
	for _, op := range h.Ops {
		switch op.Kind {
		case "event", "set":
			ops = append(ops, App("Event", N(op.Root), N(op.Slot)))
		case "lookup":
			ops = append(ops, App("Lookup", N(op.Root), OptN(op.Fetch)))
		case "clean":
			ops = append(ops, App("Clean", N(op.Epoch), N(h.SPE)))
		case "head":
			blk := None()
			if !op.BlockFail {
				blk = Some(Pair(N(op.Parent), N(op.Slot)))
			}
			ops = append(ops, App("Head", N(op.Root), N(op.Slot), blk))
		case "par":
			ms, err := microEvents(op, h.SPE)
			if err != nil {
				t.Fatalf("case %d: %v", id, err)
			}
			evs := make([]string, 0, len(ms))
			for _, m := range ms {
				evs = append(evs, m.term)
			}
			ops = append(ops, App("Par", List(evs)))
		case "storm":
			ops = append(ops, App("Par", List(stormMicro(op, h.SPE))))
		}
	}
	fin := make([]string, 0, len(final))
	for _, e := range final {
		fin = append(fin, Pair(N(e[0]), N(e[1])))
	}
	roots := make([]uint64, 0, len(h.Chain))
	for r := range h.Chain {
		roots = append(roots, r)
	}
	sort.Slice(roots, func(i, j int) bool { return roots[i] < roots[j] })
	chain := make([]string, 0, len(roots))
	for _, r := range roots {
		chain = append(chain, Pair(N(r), N(h.Chain[r])))
	}
	return Record("c_id", N(id), "c_ops", List(ops), "c_outs", List(outs), "c_final", List(fin), "c_chain", List(chain))
}

func TestC18(t *testing.T) {
	col := NewCollector("C18", "Check.C18",
		"histories of 5-60 ops (block events, head events, lookups with scripted fetch outcome, groups of 2-6 overlapping lookups, cleans with the clock anywhere in its epoch) over 1-8 roots, and long chains (one root or more per slot over more than 64 epochs, the map outgrowing 64*spe entries, then lookups of the window's oldest roots with the node failing), and storms (2-4 real goroutines delivering block events, calling SetBlockRootToSlot and looking roots up while the cleaning job runs 8-45 times on a map of 20-750 entries); non-trivial = contains both a successful miss and a hit (sequential lookups); distinct by full history text")
	// the long-chain histories cost the checker seconds each: smaller shards, checked in parallel
	col.ShardSize = 200
	n := EnvInt("VERIF_N", 1000)
	var hs []History
	for _, h := range LoadInputs[History]("C18") {
		h.Tags = append(h.Tags, "corpus")
		hs = append(hs, h)
	}
	rng := NewRand(Seed())
	for i := 0; i < n; i++ {
		r := rng.Fork()
		if class := stormClassOf(i); class != "" {
			hs = append(hs, genStorm(r, class))
			continue
		}
		if class := longClassOf(i); class != "" {
			hs = append(hs, genLong(r, class))
			continue
		}
		hs = append(hs, gen(r))
	}
	var st stormStats
	for _, h := range hs {
		for k, op := range h.Ops {
			if op.Kind == "par" {
				if _, err := microEvents(op, h.SPE); err != nil {
					t.Fatalf("malformed group: %v", err)
				}
			}
			if op.Kind == "storm" {
				if err := stormCheck(h, k); err != nil {
					t.Fatalf("malformed storm: %v", err)
				}
			}
		}
		var (
			outs  []string
			final [][2]uint64
			nt    bool
		)
		if isStormHistory(h) {
			// real goroutines racing the cleaning job in real time (with a watchdog): no bubble
			for _, op := range h.Ops {
				if op.Kind == "par" {
					t.Fatalf("a history with a storm cannot have a time-scripted group")
				}
			}
			before := st
			outs, final, nt = runHistory(t, h, &st)
			if os.Getenv("C18_STORM_DEBUG") != "" {
				fmt.Fprintf(os.Stderr, "storm history %v: %d roots, %d in the final map; %d items, %d begun while the job ran\n",
					h.Tags, len(h.Chain), len(final), st.items-before.items, st.duringJob-before.duringJob)
			}
		} else {
			// one bubble per history: fake time, deterministic order of the instants of a group
			synctest.Test(t, func(t *testing.T) {
				outs, final, nt = runHistory(t, h, &st)
			})
		}
		for _, op := range h.Ops {
			col.Count("op:" + op.Kind)
			if op.Kind == "clean" && op.Off > 0 {
				col.Count("clean:clock-inside-the-epoch")
			}
			if op.Kind == "lookup" && op.Fetch == nil {
				col.Count("lookup:failing-fetch:" + op.ErrKind + ":" + op.CallerCtx)
			}
			if op.Kind == "head" {
				col.Count("head:" + headFamily(h, op))
			}
			if op.Kind == "par" {
				col.Count("par:" + parFamily(op))
			}
			if op.Kind == "storm" {
				col.Count("storm:" + stormFamily(h))
				if op.Step > 0 {
					col.Count("storm:the-clock-advances-between-the-runs")
				}
				for _, items := range op.Workers {
					for _, it := range items {
						col.Count("storm:item:" + stormItemFamily(it))
					}
				}
			}
		}
		if h.StartHead != nil {
			col.Count("starthead")
		}
		if _, ok := h.Chain[0]; ok {
			col.Count("roots:with-the-all-zero-root")
		}
		if isStormHistory(h) {
			col.Count("storm-history")
		} else if len(h.Chain) <= 8 {
			col.Count(fmt.Sprintf("roots:%d", len(h.Chain)))
		} else {
			col.Count(longFamily(h))
		}
		id := col.NextID()
		col.Add(Case{Term: term(t, id, h, outs, final), Nontrivial: nt, Tags: h.Tags,
			Sample: map[string]any{"input": h, "observed": outs, "final": final}})
	}
	col.Note(fmt.Sprintf("storms: %d items performed by worker goroutines, %d of them begun while the cleaning job was running", st.items, st.duringJob))
	if err := col.Flush(); err != nil {
		t.Fatal(err)
	}
}
