// C18: drives the real services/cache/standard.Service through histories of block events,
// lookups (hits, misses, failing fetches) and cleaning runs, and prints each history with the
// observed outputs as a Gallina case for Check.C18.
package c18

import (
	"context"
	"errors"
	"fmt"
	"sort"
	"testing"

	"github.com/attestantio/go-eth2-client/api"
	apiv1 "github.com/attestantio/go-eth2-client/api/v1"
	"github.com/attestantio/go-eth2-client/spec/phase0"
	"github.com/attestantio/vouch/mock"
	standardcache "github.com/attestantio/vouch/services/cache/standard"
	nullmetrics "github.com/attestantio/vouch/services/metrics/null"
	"github.com/rs/zerolog"

	. "verifharness/common"
	"verifharness/mocks"
)

type Op struct {
	Kind  string  `json:"kind"` // event | lookup | clean
	Root  uint64  `json:"root,omitempty"`
	Slot  uint64  `json:"slot,omitempty"`
	Fetch *uint64 `json:"fetch,omitempty"` // lookup: what the node answers (nil = error)
	Epoch uint64  `json:"epoch,omitempty"` // clean
	// lookup with a failing fetch: the kind of error the node/client reports, and whether the
	// caller's own context is already cancelled.  The property says: always an error, never a slot.
	ErrKind   string `json:"errkind,omitempty"` // plain | canceled | deadline | wrapped-deadline | api404 | api503
	CallerCtx string `json:"callerctx,omitempty"` // live (default) | cancelled
}

type History struct {
	SPE   uint64            `json:"spe"`
	Chain map[uint64]uint64 `json:"chain"`
	Ops   []Op              `json:"ops"`
	Tags  []string          `json:"tags,omitempty"`
}

// scripted header provider: answers the next lookup with what the op says.
type headers struct {
	next    *uint64
	errKind string
	used    bool
}

func failure(kind string) error {
	switch kind {
	case "canceled":
		return context.Canceled
	case "deadline":
		return context.DeadlineExceeded
	case "wrapped-deadline":
		return fmt.Errorf("failed to call GET endpoint: %w", context.DeadlineExceeded)
	case "wrapped-canceled":
		return fmt.Errorf("failed to call GET endpoint: %w", context.Canceled)
	case "api404":
		return &api.Error{Method: "GET", Endpoint: "/eth/v1/beacon/headers/0x00", StatusCode: 404, Data: []byte(`{"code":404,"message":"NOT_FOUND"}`)}
	case "api503":
		return &api.Error{Method: "GET", Endpoint: "/eth/v1/beacon/headers/0x00", StatusCode: 503, Data: []byte(`{"code":503,"message":"syncing"}`)}
	default:
		return errors.New("scripted failure")
	}
}

func (h *headers) BeaconBlockHeader(_ context.Context, opts *api.BeaconBlockHeaderOpts) (*api.Response[*apiv1.BeaconBlockHeader], error) {
	h.used = true
	if h.next == nil {
		return nil, failure(h.errKind)
	}
	return &api.Response[*apiv1.BeaconBlockHeader]{
		Data: &apiv1.BeaconBlockHeader{
			Header: &phase0.SignedBeaconBlockHeader{Message: &phase0.BeaconBlockHeader{Slot: phase0.Slot(*h.next)}},
		},
		Metadata: map[string]any{},
	}, nil
}

func rootOf(r uint64) phase0.Root {
	var root phase0.Root
	for i := 0; i < 8; i++ {
		root[31-i] = byte(r >> (8 * i))
	}
	return root
}

func gen(r *Rand) History {
	h := History{SPE: uint64(r.Range(1, 32)), Chain: map[uint64]uint64{}}
	nroots := r.Range(1, 8)
	// Current epoch region: most histories live beyond epoch 64 so that cleaning bites.
	baseEpoch := uint64(r.Range(0, 200))
	if r.Chance(1, 10) {
		baseEpoch = uint64(r.Range(0, 70))
	}
	for i := 1; i <= nroots; i++ {
		// slots spread around the retention edge of baseEpoch
		var e uint64
		switch r.Intn(4) {
		case 0:
			e = baseEpoch
		case 1:
			if baseEpoch >= 64 {
				e = baseEpoch - 64 + uint64(r.Intn(3))
			}
		case 2:
			if baseEpoch >= 66 {
				e = baseEpoch - 66 + uint64(r.Intn(3))
			}
		default:
			e = uint64(r.Intn(int(baseEpoch) + 2))
		}
		off := uint64(r.Intn(int(h.SPE)))
		if r.Chance(1, 3) {
			off = 0
		}
		if r.Chance(1, 12) {
			e = baseEpoch + uint64(r.Range(1, 3)) // a block of a later epoch than the clock's (clock skew)
		}
		h.Chain[uint64(i)] = e*h.SPE + off
	}
	nops := r.Range(5, 60)
	for i := 0; i < nops; i++ {
		root := uint64(r.Range(1, nroots))
		switch k := r.Intn(10); {
		case k < 3:
			h.Ops = append(h.Ops, Op{Kind: "event", Root: root, Slot: h.Chain[root]})
		case k < 8:
			op := Op{Kind: "lookup", Root: root}
			if r.Chance(2, 3) {
				s := h.Chain[root]
				op.Fetch = &s
			} else {
				op.ErrKind = []string{"plain", "plain", "canceled", "deadline", "wrapped-deadline", "wrapped-canceled", "api404", "api503"}[r.Intn(8)]
				if r.Chance(1, 5) {
					op.CallerCtx = "cancelled"
				}
			}
			h.Ops = append(h.Ops, op)
		default:
			e := baseEpoch + uint64(r.Intn(4))
			if r.Chance(1, 6) {
				e = uint64(r.Range(60, 68))
			}
			h.Ops = append(h.Ops, Op{Kind: "clean", Epoch: e})
		}
	}
	return h
}

func runHistory(t *testing.T, h History) (outs []string, final [][2]uint64, nontrivial bool) {
	ctx := context.Background()
	ct := mocks.NewChainTime(h.SPE)
	ev := mocks.NewEventsProvider()
	sched := mocks.NewRecScheduler()
	hp := &headers{}
	svc, err := standardcache.New(ctx,
		standardcache.WithLogLevel(zerolog.Disabled),
		standardcache.WithMonitor(nullmetrics.New()),
		standardcache.WithChainTime(ct),
		standardcache.WithScheduler(sched),
		standardcache.WithEventsProvider(ev),
		standardcache.WithSignedBeaconBlockProvider(mock.NewErroringSignedBeaconBlockProvider()),
		standardcache.WithBeaconBlockHeadersProvider(hp),
	)
	if err != nil {
		t.Fatalf("cache constructor: %v", err)
	}
	if len(ev.Handlers["block"]) != 1 {
		t.Fatalf("expected one block handler, got %d", len(ev.Handlers["block"]))
	}
	cleanJob, ok := sched.Get("Clean block root to slot cache")
	if !ok {
		t.Fatalf("clean job not scheduled")
	}
	miss, hit := false, false
	for _, op := range h.Ops {
		switch op.Kind {
		case "event":
			ev.Handlers["block"][0](&apiv1.Event{Topic: "block", Data: &apiv1.BlockEvent{Slot: phase0.Slot(op.Slot), Block: rootOf(op.Root)}})
			outs = append(outs, "ONone")
		case "lookup":
			hp.next, hp.errKind, hp.used = op.Fetch, op.ErrKind, false
			lctx := ctx
			if op.CallerCtx == "cancelled" {
				c, cancel := context.WithCancel(ctx)
				cancel()
				lctx = c
			}
			slot, err := svc.BlockRootToSlot(lctx, rootOf(op.Root))
			if err != nil {
				outs = append(outs, "OErr")
			} else {
				outs = append(outs, App("OSlot", N(uint64(slot))))
			}
			if hp.used && op.Fetch != nil {
				miss = true
			}
			if !hp.used {
				hit = true
			}
		case "clean":
			ct.SetEpoch(op.Epoch)
			cleanJob.Func(ctx)
			outs = append(outs, "ONone")
		}
	}
	// Read the final map through the public API with a failing fetcher: an error means absent.
	roots := make([]uint64, 0, len(h.Chain))
	for r := range h.Chain {
		roots = append(roots, r)
	}
	sort.Slice(roots, func(i, j int) bool { return roots[i] < roots[j] })
	hp.next = nil
	for _, r := range roots {
		if slot, err := svc.BlockRootToSlot(ctx, rootOf(r)); err == nil {
			final = append(final, [2]uint64{r, uint64(slot)})
		}
	}
	return outs, final, miss && hit
}

func term(id uint64, h History, outs []string, final [][2]uint64) string {
	ops := make([]string, 0, len(h.Ops))
	for _, op := range h.Ops {
		switch op.Kind {
		case "event":
			ops = append(ops, App("Event", N(op.Root), N(op.Slot)))
		case "lookup":
			ops = append(ops, App("Lookup", N(op.Root), OptN(op.Fetch)))
		case "clean":
			ops = append(ops, App("Clean", N(op.Epoch), N(h.SPE)))
		}
	}
	fin := make([]string, 0, len(final))
	for _, e := range final {
		fin = append(fin, Pair(N(e[0]), N(e[1])))
	}
	roots := make([]uint64, 0, len(h.Chain))
	for r := range h.Chain {
		roots = append(roots, r)
	}
	sort.Slice(roots, func(i, j int) bool { return roots[i] < roots[j] })
	chain := make([]string, 0, len(roots))
	for _, r := range roots {
		chain = append(chain, Pair(N(r), N(h.Chain[r])))
	}
	return Record("c_id", N(id), "c_ops", List(ops), "c_outs", List(outs), "c_final", List(fin), "c_chain", List(chain))
}

func TestC18(t *testing.T) {
	col := NewCollector("C18", "Check.C18",
		"histories of 5-60 ops (block events, lookups with scripted fetch outcome, cleans) over 1-8 roots; non-trivial = contains both a successful miss and a hit; distinct by full history text")
	n := EnvInt("VERIF_N", 1000)
	var hs []History
	for _, h := range LoadInputs[History]("C18") {
		h.Tags = append(h.Tags, "corpus")
		hs = append(hs, h)
	}
	rng := NewRand(Seed())
	for i := 0; i < n; i++ {
		hs = append(hs, gen(rng.Fork()))
	}
	for _, h := range hs {
		outs, final, nt := runHistory(t, h)
		for _, op := range h.Ops {
			col.Count("op:" + op.Kind)
			if op.Kind == "lookup" && op.Fetch == nil {
				col.Count("lookup:failing-fetch:" + op.ErrKind + ":" + op.CallerCtx)
			}
		}
		col.Count(fmt.Sprintf("roots:%d", len(h.Chain)))
		id := col.NextID()
		col.Add(Case{Term: term(id, h, outs, final), Nontrivial: nt, Tags: h.Tags,
			Sample: map[string]any{"input": h, "observed": outs, "final": final}})
	}
	if err := col.Flush(); err != nil {
		t.Fatal(err)
	}
}
