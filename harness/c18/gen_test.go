// Generators of the C18 harness.
package c18

import (
	"sort"

	. "verifharness/common"
)

var versions = []string{"phase0", "altair", "bellatrix", "capella", "deneb"}
var errKinds = []string{"plain", "plain", "canceled", "deadline", "wrapped-deadline", "wrapped-canceled", "api404", "api503"}

// The chain of a history: roots 1..n in ascending order of slot; the parent of a block is the
// nearest earlier root with a strictly smaller slot (0 = none known; such a root is never a head).
func parentOf(chain map[uint64]uint64, root uint64) uint64 {
	for j := root - 1; j >= 1; j-- {
		if s, ok := chain[j]; ok && s < chain[root] {
			return j
		}
	}
	return 0
}

func headFamily(h History, op Op) string {
	f := "skipped-slot"
	if op.BlockFail {
		return "block-fetch-fails"
	}
	if ps, ok := h.Chain[op.Parent]; ok && ps+1 == op.Slot {
		f = "consecutive"
	}
	return f
}

func parFamily(op Op) string {
	same, fails := true, 0
	for _, l := range op.Lookups {
		if l.Root != op.Lookups[0].Root {
			same = false
		}
		if l.Fetch == nil {
			fails++
		}
	}
	f := "mixed-roots"
	if same {
		f = "same-root"
	}
	switch {
	case fails == 0:
		f += ":all-succeed"
	case fails == len(op.Lookups):
		f += ":all-fail"
	default:
		f += ":some-fail"
	}
	if len(op.Extras) > 0 {
		f += ":with-extras"
	}
	return f
}

// where in its epoch the clock stands when the cleaning job runs (the job is scheduled by wall
// time, not by epoch): anywhere, the last slot fairly often
func genCleanOff(r *Rand, spe uint64) uint64 {
	switch r.Intn(4) {
	case 0:
		return 0
	case 1:
		return spe - 1
	}
	return uint64(r.Intn(int(spe)))
}

func genClean(r *Rand, baseEpoch uint64) uint64 {
	e := baseEpoch + uint64(r.Intn(4))
	if r.Chance(1, 6) {
		e = uint64(r.Range(60, 68))
	}
	return e
}

func genPar(r *Rand, h *History, nroots int, baseEpoch uint64) Op {
	k := r.Range(2, 6)
	m := 0
	if r.Chance(1, 3) {
		m = r.Range(1, 2)
	}
	total := 2*k + m
	perm := r.Perm(4 * total)
	inst := make([]uint64, total)
	for i := range inst {
		inst[i] = uint64(perm[i] + 1)
	}
	extraAt, rest := inst[:m], inst[m:]
	op := Op{Kind: "par"}
	type se struct{ s, e uint64 }
	var spans []se
	if r.Chance(1, 2) {
		// burst: every goroutine has started before the first answer comes (one goroutine per
		// beacon node scoring the same new root)
		sort.Slice(rest, func(i, j int) bool { return rest[i] < rest[j] })
		ends := r.Perm(k)
		for i := 0; i < k; i++ {
			spans = append(spans, se{rest[i], rest[k+ends[i]]})
		}
	} else {
		for i := 0; i < k; i++ {
			a, b := rest[2*i], rest[2*i+1]
			if a > b {
				a, b = b, a
			}
			spans = append(spans, se{a, b})
		}
	}
	same := r.Chance(2, 3)
	common := uint64(r.Range(1, nroots))
	leaderFails := r.Chance(1, 4)
	first := 0
	for i := range spans {
		if spans[i].s < spans[first].s {
			first = i
		}
	}
	for i, sp := range spans {
		root := common
		if !same {
			root = uint64(r.Range(1, nroots))
		}
		l := PLookup{ID: uint64(i + 1), Root: root, Start: sp.s, Delay: sp.e - sp.s}
		ok := r.Chance(1, 2)
		if leaderFails {
			ok = i != first
		}
		if ok {
			s := h.Chain[root]
			l.Fetch = &s
		} else if r.Chance(1, 5) {
			l.ErrKind = "caller-deadline"
		} else {
			l.ErrKind = errKinds[r.Intn(len(errKinds))]
		}
		op.Lookups = append(op.Lookups, l)
	}
	for _, at := range extraAt {
		root := common
		if r.Chance(1, 2) {
			root = uint64(r.Range(1, nroots))
		}
		switch r.Intn(3) {
		case 0:
			op.Extras = append(op.Extras, PExtra{At: at, Kind: "event", Root: root, Slot: h.Chain[root]})
		case 1:
			op.Extras = append(op.Extras, PExtra{At: at, Kind: "set", Root: root, Slot: h.Chain[root]})
		default:
			op.Extras = append(op.Extras, PExtra{At: at, Kind: "clean", Epoch: genClean(r, baseEpoch), Off: genCleanOff(r, h.SPE)})
		}
	}
	return op
}

func gen(r *Rand) History {
	h := History{SPE: uint64(r.Range(1, 32)), Chain: map[uint64]uint64{}}
	nroots := r.Range(1, 8)
	// Current epoch region: most histories live beyond epoch 64 so that cleaning bites.
	baseEpoch := uint64(r.Range(0, 200))
	if r.Chance(1, 10) {
		baseEpoch = uint64(r.Range(0, 70))
	}
	var slots []uint64
	if r.Chance(1, 3) {
		// a run of blocks in consecutive slots with the occasional empty slot, at the clock's epoch
		// or straddling the retention edge
		h.Tags = append(h.Tags, "linear-chain")
		s := baseEpoch*h.SPE + uint64(r.Intn(int(h.SPE)))
		if baseEpoch >= 65 && (baseEpoch-64)*h.SPE >= 4 && r.Chance(1, 3) {
			s = (baseEpoch-64)*h.SPE - uint64(r.Intn(4))
		}
		for i := 0; i < nroots; i++ {
			slots = append(slots, s)
			if r.Chance(1, 2) {
				s++
			} else {
				s += uint64(r.Range(2, 4))
			}
		}
	} else {
		for i := 1; i <= nroots; i++ {
			// slots spread around the retention edge of baseEpoch
			var e uint64
			switch r.Intn(4) {
			case 0:
				e = baseEpoch
			case 1:
				if baseEpoch >= 64 {
					e = baseEpoch - 64 + uint64(r.Intn(3))
				}
			case 2:
				if baseEpoch >= 66 {
					e = baseEpoch - 66 + uint64(r.Intn(3))
				}
			default:
				e = uint64(r.Intn(int(baseEpoch) + 2))
			}
			off := uint64(r.Intn(int(h.SPE)))
			if r.Chance(1, 3) {
				off = 0
			}
			if r.Chance(1, 12) {
				e = baseEpoch + uint64(r.Range(1, 3)) // a block of a later epoch than the clock's (clock skew)
			}
			slots = append(slots, e*h.SPE+off)
		}
		sort.Slice(slots, func(i, j int) bool { return slots[i] < slots[j] })
	}
	for i, s := range slots {
		h.Chain[uint64(i+1)] = s
	}
	headOf := func(root uint64) (Op, bool) {
		p := parentOf(h.Chain, root)
		if p == 0 {
			return Op{}, false
		}
		return Op{Kind: "head", Root: root, Slot: h.Chain[root], Parent: p,
			Version: versions[r.Intn(len(versions))], BlockFail: r.Chance(1, 6)}, true
	}
	if r.Chance(1, 3) {
		root := uint64(r.Range(1, nroots))
		if p := parentOf(h.Chain, root); p != 0 {
			h.StartHead = &StartHead{Root: root, Slot: h.Chain[root], Parent: p, Version: versions[r.Intn(len(versions))]}
		}
	}
	nops := r.Range(5, 60)
	pars := 0
	for i := 0; i < nops; i++ {
		root := uint64(r.Range(1, nroots))
		k := r.Intn(20)
		if k >= 18 && pars >= 3 {
			k = 5
		}
		switch {
		case k < 4:
			h.Ops = append(h.Ops, Op{Kind: "event", Root: root, Slot: h.Chain[root]})
			if r.Chance(1, 3) {
				if op, ok := headOf(root); ok {
					h.Ops = append(h.Ops, op)
				}
			}
		case k < 5:
			h.Ops = append(h.Ops, Op{Kind: "set", Root: root, Slot: h.Chain[root]})
		case k < 13:
			op := Op{Kind: "lookup", Root: root}
			if r.Chance(2, 3) {
				s := h.Chain[root]
				op.Fetch = &s
			} else {
				op.ErrKind = errKinds[r.Intn(len(errKinds))]
				if r.Chance(1, 5) {
					op.CallerCtx = "cancelled"
				}
			}
			h.Ops = append(h.Ops, op)
		case k < 16:
			h.Ops = append(h.Ops, Op{Kind: "clean", Epoch: genClean(r, baseEpoch), Off: genCleanOff(r, h.SPE)})
		case k < 18:
			if op, ok := headOf(root); ok {
				h.Ops = append(h.Ops, op)
			}
		default:
			pars++
			h.Ops = append(h.Ops, genPar(r, &h, nroots, baseEpoch))
		}
	}
	// "For any roots": one history in 6 has the all-zero root (rootOf(0): the parent of the genesis
	// block, the head of a node that has not started syncing) as one of its roots.  A pure renaming
	// of one root of the finished history, so the history is as consistent as it was.
	if r.Chance(1, 6) {
		renameRoot(&h, uint64(r.Range(1, nroots)), 0)
		h.Tags = append(h.Tags, "zero-root")
	}
	return h
}

// renames root `from` to `to` (not a root of the history) everywhere in the history
func renameRoot(h *History, from, to uint64) {
	ren := func(x *uint64) {
		if *x == from {
			*x = to
		}
	}
	h.Chain[to] = h.Chain[from]
	delete(h.Chain, from)
	if h.StartHead != nil {
		ren(&h.StartHead.Root)
		ren(&h.StartHead.Parent)
	}
	for i := range h.Ops {
		op := &h.Ops[i]
		switch op.Kind {
		case "event", "set", "lookup":
			ren(&op.Root)
		case "head":
			ren(&op.Root)
			ren(&op.Parent)
		case "par":
			for j := range op.Lookups {
				ren(&op.Lookups[j].Root)
			}
			for j := range op.Extras {
				if op.Extras[j].Kind != "clean" {
					ren(&op.Extras[j].Root)
				}
			}
		}
	}
}
