package c13

// Generator of large installations (see big.go): 60-1500 accounts in one or two wallets, their
// validators in a few lifecycle classes, and histories in which the node fails every request that
// names one chosen key, answers for part of what was asked, answers nothing, or fails wholesale --
// after a healthy refresh, and followed by queries that look at the whole set.

import (
	. "verifharness/common"
)

// one large installation every bigEvery generated cases
const bigEvery = 50

func genBig(r *Rand, k int) Input {
	in := Input{Far: farFuture, Manager: "dirk"}
	if r.Bool() {
		in.Manager = "wallet"
	}
	// size: just over 512 (two requests of at most 512), over 1024 (three), or well below
	var n int
	switch k % 5 {
	case 0, 1:
		n = r.Range(516, 700)
	case 2:
		n = r.Range(1010, 1500)
	default:
		n = r.Range(60, 400)
	}
	const first = 101
	// accounts: one wallet, or two wallets sharing the ids
	type spec struct {
		specs  []string
		prefix string
	}
	one := []spec{
		{[]string{"W"}, "v"},
		{[]string{"W/v[0-9]+"}, "v"},
		{[]string{"W/val-.*"}, "val-"},
		{[]string{"Wallet1/.*"}, "Validator"},
	}
	sp := pick(r, one)
	w := firstPart(sp.specs[0])
	in.Specs = sp.specs
	nw := n
	two := r.Chance(1, 3)
	if two {
		nw = r.Range(n/4, 3*n/4)
		vpart := pick(r, []string{"", "v.*", "v[0-9]*"}) // the wallet manager reads "V/" as: the account named ""
		if n > 1000 {
			vpart = "v.*"
		}
		in.Specs = append(in.Specs, "V/"+vpart)
	}
	in.Ranges = append(in.Ranges, AcctRange{First: first, Count: nw, Wallet: w, Prefix: sp.prefix})
	if two {
		in.Ranges = append(in.Ranges, AcctRange{First: first + nw, Count: n - nw, Wallet: "V", Prefix: "v"})
	}
	// a few accounts that are not wanted: another name, another wallet, or (wallet manager) locked
	in.Universe = []Acct{
		{ID: 1, Wallet: w, Name: "other"},
		{ID: 2, Wallet: "U", Name: sp.prefix + "2"},
		{ID: 3, Wallet: w, Name: sp.prefix + "3", Locked: true},
	}
	in.Tags = append(in.Tags, "big")

	e := uint64(r.Range(100, 900))
	// validators: the ids cut into 1-3 classes, each with one lifecycle
	type class struct {
		first, count int
		kind         int
	}
	cuts := []int{0, n}
	if r.Chance(2, 3) {
		c := r.Range(n/8, 7*n/8)
		cuts = []int{0, c, n}
		if r.Chance(1, 2) {
			d := r.Range(c, n)
			if d > c && d < n {
				cuts = []int{0, c, d, n}
			}
		}
	}
	var classes []class
	for i := 0; i+1 < len(cuts); i++ {
		kind := 0 // the first class is active: the answers have something to lose
		if i > 0 {
			kind = r.Intn(6)
		}
		classes = append(classes, class{first + cuts[i], cuts[i+1] - cuts[i], kind})
	}
	index0 := uint64(r.Range(1100, 3000))
	valRanges := func(shift uint64, moved bool) []ValRange {
		var out []ValRange
		for _, c := range classes {
			vr := ValRange{First: c.first, Count: c.count, Index0: index0 + shift + uint64(c.first-first),
				Elig: 0, Act: 1, Exit: farFuture, Wd: farFuture, Bal: 32000000000}
			kind := c.kind
			if moved {
				kind = (kind + 1) % 6
			}
			switch kind {
			case 0: // active
			case 1: // exiting: still active at e, not at e+2
				vr.Exit, vr.Wd = e+2, e+300
			case 2: // exited
				vr.Exit, vr.Wd = e-1, e+300
			case 3: // pending
				vr.Elig, vr.Act = e-2, e+3
			case 4: // slashed, on its way out
				vr.Slashed, vr.Exit, vr.Wd = true, e+5, e+8000
			case 5: // not known to the chain
				continue
			}
			out = append(out, vr)
		}
		return out
	}
	all := [][2]int{{first, n}}
	allSmall := []int{1, 2, 3}

	refresh := func(kind int) Op {
		op := Op{Kind: "refresh", Offered: allSmall, OfferedRanges: all, ValRanges: valRanges(0, false)}
		switch kind {
		case 0: // healthy
		case 1: // the node fails the requests naming one of the known keys
			op.FailOn = first + r.Intn(n)
		case 2: // ... while it would have answered with moved-on lifecycles and shifted indices
			op.FailOn = first + r.Intn(n)
			op.ValRanges = valRanges(1, true)
		case 3: // wholesale failure
			op.VErr = true
			op.ValRanges = nil
		case 4: // the node answers for part of what was asked (it lost track of the others)
			a := r.Range(0, n-2)
			c := r.Range(1, n-a)
			var part []ValRange
			for _, vr := range valRanges(0, false) {
				lo, hi := vr.First, vr.First+vr.Count
				if lo < first+a {
					lo = first + a
				}
				if hi > first+a+c {
					hi = first + a + c
				}
				if lo < hi {
					vr.Index0 += uint64(lo - vr.First)
					vr.First, vr.Count = lo, hi-lo
					part = append(part, vr)
				}
			}
			op.ValRanges = part
		case 5: // the node answers nothing
			op.ValRanges = nil
		case 6: // lifecycles moved on, indices shifted by one
			op.ValRanges = valRanges(1, true)
		case 7: // the signer offers only part of the accounts; the failing key is not among them
			a := r.Range(0, n-2)
			c := r.Range(1, n-a)
			op.OfferedRanges = [][2]int{{first + a, c}}
			op.Offered = nil
			if a > 0 {
				op.FailOn = first + r.Intn(a)
			} else if a+c < n {
				op.FailOn = first + a + c + r.Intn(n-a-c)
			}
		case 8: // the signer offers nothing (dirk keeps its list), the node fails on a known key
			op.OfferedRanges, op.Offered = nil, nil
			op.FailOn = first + r.Intn(n)
		case 9: // the node fails on a key nobody holds
			op.FailOn = first + n + 5
		case 10: // one wallet is unknown to the signer/store now
			op.Missing = []string{pick(r, []string{w, "V"})}
			if r.Bool() {
				op.FailOn = first + r.Intn(n)
			}
		}
		return op
	}
	query := func() Op {
		op := Op{Kind: "query", Sync: r.Chance(1, 3), Epoch: e + uint64(r.Intn(3))}
		if r.Chance(1, 4) {
			op.ByIndex = true
			a := r.Intn(n)
			op.IndexRanges = [][2]uint64{{index0 + uint64(a), uint64(r.Range(1, n-a))}}
			op.Indices = []uint64{index0 + uint64(n) + 7, 5}
		}
		return op
	}

	// the constructor's refresh: healthy but for one case in eight of the smaller installations
	if n <= 700 && r.Chance(1, 8) {
		in.Ops = append(in.Ops, refresh(pick(r, []int{1, 3, 4, 5, 9})))
	} else {
		in.Ops = append(in.Ops, refresh(0))
	}
	in.Ops = append(in.Ops, Op{Kind: "query", Epoch: e})
	rounds := r.Range(1, 2)
	if n > 700 {
		rounds = 1
	}
	for i := 0; i < rounds; i++ {
		kind := pick(r, []int{1, 1, 1, 1, 2, 2, 3, 4, 4, 5, 6, 7, 8, 9, 10})
		if i == 0 && k%2 == 0 {
			kind = pick(r, []int{1, 2}) // every other large installation: the partial failure comes first
		}
		in.Ops = append(in.Ops, refresh(kind), query())
		if r.Chance(1, 3) {
			in.Ops = append(in.Ops, refresh(0), query())
		}
	}
	return in
}
