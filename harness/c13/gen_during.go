package c13

// Generator family "queries during a refresh": a later refresh of the history gets 1-3 queries
// that land inside it (while the wallets are listed / while the node is asked), the same queries
// are mostly repeated right after it (they must then see the refreshed stores, whatever was
// answered during the refresh) and often made before it as well; the refresh is chosen so that it
// changes something (other accounts offered, lifecycles moved on, indices rotated, ...).

import (
	"reflect"

	. "verifharness/common"
)

func dqOf(op Op, point string) DQ {
	return DQ{Point: point, Sync: op.Sync, Epoch: op.Epoch, ByIndex: op.ByIndex, Indices: op.Indices}
}

func opOf(q DQ) Op {
	return Op{Kind: "query", Sync: q.Sync, Epoch: q.Epoch, ByIndex: q.ByIndex, Indices: q.Indices}
}

func insertOp(ops []Op, at int, op Op) []Op {
	out := make([]Op, 0, len(ops)+1)
	out = append(out, ops[:at]...)
	out = append(out, op)
	return append(out, ops[at:]...)
}

// sameOutcome: the refresh offers and answers what the previous one did
func sameOutcome(a, b Op) bool {
	return reflect.DeepEqual(a.Offered, b.Offered) && reflect.DeepEqual(a.Missing, b.Missing) &&
		a.VErr == b.VErr && a.FailOn == b.FailOn && reflect.DeepEqual(a.Vals, b.Vals)
}

func withDuring(r *Rand, ops []Op, genRefresh func(first bool) Op, genQuery func() Op) []Op {
	// the refresh the queries land in: an existing later one, or a new one
	var later []int
	for i, op := range ops {
		if i > 0 && op.Kind == "refresh" {
			later = append(later, i)
		}
	}
	var at int
	if len(later) == 0 || r.Chance(1, 3) {
		at = r.Range(1, len(ops))
		ops = insertOp(ops, at, genRefresh(false))
	} else {
		at = later[r.Intn(len(later))]
	}
	// mostly a refresh that differs from the one before it
	if r.Chance(4, 5) {
		prev := 0
		for i := at - 1; i >= 0; i-- {
			if ops[i].Kind == "refresh" {
				prev = i
				break
			}
		}
		for try := 0; try < 6 && sameOutcome(ops[at], ops[prev]); try++ {
			ops[at] = genRefresh(false)
		}
	}
	// the queries
	n := r.Range(1, 3)
	var dqs []DQ
	point := func() string {
		if r.Chance(2, 5) {
			return "accounts"
		}
		return "validators"
	}
	for j := 0; j < n; j++ {
		if j > 0 && r.Chance(1, 2) {
			// the same question again, at the other point or at the same one
			q := dqs[r.Intn(len(dqs))]
			q.Point = point()
			dqs = append(dqs, q)
			continue
		}
		q := genQuery()
		if r.Chance(1, 2) {
			q.ByIndex, q.Indices = false, nil // the plain accessors are the ones the duties use most
		}
		dqs = append(dqs, dqOf(q, point()))
	}
	ops[at].During = dqs
	// the same questions after the refresh ...
	var after []Op
	for _, q := range dqs {
		dup := false
		for _, a := range after {
			if reflect.DeepEqual(a, opOf(q)) {
				dup = true
			}
		}
		if !dup && r.Chance(9, 10) {
			after = append(after, opOf(q))
		}
	}
	for i := len(after) - 1; i >= 0; i-- {
		ops = insertOp(ops, at+1, after[i])
	}
	// ... and, half of the time, before it
	if r.Chance(1, 2) {
		ops = insertOp(ops, at, opOf(dqs[r.Intn(len(dqs))]))
	}
	return ops
}
