// C13: drives the real dirk and wallet account managers (verif hook constructors: injected signer
// wallets / wallet stores, no TLS, no filesystem) on top of the real validators manager with a
// scripted beacon node, through histories of refreshes and ...AccountsForEpoch[ByIndex] queries,
// and prints each history with what the implementation did as a Gallina case for Check.C13.
package c13

import (
	"context"
	"fmt"
	"io"
	"sort"
	"strings"
	"testing"

	"github.com/attestantio/go-eth2-client/spec/phase0"
	dirkam "github.com/attestantio/vouch/services/accountmanager/dirk"
	walletam "github.com/attestantio/vouch/services/accountmanager/wallet"
	nullmetrics "github.com/attestantio/vouch/services/metrics/null"
	standardvm "github.com/attestantio/vouch/services/validatorsmanager/standard"
	"github.com/rs/zerolog"
	zerologger "github.com/rs/zerolog/log"
	e2wtypes "github.com/wealdtech/go-eth2-wallet-types/v2"

	. "verifharness/common"
	"verifharness/mocks"
)

const farFuture = ^uint64(0)

type Acct struct {
	ID     int    `json:"id"` // 1..maxKeys; also names the public key
	Wallet string `json:"wallet"`
	Name   string `json:"name"`
	Locked bool   `json:"locked,omitempty"`
}

type Val struct {
	PK      int    `json:"pk"`
	Index   uint64 `json:"index"`
	Elig    uint64 `json:"elig"`
	Act     uint64 `json:"act"`
	Exit    uint64 `json:"exit"`
	Wd      uint64 `json:"wd"`
	Slashed bool   `json:"slashed,omitempty"`
	Bal     uint64 `json:"bal"`
}

type Op struct {
	Kind string `json:"kind"` // refresh | query
	// refresh: which accounts the wallets offer now, which wallets the signer/store does not
	// know at all now (they must not offer anything), and what the node answers
	Offered []int    `json:"offered,omitempty"`
	Missing []string `json:"missing,omitempty"`
	VErr    bool     `json:"verr,omitempty"`
	Vals    []Val    `json:"vals,omitempty"`
	// the node fails every request that names this account's public key (0: none)
	FailOn int `json:"fail_on,omitempty"`
	// large installations: runs of consecutive ids / validators / indices (see big.go)
	OfferedRanges [][2]int    `json:"offered_ranges,omitempty"` // first id, count
	ValRanges     []ValRange  `json:"val_ranges,omitempty"`
	IndexRanges   [][2]uint64 `json:"index_ranges,omitempty"` // first index, count
	// query
	Sync    bool     `json:"sync,omitempty"`
	Epoch   uint64   `json:"epoch,omitempty"`
	ByIndex bool     `json:"by_index,omitempty"`
	Indices []uint64 `json:"indices,omitempty"`
	// refresh (not the constructor's): queries issued from inside it (see during.go)
	During []DQ `json:"during,omitempty"`
}

type Input struct {
	Manager  string   `json:"manager"` // dirk | wallet
	Specs    []string `json:"specs"`
	Universe []Acct   `json:"universe"`
	Ranges   []AcctRange `json:"ranges,omitempty"` // large installations: further accounts, by ranges of ids
	Far      uint64   `json:"far"`
	Ops      []Op     `json:"ops"` // the first one is the constructor's refresh
	Trace    bool     `json:"trace,omitempty"`
	Tags     []string `json:"tags,omitempty"`
}

type Out struct {
	Kind  string      `json:"kind"` // probe | query | ctor-error | dead
	Known []int       `json:"known,omitempty"`
	Pairs [][2]uint64 `json:"pairs,omitempty"`
	// probe: what the queries issued from inside the refresh were answered
	During []DOut `json:"during,omitempty"`
}

type accountsService interface {
	Refresh(ctx context.Context)
	AccountByPublicKey(ctx context.Context, pubkey phase0.BLSPubKey) (e2wtypes.Account, error)
	ValidatingAccountsForEpoch(ctx context.Context, epoch phase0.Epoch) (map[phase0.ValidatorIndex]e2wtypes.Account, error)
	ValidatingAccountsForEpochByIndex(ctx context.Context, epoch phase0.Epoch, indices []phase0.ValidatorIndex) (map[phase0.ValidatorIndex]e2wtypes.Account, error)
	SyncCommitteeAccountsForEpoch(ctx context.Context, epoch phase0.Epoch) (map[phase0.ValidatorIndex]e2wtypes.Account, error)
	SyncCommitteeAccountsForEpochByIndex(ctx context.Context, epoch phase0.Epoch, indices []phase0.ValidatorIndex) (map[phase0.ValidatorIndex]e2wtypes.Account, error)
}

func firstPart(spec string) string { return strings.Split(spec, "/")[0] }

// environment of one run
type env struct {
	in      Input
	node    *node
	signer  map[string]*signerWallet // dirk
	store   *fakeStore               // wallet
	svc     accountsService
	byID    map[int]Acct
	wallets []string // first parts of the specifiers: the wallets the managers open
	ctl     *duringCtl
}

// offer installs what the wallets list from now on.
func (e *env) offer(op Op) {
	offered := map[int]bool{}
	for _, id := range op.Offered {
		offered[id] = true
	}
	missing := map[string]bool{}
	for _, w := range op.Missing {
		missing[w] = true
	}
	perWallet := map[string][]Acct{}
	for _, a := range e.in.Universe {
		if offered[a.ID] && !missing[a.Wallet] {
			perWallet[a.Wallet] = append(perWallet[a.Wallet], a)
		}
	}
	if e.in.Manager == "dirk" {
		for name, w := range e.signer {
			list := make([]*signerAccount, 0, len(perWallet[name]))
			for _, a := range perWallet[name] {
				list = append(list, &signerAccount{id: a.ID, name: a.Name})
			}
			w.set(list)
		}
		return
	}
	e.store.clear()
	seen := map[string]bool{}
	for _, a := range e.in.Universe {
		if !seen[a.Wallet] && !missing[a.Wallet] {
			seen[a.Wallet] = true
			e.store.setWallet(a.Wallet, perWallet[a.Wallet])
		}
	}
	for _, w := range e.wallets {
		if !seen[w] && !missing[w] {
			seen[w] = true
			e.store.setWallet(w, nil)
		}
	}
}

func (e *env) probe(ctx context.Context) []int {
	known := []int{}
	for _, a := range e.in.Universe {
		acc, err := e.svc.AccountByPublicKey(ctx, pubKeys[a.ID])
		if err != nil {
			continue
		}
		// the account handed back must be the one that was offered under this key
		if acc == nil || acc.Name() != a.Name {
			known = append(known, 1000+a.ID)
			continue
		}
		known = append(known, a.ID)
	}
	sort.Ints(known)
	return known
}

func runInput(in Input) (outs []Out, panicked string) {
	in = expand(in)
	initKeys()
	for _, a := range in.Universe {
		ensureKeys(a.ID)
	}
	ctx := context.Background()
	level := zerolog.Disabled
	if in.Trace {
		level = zerolog.TraceLevel
	}
	ctl := &duringCtl{}
	e := &env{in: in, node: &node{ctl: ctl}, byID: map[int]Acct{}, ctl: ctl}
	for _, a := range in.Universe {
		e.byID[a.ID] = a
	}
	seen := map[string]bool{}
	for _, s := range in.Specs {
		if w := firstPart(s); !seen[w] {
			seen[w] = true
			e.wallets = append(e.wallets, w)
		}
	}
	dead := func(n int) {
		for i := 0; i < n; i++ {
			outs = append(outs, Out{Kind: "dead"})
		}
	}
	defer func() {
		if r := recover(); r != nil {
			panicked = fmt.Sprint(r)
		}
	}()

	vm, err := standardvm.New(ctx,
		standardvm.WithLogLevel(level),
		standardvm.WithMonitor(nullmetrics.New()),
		standardvm.WithClientMonitor(nullmetrics.New()),
		standardvm.WithValidatorsProvider(e.node),
		standardvm.WithFarFutureEpoch(phase0.Epoch(in.Far)),
	)
	if err != nil {
		panic(err)
	}
	ct := mocks.NewChainTime(32)
	if len(in.Ops) == 0 || in.Ops[0].Kind != "refresh" {
		panic("the first operation must be the constructor's refresh")
	}
	for i, op := range in.Ops {
		switch op.Kind {
		case "refresh":
			e.node.script(op.VErr, op.FailOn, op.Vals)
			var during []DOut
			if i > 0 {
				e.offer(op)
				during = e.refreshWithDuring(ctx, op)
			} else if in.Manager == "dirk" {
				e.signer = map[string]*signerWallet{}
				injected := map[string]e2wtypes.Wallet{}
				for _, w := range e.wallets {
					e.signer[w] = &signerWallet{name: w, ctl: ctl}
					injected[w] = e.signer[w]
				}
				e.offer(op)
				e.svc = dirkam.NewForVerifC13(ctx, level, injected, in.Specs, 2, vm, phase0.Epoch(in.Far), ct)
			} else {
				e.store = newFakeStore()
				e.store.ctl = ctl
				e.offer(op)
				svc, err := walletam.NewForVerifC13(ctx, level, []e2wtypes.Store{e.store}, in.Specs,
					[][]byte{[]byte("wrong passphrase wrong passphrase"), []byte(goodPassphrase)}, 2, vm, phase0.Epoch(in.Far), ct)
				if err != nil {
					outs = append(outs, Out{Kind: "ctor-error"})
					dead(len(in.Ops) - 1)
					return outs, ""
				}
				e.svc = svc
			}
			outs = append(outs, Out{Kind: "probe", Known: e.probe(ctx), During: during})
		case "query":
			ct.SetEpoch(op.Epoch % 1000000) // exercises the metrics branch (epoch == current epoch) on small epochs
			pairs := e.query(ctx, op.Sync, op.Epoch, op.ByIndex, op.Indices)
			outs = append(outs, Out{Kind: "query", Pairs: pairs})
		default:
			panic("unknown operation kind " + op.Kind)
		}
	}
	return outs, ""
}

// ---------------------------------------------------------------------------------------------
// Gallina.  Elaborating literals dominates the cost of a case file (a 64-bit numeral costs about a
// millisecond, a string 30 microseconds per character), so every distinct string, large number and
// validator record of a case is bound once by a `let` in front of the case term.

type binder struct {
	names map[string]string
	lets  []string
}

func newBinder() *binder { return &binder{names: map[string]string{}} }

func (b *binder) bind(prefix, value string) string {
	if n, ok := b.names[value]; ok {
		return n
	}
	n := fmt.Sprintf("%s%d", prefix, len(b.names))
	b.names[value] = n
	b.lets = append(b.lets, "let "+n+" := "+value+" in ")
	return n
}

// strLit prints a Gallina string literal; unlike common.Str it keeps a line feed (a Coq string
// literal may span lines), which some generated account names contain.
func strLit(s string) string {
	var sb strings.Builder
	sb.WriteByte('"')
	for _, c := range []byte(s) {
		switch {
		case c == '"':
			sb.WriteString(`""`)
		case c == '\n' || (c >= 32 && c < 127):
			sb.WriteByte(c)
		default:
			sb.WriteByte('?')
		}
	}
	sb.WriteString(`"%string`)
	return sb.String()
}

func (b *binder) S(s string) string { return b.bind("s", strLit(s)) }

func (b *binder) Num(x uint64) string {
	switch {
	case x == farFuture:
		return "FF"
	case x < 1024:
		return fmt.Sprintf("%d", x)
	default:
		return b.bind("n", fmt.Sprintf("%d", x))
	}
}

func (b *binder) V(v Val) string {
	return b.bind("v", App("Build_val", b.Num(uint64(v.PK)), b.Num(v.Index), b.Num(v.Elig), b.Num(v.Act), b.Num(v.Exit), b.Num(v.Wd), Bool(v.Slashed), b.Num(v.Bal)))
}

func (b *binder) wrap(body string) string {
	return "(" + strings.Join(b.lets, "") + body + ")"
}

func (b *binder) nList(xs []int) string {
	items := make([]string, 0, len(xs))
	for _, x := range xs {
		items = append(items, b.Num(uint64(x)))
	}
	return List(items)
}

func (b *binder) uList(xs []uint64) string {
	items := make([]string, 0, len(xs))
	for _, x := range xs {
		items = append(items, b.Num(x))
	}
	return List(items)
}

func term(id uint64, in Input, outs []Out) (string, error) {
	b := newBinder()
	table, err := parseTable(b, in.Specs)
	if err != nil {
		return "", err
	}
	specs := make([]string, 0, len(in.Specs))
	for _, s := range in.Specs {
		specs = append(specs, b.S(s))
	}
	universe := make([]string, 0, len(in.Universe))
	for _, a := range in.Universe {
		universe = append(universe, App("Build_account", b.Num(uint64(a.ID)), b.S(a.Wallet), b.S(a.Name), Bool(a.Locked)))
	}
	mgr := "Dirk"
	if in.Manager == "wallet" {
		mgr = "Wallet"
	}
	uni := List(universe)
	for _, rg := range in.Ranges {
		uni += " ++ " + App("range_accounts", b.S(rg.Wallet), b.S(rg.Prefix), b.Num(uint64(rg.First)), b.Num(uint64(rg.Count)), Bool(rg.Locked))
	}
	cfg := App("Build_config", mgr, List(specs), "("+uni+")", b.Num(in.Far))
	ops := make([]string, 0, len(in.Ops))
	for _, op := range in.Ops {
		if op.Kind == "refresh" {
			vo := "VErr"
			if !op.VErr {
				vals := make([]string, 0, len(op.Vals))
				for _, v := range op.Vals {
					vals = append(vals, b.V(v))
				}
				vl := List(vals)
				for _, vr := range op.ValRanges {
					vl += " ++ " + App("range_vals", b.Num(uint64(vr.First)), b.Num(uint64(vr.Count)), b.Num(vr.Index0),
						b.Num(vr.Elig), b.Num(vr.Act), b.Num(vr.Exit), b.Num(vr.Wd), Bool(vr.Slashed), b.Num(vr.Bal))
				}
				if op.FailOn > 0 {
					vo = App("VFailOn", b.Num(uint64(op.FailOn)), "("+vl+")")
				} else {
					vo = App("VOk", "("+vl+")")
				}
			}
			// a wallet the signer/store does not know offers nothing
			missing := map[string]bool{}
			for _, w := range op.Missing {
				missing[w] = true
			}
			offered := []int{}
			byID := map[int]Acct{}
			for _, a := range in.Universe {
				byID[a.ID] = a
			}
			for _, k := range op.Offered {
				if a, ok := byID[k]; ok && !missing[a.Wallet] {
					offered = append(offered, k)
				}
			}
			off := b.nList(offered)
			for _, rg := range op.OfferedRanges {
				// the ranges of a wallet the signer/store does not know offer nothing
				for _, part := range splitByWallet(in, rg) {
					if !missing[part.wallet] {
						off += " ++ " + App("range_N", b.Num(uint64(part.first)), b.Num(uint64(part.count)))
					}
				}
			}
			ops = append(ops, App("Refresh", "("+off+")", vo))
		} else {
			idx := None()
			if op.ByIndex {
				il := b.uList(op.Indices)
				for _, rg := range op.IndexRanges {
					il += " ++ " + App("range_N", b.Num(rg[0]), b.Num(rg[1]))
				}
				idx = Some("(" + il + ")")
			}
			ops = append(ops, App("Query", Bool(op.Sync), b.Num(op.Epoch), idx))
		}
	}
	os := make([]string, 0, len(outs))
	for _, o := range outs {
		switch o.Kind {
		case "probe":
			os = append(os, App("OProbe", b.runsN(o.Known)))
		case "query":
			os = append(os, App("OQuery", b.runsPairs(o.Pairs)))
		case "ctor-error":
			os = append(os, "OCtorErr")
		default:
			os = append(os, "ODead")
		}
	}
	return b.wrap(App("Build_case", fmt.Sprintf("%d", id), cfg, table, List(ops), List(os), b.duringTerm(in, outs))), nil
}

// tagsOf computes the input families from the input alone.
func tagsOf(in Input) []string {
	tags := append([]string{}, in.Tags...)
	add := func(t string) {
		for _, x := range tags {
			if x == t {
				return
			}
		}
		tags = append(tags, t)
	}
	add("manager:" + in.Manager)
	if n := len(expand(in).Universe); n > maxKeys {
		add("large-installation")
		if n > 512 {
			add("large-installation:over-512")
		}
	}
	for _, s := range in.Specs {
		parts := strings.Split(s, "/")
		for i, p := range parts {
			if i < 2 && hasTopLevelAlternation(p) {
				add("alternation")
				if q := strings.TrimSuffix(strings.TrimPrefix(p, "^"), "$"); strings.HasPrefix(q, "(") && strings.HasSuffix(q, ")") {
					add("alternation-of-groups")
				}
			}
			if i < 2 && endsWithEscapedDollar(p) {
				add("escaped-dollar")
			}
		}
		if strings.ContainsAny(s, "^$") {
			add("anchors")
		}
		if isDegenerateSpec(s) {
			add("degenerate-part")
		}
		if len(parts) == 1 || parts[1] == "" {
			add("wallet-only")
		}
		if len(parts) > 2 {
			add("extra-slash")
		}
	}
	refreshes := 0
	for _, op := range in.Ops {
		if op.Kind == "refresh" {
			refreshes++
			if refreshes > 1 && len(op.Offered) == 0 {
				add("empty-account-refresh")
			}
			if refreshes > 1 && (op.VErr || len(op.Vals)+len(op.ValRanges) == 0) {
				add("empty-validator-refresh")
			}
			if op.FailOn > 0 && !op.VErr {
				add("node-fails-on-key")
			}
			if len(op.During) > 0 {
				add("query-during-refresh")
			}
			for _, v := range op.Vals {
				if v.Slashed && v.Exit == in.Far {
					add("slashed-without-exit")
				}
			}
		} else if op.Epoch >= in.Far {
			add("epoch-far")
		}
	}
	return tags
}

// traceSafe: trace logging may be switched on for this input.  Before repository commit "fix: log
// the wallets being refreshed once ..." the wallet manager, at trace level with two or more
// wallets, reused a zerolog event after Msg had recycled it, which corrupts zerolog's event pool
// for the whole process (random panics in later, unrelated log calls).  That defect is not C13's
// subject, so the harness keeps away from it.
func traceSafe(in Input) bool {
	if in.Manager != "wallet" {
		return true
	}
	first := map[string]bool{}
	for _, s := range in.Specs {
		first[firstPart(s)] = true
	}
	return len(first) <= 1
}

func TestC13(t *testing.T) {
	zerologger.Logger = zerologger.Output(io.Discard)
	col := NewCollector("C13", "Check.C13",
		"histories of a constructor refresh plus 1-8 refreshes/queries on the real dirk or wallet account manager over 1-5 specifiers, 2-12 offered accounts and their validators (one case in 50: a large installation of 60-1500 accounts written by ranges, with a node that fails the requests naming one key, answers in part, or fails wholesale); non-trivial = some account was admitted and (some offered account was refused or some query answered with a non-empty set); distinct by input text")
	col.ShardSize = 150 // elaborating a case costs ~20 ms in coqc; small shards are evaluated in parallel
	n := EnvInt("VERIF_N", 800)
	var ins []Input
	for _, in := range LoadInputs[Input]("C13") {
		in.Tags = append(in.Tags, "corpus")
		ins = append(ins, in)
	}
	// common.NewRand(seed) starts the additive generator at seed*G+c and every draw adds G, so the
	// streams of seeds k and k+1 are the same stream shifted by one draw: with one Fork per case,
	// seed k+1 would replay the cases of seed k from the second one on.  Re-seeding from the first
	// (mixed) output gives every seed a case set of its own.
	rng := NewRand(NewRand(Seed()).U64())
	thorough := strings.HasPrefix(strings.ToLower(getenv("VERIF_TIER")), "thorough") || getenv("VERIF_SEARCH") != ""
	for i := 0; i < n; i++ {
		var in Input
		if r := rng.Fork(); i%bigEvery == bigEvery/2 {
			// a large installation every bigEvery cases, so that the shards share their cost
			in = genBig(r, i/bigEvery)
		} else {
			in = gen(r)
		}
		if thorough && i%2 == 1 && traceSafe(in) {
			in.Trace = true
		}
		ins = append(ins, in)
	}
	for _, in := range ins {
		outs, panicked := runInput(in)
		tags := tagsOf(in)
		if panicked != "" {
			col.Note(fmt.Sprintf("panic on case %d: %s", col.NextID(), panicked))
			tags = append(tags, "panic")
			// pad: the case then disagrees with the model, which never panics
			for len(outs) < len(in.Ops) {
				outs = append(outs, Out{Kind: "dead"})
			}
		}
		id := col.NextID()
		tm, err := term(id, in, outs)
		if err != nil {
			t.Fatalf("case %d: %v", id, err)
		}
		admitted, refused, answered := false, false, false
		flat := expand(in)
		for i, o := range outs {
			switch o.Kind {
			case "probe":
				if len(o.Known) > 0 {
					admitted = true
				}
				if len(o.Known) < len(flat.Ops[i].Offered) {
					refused = true
				}
			case "query":
				if len(o.Pairs) > 0 {
					answered = true
				}
			}
		}
		col.Count("manager:" + in.Manager)
		for _, tg := range tags {
			if strings.HasPrefix(tg, "alternation") || strings.HasPrefix(tg, "large-installation") || strings.HasPrefix(tg, "node-fails") || strings.HasPrefix(tg, "big:") || tg == "query-during-refresh" || tg == "degenerate-part" {
				col.Count("family:" + tg)
			}
		}
		col.Count(fmt.Sprintf("specs:%d", len(in.Specs)))
		for _, op := range in.Ops {
			col.Count("op:" + op.Kind)
			for _, q := range op.During {
				col.Count("query-during-refresh:" + q.Point)
			}
			if op.Kind == "query" {
				k := "validating"
				if op.Sync {
					k = "sync"
				}
				if op.ByIndex {
					k += "-by-index"
				}
				col.Count("query:" + k)
			}
		}
		if admitted {
			col.Count("some-admitted")
		}
		if refused {
			col.Count("some-refused")
		}
		if answered {
			col.Count("some-nonempty-answer")
		}
		key := fmt.Sprintf("%v", struct {
			M string
			S []string
			U []Acct
			R []AcctRange
			O []Op
		}{in.Manager, in.Specs, in.Universe, in.Ranges, in.Ops})
		col.Add(Case{Term: tm, Key: key, Nontrivial: admitted && (refused || answered), Tags: tags,
			Sample: map[string]any{"input": in, "observed": outs}})
	}
	if err := col.Flush(); err != nil {
		t.Fatal(err)
	}
}
