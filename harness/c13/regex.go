package c13

// The parse oracle shipped with every case: each part text the account managers may splice into
// their pattern is split at its top-level `|` (the harness's own scanner: Go's parser factors
// alternations, so its tree cannot be used to find them) and every alternative is parsed
// standalone with Go's regexp/syntax (Perl flags, as regexp.Compile uses) and printed as a
// Lib.RegexM.re term.

import (
	"fmt"
	"regexp/syntax"
	"strings"

	. "verifharness/common"
)

// splitTopLevel splits a regular-expression text at every `|` that is outside parentheses,
// character classes and escapes.
func splitTopLevel(text string) []string {
	var parts []string
	depth, start := 0, 0
	inClass := false
	classStart := 0
	for i := 0; i < len(text); i++ {
		c := text[i]
		switch {
		case c == '\\':
			i++ // skip the escaped character
		case inClass:
			switch {
			case c == ']' && i > classStart:
				inClass = false
			case c == '[' && i+1 < len(text) && text[i+1] == ':':
				// [:alpha:] inside a class: skip to the closing :]
				if j := strings.Index(text[i:], ":]"); j >= 0 {
					i += j + 1
				}
			}
		case c == '[':
			inClass = true
			classStart = i + 1
			if classStart < len(text) && text[classStart] == '^' {
				classStart++
			}
		case c == '(':
			depth++
		case c == ')':
			if depth > 0 {
				depth--
			}
		case c == '|' && depth == 0:
			parts = append(parts, text[start:i])
			start = i + 1
		}
	}
	return append(parts, text[start:])
}

func hasTopLevelAlternation(text string) bool { return len(splitTopLevel(text)) > 1 }

type unsupported struct{ what string }

func (u unsupported) Error() string { return "unsupported regular expression construct: " + u.what }

func printable(c rune) bool { return c >= 32 && c < 127 }

func seqOf(items []string) string {
	if len(items) == 0 {
		return "Eps"
	}
	res := items[len(items)-1]
	for i := len(items) - 2; i >= 0; i-- {
		res = "(Seq " + items[i] + " " + res + ")"
	}
	return res
}

func altOf(items []string) string {
	if len(items) == 0 {
		return "Void"
	}
	res := items[len(items)-1]
	for i := len(items) - 2; i >= 0; i-- {
		res = "(Alt " + items[i] + " " + res + ")"
	}
	return res
}

// toGallina prints a parsed expression as a Lib.RegexM.re term.
func toGallina(b *binder, r *syntax.Regexp) (string, error) {
	if r.Flags&syntax.FoldCase != 0 {
		return "", unsupported{"case folding"}
	}
	subs := func() ([]string, error) {
		out := make([]string, 0, len(r.Sub))
		for _, s := range r.Sub {
			t, err := toGallina(b, s)
			if err != nil {
				return nil, err
			}
			out = append(out, t)
		}
		return out, nil
	}
	switch r.Op {
	case syntax.OpNoMatch:
		return "Void", nil
	case syntax.OpEmptyMatch:
		return "Eps", nil
	case syntax.OpLiteral:
		for _, c := range r.Rune {
			if !printable(c) {
				return "", unsupported{"literal outside printable ASCII"}
			}
		}
		if len(r.Rune) == 1 {
			return fmt.Sprintf("(Chr %d)", r.Rune[0]), nil
		}
		return "(lit " + b.S(string(r.Rune)) + ")", nil
	case syntax.OpCharClass:
		ranges := make([]string, 0, len(r.Rune)/2)
		for i := 0; i+1 < len(r.Rune); i += 2 {
			ranges = append(ranges, Pair(b.Num(uint64(r.Rune[i])), b.Num(uint64(r.Rune[i+1]))))
		}
		return "(Cls " + List(ranges) + ")", nil
	case syntax.OpAnyCharNotNL:
		return "Dot", nil
	case syntax.OpAnyChar:
		return "AnyC", nil
	case syntax.OpBeginText:
		return "Bol", nil
	case syntax.OpEndText:
		return "Eol", nil
	case syntax.OpCapture:
		return toGallina(b, r.Sub[0])
	case syntax.OpStar:
		s, err := toGallina(b, r.Sub[0])
		if err != nil {
			return "", err
		}
		return "(Star " + s + ")", nil
	case syntax.OpPlus:
		s, err := toGallina(b, r.Sub[0])
		if err != nil {
			return "", err
		}
		return "(Seq " + s + " (Star " + s + "))", nil
	case syntax.OpQuest:
		s, err := toGallina(b, r.Sub[0])
		if err != nil {
			return "", err
		}
		return "(Alt " + s + " Eps)", nil
	case syntax.OpRepeat:
		s, err := toGallina(b, r.Sub[0])
		if err != nil {
			return "", err
		}
		if r.Min > 8 || r.Max > 8 {
			return "", unsupported{"repetition count above 8"}
		}
		items := make([]string, 0, 8)
		for i := 0; i < r.Min; i++ {
			items = append(items, s)
		}
		if r.Max < 0 {
			items = append(items, "(Star "+s+")")
		} else {
			for i := r.Min; i < r.Max; i++ {
				items = append(items, "(Alt "+s+" Eps)")
			}
		}
		return seqOf(items), nil
	case syntax.OpConcat:
		items, err := subs()
		if err != nil {
			return "", err
		}
		return seqOf(items), nil
	case syntax.OpAlternate:
		items, err := subs()
		if err != nil {
			return "", err
		}
		return altOf(items), nil
	default:
		return "", unsupported{r.Op.String()}
	}
}

// parsePart is the oracle's answer for one part text: "None" when the text does not compile,
// "(Some [alternatives])" otherwise.  An unsupported construct is an error of the harness input.
func parsePart(b *binder, text string) (string, error) {
	if strings.Contains(text, "(?") && !strings.Contains(text, "(?:") {
		return "", unsupported{"flag group"}
	}
	if strings.Contains(text, `\Q`) {
		return "", unsupported{`\Q quoting`}
	}
	if _, err := syntax.Parse(text, syntax.Perl); err != nil {
		return None(), nil
	}
	alts := splitTopLevel(text)
	terms := make([]string, 0, len(alts))
	for _, a := range alts {
		re, err := syntax.Parse(a, syntax.Perl)
		if err != nil {
			return None(), nil
		}
		t, err := toGallina(b, re)
		if err != nil {
			return "", err
		}
		terms = append(terms, t)
	}
	return Some(List(terms)), nil
}

// partTexts lists every text the managers (and the specification) look up for a specifier: of
// the first two `/`-separated components the text as written, without a leading ^, and without
// both anchors; the `.*` default.
func partTexts(spec string) []string {
	parts := strings.Split(spec, "/")
	strip := func(p string) string { return strings.TrimSuffix(strings.TrimPrefix(p, "^"), "$") }
	stripAnchor := func(p string) string {
		p = strings.TrimPrefix(p, "^")
		if endsWithEscapedDollar(p) {
			return p
		}
		return strings.TrimSuffix(p, "$")
	}
	out := []string{".*", parts[0], strip(parts[0]), stripAnchor(parts[0])}
	if len(parts) > 1 {
		out = append(out, strings.TrimPrefix(parts[1], "^"), strip(parts[1]), stripAnchor(parts[1]))
	}
	return out
}

// endsWithEscapedDollar: the text ends with a `$` preceded by an odd number of backslashes, i.e. a
// literal dollar sign (the harness's own scanner).
func endsWithEscapedDollar(p string) bool {
	if !strings.HasSuffix(p, "$") {
		return false
	}
	n := 0
	for i := len(p) - 2; i >= 0 && p[i] == '\\'; i-- {
		n++
	}
	return n%2 == 1
}

// parseTable prints the oracle for a list of specifiers.
func parseTable(b *binder, specs []string) (string, error) {
	seen := map[string]bool{}
	var entries []string
	for _, s := range specs {
		for _, t := range partTexts(s) {
			if seen[t] {
				continue
			}
			seen[t] = true
			p, err := parsePart(b, t)
			if err != nil {
				return "", fmt.Errorf("specifier %q part %q: %w", s, t, err)
			}
			entries = append(entries, Pair(b.S(t), p))
		}
	}
	return List(entries), nil
}
