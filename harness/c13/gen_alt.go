package c13

// Structured alternations.  utils.GroupAlternatives decides from the TEXT of a specifier part
// whether its alternatives must be enclosed before the part is spliced between the anchors.  Any
// textual shortcut in that decision ("already starts with ( and ends with )", "the | is inside a
// class", "the | is escaped") is wrong for some shape of alternation, so the generator composes
// alternations from alternatives that are themselves grouped, classes, or contain escapes, and
// offers, for every alternative, the names that only an escaped anchor admits: the first
// alternative extended to the right (^W/first...), the last one extended to the left (...last$).

import (
	"strings"

	. "verifharness/common"
)

// an alternative: its text and a name it matches as a whole
type altAtom struct{ text, name string }

var altAtoms = []altAtom{
	{"a", "a"}, {"b", "b"}, {"acc", "acc"}, {"val", "val"},
	{"val-a", "val-a"}, {"val-b", "val-b"},
	{"acc[0-9]", "acc1"}, {"val-[0-9]", "val-2"}, {"test-[0-9]", "test-7"},
	{"Validator1", "Validator1"}, {"Validator[0-9]+", "Validator12"},
	{`a\.b`, "a.b"}, {"a.*", "axx"}, {"ab?", "a"},
}

// alternatives that begin and end with a class, or contain an escaped backslash / bar / parenthesis
var altAtomsTextual = []altAtom{
	{"[ab]", "a"}, {"[cd]", "d"}, {"[0-9]x[0-9]", "1x2"}, {"[v]al[1-3]", "val2"},
	{`a\\`, `a\`}, {`\\b`, `\b`}, {`a\|b`, "a|b"}, {`c\|`, "c|"}, {`\(a\)`, "(a)"}, {`\[b\]`, "[b]"},
}

// how one alternative is written
func wrapAlt(kind int, text string) string {
	switch kind {
	case 1:
		return "(" + text + ")"
	case 2:
		return "(?:" + text + ")"
	case 3:
		return "((" + text + "))"
	default:
		return text
	}
}

// genAlternation composes a part with a top-level alternation of 2-3 alternatives.
func genAlternation(r *Rand) accountPart {
	n := 2
	if r.Chance(1, 3) {
		n = 3
	}
	pool := altAtoms
	textual := r.Chance(4, 10)
	if textual {
		pool = altAtomsTextual
	}
	perm := r.Perm(len(pool))
	atoms := make([]altAtom, 0, n)
	for i := 0; i < n; i++ {
		atoms = append(atoms, pool[perm[i]])
	}
	// which alternatives are groups
	kinds := make([]int, n)
	g := 1
	if r.Chance(1, 4) {
		g = 2
	}
	if r.Chance(1, 12) {
		g = 3
	}
	k := r.Intn(100)
	if textual && r.Chance(3, 4) {
		k = 99 // the classes / escapes are what the part begins and ends with
	}
	switch {
	case k < 45: // a group per alternative: (a)|(b)
		for i := range kinds {
			kinds[i] = g
		}
	case k < 60: // the first and the last only: (a)|b|(c)
		kinds[0], kinds[n-1] = g, g
	case k < 70: // only the first
		kinds[0] = g
	case k < 80: // only the last
		kinds[n-1] = g
	case k < 88: // mixed capturing and non-capturing
		for i := range kinds {
			kinds[i] = 1 + r.Intn(2)
		}
	default: // none
	}
	texts := make([]string, 0, n)
	for i, a := range atoms {
		texts = append(texts, wrapAlt(kinds[i], a.text))
	}
	part := accountPart{text: strings.Join(texts, "|")}
	for _, a := range atoms {
		part.names = append(part.names, a.name)
	}
	first, last := atoms[0].name, atoms[n-1].name
	part.names = append(part.names, first+"x", first+"-retired", "x"+last, "old-"+last, "x"+first+"x", "zz")
	if n == 3 {
		part.names = append(part.names, atoms[1].name+"x", "x"+atoms[1].name)
	}
	return part
}

// alternations whose text misleads a scanner that does not parse: the | next to a class, an
// escaped backslash or an escaped |, an empty alternative, groups that do not span the part.
var trickyAlternationParts = []accountPart{
	{"(val-a)|(val-b)", []string{"val-a", "val-b", "val-a-retired", "old-val-b", "val-c"}},
	{"(a)x|y(b)", []string{"ax", "yb", "axz", "zyb", "a", "b"}},
	{"(a)|b|(c)", []string{"a", "b", "c", "ax", "xc", "xbx"}},
	{"(a|b)|c", []string{"a", "b", "c", "ax", "xc", "cx"}},
	{"a|(b|c)", []string{"a", "b", "c", "ax", "xc", "xb"}},
	{"(a|b)|(c|d)", []string{"a", "d", "ax", "bx", "xc", "xd"}},
	{"((a)|(b))", []string{"a", "b", "ax", "xb"}},
	{"(?:a)|(?:b)", []string{"a", "b", "ax", "xb"}},
	{"[ab]|[cd]", []string{"a", "d", "ax", "xd", "bc"}},
	{"[a|b]|[c|d]", []string{"a", "|", "d", "ax", "xd", "a|b"}},
	{"[(]a|b[)]", []string{"(a", "b)", "(ax", "xb)", "a"}},
	{`\(a|b\)`, []string{"(a", "b)", "(ax", "xb)", "b"}},
	{`a\\|b`, []string{`a\`, "b", `a\x`, "xb", `a\|b`}},
	{`a\|b|c`, []string{"a|b", "c", "a|bx", "xc", "a"}},
	{`a|b\|c`, []string{"a", "b|c", "ax", "xb|c", "b"}},
	{"a|", []string{"a", "", "ax", "x"}},
	{"|b", []string{"b", "", "xb", "x"}},
	{"a||b", []string{"a", "b", "", "ax", "xb"}},
	{"(a)|", []string{"a", "", "ax", "x"}},
	{"a{1,2}|b{2}", []string{"a", "aa", "bb", "aaa", "xbb", "b"}},
}

// genAlternationPart: an account (or wallet) part with a top-level alternation.
func genAlternationPart(r *Rand) accountPart {
	switch k := r.Intn(100); {
	case k < 25:
		return pick(r, alternationParts)
	case k < 50:
		return pick(r, trickyAlternationParts)
	default:
		return genAlternation(r)
	}
}

// groupedWalletPart writes the wallet part as an alternation of the wallets with a group per
// alternative (the wallet manager matches every pattern against every wallet it opened, so the
// first alternative escaping the anchor admits every account of that wallet).
func groupedWalletPart(r *Rand, a, b string) string {
	g := 1 + r.Intn(2)
	switch r.Intn(4) {
	case 0:
		return wrapAlt(g, a) + "|" + b
	case 1:
		return a + "|" + wrapAlt(g, b)
	default:
		return wrapAlt(g, a) + "|" + wrapAlt(g, b)
	}
}

// swapCase changes the case of the first letter of the text (the text itself when it has none).
func swapCase(s string) string {
	for i := 0; i < len(s); i++ {
		c := s[i]
		switch {
		case c >= 'a' && c <= 'z':
			return s[:i] + string(c-32) + s[i+1:]
		case c >= 'A' && c <= 'Z':
			return s[:i] + string(c+32) + s[i+1:]
		}
	}
	return s
}

// blank puts a space in front of or behind a specifier part (a part is used as written: neither
// manager trims it).
func blank(r *Rand, part string) string {
	if r.Bool() {
		return " " + part
	}
	return part + " "
}
