package c13

// Queries that land WHILE a refresh is in progress.  Refresh is slow (it talks to the signer and
// to the beacon node) and holds no lock while it waits, so the duties' requests for the accounts
// of an epoch arrive in the middle of it.  The fakes of this harness call back into the harness
// the first time a refresh lists a wallet ("accounts": nothing has been replaced yet) and the
// first time it asks the node for validators ("validators": the accounts have been replaced, the
// validators have not); the harness then calls the accessors from another goroutine -- as a duty
// would -- and lets the refresh go on when the answer is there.  A call that does not return (an
// implementation that holds a lock during the whole refresh) is waited for only after Refresh has
// returned; its answer must then be that of the finished refresh.

import (
	"context"
	"fmt"
	"sort"
	"sync"
	"sync/atomic"
	"time"

	"github.com/attestantio/go-eth2-client/spec/phase0"
	e2wtypes "github.com/wealdtech/go-eth2-wallet-types/v2"

	. "verifharness/common"
)

// DQ is one query issued from inside a refresh.
type DQ struct {
	Point   string   `json:"point"` // accounts | validators
	Sync    bool     `json:"sync,omitempty"`
	Epoch   uint64   `json:"epoch,omitempty"`
	ByIndex bool     `json:"by_index,omitempty"`
	Indices []uint64 `json:"indices,omitempty"`
}

// DOut is what was observed for it.
type DOut struct {
	State string      `json:"state"` // answer | blocked-answer | unreached | skipped
	Pairs [][2]uint64 `json:"pairs,omitempty"`
}

// how long a call from inside a refresh may take before it is taken to wait for the refresh
const blockTimeout = 10 * time.Second

// once a call has been seen to wait for the refresh, the calls from inside later refreshes are
// not issued any more (the run would take blockTimeout for each of them)
var blockedSeen atomic.Bool

type duringCtl struct {
	mu    sync.Mutex
	armed bool
	fired map[string]bool
	run   func(point string)
}

func (d *duringCtl) arm(run func(point string)) {
	d.mu.Lock()
	d.armed, d.fired, d.run = true, map[string]bool{}, run
	d.mu.Unlock()
}

func (d *duringCtl) disarm() {
	d.mu.Lock()
	d.armed, d.run = false, nil
	d.mu.Unlock()
}

// fire is called by the fakes; the first call per point and refresh runs the queries.
func (d *duringCtl) fire(point string) {
	if d == nil {
		return
	}
	d.mu.Lock()
	if !d.armed || d.fired[point] {
		d.mu.Unlock()
		return
	}
	d.fired[point] = true
	run := d.run
	d.mu.Unlock()
	run(point)
}

type queryResult struct {
	pairs    [][2]uint64
	panicked string
}

// query calls one of the four accessors and projects the answer: (validator index, account id)
// sorted; id 0 = a nil account or one that was never offered under that key and name.
func (e *env) query(ctx context.Context, sync bool, epoch uint64, byIndex bool, indices []uint64) [][2]uint64 {
	var res map[phase0.ValidatorIndex]e2wtypes.Account
	var err error
	idx := make([]phase0.ValidatorIndex, 0, len(indices))
	for _, x := range indices {
		idx = append(idx, phase0.ValidatorIndex(x))
	}
	switch {
	case !sync && !byIndex:
		res, err = e.svc.ValidatingAccountsForEpoch(ctx, phase0.Epoch(epoch))
	case !sync && byIndex:
		res, err = e.svc.ValidatingAccountsForEpochByIndex(ctx, phase0.Epoch(epoch), idx)
	case sync && !byIndex:
		res, err = e.svc.SyncCommitteeAccountsForEpoch(ctx, phase0.Epoch(epoch))
	default:
		res, err = e.svc.SyncCommitteeAccountsForEpochByIndex(ctx, phase0.Epoch(epoch), idx)
	}
	if err != nil {
		panic(fmt.Sprintf("query error: %v", err))
	}
	pairs := make([][2]uint64, 0, len(res))
	for index, acc := range res {
		id := uint64(0)
		if acc != nil {
			var pk phase0.BLSPubKey
			copy(pk[:], acc.PublicKey().Marshal())
			if k, ok := pkToID[pk]; ok && e.byID[k].Name == acc.Name() {
				id = uint64(k)
			}
		}
		pairs = append(pairs, [2]uint64{uint64(index), id})
	}
	sort.Slice(pairs, func(i, j int) bool {
		if pairs[i][0] != pairs[j][0] {
			return pairs[i][0] < pairs[j][0]
		}
		return pairs[i][1] < pairs[j][1]
	})
	return pairs
}

// refreshWithDuring runs Refresh with the op's during-queries issued at their points.
func (e *env) refreshWithDuring(ctx context.Context, op Op) []DOut {
	outs := make([]DOut, len(op.During))
	for j := range outs {
		outs[j].State = "unreached"
	}
	if len(op.During) == 0 {
		e.svc.Refresh(ctx)
		return outs
	}
	type pending struct {
		j  int
		ch chan queryResult
	}
	var mu sync.Mutex
	var waiting []pending
	var panicked string
	e.ctl.arm(func(point string) {
		for j, q := range op.During {
			if q.Point != point {
				continue
			}
			if blockedSeen.Load() {
				mu.Lock()
				outs[j].State = "skipped"
				mu.Unlock()
				continue
			}
			ch := make(chan queryResult, 1)
			go func(q DQ) {
				defer func() {
					if r := recover(); r != nil {
						ch <- queryResult{panicked: fmt.Sprint(r)}
					}
				}()
				ch <- queryResult{pairs: e.query(ctx, q.Sync, q.Epoch, q.ByIndex, q.Indices)}
			}(q)
			select {
			case r := <-ch:
				mu.Lock()
				if r.panicked != "" {
					panicked = r.panicked
				}
				outs[j] = DOut{State: "answer", Pairs: r.pairs}
				mu.Unlock()
			case <-time.After(blockTimeout):
				blockedSeen.Store(true)
				mu.Lock()
				waiting = append(waiting, pending{j, ch})
				mu.Unlock()
			}
		}
	})
	e.svc.Refresh(ctx)
	e.ctl.disarm()
	mu.Lock()
	defer mu.Unlock()
	for _, p := range waiting {
		select {
		case r := <-p.ch:
			if r.panicked != "" {
				panicked = r.panicked
			}
			outs[p.j] = DOut{State: "blocked-answer", Pairs: r.pairs}
		case <-time.After(3 * blockTimeout):
			panic("a query issued during a refresh never returned")
		}
	}
	if panicked != "" {
		panic("query during refresh: " + panicked)
	}
	return outs
}

// duringTerm prints c_during: every during-query that was issued or found its point unreached.
func (b *binder) duringTerm(in Input, outs []Out) string {
	var items []string
	for i, op := range in.Ops {
		if op.Kind != "refresh" || len(op.During) == 0 || i >= len(outs) {
			continue
		}
		for j, q := range op.During {
			pt := "AtAccounts"
			if q.Point == "validators" {
				pt = "AtValidators"
			}
			idx := None()
			if q.ByIndex {
				idx = Some(b.uList(q.Indices))
			}
			dq := App("Build_dquery", fmt.Sprintf("%d%%nat", i), pt, Bool(q.Sync), b.Num(q.Epoch), idx)
			obs := "DNone"
			if j < len(outs[i].During) {
				switch o := outs[i].During[j]; o.State {
				case "answer":
					obs = App("DAnswer", "false", b.runsPairs(o.Pairs))
				case "blocked-answer":
					obs = App("DAnswer", "true", b.runsPairs(o.Pairs))
				case "skipped":
					continue
				}
			}
			items = append(items, Pair(dq, obs))
		}
	}
	return List(items)
}
