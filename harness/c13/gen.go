package c13

// Generators.  Families (DESIGN 6b, C13): names extending / truncating / equal to what a specifier
// says (plain, wallet-only, regular expressions, with and without anchors, top-level alternation,
// invalid expressions); validator lifecycles around each epoch boundary (activation, exit,
// withdrawable; slashed or not; balance zero or not); two validators whose indices are swapped by
// a later refresh; empty / failing / partial refreshes of accounts and of the validator set after
// a full one.

import (
	"os"
	"sort"
	"strings"

	. "verifharness/common"
)

func getenv(k string) string { return os.Getenv(k) }

const maxEpoch = uint64(1)<<63 - 1

// share (%) of the generated histories in which queries land inside a refresh
const duringShare = 40

type accountPart struct {
	text  string
	names []string
}

var accountParts = []accountPart{
	{"acc", []string{"acc", "accx", "xacc", "ac"}},
	{"a", []string{"a", "ax", "xa", "aa"}},
	{"Validator1", []string{"Validator1", "Validator12", "Validator", "xValidator1"}},
	{"a.*", []string{"a", "abc", "xa", "ba"}},
	{".*b", []string{"b", "ab", "bx", "abx"}},
	{"a.*b[abc]{1}", []string{"aba", "axxbc", "abd", "ab", "xaba", "abax"}},
	{"Validator.*[02468]", []string{"Validator2", "Validator10", "Validator1", "Validator", "xValidator2", "Validator2x"}},
	{"Validator[0-9]+", []string{"Validator1", "Validator12", "Validator", "Validator1x"}},
	{`acc\d*`, []string{"acc", "acc1", "acc12", "accx", "acc1x"}},
	{"[ab]+", []string{"a", "ab", "abba", "abc", "c"}},
	{"a?b", []string{"b", "ab", "aab", "a"}},
	{"(a|b)x", []string{"ax", "bx", "x", "abx", "axx"}},
	{"(?:acc|val)-[0-9]", []string{"acc-1", "val-2", "acc-", "xval-2", "val-22"}},
	{`a\.b`, []string{"a.b", "axb", "a.bx"}},
	{"a.b", []string{"a.b", "axb", "ab", "a.bx"}},
	{".*", []string{"anything", "x"}},
	{"[^x]*", []string{"abc", "axc", "b"}},
	{"a{2,3}", []string{"a", "aa", "aaa", "aaaa"}},
	{"a+b*", []string{"a", "aab", "b", "abx", "aabb"}},
	{"my account [0-9]", []string{"my account 1", "my account 12", "my account"}},
	// a `$` that is part of the name, not an anchor
	{`a\$`, []string{"a$", "a$x", "a", "xa$", "a$$"}},
	{`acc\$[0-9]*\$`, []string{"acc$$", "acc$1$", "acc$1$x", "acc$1"}},
	// a literal backslash followed by a real anchor
	{`a\\$`, []string{`a\`, `a\x`, "a", `a\$`}},
}

var alternationParts = []accountPart{
	{"a|b", []string{"a", "b", "ax", "xb", "xax", "c"}},
	{"acc|val", []string{"acc", "val", "accx", "xval", "v"}},
	{"acc1|acc2|acc3", []string{"acc1", "acc2", "acc3", "acc22", "xacc2x", "acc1x"}},
	{"a.*|b", []string{"a", "axx", "b", "xb", "bx"}},
}

var invalidParts = []string{"a.***", "[b-a]", "a{2,1}", "a(b", "a)b"}

var walletPool = []string{"W", "V", "Wallet1", "my wallet", "w.x", "W1"}

var otherNames = []string{"x", "acc", "a", "b", "ab", "Validator1", "Validator2", "val-2", "a.b", "zzz", "acc1", "1"}

func pick[T any](r *Rand, xs []T) T { return xs[r.Intn(len(xs))] }

func anchor(r *Rand, s string, num int) string {
	if !r.Chance(num, 100) {
		return s
	}
	switch r.Intn(3) {
	case 0:
		return "^" + s
	case 1:
		return s + "$"
	default:
		return "^" + s + "$"
	}
}

type specInfo struct {
	spec    string
	wallet  string   // the literal wallet the specifier is about (anchors removed)
	samples []string // account names worth offering for it
}

func genSpec(r *Rand, wallets []string) specInfo {
	if r.Chance(degenerateShare, 100) {
		return genDegenerateSpec(r, wallets) // gen_degenerate.go
	}
	w := pick(r, wallets)
	info := specInfo{wallet: w}
	wp := w
	switch k := r.Intn(100); {
	case k < 4:
		wp = w + ".*"
	case k < 5 && len(wallets) > 1:
		wp = wallets[0] + "|" + wallets[1]
	case k < 6:
		wp = w + "|zz"
	case k < 8 && len(wallets) > 1:
		wp = groupedWalletPart(r, wallets[0], wallets[1])
	case k < 10:
		if r.Bool() {
			wp = groupedWalletPart(r, w, "zz")
		} else {
			wp = groupedWalletPart(r, "zz", w)
		}
	}
	wp = anchor(r, wp, 12)
	var part accountPart
	switch k := r.Intn(100); {
	case k < 18: // wallet only
		info.spec = wp
		info.samples = []string{pick(r, otherNames), pick(r, otherNames)}
		if r.Chance(1, 5) {
			info.spec = wp + "/"
		}
		return info
	case k < 28:
		part = genAlternationPart(r)
	case k < 32:
		part = accountPart{pick(r, invalidParts), []string{"a", "ab"}}
	default:
		part = pick(r, accountParts)
	}
	info.samples = part.names
	ap := anchor(r, part.text, 25)
	// a part with a blank in front or behind: used as written, so it names other wallets/accounts
	if r.Chance(1, 60) {
		wp = blank(r, wp)
	}
	if r.Chance(1, 60) {
		ap = blank(r, ap)
		info.samples = append(append([]string{}, info.samples...), " "+part.names[0], part.names[0]+" ")
	}
	info.spec = wp + "/" + ap
	if r.Chance(1, 50) {
		info.spec += "/more"
	}
	if r.Chance(1, 60) {
		info.spec = "/" + ap
	}
	return info
}

type lifecycle struct {
	name string
	make func(r *Rand, e, far uint64) Val
}

// lifecycles relative to a reference epoch e (>= 4)
var lifecycles = []lifecycle{
	{"pending-initialized", func(r *Rand, e, far uint64) Val { return Val{Elig: far, Act: far, Exit: far, Wd: far, Bal: 32} }},
	{"pending-queued", func(r *Rand, e, far uint64) Val {
		return Val{Elig: e - 2, Act: e + uint64(r.Range(0, 2)), Exit: far, Wd: far, Bal: 32}
	}},
	{"active-ongoing", func(r *Rand, e, far uint64) Val {
		return Val{Elig: e - 4, Act: e - uint64(r.Range(0, 3)), Exit: far, Wd: far, Bal: 32}
	}},
	{"active-exiting", func(r *Rand, e, far uint64) Val {
		x := e + uint64(r.Range(0, 2))
		return Val{Elig: e - 4, Act: e - 3, Exit: x, Wd: x + uint64(r.Range(0, 3)), Slashed: r.Chance(1, 3), Bal: 32}
	}},
	{"exited", func(r *Rand, e, far uint64) Val {
		x := e - uint64(r.Range(0, 2))
		return Val{Elig: e - 4, Act: e - 3, Exit: x, Wd: e + uint64(r.Range(0, 2)), Slashed: r.Chance(1, 3), Bal: 32}
	}},
	{"withdrawable", func(r *Rand, e, far uint64) Val {
		x := e - uint64(r.Range(1, 2))
		v := Val{Elig: e - 4, Act: e - 3, Exit: x, Wd: x + uint64(r.Range(0, 1)), Slashed: r.Chance(1, 3), Bal: 32}
		if r.Bool() {
			v.Bal = 0
		}
		return v
	}},
	{"slashed-without-exit", func(r *Rand, e, far uint64) Val {
		return Val{Elig: e - 4, Act: e - 3, Exit: far, Wd: far, Slashed: true, Bal: 32}
	}},
}

func genVal(r *Rand, e, far uint64) Val {
	k := r.Intn(100)
	var lc lifecycle
	switch {
	case k < 3:
		lc = lifecycles[6]
	case k < 10:
		lc = lifecycles[0]
	default:
		lc = lifecycles[1+r.Intn(5)]
	}
	return lc.make(r, e, far)
}

func gen(r *Rand) Input {
	in := Input{Manager: "dirk", Far: farFuture}
	if r.Chance(45, 100) {
		in.Manager = "wallet"
	}
	if r.Chance(1, 20) {
		in.Far = 1 << 20
	}
	// wallets and specifiers
	perm := r.Perm(len(walletPool))
	nw := r.Range(1, 3)
	wallets := make([]string, 0, nw)
	for i := 0; i < nw; i++ {
		wallets = append(wallets, walletPool[perm[i]])
	}
	ns := r.Range(1, 4)
	var infos []specInfo
	for i := 0; i < ns; i++ {
		infos = append(infos, genSpec(r, wallets))
	}
	// a case dense in degenerate parts: 2-3 further specifiers, each about a wallet of its own, so
	// that no other specifier covers (or uncovers) what they admit (gen_degenerate.go)
	dense := false
	if r.Chance(degenerateDense, 100) {
		dense = true
		for i, n := 0, r.Range(2, 3); i < n; i++ {
			infos = append(infos, genDegenerateSpec(r, []string{denseWallets[i]}))
		}
	}
	// a neighbouring wallet (name extending the configured one) that is opened but whose
	// accounts are not asked for
	if r.Chance(35, 100) {
		w := wallets[0]
		nb := w + "a"
		switch r.Intn(5) {
		case 0, 1:
			nb = "a" + w
		case 2:
			if c := swapCase(w); c != w {
				nb = c // a wallet whose name differs only by the case of a letter
			}
		}
		infos = append(infos, specInfo{spec: nb + "/zzz", wallet: nb, samples: infos[0].samples})
	}
	for _, p := range r.Perm(len(infos)) {
		in.Specs = append(in.Specs, infos[p].spec)
	}
	// accounts: in the wallets the managers open (first parts as written) and in the wallets the
	// specifiers are about
	type wn struct{ w, n string }
	seen := map[wn]bool{}
	var cands []wn
	add := func(w, n string) {
		// names that differ from a wanted one only by white space, or that contain a line feed
		// (which `.` does not match)
		if r.Chance(1, 11) {
			switch r.Intn(6) {
			case 0:
				n = " " + n
			case 1:
				n += " "
			case 2:
				n += "\n"
			case 3:
				n += "\nx"
			case 4:
				n = swapCase(n) // names that differ from a wanted one only by the case of a letter
			default:
				n = strings.ToUpper(n)
			}
		}
		if !seen[wn{w, n}] && w != "" {
			seen[wn{w, n}] = true
			cands = append(cands, wn{w, n})
		}
	}
	for _, info := range infos {
		ws := []string{info.wallet, firstPart(info.spec)}
		for _, other := range infos {
			if r.Chance(1, 3) {
				ws = append(ws, other.wallet)
			}
		}
		for _, w := range ws {
			for _, n := range info.samples {
				if r.Chance(3, 4) {
					add(w, n)
				}
			}
			if r.Chance(1, 3) {
				add(w, pick(r, otherNames))
			}
			if r.Chance(1, 25) {
				add(w, "")
			}
		}
	}
	if len(cands) == 0 {
		add(wallets[0], "acc")
	}
	order := r.Perm(len(cands))
	na := r.Range(2, 12)
	if dense {
		na = r.Range(8, 16)
	}
	if na > len(cands) {
		na = len(cands)
	}
	ids := r.Perm(na)
	for i := 0; i < na; i++ {
		c := cands[order[i]]
		a := Acct{ID: ids[i] + 1, Wallet: c.w, Name: c.n}
		if in.Manager == "wallet" && r.Chance(8, 100) {
			a.Locked = true
		}
		in.Universe = append(in.Universe, a)
	}
	sort.Slice(in.Universe, func(i, j int) bool { return in.Universe[i].ID < in.Universe[j].ID })
	all := make([]int, 0, na)
	for _, a := range in.Universe {
		all = append(all, a.ID)
	}
	// validators
	var e uint64
	switch r.Intn(10) {
	case 0:
		e = uint64(r.Range(4, 8))
	case 1:
		e = 1<<40 + uint64(r.Intn(1000))
	case 2:
		e = uint64(r.Range(100, 200000))
	default:
		e = uint64(r.Range(10, 900))
	}
	if e+16 >= in.Far {
		e = in.Far / 2
	}
	indexPool := r.Perm(64)
	vals := make([]Val, 0, na)
	for i, id := range all {
		if r.Chance(1, 10) {
			continue // not (yet) known to the chain
		}
		v := genVal(r, e, in.Far)
		v.PK = id
		v.Index = uint64(indexPool[i])
		if r.Chance(1, 12) {
			v.Index += 1 << 33
		}
		vals = append(vals, v)
	}
	subsetInts := func(xs []int) []int {
		var out []int
		for _, x := range xs {
			if r.Bool() {
				out = append(out, x)
			}
		}
		return out
	}
	subsetVals := func(xs []Val) []Val {
		var out []Val
		for _, x := range xs {
			if r.Bool() {
				out = append(out, x)
			}
		}
		return out
	}
	genRefresh := func(first bool) Op {
		op := Op{Kind: "refresh"}
		ka, kv := r.Intn(100), r.Intn(100)
		if first {
			// the constructor mostly sees everything
			ka, kv = ka/2, kv/2
		}
		switch {
		case ka < 45:
			op.Offered = all
		case ka < 60:
			op.Offered = subsetInts(all)
		case ka < 80:
			// nothing offered
		case ka < 90:
			// every wallet unknown to the signer / store
			op.Offered = all
			ws := map[string]bool{}
			for _, a := range in.Universe {
				ws[a.Wallet] = true
			}
			for _, s := range in.Specs {
				ws[firstPart(s)] = true
			}
			for w := range ws {
				op.Missing = append(op.Missing, w)
			}
			sort.Strings(op.Missing)
		default:
			op.Offered = all
			op.Missing = []string{in.Universe[r.Intn(len(in.Universe))].Wallet}
		}
		switch {
		case kv < 40:
			op.Vals = vals
		case kv < 50:
			op.Vals = subsetVals(vals)
		case kv < 56:
			op.VErr = true
		case kv < 63:
			// the node fails every request that names one account's key (which account may or may
			// not be known at that time), and would answer the others
			op.FailOn = all[r.Intn(len(all))]
			op.Vals = vals
			if r.Chance(1, 3) {
				op.Vals = make([]Val, 0, len(vals))
				for _, v := range vals {
					nv := genVal(r, e, in.Far)
					nv.PK, nv.Index = v.PK, v.Index
					op.Vals = append(op.Vals, nv)
				}
			}
		case kv < 74:
			// the node knows none of them
		case kv < 87 && len(vals) >= 2:
			// indices rotated among the same validators
			op.Vals = append([]Val{}, vals...)
			first := op.Vals[0].Index
			for i := 0; i+1 < len(op.Vals); i++ {
				op.Vals[i].Index = op.Vals[i+1].Index
			}
			op.Vals[len(op.Vals)-1].Index = first
		default:
			// lifecycles moved on
			op.Vals = make([]Val, 0, len(vals))
			for _, v := range vals {
				nv := genVal(r, e, in.Far)
				nv.PK, nv.Index = v.PK, v.Index
				op.Vals = append(op.Vals, nv)
			}
		}
		return op
	}
	genQuery := func() Op {
		op := Op{Kind: "query", Sync: r.Chance(2, 5)}
		switch k := r.Intn(20); {
		case k < 13 && len(vals) > 0:
			v := vals[r.Intn(len(vals))]
			b := []uint64{v.Act, v.Exit, v.Wd}[r.Intn(3)]
			if b == in.Far {
				b = e
			}
			op.Epoch = b - 1 + uint64(r.Intn(3))
		case k < 17:
			op.Epoch = e - 1 + uint64(r.Intn(3))
		case k == 17:
			op.Epoch = 0
		case k == 18:
			op.Epoch = maxEpoch // the accessors panic by design above 2^63-1 (util.EpochToInt64)
		default:
			op.Epoch = maxEpoch
			if in.Far < maxEpoch {
				op.Epoch = in.Far - 1 + uint64(r.Intn(3))
			}
		}
		if r.Chance(2, 5) {
			op.ByIndex = true
			for _, v := range vals {
				if r.Chance(3, 5) {
					op.Indices = append(op.Indices, v.Index)
				}
			}
			if r.Chance(1, 2) {
				op.Indices = append(op.Indices, uint64(r.Intn(64)))
			}
			if op.Indices == nil {
				op.Indices = []uint64{}
			}
		}
		return op
	}
	in.Ops = append(in.Ops, genRefresh(true))
	nops := r.Range(1, 8)
	for i := 0; i < nops; i++ {
		if r.Chance(2, 5) {
			in.Ops = append(in.Ops, genRefresh(false))
		} else {
			in.Ops = append(in.Ops, genQuery())
		}
	}
	// queries that land inside a refresh (gen_during.go)
	if r.Chance(duringShare, 100) {
		in.Ops = withDuring(r, in.Ops, genRefresh, genQuery)
	}
	// make sure the history ends by looking at the result
	in.Ops = append(in.Ops, genQuery())
	_ = strings.TrimSpace
	return in
}
