package c13

// The scripted environment of the two account managers: a remote signer's wallets (dirk), a wallet
// store holding non-deterministic wallets with cheap keystores (wallet manager), and the beacon
// node's validators endpoint.

import (
	"context"
	"crypto/aes"
	"crypto/cipher"
	"crypto/sha256"
	"encoding/hex"
	"encoding/json"
	"errors"
	"fmt"
	"sync"

	"github.com/attestantio/go-eth2-client/api"
	apiv1 "github.com/attestantio/go-eth2-client/api/v1"
	"github.com/attestantio/go-eth2-client/spec/phase0"
	"github.com/google/uuid"
	e2types "github.com/wealdtech/go-eth2-types/v2"
	e2wtypes "github.com/wealdtech/go-eth2-wallet-types/v2"
)

// ---------------------------------------------------------------------------------------------
// Keys: account id k owns the BLS key with secret scalar 0x5a00 + k (k <= 255) resp.
// (k>>8)<<16 + 0x5a00 + k&255.  Ids 1..maxKeys are those of the small universes; the large
// installations (gen_big.go) use ids up to maxBigKey, whose keys are derived on first use.

const maxKeys = 40
const maxBigKey = 4000

var (
	keysOnce sync.Once
	keysMu   sync.Mutex
	keysUpTo int
	privKeys [maxBigKey + 1]e2types.PrivateKey
	pubKeys  [maxBigKey + 1]phase0.BLSPubKey
	pkToID   = map[phase0.BLSPubKey]int{}
)

func initKeys() { ensureKeys(maxKeys) }

// ensureKeys derives the keys of the ids 1..n.
func ensureKeys(n int) {
	keysOnce.Do(func() {
		if err := e2types.InitBLS(); err != nil {
			panic(err)
		}
	})
	if n > maxBigKey {
		panic("account id above maxBigKey")
	}
	keysMu.Lock()
	defer keysMu.Unlock()
	for k := keysUpTo + 1; k <= n; k++ {
		var sk [32]byte
		sk[31] = byte(k)
		sk[30] = 0x5a
		sk[29] = byte(k >> 8)
		priv, err := e2types.BLSPrivateKeyFromBytes(sk[:])
		if err != nil {
			panic(err)
		}
		privKeys[k] = priv
		copy(pubKeys[k][:], priv.PublicKey().Marshal())
		pkToID[pubKeys[k]] = k
	}
	if n > keysUpTo {
		keysUpTo = n
	}
}

func accountUUID(id int) uuid.UUID { return uuid.UUID{0xac, byte(id), byte(id >> 8)} }

// ---------------------------------------------------------------------------------------------
// dirk: wallets and accounts as the remote signer lists them.

type signerAccount struct {
	id   int
	name string
}

func (a *signerAccount) ID() uuid.UUID                { return accountUUID(a.id) }
func (a *signerAccount) Name() string                 { return a.name }
func (a *signerAccount) PublicKey() e2types.PublicKey { return privKeys[a.id].PublicKey() }

type signerWallet struct {
	name string
	mu   sync.Mutex
	list []*signerAccount
	ctl  *duringCtl // the signer is being asked: queries may land now (during.go)
}

func (w *signerWallet) ID() uuid.UUID { return uuid.UUID{0x3a} }
func (w *signerWallet) Type() string  { return "fake" }
func (w *signerWallet) Name() string  { return w.name }
func (w *signerWallet) Version() uint { return 1 }
func (w *signerWallet) Accounts(_ context.Context) <-chan e2wtypes.Account {
	w.ctl.fire("accounts")
	w.mu.Lock()
	defer w.mu.Unlock()
	ch := make(chan e2wtypes.Account, len(w.list))
	for _, a := range w.list {
		ch <- a
	}
	close(ch)
	return ch
}
func (w *signerWallet) set(list []*signerAccount) {
	w.mu.Lock()
	w.list = list
	w.mu.Unlock()
}

// ---------------------------------------------------------------------------------------------
// wallet manager: a store of non-deterministic wallets.  Accounts are keystore-v4 documents
// without a KDF (the decryption key is the passphrase itself), so unlocking costs microseconds.

const goodPassphrase = "0123456789abcdef0123456789abcdef"
const otherPassphrase = "ffffffffffffffffffffffffffffffff"

func keystore(secret []byte, passphrase string) map[string]any {
	key := []byte(passphrase)
	iv := make([]byte, 16)
	block, err := aes.NewCipher(key[:16])
	if err != nil {
		panic(err)
	}
	msg := make([]byte, len(secret))
	cipher.NewCTR(block, iv).XORKeyStream(msg, secret)
	h := sha256.New()
	h.Write(key[16:32])
	h.Write(msg)
	return map[string]any{
		"checksum": map[string]any{"function": "sha256", "params": map[string]any{}, "message": hex.EncodeToString(h.Sum(nil))},
		"cipher":   map[string]any{"function": "aes-128-ctr", "params": map[string]any{"iv": hex.EncodeToString(iv)}, "message": hex.EncodeToString(msg)},
	}
}

type storedWallet struct {
	id       uuid.UUID
	data     []byte
	accounts [][]byte
}

type fakeStore struct {
	mu      sync.Mutex
	wallets map[string]*storedWallet
	ctl     *duringCtl // the store is being read: queries may land now (during.go)
}

func newFakeStore() *fakeStore { return &fakeStore{wallets: map[string]*storedWallet{}} }

func walletUUID(name string) uuid.UUID {
	h := sha256.Sum256([]byte("wallet:" + name))
	var id uuid.UUID
	copy(id[:], h[:16])
	return id
}

// setWallet (re)defines a wallet; accounts: id, name, locked (= encrypted under a passphrase the
// manager is not given).
func (s *fakeStore) setWallet(name string, accounts []Acct) {
	id := walletUUID(name)
	data, _ := json.Marshal(map[string]any{"uuid": id.String(), "name": name, "version": 1, "type": "non-deterministic"})
	w := &storedWallet{id: id, data: data}
	for _, a := range accounts {
		pass := goodPassphrase
		if a.Locked {
			pass = otherPassphrase
		}
		doc, _ := json.Marshal(map[string]any{
			"uuid":      accountUUID(a.ID).String(),
			"name":      a.Name,
			"pubkey":    fmt.Sprintf("%x", pubKeys[a.ID][:]),
			"crypto":    keystore(privKeys[a.ID].Marshal(), pass),
			"encryptor": "keystore",
			"version":   4,
		})
		w.accounts = append(w.accounts, doc)
	}
	s.mu.Lock()
	s.wallets[name] = w
	s.mu.Unlock()
}

func (s *fakeStore) clear() {
	s.mu.Lock()
	s.wallets = map[string]*storedWallet{}
	s.mu.Unlock()
}

func (s *fakeStore) byID(id uuid.UUID) *storedWallet {
	for _, w := range s.wallets {
		if w.id == id {
			return w
		}
	}
	return nil
}

func (s *fakeStore) Name() string                                  { return "fake" }
func (s *fakeStore) StoreWallet(uuid.UUID, string, []byte) error   { return nil }
func (s *fakeStore) StoreAccount(uuid.UUID, uuid.UUID, []byte) error { return nil }
func (s *fakeStore) StoreAccountsIndex(uuid.UUID, []byte) error    { return nil }
func (s *fakeStore) RetrieveAccountsIndex(uuid.UUID) ([]byte, error) {
	return []byte("[]"), nil
}
func (s *fakeStore) RetrieveWallets() <-chan []byte {
	s.mu.Lock()
	defer s.mu.Unlock()
	ch := make(chan []byte, len(s.wallets))
	for _, w := range s.wallets {
		ch <- w.data
	}
	close(ch)
	return ch
}
func (s *fakeStore) RetrieveWallet(name string) ([]byte, error) {
	s.ctl.fire("accounts")
	s.mu.Lock()
	defer s.mu.Unlock()
	if w, ok := s.wallets[name]; ok {
		return w.data, nil
	}
	return nil, errors.New("wallet not found")
}
func (s *fakeStore) RetrieveWalletByID(id uuid.UUID) ([]byte, error) {
	s.mu.Lock()
	defer s.mu.Unlock()
	if w := s.byID(id); w != nil {
		return w.data, nil
	}
	return nil, errors.New("wallet not found")
}
func (s *fakeStore) RetrieveAccounts(id uuid.UUID) <-chan []byte {
	s.mu.Lock()
	defer s.mu.Unlock()
	w := s.byID(id)
	if w == nil {
		ch := make(chan []byte)
		close(ch)
		return ch
	}
	ch := make(chan []byte, len(w.accounts))
	for _, a := range w.accounts {
		ch <- a
	}
	close(ch)
	return ch
}
func (s *fakeStore) RetrieveAccount(uuid.UUID, uuid.UUID) ([]byte, error) {
	return nil, errors.New("not implemented")
}

// ---------------------------------------------------------------------------------------------
// The beacon node's validators endpoint: answers with the scripted validators, restricted to the
// requested public keys (all of them when none is named), or fails: every request (fail), or --
// like a node that times out on, or rejects, a request because of something in it -- every request
// that names the public key of account failOn.  Like the real client it gives up when the request's
// context is done.

type node struct {
	mu     sync.Mutex
	fail   bool
	failOn int
	vals   []Val
	calls  int
	asked  []int // number of public keys named by each request
	ctl    *duringCtl // the node is being asked: queries may land now (during.go)
}

func (n *node) script(fail bool, failOn int, vals []Val) {
	n.mu.Lock()
	n.fail, n.failOn, n.vals = fail, failOn, vals
	n.mu.Unlock()
}

func (n *node) Validators(ctx context.Context, opts *api.ValidatorsOpts) (*api.Response[map[phase0.ValidatorIndex]*apiv1.Validator], error) {
	n.ctl.fire("validators")
	n.mu.Lock()
	defer n.mu.Unlock()
	n.calls++
	if err := ctx.Err(); err != nil {
		return nil, err
	}
	want := make(map[phase0.BLSPubKey]bool, len(opts.PubKeys))
	for _, pk := range opts.PubKeys {
		want[pk] = true
	}
	n.asked = append(n.asked, len(opts.PubKeys))
	if n.fail {
		return nil, errors.New("scripted failure")
	}
	if n.failOn > 0 && want[pubKeys[n.failOn]] {
		return nil, errors.New("scripted failure: the request timed out")
	}
	res := map[phase0.ValidatorIndex]*apiv1.Validator{}
	for _, v := range n.vals {
		pk := pubKeys[v.PK]
		if len(want) > 0 && !want[pk] {
			continue
		}
		res[phase0.ValidatorIndex(v.Index)] = &apiv1.Validator{
			Index:   phase0.ValidatorIndex(v.Index),
			Balance: phase0.Gwei(v.Bal),
			Validator: &phase0.Validator{
				PublicKey:                  pk,
				WithdrawalCredentials:      make([]byte, 32),
				EffectiveBalance:           phase0.Gwei(v.Bal),
				Slashed:                    v.Slashed,
				ActivationEligibilityEpoch: phase0.Epoch(v.Elig),
				ActivationEpoch:            phase0.Epoch(v.Act),
				ExitEpoch:                  phase0.Epoch(v.Exit),
				WithdrawableEpoch:          phase0.Epoch(v.Wd),
			},
		}
	}
	return &api.Response[map[phase0.ValidatorIndex]*apiv1.Validator]{Data: res, Metadata: map[string]any{}}, nil
}
