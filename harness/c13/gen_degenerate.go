package c13

// Degenerate specifier parts.  Both accountPathsToVerificationRegexes normalise a specifier in
// steps whose ORDER matters: split at `/`, "no account part (or an empty one) means all accounts"
// (`.*`), strip ONE leading `^` and ONE trailing anchor `$` of a part, enclose alternatives, splice
// between `^` and `$`; the dirk manager then compares the spliced text with `^wallet/.*$` to skip
// the matching altogether.  Any reordering or "tidying" of those steps (the default substituted
// after the anchors were stripped, anchors stripped repeatedly, emptiness tested on the stripped
// text, the short circuit recognised on a normalised text) is the old code on every specifier
// whose parts contain something besides anchors, and differs only on parts that are EMPTY ONCE
// NORMALISED: anchors alone (`W/^$`, `W/$`, `W/^` name the empty account name and nothing else),
// doubled anchors (`W/^^acc` can never match: the second `^` is not at the start of the text),
// empty groups (`W/()`, `W/^(?:)$`), and the many spellings of "everything" of which only the
// literal `.*` may take the short circuit.  The generator writes such parts for the account part,
// the wallet part, or both, for either manager, and offers under them the empty name, ordinary
// names, and names that look like the part's text.

import (
	. "verifharness/common"
)

// share (%) of the generated specifiers that have a degenerate part (C13_DEGENERATE_SHARE
// overrides it, for stress runs of this family alone)
var degenerateShare = EnvInt("C13_DEGENERATE_SHARE", 8)

// share (%) of the generated cases that carry 2-3 further degenerate specifiers, each about a
// wallet of its own
var degenerateDense = EnvInt("C13_DEGENERATE_DENSE", 6)

var denseWallets = []string{"D1", "D2", "D3"}

// account parts that are empty once the anchors are removed: they name the empty account only
var anchorOnlyParts = []string{"^$", "$", "^", "^$", "$", "^", "$$", "^$$"}

// account parts in which an anchor is written twice, or in the wrong place
var doubledAnchorParts = []accountPart{
	{"^^", []string{"", "x", "^"}},
	{"^^$", []string{"", "x", "^"}},
	{"^^acc", []string{"acc", "^acc", "xacc", "accx"}},
	{"acc$$", []string{"acc", "acc$", "accx", "xacc"}},
	{"^^acc$$", []string{"acc", "^acc$", "accx"}},
	{"^^.*", []string{"", "x", "acc"}},
	{".*$$", []string{"", "x", "acc"}},
	{"^^a.*", []string{"a", "abc", "^a", "xa"}},
	{"^^Validator[0-9]+", []string{"Validator1", "Validator12", "^Validator1", "Validator"}},
	{"^^acc$", []string{"acc", "^acc", "accx"}},
	{"^^(acc|val)", []string{"acc", "val", "^acc", "accx"}},
	{"$^", []string{"", "x", "$^"}},
	{"a^", []string{"a", "a^", "ax"}},
	{"$a", []string{"a", "$a", "xa"}},
}

// account parts that are an empty expression without being an empty text
var emptyGroupParts = []string{"()", "^()$", "(?:)", "^(?:)$", "()$", "^()", "()()", "(())", "(|)", "|", "^|$", "(?:^$)", "(^)", "($)"}

// spellings of "every account": only an absent or empty account part and the literal `.*`
// (anchors removed) are the short circuit's `^wallet/.*$`
var everythingParts = []string{"^.*$", "^.*", ".*$", "(.*)", "^(.*)$", "(?:.*)", ".*.*", ".+", "^.+$", ".?", ".{0,}", ".*()", "()a*.*", ".*|.*", "[^/]*"}

// names offered under a degenerate account part
var degenerateNames = []string{"", "x", "acc", "a", "Validator1", "$", "^", "^$", ".*", "()", "1"}

func genDegenerateAccountPart(r *Rand) accountPart {
	names := []string{"", pick(r, degenerateNames), pick(r, otherNames)}
	switch k := r.Intn(100); {
	case k < 38:
		return accountPart{pick(r, anchorOnlyParts), names}
	case k < 64:
		p := pick(r, doubledAnchorParts)
		return accountPart{p.text, append(append([]string{}, p.names...), pick(r, otherNames))}
	case k < 82:
		return accountPart{pick(r, emptyGroupParts), names}
	default:
		return accountPart{pick(r, everythingParts), append(names, "a\nb")}
	}
}

// genDegenerateWalletPart writes the wallet part for wallet w with doubled anchors, empty groups
// around the name, a group around the name, "every wallet", or nothing but anchors.
func genDegenerateWalletPart(r *Rand, w string) string {
	switch r.Intn(20) {
	case 0:
		return "^^" + w
	case 1:
		return w + "$$"
	case 2:
		return "(" + w + ")"
	case 3:
		return "^(" + w + ")$"
	case 4:
		return "(?:" + w + ")"
	case 5:
		return "()" + w
	case 6:
		return w + "()"
	case 7:
		return "^()" + w + "$"
	case 8:
		return ".*"
	case 9:
		return "^.*$"
	case 10:
		return ".+"
	case 11:
		return "^$"
	case 12:
		return "^"
	case 13:
		return "$"
	case 14:
		return "()"
	case 15:
		return "^()$"
	case 16:
		return "^" + w + "$"
	case 17:
		return w + "$"
	case 18:
		return "^" + w
	default:
		return w + ".*"
	}
}

// genDegenerateSpec: a specifier about one of the wallets with a degenerate account part (60 %),
// a degenerate wallet part (20 %), or both (20 %).
func genDegenerateSpec(r *Rand, wallets []string) specInfo {
	w := pick(r, wallets)
	info := specInfo{wallet: w}
	k := r.Intn(100)
	wp := w
	if k >= 60 {
		wp = genDegenerateWalletPart(r, w)
	} else {
		wp = anchor(r, w, 30)
	}
	var part accountPart
	switch {
	case k < 60 || k >= 80:
		part = genDegenerateAccountPart(r)
	case k < 66:
		// wallet only
		info.spec = wp
		if r.Bool() {
			info.spec += "/"
		}
		info.samples = []string{"", pick(r, otherNames), pick(r, otherNames)}
		return info
	default:
		part = pick(r, accountParts)
	}
	info.samples = part.names
	info.spec = wp + "/" + part.text
	if r.Chance(1, 40) {
		info.spec += "/"
	}
	return info
}

// isDegenerateSpec: some part of the specifier (the first two components) is empty, or consists
// of anchors, or is empty once anchors and empty groups are removed, or carries an anchor twice.
func isDegenerateSpec(spec string) bool {
	parts := splitSlash(spec)
	for i, p := range parts {
		if i >= 2 {
			break
		}
		q := p
		for _, cut := range []string{"(?:", "(", ")", "|"} {
			q = removeAll(q, cut)
		}
		if trimAnchorChars(q) == "" && p != "" {
			return true
		}
		if len(p) >= 2 && (p[:2] == "^^" || (p[len(p)-2:] == "$$" && !endsWithEscapedDollar(p[:len(p)-1]))) {
			return true
		}
	}
	return false
}

func splitSlash(s string) []string {
	var out []string
	start := 0
	for i := 0; i < len(s); i++ {
		if s[i] == '/' {
			out = append(out, s[start:i])
			start = i + 1
		}
	}
	return append(out, s[start:])
}

func removeAll(s, cut string) string {
	for {
		i := indexOf(s, cut)
		if i < 0 {
			return s
		}
		s = s[:i] + s[i+len(cut):]
	}
}

func indexOf(s, sub string) int {
	for i := 0; i+len(sub) <= len(s); i++ {
		if s[i:i+len(sub)] == sub {
			return i
		}
	}
	return -1
}

func trimAnchorChars(s string) string {
	for len(s) > 0 && s[0] == '^' {
		s = s[1:]
	}
	for len(s) > 0 && s[len(s)-1] == '$' {
		s = s[:len(s)-1]
	}
	return s
}
