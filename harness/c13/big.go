package c13

// Large installations.  The small universes of gen.go have 2-12 accounts, and their validators
// provider fails a refresh only as a whole.  What an installation with hundreds of validators adds:
// requests that the managers (or a later edit of them) split, page or cap, and a node that fails
// or truncates SOME of those requests.  Such inputs are written by ranges -- accounts first ..
// first+count-1 of one wallet, named prefix<id>; their validators with consecutive indices and one
// lifecycle; runs of ids in what is offered -- so that the JSON input and the Gallina case stay a
// few hundred bytes; expand() turns them into the flat form the harness runs.  What was OBSERVED
// is printed in full, run-length encoded (runsN / runsPairs: concatenations of range_N /
// range_pairs and literal lists, i.e. the same list).

import (
	"fmt"
	"strings"

	. "verifharness/common"
)

type AcctRange struct {
	First  int    `json:"first"`
	Count  int    `json:"count"`
	Wallet string `json:"wallet"`
	Prefix string `json:"prefix"`
	Locked bool   `json:"locked,omitempty"`
}

type ValRange struct {
	First   int    `json:"first"` // public keys first .. first+count-1
	Count   int    `json:"count"`
	Index0  uint64 `json:"index0"` // validator index of the first one
	Elig    uint64 `json:"elig"`
	Act     uint64 `json:"act"`
	Exit    uint64 `json:"exit"`
	Wd      uint64 `json:"wd"`
	Slashed bool   `json:"slashed,omitempty"`
	Bal     uint64 `json:"bal"`
}

// expand returns the flat form of an input: every range written out.  Idempotent.
func expand(in Input) Input {
	out := in
	out.Universe = append([]Acct{}, in.Universe...)
	for _, rg := range in.Ranges {
		for k := rg.First; k < rg.First+rg.Count; k++ {
			out.Universe = append(out.Universe, Acct{ID: k, Wallet: rg.Wallet, Name: fmt.Sprintf("%s%d", rg.Prefix, k), Locked: rg.Locked})
		}
	}
	out.Ranges = nil
	out.Ops = make([]Op, len(in.Ops))
	for i, op := range in.Ops {
		o := op
		if len(op.OfferedRanges) > 0 {
			o.Offered = append([]int{}, op.Offered...)
			for _, rg := range op.OfferedRanges {
				for k := rg[0]; k < rg[0]+rg[1]; k++ {
					o.Offered = append(o.Offered, k)
				}
			}
			o.OfferedRanges = nil
		}
		if len(op.ValRanges) > 0 {
			o.Vals = append([]Val{}, op.Vals...)
			for _, vr := range op.ValRanges {
				for k := 0; k < vr.Count; k++ {
					o.Vals = append(o.Vals, Val{PK: vr.First + k, Index: vr.Index0 + uint64(k), Elig: vr.Elig, Act: vr.Act,
						Exit: vr.Exit, Wd: vr.Wd, Slashed: vr.Slashed, Bal: vr.Bal})
				}
			}
			o.ValRanges = nil
		}
		if len(op.IndexRanges) > 0 {
			o.Indices = append([]uint64{}, op.Indices...)
			for _, rg := range op.IndexRanges {
				for k := uint64(0); k < rg[1]; k++ {
					o.Indices = append(o.Indices, rg[0]+k)
				}
			}
			o.IndexRanges = nil
		}
		out.Ops[i] = o
	}
	return out
}

type walletRun struct {
	wallet       string
	first, count int
}

// splitByWallet cuts a run of offered ids into the pieces that lie in one account range each (ids
// outside every range of the universe are dropped: nobody offers them).
func splitByWallet(in Input, rg [2]int) []walletRun {
	var out []walletRun
	for _, ar := range in.Ranges {
		lo, hi := rg[0], rg[0]+rg[1]
		if lo < ar.First {
			lo = ar.First
		}
		if hi > ar.First+ar.Count {
			hi = ar.First + ar.Count
		}
		if lo < hi {
			out = append(out, walletRun{ar.Wallet, lo, hi - lo})
		}
	}
	return out
}

const minRun = 4

// runsN prints a list of numbers as a concatenation of range_N runs and literal lists.
func (b *binder) runsN(xs []int) string {
	if len(xs) < 2*minRun {
		return b.nList(xs)
	}
	var parts []string
	var lit []int
	flush := func() {
		if len(lit) > 0 {
			parts = append(parts, b.nList(lit))
			lit = nil
		}
	}
	for i := 0; i < len(xs); {
		j := i + 1
		for j < len(xs) && xs[j] == xs[j-1]+1 {
			j++
		}
		if j-i >= minRun {
			flush()
			parts = append(parts, App("range_N", b.Num(uint64(xs[i])), b.Num(uint64(j-i))))
		} else {
			lit = append(lit, xs[i:j]...)
		}
		i = j
	}
	flush()
	return "(" + strings.Join(parts, " ++ ") + ")"
}

// runsPairs prints a list of (index, id) pairs as a concatenation of range_pairs runs (index and id
// both going up by one) and literal lists.
func (b *binder) runsPairs(ps [][2]uint64) string {
	lits := func(q [][2]uint64) string {
		items := make([]string, 0, len(q))
		for _, p := range q {
			items = append(items, Pair(b.Num(p[0]), b.Num(p[1])))
		}
		return List(items)
	}
	if len(ps) < 2*minRun {
		return lits(ps)
	}
	var parts []string
	var lit [][2]uint64
	flush := func() {
		if len(lit) > 0 {
			parts = append(parts, lits(lit))
			lit = nil
		}
	}
	for i := 0; i < len(ps); {
		j := i + 1
		for j < len(ps) && ps[j][0] == ps[j-1][0]+1 && ps[j][1] == ps[j-1][1]+1 {
			j++
		}
		if j-i >= minRun {
			flush()
			parts = append(parts, App("range_pairs", b.Num(ps[i][0]), b.Num(ps[i][1]), b.Num(uint64(j-i))))
		} else {
			lit = append(lit, ps[i:j]...)
		}
		i = j
	}
	flush()
	return "(" + strings.Join(parts, " ++ ") + ")"
}

var _ = NewRand
