package c10

import (
	"crypto/sha256"
	"encoding/binary"
	"fmt"
	"strings"
)

// Spellings of relay addresses (round 7, seeded change C10-11).  A relay address is a key of two
// maps (top-level relays, relays of a proposer entry), an element of the legacy relay lists and a
// value handed to the callers; the implementation compares and passes it on as the exact string of
// the document.  Until round 7 every generated address was "https://relay<n>.example.com/", on
// which every normalisation of the text (lower-casing, trimming the trailing slash, url.Parse +
// String, stripping the user part, default port) is the identity: a change that normalises the
// address at ONE of its sites only (the others keep the text) was invisible.  One case in three now
// spells its relays in ways on which such normalisations are not the identity, and one case in
// twelve has two DIFFERENT relays whose addresses differ only in spelling (they are two relays: two
// map keys, two auctions).
//
// The choice is derived from the case's own keys (already drawn) and does not consume the case's
// random stream: every other generated field of a case is what it was before.

var relaySpellings = []struct {
	name string
	f    func(n int, pk string) string
}{
	{"upper-host", func(n int, _ string) string { return fmt.Sprintf("https://Relay%d.Example.com/", n) }},
	{"mixed-case-userinfo", func(n int, pk string) string { return fmt.Sprintf("https://%s@relay%d.example.com/", pk, n) }},
	{"upper-scheme", func(n int, _ string) string { return fmt.Sprintf("HTTPS://relay%d.example.com/", n) }},
	{"no-trailing-slash", func(n int, _ string) string { return fmt.Sprintf("https://relay%d.example.com", n) }},
	{"upper-path", func(n int, _ string) string { return fmt.Sprintf("https://relay%d.example.com/Eth/V1/Builder", n) }},
	{"default-port", func(n int, _ string) string { return fmt.Sprintf("https://relay%d.example.com:443/", n) }},
	{"upper-query", func(n int, _ string) string { return fmt.Sprintf("https://RELAY%d.EXAMPLE.COM/?ID=Vouch", n) }},
	{"percent-encoded", func(n int, _ string) string { return fmt.Sprintf("https://relay%d.example.com/%%7Ebuilder/", n) }},
	{"no-scheme-upper", func(n int, _ string) string { return fmt.Sprintf("Relay%d.Example.COM", n) }},
	{"double-slash", func(n int, _ string) string { return fmt.Sprintf("https://relay%d.example.com//", n) }},
}

// mixedCaseHex: the 48-byte key with the case of its hex letters alternating (0xAbCd…).
func mixedCaseHex(key string) string {
	b := []byte(strings.TrimPrefix(key, "0x"))
	up := true
	for i, c := range b {
		if c >= 'a' && c <= 'f' {
			if up {
				b[i] = c - 'a' + 'A'
			}
			up = !up
		}
	}
	return "0x" + string(b)
}

// spellRelays gives the case its six relay addresses.
func (g *gctx) spellRelays() {
	h := sha256.Sum256([]byte(strings.Join(g.keys, "|") + "|" + strings.Join(g.addrs, "|")))
	x := binary.BigEndian.Uint64(h[:8])
	next := func(n uint64) uint64 { v := x % n; x = x/n ^ (x << 17) ^ binary.BigEndian.Uint64(h[8:16]); return v }
	plain := func(n int) string { return fmt.Sprintf("https://relay%d.example.com/", n) }
	for i := 1; i <= 6; i++ {
		g.relays = append(g.relays, plain(i))
	}
	if next(3) != 0 {
		g.col.Count("relay-spelling:plain-only")
		return
	}
	g.tags["relay-spelling"] = true
	for i := 1; i <= 6; i++ {
		if next(4) == 0 {
			continue // this one keeps the plain spelling
		}
		s := relaySpellings[next(uint64(len(relaySpellings)))]
		g.relays[i-1] = s.f(i, mixedCaseHex(g.keys[(i-1)%len(g.keys)]))
		g.col.Count("relay-spelling:" + s.name)
	}
	if next(4) == 0 {
		// twins: relay j is another spelling of relay i's address (i < j): two relays all the same
		i := int(next(3))
		j := i + 1 + int(next(2))
		s := relaySpellings[next(uint64(len(relaySpellings)))]
		g.relays[i] = plain(i + 1)
		g.relays[j] = s.f(i+1, mixedCaseHex(g.keys[i%len(g.keys)]))
		g.tags["relay-spelling-twins"] = true
		g.col.Count("relay-spelling-twins:" + s.name)
	}
}
