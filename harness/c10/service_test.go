// C10, the block relay service in front of the execution configuration: histories of refreshes and
// lookups on ONE instance of blockrelay/standard.Service.  The configuration source (majordomo), the
// accounts providers and the builder bid provider are scripted; the service is the real one (built
// by the hook of C12: no REST daemon, no scheduler jobs, no initial fetch, no configuration yet).
//
// Lookups go through Service.ProposerConfig as every caller's does:
//   - with the validator's account      (proposal preparer, --proposer-config-check),
//   - with a nil account                (UnblindBlock, ValidatorRegistrations),
//   - through AuctionBlock              (account from the accounts provider; the proposer
//                                        configuration is what the builder bid provider receives).
// Refreshes go through fetchExecutionConfig: the source serves a document of the input (the first one
// again, another one, one that is refused), fails, or the accounts provider has nothing.
package c10

import (
	"context"
	"errors"
	"fmt"

	"github.com/attestantio/go-block-relay/services/blockauctioneer"
	builderclient "github.com/attestantio/go-builder-client"
	"github.com/attestantio/go-eth2-client/spec/bellatrix"
	"github.com/attestantio/go-eth2-client/spec/phase0"
	"github.com/attestantio/vouch/services/beaconblockproposer"
	"github.com/attestantio/vouch/services/blockrelay"
	standardblockrelay "github.com/attestantio/vouch/services/blockrelay/standard"
	"github.com/google/uuid"
	"github.com/rs/zerolog"
	e2types "github.com/wealdtech/go-eth2-types/v2"
	e2wtypes "github.com/wealdtech/go-eth2-wallet-types/v2"

	. "verifharness/common"
	"verifharness/mocks"
)

// Op is one operation of a history.
type Op struct {
	Kind      string `json:"kind"`                 // "lookup" | "auction" | "refresh"
	Validator int    `json:"validator,omitempty"`  // lookup, auction: index into validators
	NoAccount bool   `json:"no_account,omitempty"` // lookup: a nil account is passed (as UnblindBlock and ValidatorRegistrations do)
	Source    string `json:"source,omitempty"`     // refresh: "doc" | "fails" | "accounts-fail" | "no-accounts"
	Doc       int    `json:"doc,omitempty"`        // refresh from "doc": 0 = doc, k = more_docs[k-1]
}

// ---------------------------------------------------------------------------------------------
// Scripted collaborators.

type svcKey struct{}

func (svcKey) Marshal() []byte {
	b := make([]byte, 48)
	b[0], b[47] = 0xa5, 1
	return b
}
func (svcKey) Aggregate(e2types.PublicKey) {}
func (k svcKey) Copy() e2types.PublicKey   { return k }

// the one validating account the refresh sees (only its public key is used: the request body of a
// dynamic source; the source here is a static one)
type svcValidatingAccount struct{}

func (svcValidatingAccount) ID() uuid.UUID                { return uuid.UUID{1} }
func (svcValidatingAccount) Name() string                 { return "validating" }
func (svcValidatingAccount) PublicKey() e2types.PublicKey { return svcKey{} }

type svcScript struct {
	// configuration source
	text        string
	fail        bool
	accountsErr bool
	noAccounts  bool
	fetches     int
	// accounts provider: the account of the validator being auctioned
	account e2wtypes.Account
	// builder bid provider: what the last auction handed over
	bidCalled bool
	bidConfig *beaconblockproposer.ProposerConfig
}

func (s *svcScript) Fetch(ctx context.Context, _ string) ([]byte, error) {
	s.fetches++
	if err := ctx.Err(); err != nil {
		return nil, err
	}
	if s.fail {
		return nil, errors.New("scripted configuration source failure")
	}
	return []byte(s.text), nil
}

func (s *svcScript) accounts() (map[phase0.ValidatorIndex]e2wtypes.Account, error) {
	switch {
	case s.accountsErr:
		return nil, errors.New("scripted accounts provider failure")
	case s.noAccounts:
		return map[phase0.ValidatorIndex]e2wtypes.Account{}, nil
	}
	return map[phase0.ValidatorIndex]e2wtypes.Account{1: svcValidatingAccount{}}, nil
}
func (s *svcScript) ValidatingAccountsForEpoch(context.Context, phase0.Epoch) (map[phase0.ValidatorIndex]e2wtypes.Account, error) {
	return s.accounts()
}
func (s *svcScript) ValidatingAccountsForEpochByIndex(context.Context, phase0.Epoch, []phase0.ValidatorIndex) (map[phase0.ValidatorIndex]e2wtypes.Account, error) {
	return s.accounts()
}
func (s *svcScript) SyncCommitteeAccountsForEpoch(context.Context, phase0.Epoch) (map[phase0.ValidatorIndex]e2wtypes.Account, error) {
	return nil, errors.New("not scripted")
}
func (s *svcScript) SyncCommitteeAccountsForEpochByIndex(context.Context, phase0.Epoch, []phase0.ValidatorIndex) (map[phase0.ValidatorIndex]e2wtypes.Account, error) {
	return nil, errors.New("not scripted")
}

func (s *svcScript) AccountByPublicKey(context.Context, phase0.BLSPubKey) (e2wtypes.Account, error) {
	return s.account, nil
}

func (s *svcScript) BuilderBid(_ context.Context, _ phase0.Slot, _ phase0.Hash32, _ phase0.BLSPubKey,
	pc *beaconblockproposer.ProposerConfig, _ map[phase0.BLSPubKey]*blockrelay.BuilderConfig,
) (*blockauctioneer.Results, error) {
	s.bidCalled = true
	s.bidConfig = pc
	return &blockauctioneer.Results{
		Participation: make(map[string]*blockauctioneer.Participation),
		AllProviders:  make([]builderclient.BuilderBidProvider, 0),
		Providers:     make([]builderclient.BuilderBidProvider, 0),
	}, nil
}

// ---------------------------------------------------------------------------------------------
// Running a history.

type histObserved struct {
	Ops     []string `json:"ops,omitempty"`     // readable: what was done and what came back
	Answers []string `json:"answers,omitempty"` // the answers of the lookups, in order (Gallina outcomes)
}

func (in Input) docText(k int) string {
	if k <= 0 || k > len(in.MoreDocs) {
		return in.Doc
	}
	return in.MoreDocs[k-1]
}

func pubkeyOf(v Validator) phase0.BLSPubKey {
	var pk phase0.BLSPubKey
	if b, ok := hexBytes(v.Pubkey, 48); ok {
		copy(pk[:], b)
	}
	return pk
}

// runHistory drives one service instance through the history.  docRefs[k] is the Gallina name of
// document k (0 = doc).  Returns the operations as Gallina [sop] terms (validators by reference:
// valRef(i, noAccount)) and the observed answers.
func (t *tables) runHistory(in Input, fee bellatrix.ExecutionAddress, docRef func(int) string, valRef func(int, bool) string,
) (ops []string, answers []string, obs histObserved) {
	if len(in.History) == 0 {
		return nil, nil, obs
	}
	ctx := context.Background()
	script := &svcScript{}
	// ONE instance for the whole history.
	svc := standardblockrelay.NewForVerifC12(&standardblockrelay.VerifC12Params{
		LogLevel:                   zerolog.Disabled,
		Majordomo:                  script,
		ChainTime:                  mocks.NewChainTime(32),
		ConfigURL:                  "file:///execution-config.json",
		FallbackFeeRecipient:       fee,
		FallbackGasLimit:           in.FallbackGas,
		AccountsProvider:           script,
		ValidatingAccountsProvider: script,
		BuilderBidProvider:         script,
	})
	dead := false // a refresh panicked: the service is not used any further
	slot := phase0.Slot(100)
	for _, op := range in.History {
		switch op.Kind {
		case "refresh":
			script.text, script.fail, script.accountsErr, script.noAccounts = "", false, false, false
			term := "(SRefresh FNothing)"
			switch op.Source {
			case "fails":
				script.fail = true
			case "accounts-fail":
				script.accountsErr = true
			case "no-accounts":
				script.noAccounts = true
			default:
				script.text = in.docText(op.Doc)
				term = App("SRefresh", App("FDoc", docRef(op.Doc)))
			}
			ops = append(ops, term)
			note := fmt.Sprintf("refresh %s %d", op.Source, op.Doc)
			if !dead {
				func() {
					defer func() {
						if r := recover(); r != nil {
							dead = true
							note += fmt.Sprintf(": panic: %v", r)
						}
					}()
					svc.VerifC12FetchExecutionConfig(ctx)
				}()
			}
			obs.Ops = append(obs.Ops, note)
		case "lookup", "auction":
			if op.Validator < 0 || op.Validator >= len(in.Validators) {
				continue
			}
			v := in.Validators[op.Validator]
			noAccount := op.NoAccount && op.Kind == "lookup"
			asker := "ADirect"
			if op.Kind == "auction" {
				asker = "AAuction"
			}
			ops = append(ops, App("SLookup", asker, valRef(op.Validator, noAccount)))
			answer := "OPanic"
			if !dead {
				func() {
					defer func() {
						if r := recover(); r != nil {
							answer = "OPanic"
						}
					}()
					if op.Kind == "auction" {
						script.account, script.bidCalled, script.bidConfig = v.account(), false, nil
						slot++
						_, err := svc.AuctionBlock(ctx, slot, phase0.Hash32{byte(slot)}, pubkeyOf(v))
						switch {
						case err != nil:
							answer = "OErr"
						case !script.bidCalled:
							// no relays: no bid was asked for
							answer = outcomeTerm(N(0), nil)
						case script.bidConfig == nil:
							answer = "OPanic"
						default:
							answer = t.outcome(script.bidConfig)
						}
						return
					}
					var acc e2wtypes.Account
					if !noAccount {
						acc = v.account()
					}
					pc, err := svc.ProposerConfig(ctx, acc, pubkeyOf(v))
					switch {
					case err != nil:
						answer = "OErr"
					case pc == nil:
						answer = "OPanic"
					default:
						answer = t.outcome(pc)
					}
				}()
			}
			answers = append(answers, answer)
			how := "with account"
			if noAccount {
				how = "without account"
			}
			obs.Ops = append(obs.Ops, fmt.Sprintf("%s validator %d %s -> %s", op.Kind, op.Validator, how, answer))
		}
	}
	obs.Answers = answers
	return ops, answers, obs
}

// ---------------------------------------------------------------------------------------------
// Generating histories.

// genHistory writes a history over the validators of the input and documents 0..nDocs (0 = doc).
// refused[k]: document k is one the generator made unacceptable.  Shapes (counted):
//   - the same public key asked with and without its account, in both orders, repeatedly, and
//     through an auction, with no refresh in between;
//   - the same questions again after a refresh that serves the same document, another document, a
//     refused one, or nothing (source / accounts provider failure, no validating accounts);
//   - questions before the first configuration has arrived.
func genHistory(r *Rand, col *Collector, nVals int, nDocs int) []Op {
	if nVals == 0 {
		return nil
	}
	var ops []Op
	lookup := func(v int, how int) {
		switch how {
		case 0:
			ops = append(ops, Op{Kind: "lookup", Validator: v})
			col.Count("history-op:lookup-with-account")
		case 1:
			ops = append(ops, Op{Kind: "lookup", Validator: v, NoAccount: true})
			col.Count("history-op:lookup-without-account")
		default:
			ops = append(ops, Op{Kind: "auction", Validator: v})
			col.Count("history-op:auction")
		}
	}
	if r.Chance(1, 6) {
		lookup(r.Intn(nVals), r.Intn(3))
		col.Count("history:lookup-before-first-configuration")
	}
	ops = append(ops, Op{Kind: "refresh", Source: "doc", Doc: 0})
	phases := r.Range(2, 3)
	for p := 0; p < phases; p++ {
		// one or two validators, each asked two to four times in different ways
		var seqs [][2]int
		for _, v := range r.Perm(nVals)[:min(nVals, r.Range(1, 2))] {
			first := r.Intn(2) // with / without first
			hows := []int{first, 1 - first}
			for r.Chance(1, 2) && len(hows) < 4 {
				hows = append(hows, r.Intn(3))
			}
			if first == 1 {
				col.Count("history:without-account-then-with")
			} else {
				col.Count("history:with-account-then-without")
			}
			for _, h := range hows {
				seqs = append(seqs, [2]int{v, h})
			}
		}
		// interleave the two validators' questions now and then (order within a validator is kept
		// often enough by the plain case)
		if r.Chance(1, 3) {
			perm := r.Perm(len(seqs))
			shuffled := make([][2]int, len(seqs))
			for i, j := range perm {
				shuffled[i] = seqs[j]
			}
			seqs = shuffled
		}
		for _, s := range seqs {
			lookup(s[0], s[1])
		}
		if p == phases-1 {
			break
		}
		switch k := r.Intn(20); {
		case k < 6:
			ops = append(ops, Op{Kind: "refresh", Source: "doc", Doc: 0})
			col.Count("history-refresh:same-document")
		case k < 16 && nDocs > 0:
			d := r.Range(1, nDocs)
			ops = append(ops, Op{Kind: "refresh", Source: "doc", Doc: d})
			col.Count("history-refresh:other-document")
		case k < 18:
			ops = append(ops, Op{Kind: "refresh", Source: "fails"})
			col.Count("history-refresh:source-fails")
		case k < 19:
			ops = append(ops, Op{Kind: "refresh", Source: "accounts-fail"})
			col.Count("history-refresh:accounts-provider-fails")
		default:
			ops = append(ops, Op{Kind: "refresh", Source: "no-accounts"})
			col.Count("history-refresh:no-validating-accounts")
		}
	}
	return ops
}
