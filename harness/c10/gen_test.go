package c10

import (
	"encoding/json"
	"fmt"
	"regexp"
	"strings"

	. "verifharness/common"
)

// Generators.  Structured and mostly valid; the families are those of DESIGN 6b for C10:
// every presence pattern of every field at the four levels of one relay, overlapping proposer
// entries (same key twice, key + account pattern, general-before-specific patterns), patterns that
// match only a prefix / suffix of the name, reset / disabled / new relays, the legacy format, and a
// stream of malformed documents.

type gctx struct {
	r      *Rand
	col    *Collector
	addrs  []string
	keys   []string
	tags   map[string]bool
	relays []string
}

func hexOf(r *Rand, n int, style int) string {
	b := make([]byte, n)
	switch style {
	case 0: // repeated byte: readable
		x := byte(r.Range(1, 255))
		for i := range b {
			b[i] = x
		}
	case 1: // leading zero bytes
		for i := n / 2; i < n; i++ {
			b[i] = byte(r.Intn(256))
		}
		b[n-1] |= 1
	default:
		for i := range b {
			b[i] = byte(r.Intn(256))
		}
		b[0] |= 0x80
	}
	return fmt.Sprintf("0x%x", b)
}

var wallets = []string{"Wallet 1", "Wallet 2", "W"}
var accounts = []string{"Account 1", "Account 12", "Account 2", "Validator 1", "1"}

// account patterns; none has an escaped trailing dollar (outside the generated domain, see props/C10.json)
var patterns = []string{
	"Wallet 1/Account 1|Wallet 2/Account 2", // top-level alternation: must stay inside the implicit anchors
	"Account 1|Wallet 2/.*",
	"Wallet 2/Account 1|1",
	"^Wallet 1/Account 1|W/1",       // half anchored
	"^Wallet 1/Account 2$|^W/1$",    // fully anchored by the author: used as written
	"Wallet 1/Account 1",     // exact name; a prefix of "Wallet 1/Account 12"
	"Wallet 1/.*",            // whole wallet
	"Wallet 2/Account [12]",  // class
	"Wallet 1/Account",       // prefix only: matches nothing when anchored
	"Account 1",              // suffix only: matches nothing when anchored
	"Account 12$",            // suffix with explicit end anchor
	"^Wallet 1/Account 1",    // explicit start anchor only
	"^Wallet 2/.*$",          // both anchors explicit
	".*",                     // everything
	"<unknown>/<unknown>",    // a validator without account
	"<unknown>/.*",           // accounts without wallet
	"Wallet (1|2)/Account 1", // grouped alternation
	"Wallet [12]/Account 1.?",
	".*/Account 2",
	"W/1",
	"Wallet 1/Account 1.",
	"allet 1/Account 1", // misses the first character
}

var gasValues = []string{"0", "1", "30000000", "60000000", "18446744073709551615", "36000000"}
var graceValues = []string{"0", "1", "500", "1000", "2500", "86400000", "9223372036854"}

// milliseconds that do not fit time.Duration: must be refused
var graceOverflow = []string{"9223372036855", "18446744073709", "18446744073710", "9223372036854775807"}
var minValues = []string{"0", "0.1", "0.5", "1", "0.2", "0.4", "123.456", "0.123456789012345678", "0.00000000000000001",
	"0.000000000000000001", "0.0000000000000000001", "1e-18", "1E2", "5000000", "0.10", "00.5", "1.000000000000000001",
	"0.99999999999999999", "340282366920938463463374607431768211456"}

func (g *gctx) fee() string {
	if g.r.Chance(1, 25) {
		return "0x0000000000000000000000000000000000000000"
	}
	return g.addrs[g.r.Intn(len(g.addrs))]
}

func (g *gctx) key() string {
	return g.keys[g.r.Intn(len(g.keys))]
}

func (g *gctx) gas() string {
	if g.r.Chance(1, 4) {
		return fmt.Sprintf("%d", g.r.Intn(100000000))
	}
	return gasValues[g.r.Intn(len(gasValues))]
}

func (g *gctx) grace() string {
	if g.r.Chance(1, 4) {
		return fmt.Sprintf("%d", g.r.Intn(10000000))
	}
	return graceValues[g.r.Intn(len(graceValues))]
}

func (g *gctx) minv() string {
	if g.r.Chance(1, 3) {
		// random decimal with 0..22 fractional digits
		nd := g.r.Intn(23)
		var b strings.Builder
		fmt.Fprintf(&b, "%d", g.r.Intn(3)*g.r.Intn(1000))
		if nd > 0 {
			b.WriteByte('.')
			for i := 0; i < nd; i++ {
				b.WriteByte(byte('0' + g.r.Intn(10)))
			}
		}
		return b.String()
	}
	return minValues[g.r.Intn(len(minValues))]
}

func fracDigits(s string) int {
	// digits after the point, trailing zeros excluded; exponent forms are treated by the caller
	i := strings.IndexByte(s, '.')
	if i < 0 {
		return 0
	}
	f := strings.TrimRight(s[i+1:], "0")
	return len(f)
}

// opt sets m[key] with probability 1/2; rarely as an explicit empty string or null (both = absent).
func (g *gctx) opt(m map[string]any, key string, val func() string) {
	switch k := g.r.Intn(80); {
	case k < 38:
		v := val()
		m[key] = v
		if key == "min_value" && (fracDigits(v) > 16 || strings.ContainsAny(v, "eE")) {
			g.tags["min-precision"] = true
		}
	case k == 38:
		m[key] = ""
		g.tags["explicit-empty"] = true
	case k == 39:
		m[key] = nil
		g.tags["explicit-null-field"] = true
	}
}

func (g *gctx) commonFields(m map[string]any) {
	g.opt(m, "fee_recipient", g.fee)
	g.opt(m, "gas_limit", g.gas)
	g.opt(m, "grace", g.grace)
	g.opt(m, "min_value", g.minv)
}

func present(m map[string]any, key string) bool {
	s, ok := m[key].(string)
	return ok && s != ""
}

func (g *gctx) genV2() map[string]any {
	r := g.r
	doc := map[string]any{"version": 2}
	g.commonFields(doc)
	top := map[string]any{}
	for _, a := range g.relays[:5] {
		if r.Chance(2, 5) {
			e := map[string]any{}
			g.opt(e, "public_key", g.key)
			g.commonFields(e)
			top[a] = e
		}
	}
	if len(top) > 0 || r.Chance(1, 10) {
		doc["relays"] = top
	}
	var props []any
	np := r.Range(0, 4)
	for i := 0; i < np; i++ {
		p := map[string]any{}
		switch k := r.Intn(20); {
		case k < 9:
			p["proposer"] = g.key()
		case k < 19:
			pat := patterns[r.Intn(len(patterns))]
			if r.Chance(1, 2) {
				var shape string
				pat, shape = composedPattern(r)
				g.col.Count("pattern-shape:" + shape)
				g.tags["pattern-composed"] = true
				if strings.Contains(shape, "groups-both-ends") {
					g.tags["pattern-groups-both-ends"] = true
				}
				if strings.Contains(pat, `\`) {
					g.tags["pattern-escapes"] = true
				}
			} else {
				g.col.Count("pattern-shape:fixed-list")
			}
			p["proposer"] = pat
			if strings.HasPrefix(pat, "^") && strings.HasSuffix(pat, "$") {
				g.tags["pattern-anchored-by-author"] = true
			}
			if strings.Contains(pat, "|") && !strings.Contains(pat, "(") {
				g.tags["alternation"] = true
			}
		default:
			p["proposer"] = "0x" + strings.Repeat("00", 48)
			g.tags["zero-key-proposer"] = true
		}
		g.commonFields(p)
		if r.Chance(1, 4) {
			p["reset_relays"] = true
			g.tags["reset"] = true
		} else if r.Chance(1, 10) {
			p["reset_relays"] = false
		}
		prs := map[string]any{}
		for _, a := range g.relays {
			if r.Chance(1, 3) {
				e := map[string]any{}
				if r.Chance(1, 4) {
					e["disabled"] = true
					if _, inh := top[a]; !inh || p["reset_relays"] == true {
						g.tags["disabled-new-relay"] = true
					} else {
						g.tags["disabled-inherited-relay"] = true
					}
				}
				g.opt(e, "public_key", g.key)
				g.commonFields(e)
				prs[a] = e
				if _, inh := top[a]; inh && p["reset_relays"] != true {
					g.tags["override-inherited-relay"] = true
					bre := top[a].(map[string]any)
					for _, f := range []string{"fee_recipient", "gas_limit", "grace", "min_value"} {
						bits := ""
						for _, lvl := range []map[string]any{e, p, bre, doc} {
							if present(lvl, f) {
								bits += "1"
							} else {
								bits += "0"
							}
						}
						g.col.Count("lattice(proposer-relay,proposer,relay,top):" + bits)
					}
				} else {
					g.tags["new-relay"] = true
				}
			}
		}
		if len(prs) > 0 || r.Chance(1, 10) {
			p["relays"] = prs
		}
		props = append(props, p)
	}
	if len(props) > 0 || r.Chance(1, 10) {
		if props == nil {
			props = []any{}
		}
		doc["proposers"] = props
	}
	return doc
}

func (g *gctx) genProposer1() map[string]any {
	r := g.r
	p := map[string]any{"fee_recipient": g.fee()}
	if p["fee_recipient"] == "0x0000000000000000000000000000000000000000" {
		g.tags["v1-zero-fee"] = true
	}
	if r.Chance(1, 2) {
		p["gas_limit"] = g.gas()
	}
	if r.Chance(2, 3) {
		b := map[string]any{"enabled": r.Chance(2, 3)}
		if r.Chance(1, 2) {
			b["grace"] = g.grace()
		}
		n := r.Range(0, 3)
		if b["enabled"] == true && n == 0 {
			n = 1
		}
		if n > 0 || r.Chance(1, 4) {
			rs := []any{}
			for i := 0; i < n; i++ {
				rs = append(rs, g.relays[r.Intn(4)])
			}
			b["relays"] = rs
		}
		p["builder"] = b
	} else if r.Chance(1, 10) {
		p["builder"] = nil
	}
	return p
}

func (g *gctx) genV1() map[string]any {
	r := g.r
	doc := map[string]any{"default_config": g.genProposer1()}
	if r.Chance(1, 8) {
		doc["version"] = 0
	}
	pcs := map[string]any{}
	for _, k := range g.keys[:4] {
		if r.Chance(2, 5) {
			if r.Chance(1, 12) {
				pcs[k] = nil
				g.tags["v1-null-proposer"] = true
			} else {
				pcs[k] = g.genProposer1()
			}
		}
	}
	if len(pcs) > 0 || r.Chance(1, 8) {
		doc["proposer_config"] = pcs
	}
	return doc
}

// malform applies one defect to a version 2 document; returns its name.
func (g *gctx) malformV2(doc map[string]any) string {
	r := g.r
	relays, _ := doc["relays"].(map[string]any)
	props, _ := doc["proposers"].([]any)
	anyRelay := func() map[string]any {
		for _, v := range relays {
			if m, ok := v.(map[string]any); ok {
				return m
			}
		}
		return nil
	}
	// where to put a bad leaf: top, a relay, a proposer, a proposer relay
	target := doc
	switch r.Intn(4) {
	case 1:
		if m := anyRelay(); m != nil {
			target = m
		}
	case 2:
		if len(props) > 0 {
			target = props[r.Intn(len(props))].(map[string]any)
		}
	case 3:
		for _, p := range props {
			if prs, ok := p.(map[string]any)["relays"].(map[string]any); ok {
				for _, v := range prs {
					target = v.(map[string]any)
				}
			}
		}
	}
	switch k := r.Intn(16); k {
	case 0:
		target["fee_recipient"] = "0x1234"
		return "fee-length"
	case 1:
		target["fee_recipient"] = "0xzz11111111111111111111111111111111111111"
		return "fee-hex"
	case 2:
		target["gas_limit"] = "-1"
		return "gas-negative"
	case 3:
		target["gas_limit"] = "18446744073709551616"
		return "gas-overflow"
	case 4:
		target["grace"] = "-5"
		return "grace-negative"
	case 5:
		if r.Bool() {
			target["grace"] = graceOverflow[r.Intn(len(graceOverflow))]
			return "grace-overflow"
		}
		target["grace"] = "1.5"
		return "grace-fraction"
	case 6:
		target["min_value"] = "-0.1"
		return "min-negative"
	case 7:
		target["min_value"] = "abc"
		return "min-text"
	case 8:
		target["gas_limit"] = 30000000
		return "gas-wrong-type"
	case 9:
		doc["version"] = []any{1, 3, "2", 2.5, -2}[r.Intn(5)]
		return "version"
	case 10:
		if relays == nil {
			relays = map[string]any{}
			doc["relays"] = relays
		}
		relays[g.relays[r.Intn(len(g.relays))]] = nil
		g.tags["null-entry"] = true
		return "null-relay"
	case 11:
		doc["proposers"] = append(props, nil)
		g.tags["null-entry"] = true
		return "null-proposer"
	case 12:
		p := map[string]any{"proposer": g.key(), "relays": map[string]any{g.relays[r.Intn(len(g.relays))]: nil}}
		doc["proposers"] = append([]any{p}, props...)
		g.tags["null-entry"] = true
		return "null-proposer-relay"
	case 13:
		p := map[string]any{"fee_recipient": g.fee()}
		if r.Bool() {
			p["proposer"] = ""
		}
		doc["proposers"] = append(props, p)
		return "proposer-missing"
	case 14:
		doc["proposers"] = append(props, map[string]any{"proposer": []string{"Wallet (", "0x1234", "[a"}[r.Intn(3)]})
		return "proposer-invalid"
	default:
		if m := anyRelay(); m != nil {
			m["public_key"] = "0x" + strings.Repeat("ab", 47)
			return "pubkey-length"
		}
		doc["relays"] = []any{}
		return "relays-wrong-type"
	}
}

func (g *gctx) malformV1(doc map[string]any) string {
	r := g.r
	def, _ := doc["default_config"].(map[string]any)
	switch r.Intn(11) {
	case 9:
		// a second spelling of a key that is present (upper case, or without 0x)
		pcs, _ := doc["proposer_config"].(map[string]any)
		if pcs == nil {
			pcs = map[string]any{}
			doc["proposer_config"] = pcs
		}
		k := g.keys[0]
		if _, ok := pcs[k]; !ok {
			pcs[k] = g.genProposer1()
		}
		alt := "0x" + strings.ToUpper(k[2:])
		if alt == k || r.Bool() {
			alt = k[2:]
		}
		pcs[alt] = g.genProposer1()
		return "v1-duplicate-key"
	case 10:
		pcs, _ := doc["proposer_config"].(map[string]any)
		if pcs == nil {
			pcs = map[string]any{}
			doc["proposer_config"] = pcs
		}
		pcs[[]string{"0x" + strings.Repeat("ab", 47), "0xzz" + strings.Repeat("ab", 47), "Wallet 1/Account 1"}[r.Intn(3)]] = g.genProposer1()
		return "v1-key-invalid"
	case 8:
		doc["version"] = []any{1, 3, -1, "0", 2, 1}[r.Intn(6)]
		return "v1-version"
	case 6:
		def["fee_recipient"] = []string{"0x1234", "0x11111111111111111111111111111111111111", "0x111111111111111111111111111111111111111122"}[r.Intn(3)]
		return "v1-fee-length"
	case 7:
		if pcs, ok := doc["proposer_config"].(map[string]any); ok {
			for _, v := range pcs {
				if m, ok := v.(map[string]any); ok {
					m["fee_recipient"] = "0x" + strings.Repeat("22", 19)
					return "v1-fee-length"
				}
			}
		}
		def["fee_recipient"] = "0xzz11111111111111111111111111111111111111"
		return "v1-fee-hex"
	case 0:
		delete(doc, "default_config")
		return "v1-default-missing"
	case 1:
		doc["default_config"] = nil
		return "v1-default-null"
	case 2:
		delete(def, "fee_recipient")
		return "v1-fee-missing"
	case 3:
		def["builder"] = map[string]any{"enabled": true}
		return "v1-relays-missing"
	case 4:
		def["gas_limit"] = "x"
		return "v1-gas-text"
	default:
		if r.Bool() {
			def["builder"] = map[string]any{"enabled": false, "grace": graceOverflow[r.Intn(len(graceOverflow))]}
			return "v1-grace-overflow"
		}
		def["builder"] = map[string]any{"enabled": false, "grace": "-1"}
		return "v1-grace-negative"
	}
}

// validators draws 4-7 validators; half of them are aimed at a proposer entry of the document (its
// public key, or a name its pattern matches) so that entries apply, overlap and shadow each other.
func (g *gctx) validators(selectors []string) []Validator {
	r := g.r
	n := r.Range(4, 7)
	vs := make([]Validator, 0, n)
	for i := 0; i < n; i++ {
		v := Validator{Pubkey: g.key()}
		if r.Chance(1, 20) {
			v.Pubkey = "0x" + strings.Repeat("00", 48)
		}
		switch k := r.Intn(20); {
		case k < 14:
			v.Kind, v.Wallet, v.Account = "wallet", wallets[r.Intn(len(wallets))], accounts[r.Intn(len(accounts))]
		case k < 17:
			v.Kind, v.Account = "nowallet", accounts[r.Intn(len(accounts))]
		default:
			v.Kind = "nil"
		}
		if len(selectors) > 0 && r.Chance(1, 2) {
			sel := selectors[r.Intn(len(selectors))]
			if strings.HasPrefix(sel, "0x") {
				if len(sel) == 98 {
					v.Pubkey = sel
				}
			} else if r.Chance(1, 3) {
				// a name on which a misreading of the pattern (anchors or wrapper lost, added or
				// confused) differs from its documented meaning
				if w, a, ok := nearMiss(r, sel); ok {
					v.Kind, v.Wallet, v.Account = "wallet", w, a
					g.col.Count("validator:aimed-near-miss")
				}
			} else if re, err := regexp.Compile(documented(sel)); err == nil {
				// a name of the universe that the pattern matches, if there is one
				start := r.Intn(len(wallets) * len(accounts))
				for j := 0; j < len(wallets)*len(accounts); j++ {
					k := (start + j) % (len(wallets) * len(accounts))
					w, a := wallets[k/len(accounts)], accounts[k%len(accounts)]
					if re.MatchString(w + "/" + a) {
						v.Kind, v.Wallet, v.Account = "wallet", w, a
						break
					}
				}
			}
		}
		g.col.Count("validator:" + v.Kind)
		vs = append(vs, v)
	}
	return vs
}

func gen(r *Rand, col *Collector) Input {
	g := &gctx{r: r, col: col, tags: map[string]bool{}}
	for i := 0; i < 5; i++ {
		g.addrs = append(g.addrs, hexOf(r, 20, r.Intn(3)))
		g.keys = append(g.keys, hexOf(r, 48, r.Intn(3)))
	}
	g.spellRelays() // relayspell_test.go: mostly "https://relay<n>.example.com/"
	var doc map[string]any
	legacy := r.Chance(1, 4)
	if legacy {
		doc = g.genV1()
		g.tags["v1"] = true
	} else {
		doc = g.genV2()
		g.tags["v2"] = true
	}
	if r.Chance(1, 10) {
		var kind string
		if legacy {
			kind = g.malformV1(doc)
		} else {
			kind = g.malformV2(doc)
		}
		g.tags["malformed"] = true
		col.Count("malformed:" + kind)
	}
	text, err := json.Marshal(doc)
	if err != nil {
		panic(err)
	}
	var selectors []string
	if ps, ok := doc["proposers"].([]any); ok {
		for _, p := range ps {
			if m, ok := p.(map[string]any); ok {
				if sel, ok := m["proposer"].(string); ok && sel != "" {
					selectors = append(selectors, sel)
				}
			}
		}
	}
	if pcs, ok := doc["proposer_config"].(map[string]any); ok {
		for k := range pcs {
			selectors = append(selectors, k)
		}
		sortStrings(selectors)
	}
	in := Input{Doc: string(text), FallbackFee: g.addrs[0], FallbackGas: []uint64{30000000, 0, 1, 12345}[r.Intn(4)], Validators: g.validators(selectors)}
	if r.Chance(1, 10) {
		in.FallbackFee = g.fee()
	}
	// the history on one service instance: other documents a refresh may serve, and the operations
	in.MoreDocs = g.moreDocs(doc, legacy)
	in.History = genHistory(r, col, len(in.Validators), len(in.MoreDocs))
	g.tags["history"] = true
	for t := range g.tags {
		in.Tags = append(in.Tags, t)
	}
	sortStrings(in.Tags)
	return in
}

// moreDocs draws one or two documents a later refresh of the history serves: mostly small ones
// (they are printed as trees too), one in three a variant of the document itself (an entry removed,
// the entries reversed: the same validator falls to another entry), one in four a full document of
// either format over the same keys, addresses and relays, and now and then one that is refused.
func (g *gctx) moreDocs(doc map[string]any, legacy bool) []string {
	r := g.r
	var out []string
	n := r.Range(1, 2)
	for i := 0; i < n; i++ {
		var d any
		kind := ""
		switch k := r.Intn(12); {
		case k < 1:
			d, kind = map[string]any{"version": 2}, "empty-v2"
		case k < 3:
			m := map[string]any{"version": 2, "fee_recipient": g.fee()}
			if r.Bool() {
				m["relays"] = map[string]any{g.relays[r.Intn(3)]: map[string]any{}}
			}
			d, kind = m, "top-level-only"
		case k < 7:
			// the document itself with its proposer entries reversed, or without its first entry
			m := map[string]any{}
			for key, val := range doc {
				m[key] = val
			}
			ps, _ := doc["proposers"].([]any)
			if len(ps) > 0 {
				if r.Bool() {
					rev := make([]any, len(ps))
					for j, p := range ps {
						rev[len(ps)-1-j] = p
					}
					m["proposers"] = rev
					kind = "entries-reversed"
				} else {
					m["proposers"] = append([]any{}, ps[1:]...)
					kind = "first-entry-removed"
				}
			} else if pcs, ok := doc["proposer_config"].(map[string]any); ok && len(pcs) > 0 {
				// legacy: the default and an own entry change places
				pm := map[string]any{}
				for key, val := range pcs {
					pm[key] = val
				}
				keys := make([]string, 0, len(pm))
				for key := range pm {
					keys = append(keys, key)
				}
				sortStrings(keys)
				key := keys[r.Intn(len(keys))]
				if pm[key] != nil && doc["default_config"] != nil {
					m["default_config"], pm[key] = pm[key], doc["default_config"]
				}
				m["proposer_config"] = pm
				kind = "v1-default-swapped"
			} else {
				m["fee_recipient"] = g.fee()
				if legacy {
					m = map[string]any{"default_config": g.genProposer1()}
				}
				kind = "other-top-fee"
			}
			d = m
		case k < 10:
			// a full document of either format (tags and lattice counts belong to the first document)
			saved := g.tags
			g.tags = map[string]bool{}
			if r.Chance(1, 4) {
				d, kind = g.genV1(), "full-v1"
			} else {
				d, kind = g.genV2(), "full-v2"
			}
			g.tags = saved
		default:
			d = []any{
				map[string]any{"version": 3},
				map[string]any{"version": 2, "gas_limit": "x"},
				map[string]any{"version": 2, "proposers": []any{map[string]any{"proposer": "Wallet ("}}},
				map[string]any{"proposer_config": map[string]any{}},
				"not a configuration",
			}[r.Intn(5)]
			kind = "refused"
		}
		text, err := json.Marshal(d)
		if err != nil {
			panic(err)
		}
		out = append(out, string(text))
		g.col.Count("history-document:" + kind)
	}
	return out
}

func sortStrings(s []string) {
	for i := 1; i < len(s); i++ {
		for j := i; j > 0 && s[j] < s[j-1]; j-- {
			s[j], s[j-1] = s[j-1], s[j]
		}
	}
}
