// C10: pushes generated execution-configuration documents (version 2 and legacy) through the real
// blockrelay.UnmarshalJSON -> ProposerConfig (for several validators) -> json.Marshal ->
// blockrelay.UnmarshalJSON -> ProposerConfig pipeline and prints each document, as a value tree with
// decoded leaves, together with everything the implementation did as a Gallina case for Check.C10.
package c10

import (
	"bytes"
	"context"
	"encoding/hex"
	"encoding/json"
	"fmt"
	"math/big"
	"os"
	"path/filepath"
	"regexp"
	"sort"
	"strconv"
	"strings"
	"testing"

	"github.com/attestantio/go-eth2-client/spec/bellatrix"
	"github.com/attestantio/go-eth2-client/spec/phase0"
	"github.com/attestantio/vouch/services/beaconblockproposer"
	"github.com/attestantio/vouch/services/blockrelay"
	v1 "github.com/attestantio/vouch/services/blockrelay/v1"
	v2 "github.com/attestantio/vouch/services/blockrelay/v2"
	"github.com/google/uuid"
	"github.com/shopspring/decimal"
	e2types "github.com/wealdtech/go-eth2-types/v2"
	e2wtypes "github.com/wealdtech/go-eth2-wallet-types/v2"

	. "verifharness/common"
)

// ---------------------------------------------------------------------------------------------
// Input type (also the corpus / replay format).

type Validator struct {
	Pubkey  string `json:"pubkey"`            // 0x + 96 hex digits
	Kind    string `json:"kind"`              // "nil" (no account) | "nowallet" | "wallet"
	Wallet  string `json:"wallet,omitempty"`  // kind wallet
	Account string `json:"account,omitempty"` // kinds nowallet, wallet
}

type Input struct {
	Doc         string      `json:"doc"` // the execution configuration document (JSON text)
	FallbackFee string      `json:"fallback_fee"`
	FallbackGas uint64      `json:"fallback_gas"`
	Validators  []Validator `json:"validators"`
	// the history on one block relay service instance (service_test.go): documents a refresh may
	// serve besides doc, and the operations
	MoreDocs []string `json:"more_docs,omitempty"`
	History  []Op     `json:"history,omitempty"`
	Tags     []string `json:"tags,omitempty"`
}

// ---------------------------------------------------------------------------------------------
// Mock accounts (only what setAccountName uses).

type wallet struct{ name string }

func (w *wallet) ID() uuid.UUID                                      { return uuid.UUID{} }
func (w *wallet) Type() string                                       { return "mock" }
func (w *wallet) Name() string                                       { return w.name }
func (w *wallet) Version() uint                                      { return 1 }
func (w *wallet) Accounts(_ context.Context) <-chan e2wtypes.Account { return nil }

type account struct{ name string }

func (a *account) ID() uuid.UUID                { return uuid.UUID{} }
func (a *account) Name() string                 { return a.name }
func (a *account) PublicKey() e2types.PublicKey { return nil }

type walletAccount struct {
	account
	w *wallet
}

func (a *walletAccount) Wallet() e2wtypes.Wallet { return a.w }

func (v Validator) account() e2wtypes.Account {
	switch v.Kind {
	case "nowallet":
		return &account{name: v.Account}
	case "wallet":
		return &walletAccount{account: account{name: v.Account}, w: &wallet{name: v.Wallet}}
	default:
		return nil
	}
}

// the documented name an account pattern is matched against
func (v Validator) specName() string {
	switch v.Kind {
	case "nowallet":
		return "<unknown>/" + v.Account
	case "wallet":
		return v.Wallet + "/" + v.Account
	default:
		return "<unknown>/<unknown>"
	}
}

// ---------------------------------------------------------------------------------------------
// Leaf codecs and numbering tables (the trusted side of the correspondence).

func BigN(x *big.Int) string { return x.String() + "%N" }

// bytesN numbers a byte string (fee recipient, public key): all-zero bytes are 0, every other
// distinct value gets the next small number (first-seen order within the case).  Coq elaborates
// 384-bit numerals far too slowly to print the values themselves; the model only ever compares
// them for equality and against zero.
func (t *tables) bytesN(b []byte) string {
	zero := true
	for _, x := range b {
		if x != 0 {
			zero = false
		}
	}
	if zero {
		return N(0)
	}
	k := hex.EncodeToString(b)
	if id, ok := t.values[k]; ok {
		return N(id)
	}
	id := uint64(1 + len(t.values))
	t.values[k] = id
	return N(id)
}

func hexBytes(s string, n int) ([]byte, bool) {
	b, err := hex.DecodeString(strings.TrimPrefix(s, "0x"))
	if err != nil || len(b) != n {
		return nil, false
	}
	return b, true
}

// decTerm prints a non-negative decimal as the normalised pair (m, e): m * 10^e, m not divisible by 10.
func decTerm(d decimal.Decimal) string {
	m := d.Coefficient()
	e := int64(d.Exponent())
	if m.Sign() == 0 {
		return "(0%N, 0%Z)"
	}
	ten := big.NewInt(10)
	q, r := new(big.Int), new(big.Int)
	for {
		q.QuoRem(m, ten, r)
		if r.Sign() != 0 {
			break
		}
		m.Set(q)
		e++
	}
	return Pair(BigN(m), Z(e))
}

// documented gives the meaning of an account pattern as written in a document: a pattern with both
// anchors is used as written; otherwise the whole name "wallet/account" must match it (the
// documentation: "specified with implicit start and end anchors ... if these are not supplied they
// are added by Vouch").
func documented(s string) string {
	if strings.HasPrefix(s, "^") && strings.HasSuffix(s, "$") {
		return s
	}
	return "^(?:" + s + ")$"
}

type tables struct {
	relays   map[string]uint64
	patterns map[string]uint64 // regular expression source -> number
	sigs     map[string]uint64 // behaviour on the probe names -> number
	compiled map[uint64]*regexp.Regexp
	values   map[string]uint64
	probes   []string
}

// probeBases: the names the generators use, plus forms no validator of the case may have.
var probeBases = func() []string {
	var out []string
	ws := append([]string{"<unknown>", "Wallet 11", "Wallet"}, wallets...)
	as := append([]string{"<unknown>", "Account", "Account 21"}, accounts...)
	for _, w := range ws {
		for _, a := range as {
			out = append(out, w+"/"+a)
		}
	}
	return out
}()

func newTables(vals []Validator) *tables {
	t := &tables{relays: map[string]uint64{}, patterns: map[string]uint64{}, sigs: map[string]uint64{},
		compiled: map[uint64]*regexp.Regexp{}, values: map[string]uint64{}}
	bases := append([]string{}, probeBases...)
	for _, v := range vals {
		bases = append(bases, v.specName())
	}
	for _, b := range bases {
		t.probes = append(t.probes, b, b+"x", "x"+b)
	}
	return t
}

func (t *tables) relay(addr string) uint64 {
	if id, ok := t.relays[addr]; ok {
		return id
	}
	// "https://relay<n>.example.com/" keeps its own number (readable cases); anything else is numbered from 1000.
	var n uint64
	if _, err := fmt.Sscanf(addr, "https://relay%d.example.com/", &n); err == nil && fmt.Sprintf("https://relay%d.example.com/", n) == addr {
		t.relays[addr] = n
		return n
	}
	id := uint64(1000 + len(t.relays))
	t.relays[addr] = id
	return id
}

// pattern numbers an account pattern, or returns false when it does not compile.  Patterns are
// numbered by what they match among the probe names (which include the names of the case's
// validators): the model only ever asks whether a pattern matches a validator of the case, and the
// text the implementation chooses for an anchored pattern is not an observable.  asWritten: the
// source is a regular expression the implementation holds (matched as it is); otherwise it is a
// pattern of a document, with its documented meaning.
func (t *tables) pattern(s string, asWritten bool) (uint64, bool) {
	src := s
	if !asWritten {
		src = documented(s)
	}
	if id, ok := t.patterns[src]; ok {
		return id, true
	}
	if _, err := regexp.Compile(s); err != nil {
		return 0, false // not a regular expression on its own
	}
	re, err := regexp.Compile(src)
	if err != nil {
		return 0, false
	}
	sig := make([]byte, len(t.probes))
	for i, name := range t.probes {
		sig[i] = '0'
		if re.MatchString(name) {
			sig[i] = '1'
		}
	}
	id, ok := t.sigs[string(sig)]
	if !ok {
		id = uint64(1 + len(t.sigs))
		t.sigs[string(sig)] = id
		t.compiled[id] = re
	}
	t.patterns[src] = id
	return id, true
}

// ---------------------------------------------------------------------------------------------
// JSON text -> Gallina [json] tree, directed by the document schema.

func strLeaf(v any, dec func(string) string) string {
	switch x := v.(type) {
	case nil:
		return "JNull"
	case string:
		if x == "" {
			return "(JStr LEmpty)"
		}
		return App("JStr", dec(x))
	default:
		return generic(v)
	}
}

// generic prints a value found where the schema expects something else (the decoders reject it).
func generic(v any) string {
	switch x := v.(type) {
	case nil:
		return "JNull"
	case bool:
		return App("JBool", Bool(x))
	case json.Number:
		if n, err := strconv.ParseUint(string(x), 10, 64); err == nil {
			return App("JNum", N(n))
		}
		return "(JStr LBad)"
	case string:
		return "(JStr LBad)"
	case []any:
		return "(JArr [])"
	case map[string]any:
		return "(JObj [])"
	}
	return "(JStr LBad)"
}

func (t *tables) addrLeaf(s string) string {
	if b, ok := hexBytes(s, 20); ok {
		return App("LAddr", t.bytesN(b))
	}
	return "LBad"
}

func (t *tables) keyLeaf(s string) string {
	if b, ok := hexBytes(s, 48); ok {
		return App("LKey", t.bytesN(b))
	}
	return "LBad"
}

func (t *tables) numLeaf(s string) string {
	if n, err := strconv.ParseUint(s, 10, 64); err == nil {
		return App("LNum", N(n))
	}
	return "LBad"
}

func (t *tables) graceLeaf(s string) string {
	if n, err := strconv.ParseInt(s, 10, 64); err == nil && n >= 0 {
		return App("LNum", N(uint64(n)))
	}
	return "LBad"
}

func (t *tables) decLeaf(s string) string {
	if d, err := decimal.NewFromString(s); err == nil && d.Sign() >= 0 {
		return App("LDec", decTerm(d))
	}
	return "LBad"
}

func (t *tables) proposerLeaf(s string) string {
	if strings.HasPrefix(s, "0x") {
		return t.keyLeaf(s)
	}
	if id, ok := t.pattern(s, false); ok {
		return App("LRegex", N(id))
	}
	return "LBad"
}

func (t *tables) relayLeaf(s string) string { return App("LRelay", N(t.relay(s))) }

type fieldSpec struct {
	key  string
	fld  string
	conv func(any) string
}

func (t *tables) obj(v any, specs []fieldSpec) string {
	m, ok := v.(map[string]any)
	if !ok {
		return generic(v)
	}
	var items []string
	for _, s := range specs {
		if x, present := m[s.key]; present {
			items = append(items, Pair(s.fld, s.conv(x)))
		}
	}
	return App("JObj", List(items))
}

func (t *tables) mapOf(v any, key func(string) string, conv func(any) string) string {
	m, ok := v.(map[string]any)
	if !ok {
		return generic(v)
	}
	keys := make([]string, 0, len(m))
	for k := range m {
		keys = append(keys, k)
	}
	sort.Strings(keys)
	var items []string
	for _, k := range keys {
		items = append(items, Pair(key(k), conv(m[k])))
	}
	return App("JMap", List(items))
}

func (t *tables) arrOf(v any, conv func(any) string) string {
	a, ok := v.([]any)
	if !ok {
		return generic(v)
	}
	var items []string
	for _, x := range a {
		items = append(items, conv(x))
	}
	return App("JArr", List(items))
}

func boolVal(v any) string {
	if b, ok := v.(bool); ok {
		return App("JBool", Bool(b))
	}
	return generic(v)
}

func versionVal(v any) string {
	if n, ok := v.(json.Number); ok {
		if u, err := strconv.ParseUint(string(n), 10, 64); err == nil {
			return App("JNum", N(u))
		}
		return "(JStr LBad)"
	}
	return generic(v)
}

func (t *tables) common() []fieldSpec {
	return []fieldSpec{
		{"fee_recipient", "FFee", func(v any) string { return strLeaf(v, t.addrLeaf) }},
		{"gas_limit", "FGas", func(v any) string { return strLeaf(v, t.numLeaf) }},
		{"grace", "FGrace", func(v any) string { return strLeaf(v, t.graceLeaf) }},
		{"min_value", "FMin", func(v any) string { return strLeaf(v, t.decLeaf) }},
	}
}

func (t *tables) relayKey(k string) string { return N(t.relay(k)) }

func (t *tables) baseRelay(v any) string {
	if v == nil {
		return "JNull"
	}
	specs := append([]fieldSpec{{"public_key", "FPk", func(v any) string { return strLeaf(v, t.keyLeaf) }}}, t.common()...)
	return t.obj(v, specs)
}

func (t *tables) propRelay(v any) string {
	if v == nil {
		return "JNull"
	}
	specs := append([]fieldSpec{
		{"disabled", "FDisabled", boolVal},
		{"public_key", "FPk", func(v any) string { return strLeaf(v, t.keyLeaf) }},
	}, t.common()...)
	return t.obj(v, specs)
}

func (t *tables) proposer(v any) string {
	if v == nil {
		return "JNull"
	}
	specs := append([]fieldSpec{{"proposer", "FProposer", func(v any) string { return strLeaf(v, t.proposerLeaf) }}}, t.common()...)
	specs = append(specs,
		fieldSpec{"reset_relays", "FReset", boolVal},
		fieldSpec{"relays", "FRelays", func(v any) string {
			if v == nil {
				return "JNull"
			}
			return t.mapOf(v, t.relayKey, t.propRelay)
		}})
	return t.obj(v, specs)
}

func (t *tables) builder1(v any) string {
	if v == nil {
		return "JNull"
	}
	return t.obj(v, []fieldSpec{
		{"enabled", "FEnabled", boolVal},
		{"grace", "FGrace", func(v any) string { return strLeaf(v, t.graceLeaf) }},
		{"relays", "FRelays", func(v any) string {
			if v == nil {
				return "JNull"
			}
			return t.arrOf(v, func(x any) string {
				if s, ok := x.(string); ok {
					return App("JStr", t.relayLeaf(s))
				}
				return generic(x)
			})
		}},
	})
}

func (t *tables) proposer1(v any) string {
	if v == nil {
		return "JNull"
	}
	return t.obj(v, []fieldSpec{
		{"fee_recipient", "FFee", func(v any) string { return strLeaf(v, t.addrLeaf) }},
		{"gas_limit", "FGas", func(v any) string { return strLeaf(v, t.numLeaf) }},
		{"builder", "FBuilder", t.builder1},
	})
}

// tree prints a document.  The schema is chosen by "version" exactly as the dispatcher reads it.
func (t *tables) tree(text []byte) string {
	dec := json.NewDecoder(bytes.NewReader(text))
	dec.UseNumber()
	var v any
	if err := dec.Decode(&v); err != nil {
		return "(JStr LBad)" // not JSON at all
	}
	if dec.More() {
		return "(JStr LBad)"
	}
	m, ok := v.(map[string]any)
	if !ok {
		return generic(v)
	}
	legacy := false
	switch x := m["version"].(type) {
	case nil:
		legacy = true
	case json.Number:
		legacy = string(x) == "0"
	}
	if legacy {
		return t.obj(v, []fieldSpec{
			{"version", "FVersion", versionVal},
			{"proposer_config", "FPropCfg", func(v any) string {
				if v == nil {
					return "JNull"
				}
				if m, ok := v.(map[string]any); ok {
					for k := range m {
						if _, ok := hexBytes(k, 48); !ok {
							return "(JStr LBad)" // a key that is not a public key: refused
						}
					}
				}
				return t.mapOf(v, func(k string) string {
					if b, ok := hexBytes(k, 48); ok {
						return t.bytesN(b)
					}
					return N(0)
				}, func(x any) string {
					return t.proposer1(x)
				})
			}},
			{"default_config", "FDefault", t.proposer1},
		})
	}
	specs := append([]fieldSpec{{"version", "FVersion", versionVal}}, t.common()...)
	specs = append(specs,
		fieldSpec{"relays", "FRelays", func(v any) string {
			if v == nil {
				return "JNull"
			}
			return t.mapOf(v, t.relayKey, t.baseRelay)
		}},
		fieldSpec{"proposers", "FProposers", func(v any) string {
			if v == nil {
				return "JNull"
			}
			return t.arrOf(v, t.proposer)
		}})
	return t.obj(v, specs)
}

// ---------------------------------------------------------------------------------------------
// The implementation's structs and outputs as Gallina terms.

func (t *tables) optAddr(a *bellatrix.ExecutionAddress) string {
	if a == nil {
		return None()
	}
	return Some(t.bytesN(a[:]))
}

func (t *tables) optKey(k *phase0.BLSPubKey) string {
	if k == nil {
		return None()
	}
	return Some(t.bytesN(k[:]))
}

func durN(d int64) string {
	if d < 0 {
		return N(0) // cannot be configured any more (grace values that overflow are refused)
	}
	return N(uint64(d))
}

func (t *tables) parsed2(e *v2.ExecutionConfig) (string, bool) {
	optDur := func(d *int64) string {
		if d == nil {
			return None()
		}
		return Some(durN(*d))
	}
	optDec := func(d *decimal.Decimal) string {
		if d == nil {
			return None()
		}
		return Some(decTerm(*d))
	}
	dur := func(d interface{ Nanoseconds() int64 }) *int64 { x := d.Nanoseconds(); return &x }
	ok := true
	var relays []string
	addrs := make([]string, 0, len(e.Relays))
	for a := range e.Relays {
		addrs = append(addrs, a)
	}
	sort.Strings(addrs)
	for _, a := range addrs {
		r := e.Relays[a]
		if r == nil {
			ok = false
			continue
		}
		var g *int64
		if r.Grace != nil {
			g = dur(*r.Grace)
		}
		relays = append(relays, Pair(N(t.relay(a)), Record("br_pk", t.optKey(r.PublicKey), "br_fee", t.optAddr(r.FeeRecipient),
			"br_gas", OptN(r.GasLimit), "br_grace", optDur(g), "br_min", optDec(r.MinValue))))
	}
	var props []string
	for _, p := range e.Proposers {
		if p == nil {
			ok = false
			continue
		}
		var sel string
		if p.Account != nil {
			id, compiles := t.pattern(p.Account.String(), true)
			if !compiles {
				ok = false
			}
			sel = App("SelAcct", N(id))
		} else {
			sel = App("SelKey", t.bytesN(p.Validator[:]))
		}
		var prs []string
		paddrs := make([]string, 0, len(p.Relays))
		for a := range p.Relays {
			paddrs = append(paddrs, a)
		}
		sort.Strings(paddrs)
		for _, a := range paddrs {
			r := p.Relays[a]
			if r == nil {
				ok = false
				continue
			}
			var g *int64
			if r.Grace != nil {
				g = dur(*r.Grace)
			}
			prs = append(prs, Pair(N(t.relay(a)), Record("pr_disabled", Bool(r.Disabled), "pr_pk", t.optKey(r.PublicKey),
				"pr_fee", t.optAddr(r.FeeRecipient), "pr_gas", OptN(r.GasLimit), "pr_grace", optDur(g), "pr_min", optDec(r.MinValue))))
		}
		var g *int64
		if p.Grace != nil {
			g = dur(*p.Grace)
		}
		props = append(props, Record("p_sel", sel, "p_fee", t.optAddr(p.FeeRecipient), "p_gas", OptN(p.GasLimit),
			"p_grace", optDur(g), "p_min", optDec(p.MinValue), "p_reset", Bool(p.ResetRelays), "p_relays", List(prs)))
	}
	var g *int64
	if e.Grace != nil {
		g = dur(*e.Grace)
	}
	return App("CV2", Record("e_fee", t.optAddr(e.FeeRecipient), "e_gas", OptN(e.GasLimit), "e_grace", optDur(g),
		"e_min", optDec(e.MinValue), "e_relays", List(relays), "e_props", List(props))), ok
}

func (t *tables) parsedProposer1(p *v1.ProposerConfig) string {
	if p == nil {
		return None()
	}
	builder := None()
	if p.Builder != nil {
		var rs []string
		for _, r := range p.Builder.Relays {
			rs = append(rs, N(t.relay(r)))
		}
		builder = Some(Record("b_enabled", Bool(p.Builder.Enabled), "b_grace", durN(p.Builder.Grace.Nanoseconds()), "b_relays", List(rs)))
	}
	return Some(Record("q_fee", t.bytesN(p.FeeRecipient[:]), "q_gas", N(p.GasLimit), "q_builder", builder))
}

func (t *tables) parsed1(e *v1.ExecutionConfig) (string, bool) {
	keys := make([]string, 0, len(e.ProposerConfigs))
	byKey := map[string]*v1.ProposerConfig{}
	for k, p := range e.ProposerConfigs {
		s := hex.EncodeToString(k[:])
		keys = append(keys, s)
		byKey[s] = p
	}
	sort.Strings(keys)
	var props []string
	for _, k := range keys {
		b, _ := hex.DecodeString(k)
		props = append(props, Pair(t.bytesN(b), t.parsedProposer1(byKey[k])))
	}
	return App("CV1", Record("c1_props", List(props), "c1_default", t.parsedProposer1(e.DefaultConfig))), true
}

func (t *tables) parsed(c blockrelay.ExecutionConfigurator) (res string) {
	defer func() {
		if r := recover(); r != nil {
			res = None()
		}
	}()
	switch e := c.(type) {
	case *v2.ExecutionConfig:
		if s, ok := t.parsed2(e); ok {
			return Some(s)
		}
	case *v1.ExecutionConfig:
		if s, ok := t.parsed1(e); ok {
			return Some(s)
		}
	}
	return None()
}

type relayOut struct {
	id   uint64
	term string
}

// outcomeTerm prints (OOk (Build_prop_cfg fee [Build_relay_cfg addr pk fee gas grace min; ...])) with the
// relays sorted by address number (the implementation's order is Go map order; Check.C10 sorts too).
func outcomeTerm(fee string, rs []relayOut) string {
	sort.SliceStable(rs, func(i, j int) bool { return rs[i].id < rs[j].id })
	terms := make([]string, len(rs))
	for i, r := range rs {
		terms[i] = r.term
	}
	return App("OOk", App("Build_prop_cfg", fee, List(terms)))
}

func (t *tables) outcome(pc *beaconblockproposer.ProposerConfig) string {
	var rs []relayOut
	for _, r := range pc.Relays {
		id := t.relay(r.Address)
		rs = append(rs, relayOut{id, App("Build_relay_cfg", N(id), t.optKey(r.PublicKey), t.bytesN(r.FeeRecipient[:]),
			N(r.GasLimit), durN(r.Grace.Nanoseconds()), decTerm(r.MinValue))})
	}
	return outcomeTerm(t.bytesN(pc.FeeRecipient[:]), rs)
}

// shown decodes the JSON that --proposer-config-check prints (ProposerConfig.MarshalJSON) back into
// an outcome, with the same leaf codecs as the documents.
func (t *tables) shown(pc *beaconblockproposer.ProposerConfig) (res string) {
	defer func() {
		if r := recover(); r != nil {
			res = "OPanic"
		}
	}()
	data, err := pc.MarshalJSON()
	if err != nil {
		return "OErr"
	}
	var out struct {
		FeeRecipient string `json:"fee_recipient"`
		Relays       []struct {
			Address      string `json:"address"`
			PublicKey    string `json:"public_key"`
			FeeRecipient string `json:"fee_recipient"`
			GasLimit     string `json:"gas_limit"`
			Grace        string `json:"grace"`
			MinValue     string `json:"min_value"`
		} `json:"relays"`
	}
	if err := json.Unmarshal(data, &out); err != nil {
		return "OErr"
	}
	fee, ok := hexBytes(out.FeeRecipient, 20)
	if !ok {
		return "OErr"
	}
	var rs []relayOut
	for _, r := range out.Relays {
		id := t.relay(r.Address)
		pk := None()
		if r.PublicKey != "" {
			b, ok := hexBytes(r.PublicKey, 48)
			if !ok {
				return "OErr"
			}
			pk = Some(t.bytesN(b))
		}
		rfee, ok := hexBytes(r.FeeRecipient, 20)
		if !ok {
			return "OErr"
		}
		gas, err := strconv.ParseUint(r.GasLimit, 10, 64)
		if err != nil {
			return "OErr"
		}
		grace := new(big.Int)
		if r.Grace != "" {
			if _, ok := grace.SetString(r.Grace, 10); !ok || grace.Sign() < 0 {
				return "OErr"
			}
			grace.Mul(grace, big.NewInt(1000000))
		}
		minValue := decimal.Zero
		if r.MinValue != "" {
			minValue, err = decimal.NewFromString(r.MinValue)
			if err != nil || minValue.Sign() < 0 {
				return "OErr"
			}
			minValue = minValue.Shift(18)
		}
		rs = append(rs, relayOut{id, App("Build_relay_cfg", N(id), pk, t.bytesN(rfee), N(gas), BigN(grace), decTerm(minValue))})
	}
	return outcomeTerm(t.bytesN(fee), rs)
}

// ---------------------------------------------------------------------------------------------
// Running one input on the implementation.

type observed struct {
	OK1        bool     `json:"unmarshal_ok"`
	Err1       string   `json:"unmarshal_error,omitempty"`
	Out1       []string `json:"lookups"`
	Shown      []string `json:"shown_by_proposer_config_check"`
	Marshalled string   `json:"marshalled,omitempty"`
	OK2        bool     `json:"unmarshal_again_ok"`
	Err2       string   `json:"unmarshal_again_error,omitempty"`
	Out2       []string `json:"lookups_again"`
	History    histObserved `json:"history"`
	nontrivial bool
}

func unmarshalSafe(doc []byte) (c blockrelay.ExecutionConfigurator, err error) {
	defer func() {
		if r := recover(); r != nil {
			c, err = nil, fmt.Errorf("panic: %v", r)
		}
	}()
	return blockrelay.UnmarshalJSON(doc)
}

func marshalSafe(c blockrelay.ExecutionConfigurator) (data []byte, err error) {
	defer func() {
		if r := recover(); r != nil {
			data, err = nil, fmt.Errorf("panic: %v", r)
		}
	}()
	return json.Marshal(c)
}

func (t *tables) lookupSafe(c blockrelay.ExecutionConfigurator, v Validator, fee bellatrix.ExecutionAddress, gas uint64, nt *bool) (res, shown string) {
	defer func() {
		if r := recover(); r != nil {
			res, shown = "OPanic", "OPanic"
		}
	}()
	var pk phase0.BLSPubKey
	if b, ok := hexBytes(v.Pubkey, 48); ok {
		copy(pk[:], b)
	}
	pc, err := c.ProposerConfig(context.Background(), v.account(), pk, fee, gas)
	if err != nil {
		return "OErr", "OErr"
	}
	if pc == nil {
		return "OPanic", "OPanic"
	}
	if len(pc.Relays) > 0 || !bytes.Equal(pc.FeeRecipient[:], fee[:]) {
		*nt = true
	}
	return t.outcome(pc), t.shown(pc)
}

func run(in Input, id uint64) (term string, obs observed) {
	t := newTables(in.Validators)
	var fee bellatrix.ExecutionAddress
	if b, ok := hexBytes(in.FallbackFee, 20); ok {
		copy(fee[:], b)
	}
	doc := t.tree([]byte(in.Doc))
	parsed, marshalled := None(), None()

	c1, err := unmarshalSafe([]byte(in.Doc))
	obs.OK1 = err == nil && c1 != nil
	if err != nil {
		obs.Err1 = err.Error()
	}
	if obs.OK1 {
		parsed = t.parsed(c1)
		for _, v := range in.Validators {
			o, sh := t.lookupSafe(c1, v, fee, in.FallbackGas, &obs.nontrivial)
			obs.Out1 = append(obs.Out1, o)
			obs.Shown = append(obs.Shown, sh)
		}
		data, err := marshalSafe(c1)
		if err == nil {
			obs.Marshalled = string(data)
			marshalled = Some(t.tree(data))
			c2, err := unmarshalSafe(data)
			obs.OK2 = err == nil && c2 != nil
			if err != nil {
				obs.Err2 = err.Error()
			}
			if obs.OK2 {
				var dummy bool
				for _, v := range in.Validators {
					o, _ := t.lookupSafe(c2, v, fee, in.FallbackGas, &dummy)
					obs.Out2 = append(obs.Out2, o)
				}
			}
		} else {
			obs.Err2 = "marshal: " + err.Error()
		}
	}
	// the other documents of the history (their patterns join the tables before the validators are printed)
	docTerms := []string{doc}
	for _, d := range in.MoreDocs {
		docTerms = append(docTerms, t.tree([]byte(d)))
	}
	docRef := func(k int) string {
		if k <= 0 || k >= len(docTerms) {
			return "d0"
		}
		return fmt.Sprintf("d%d", k)
	}
	usedNil := false
	valRef := func(i int, noAccount bool) string {
		if noAccount {
			usedNil = true
			return fmt.Sprintf("(without_account v%d nil_accts)", i)
		}
		return fmt.Sprintf("v%d", i)
	}
	hops, hanswers, hobs := t.runHistory(in, fee, docRef, valRef)
	obs.History = hobs
	// validators: which of the documents' (and the marshalled document's) patterns match the name
	acctsOf := func(name string) string {
		var ids []uint64
		for id, re := range t.compiled {
			if re.MatchString(name) {
				ids = append(ids, id)
			}
		}
		sort.Slice(ids, func(i, j int) bool { return ids[i] < ids[j] })
		strs := make([]string, len(ids))
		for i, x := range ids {
			strs[i] = N(x)
		}
		return List(strs)
	}
	var vals, valNames []string
	for i, v := range in.Validators {
		key := N(0)
		if b, ok := hexBytes(v.Pubkey, 48); ok {
			key = t.bytesN(b)
		}
		vals = append(vals, Record("v_key", key, "v_accts", acctsOf(v.specName())))
		valNames = append(valNames, fmt.Sprintf("v%d", i))
	}
	_ = usedNil
	// identical output lists are printed once and shared (they are elaborated once by coqc); so are
	// the documents, the validators and the distinct answers of the history
	out1, shown, out2 := List(obs.Out1), List(obs.Shown), List(obs.Out2)
	shownRef, out2Ref := shown, out2
	if shown == out1 {
		shownRef = "o1"
	}
	if out2 == out1 {
		out2Ref = "o1"
	}
	var lets strings.Builder
	for k, d := range docTerms {
		fmt.Fprintf(&lets, "let d%d : json := %s in ", k, d)
	}
	for i, v := range vals {
		fmt.Fprintf(&lets, "let v%d : validator := %s in ", i, v)
	}
	// the patterns that match the name of a nil account
	fmt.Fprintf(&lets, "let nil_accts : list N := %s in ", acctsOf("<unknown>/<unknown>"))
	fmt.Fprintf(&lets, "let without_account := (fun (v : validator) (a : list N) => Build_validator (v_key v) a) in ")
	answerNames := map[string]string{}
	var hrefs []string
	for _, a := range hanswers {
		name, ok := answerNames[a]
		if !ok {
			if len(a) < 12 { // OErr, OPanic
				name = a
			} else {
				name = fmt.Sprintf("h%d", len(answerNames))
				fmt.Fprintf(&lets, "let %s : outcome := %s in ", name, a)
			}
			answerNames[a] = name
		}
		hrefs = append(hrefs, name)
	}
	term = "(" + lets.String() + "let o1 := " + out1 + " in " + Record("c_id", N(id), "c_doc", "d0", "c_fbfee", t.bytesN(fee[:]), "c_fbgas", N(in.FallbackGas),
		"c_vals", List(valNames), "c_ok1", Bool(obs.OK1), "c_parsed", parsed, "c_out1", "o1", "c_shown", shownRef,
		"c_marshalled", marshalled, "c_ok2", Bool(obs.OK2), "c_out2", out2Ref,
		"c_ops", List(hops), "c_hist", List(hrefs), "c_v1_per_value", Bool(v1PerValue())) + ")"
	return term, obs
}

// v1PerValue: known_findings.json registers C10-v1-entry-not-fieldwise (any status), so legacy
// lookups are judged by the per-value reading of docs/execlayer.md (Check.C10.P_b).
var v1PerValueOnce struct {
	done bool
	val  bool
}

func v1PerValue() bool {
	if v1PerValueOnce.done {
		return v1PerValueOnce.val
	}
	v1PerValueOnce.done = true
	root := filepath.Join("..", "..")
	if c := os.Getenv("VERIF_CORPUS"); c != "" {
		root = filepath.Dir(c)
	}
	data, err := os.ReadFile(filepath.Join(root, "known_findings.json"))
	if err != nil {
		return false
	}
	var kf struct {
		Findings []struct {
			ID string `json:"id"`
		} `json:"findings"`
	}
	if json.Unmarshal(data, &kf) != nil {
		return false
	}
	for _, f := range kf.Findings {
		if f.ID == "C10-v1-entry-not-fieldwise" {
			v1PerValueOnce.val = true
		}
	}
	return v1PerValueOnce.val
}

// v1Fieldwise: a legacy document in which the own entry of one of the validators lacks a gas limit
// or a builder that default_config has: the inputs on which the per-value reading of
// docs/execlayer.md and the code's whole-entry selection can differ (known finding
// C10-v1-entry-not-fieldwise; computed from the input only).
func v1Fieldwise(in Input) bool {
	if v1FieldwiseDoc(in.Doc, in.Validators) {
		return true
	}
	for _, d := range in.MoreDocs {
		if v1FieldwiseDoc(d, in.Validators) {
			return true
		}
	}
	return false
}

func v1FieldwiseDoc(text string, validators []Validator) bool {
	dec := json.NewDecoder(strings.NewReader(text))
	dec.UseNumber()
	var doc map[string]any
	if err := dec.Decode(&doc); err != nil {
		return false
	}
	if v, ok := doc["version"]; ok && v != nil {
		if n, isNum := v.(json.Number); !isNum || string(n) != "0" {
			return false
		}
	}
	def, _ := doc["default_config"].(map[string]any)
	pcs, _ := doc["proposer_config"].(map[string]any)
	if def == nil || pcs == nil {
		return false
	}
	hasGas := func(m map[string]any) bool {
		s, _ := m["gas_limit"].(string)
		n, err := strconv.ParseUint(s, 10, 64)
		return err == nil && n != 0
	}
	for _, v := range validators {
		want, ok := hexBytes(v.Pubkey, 48)
		if !ok {
			continue
		}
		for k, e := range pcs {
			if b, ok := hexBytes(k, 48); !ok || !bytes.Equal(b, want) {
				continue
			}
			entry, isObj := e.(map[string]any)
			if !isObj {
				continue // null: no entry (the default applies under both readings); anything else is refused
			}
			if !hasGas(entry) && hasGas(def) {
				return true
			}
			if _, has := entry["builder"].(map[string]any); !has {
				if _, defHas := def["builder"].(map[string]any); defHas {
					return true
				}
			}
		}
	}
	return false
}

// matchStats counts, per (v2 document, validator), how the proposer entries apply: none, exactly
// one, several (only the first may count), and whether the applicable entry is preceded by
// non-matching ones.  Computed from the input with the documented meaning of the selectors.
func matchStats(in Input, col *Collector) {
	dec := json.NewDecoder(strings.NewReader(in.Doc))
	dec.UseNumber()
	var doc map[string]any
	if err := dec.Decode(&doc); err != nil {
		return
	}
	if n, ok := doc["version"].(json.Number); !ok || string(n) != "2" {
		return
	}
	props, _ := doc["proposers"].([]any)
	for _, v := range in.Validators {
		var hits []int
		for i, p := range props {
			m, _ := p.(map[string]any)
			sel, _ := m["proposer"].(string)
			switch {
			case strings.HasPrefix(sel, "0x"):
				if strings.EqualFold(sel, v.Pubkey) {
					hits = append(hits, i)
				}
			case sel != "":
				if _, err := regexp.Compile(sel); err == nil {
					if re, err := regexp.Compile(documented(sel)); err == nil && re.MatchString(v.specName()) {
						hits = append(hits, i)
					}
				}
			}
		}
		switch {
		case len(hits) == 0:
			col.Count("v2-entries-matching:none")
		case len(hits) == 1:
			col.Count("v2-entries-matching:one")
		default:
			col.Count("v2-entries-matching:several")
		}
		if len(hits) > 0 && hits[0] > 0 {
			col.Count("v2-first-match-not-first-entry")
		}
	}
}

func TestC10(t *testing.T) {
	col := NewCollector("C10", "Check.C10",
		"execution-config documents (v2: 0-4 relays, 0-4 proposer entries with every presence pattern of fee/gas/grace/min/public key at the four levels, overlapping key and account selectors, reset/disabled/new relays; legacy v1; a malformed stream), each looked up for 4-7 validators, marshalled, unmarshalled and looked up again; non-trivial = the document is accepted and some validator gets a relay or a fee recipient other than the fallback; distinct by document + validators")
	col.ShardSize = 150
	n := EnvInt("VERIF_N", 1000)
	var ins []Input
	for _, in := range LoadInputs[Input]("C10") {
		in.Tags = append(in.Tags, "corpus")
		ins = append(ins, in)
	}
	rng := NewRand(Seed())
	for i := 0; i < n; i++ {
		ins = append(ins, gen(rng.Fork(), col))
	}
	for _, in := range ins {
		if v1Fieldwise(in) {
			in.Tags = append(in.Tags, "v1-fieldwise")
			col.Count("v1:own-entry-incomplete")
		}
		matchStats(in, col)
		id := col.NextID()
		term, obs := run(in, id)
		if obs.OK1 {
			col.Count("unmarshal:ok")
		} else {
			col.Count("unmarshal:error")
		}
		for _, o := range obs.Out1 {
			switch {
			case o == "OErr":
				col.Count("lookup:error")
			case o == "OPanic":
				col.Count("lookup:panic")
			default:
				col.Count("lookup:ok")
			}
		}
		key, _ := json.Marshal([]any{in.Doc, in.FallbackFee, in.FallbackGas, in.Validators, in.MoreDocs, in.History})
		col.Add(Case{Term: term, Key: string(key), Nontrivial: obs.nontrivial, Tags: in.Tags,
			Sample: map[string]any{"input": in, "observed": obs}})
	}
	if err := col.Flush(); err != nil {
		t.Fatal(err)
	}
}
