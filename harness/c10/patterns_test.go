package c10

import (
	"regexp"
	"strings"

	. "verifharness/common"
)

// Composed account patterns (added after seeded change C10-6).  The fixed list in gen_test.go has
// only one pattern anchored by its author at both ends and none whose text begins and ends with a
// group; an edit that rewrites the TEXT of a pattern on the way out (MarshalJSON) or on the way in
// (UnmarshalJSON) - stripping or adding anchors, wrappers, escapes - is only seen when the text has
// the shape the edit confuses.  Patterns are therefore also composed from a small grammar:
//
//	body   := wallet sep account | body "|" body | "(?:" body "|" body ")" | "(?:" body ")|(?:" body ")"
//	wallet, account := literals, classes, escapes (\d \s \x20 \Q..\E), optional parts,
//	                   capturing and non-capturing groups, flags, ungrouped alternations
//	sep    := "/" | "\/" | "[/]"
//	shape  := body | ^body | body$ | ^body$ | ^(?:body)$ | ^(body)$ | ^(?:^body$)$ | ^(?:^b1|b2$)$
//	          | \A(?:body)\z | (?i)body | ^(?:w)/(?:a)$ | ^(w)/(a)$ | ^(?:w)/a$ | ^w/(?:a)$
//
// Every composed pattern compiles as written and inside "^(?:" ")$"; none ends with an escaped
// dollar (outside the generated domain, see props/C10.json).

var walletFrags = []string{
	"Wallet 1", "Wallet 2", "W", "Wallet [12]", `Wallet \d`, "Wallet.1", `Wallet\s1`, `Wallet\x202`, `\QWallet 1\E`,
	"(?:Wallet 1|Wallet 2)", "(Wallet 1|W)", "Wallet (?:1|2)", "W(?:allet 1)?", "W(allet 2)?", ".*", "[^/]+", "[^/]*1",
	"<unknown>", `\<unknown\>`, "Wallet 1|Wallet 2", "W|Wallet 1", "(?i:wallet) 1", "Wal{2}et 1", "Wallet [^2]",
}

var accountFrags = []string{
	"Account 1", "Account 12", "Account 2", "Validator 1", "1", "Account [12]", `Account \d+`, `Account \d`, "Account 1.?",
	`Account 1\d?`, "(?:Account .*)", "(?:Account 1|Validator 1)", "(Account|Validator) 1", "(?:Account|Validator) [12]",
	".*", ".+", `\d`, "[AV][a-z]+ 1", ".* 1", "<unknown>", "Account 1|Account 2", "1|Account 2", `Account\s1{1,2}`,
	`\QAccount 1\E`, "Account (1|2)", "[^/]+",
}

var seps = []string{"/", "/", "/", `\/`, "[/]"}

// groupedWallets / groupedAccounts: fragments that are one group from their first to their last
// character (so that "^" + w + "/" + a + "$" begins with "^(?:" or "^(" and ends with ")$").
var groupedWallets = []string{"(?:Wallet 1|Wallet 2)", "(?:Wallet 1|W)", "(Wallet 1|W)", "(?:Wallet [12])", "(?:W)", "(?:.*)", "(Wallet 2)", "(?:Wallet 1)"}
var groupedAccounts = []string{"(?:Account .*)", "(?:Account 1|Validator 1)", "(?:Account 1)", "(Account 1|1)", "(?:.*)", "(?:Account [12])", "(Account 12?)", "(?:Account 1|Account 2)"}

func pick(r *Rand, l []string) string { return l[r.Intn(len(l))] }

func simpleBody(r *Rand) string {
	return pick(r, walletFrags) + pick(r, seps) + pick(r, accountFrags)
}

// literalBody: an exact name of the universe (so that misreadings that widen the match have
// neighbours to catch: "Wallet 1/Account 1" vs "Wallet 1/Account 12").
func literalBody(r *Rand) string {
	return pick(r, wallets) + "/" + pick(r, accounts)
}

func body(r *Rand) string {
	switch k := r.Intn(10); {
	case k < 4:
		return simpleBody(r)
	case k < 6:
		return literalBody(r)
	case k < 7:
		return literalBody(r) + "|" + literalBody(r)
	case k < 8:
		return simpleBody(r) + "|" + literalBody(r)
	case k < 9:
		return "(?:" + literalBody(r) + "|" + simpleBody(r) + ")"
	default:
		return "(?:" + literalBody(r) + ")|(?:" + simpleBody(r) + ")"
	}
}

// composedPattern returns a pattern and the name of its shape.
func composedPattern(r *Rand) (string, string) {
	for try := 0; try < 20; try++ {
		var p, shape string
		switch k := r.Intn(24); {
		case k < 3:
			p, shape = body(r), "unanchored"
		case k < 4:
			p, shape = "^"+body(r), "start-anchor"
		case k < 5:
			p, shape = body(r)+"$", "end-anchor"
		case k < 8:
			p, shape = "^"+body(r)+"$", "both-anchors"
		case k < 10:
			p, shape = "^(?:"+body(r)+")$", "both-anchors-outer-group"
		case k < 11:
			p, shape = "^("+body(r)+")$", "both-anchors-outer-capture"
		case k < 12:
			p, shape = "^(?:^"+body(r)+"$)$", "both-anchors-nested"
		case k < 14:
			// the anchors inside the group belong to one alternative each: as a whole-name pattern
			// it means exactly b1 or exactly b2; without the outer wrapper it means "starts with b1
			// or ends with b2"
			p, shape = "^(?:^"+literalBody(r)+"|"+literalBody(r)+"$)$", "both-anchors-nested-split"
		case k < 15:
			p, shape = "^"+literalBody(r)+"|"+literalBody(r)+"$", "both-anchors-split"
		case k < 16:
			p, shape = `\A(?:`+body(r)+`)\z`, "text-anchors"
		case k < 17:
			p, shape = "(?i)"+strings.ToLower(literalBody(r)), "flag"
		case k < 20:
			p, shape = "^"+pick(r, groupedWallets)+pick(r, seps)+pick(r, groupedAccounts)+"$", "both-anchors-groups-both-ends"
		case k < 21:
			p, shape = pick(r, groupedWallets)+"/"+pick(r, groupedAccounts), "groups-both-ends"
		case k < 22:
			p, shape = "^"+pick(r, groupedWallets)+"/"+pick(r, accountFrags)+"$", "both-anchors-group-first"
		case k < 23:
			p, shape = "^"+pick(r, walletFrags)+"/"+pick(r, groupedAccounts)+"$", "both-anchors-group-last"
		default:
			p, shape = "^(?:"+pick(r, groupedWallets)+")/(?:"+pick(r, groupedAccounts)+")$", "both-anchors-nested-groups-both-ends"
		}
		if patternUsable(p) {
			return p, shape
		}
	}
	return "Wallet 1/Account 1", "unanchored"
}

// patternUsable: compiles as written and with its documented meaning, is not read as a public key,
// and does not end with an escaped dollar.
func patternUsable(p string) bool {
	if strings.HasPrefix(p, "0x") || strings.HasSuffix(p, `\$`) {
		return false
	}
	if _, err := regexp.Compile(p); err != nil {
		return false
	}
	_, err := regexp.Compile(documented(p))
	return err == nil
}

// misreadings of a pattern: regular expressions that an implementation which loses or confuses
// anchors / wrappers somewhere would use instead of documented(p).  Only used to aim validators at
// names on which such a misreading differs from the documented meaning.
func misreadings(p string) []*regexp.Regexp {
	var srcs []string
	add := func(s string) { srcs = append(srcs, s) }
	add(p) // searched, not matched as a whole
	add("^" + p)
	add(p + "$")
	add("^" + p + "$") // anchors without the group
	inner := p
	if strings.HasPrefix(inner, "^") && strings.HasSuffix(inner, "$") {
		inner = inner[1 : len(inner)-1]
		add(inner)
		add("^(?:" + inner + ")$")
	}
	for _, w := range [][2]string{{"^(?:", ")$"}, {"^(", ")$"}, {"(?:", ")"}} {
		if strings.HasPrefix(p, w[0]) && strings.HasSuffix(p, w[1]) && len(p) >= len(w[0])+len(w[1]) {
			s := p[len(w[0]) : len(p)-len(w[1])]
			add(s)
			add(documented(s))
		}
	}
	var out []*regexp.Regexp
	for _, s := range srcs {
		if re, err := regexp.Compile(s); err == nil {
			out = append(out, re)
		}
	}
	return out
}

// nearNames: wallet / account names one step away from the universe
var nearWallets = append([]string{"Wallet 11", "Wallet", "wallet 1", "Wallet 1 ", "xW"}, wallets...)
var nearAccounts = append([]string{"Account", "Account 21", "Account 1x", "account 1", "11"}, accounts...)

// nearMiss returns a (wallet, account) on which the documented meaning of the pattern and one of
// its misreadings differ, if there is one among the near names.
func nearMiss(r *Rand, p string) (string, string, bool) {
	doc, err := regexp.Compile(documented(p))
	if err != nil {
		return "", "", false
	}
	alts := misreadings(p)
	n := len(nearWallets) * len(nearAccounts)
	start := r.Intn(n)
	for j := 0; j < n; j++ {
		k := (start + j) % n
		w, a := nearWallets[k/len(nearAccounts)], nearAccounts[k%len(nearAccounts)]
		name := w + "/" + a
		d := doc.MatchString(name)
		for _, re := range alts {
			if re.MatchString(name) != d {
				return w, a, true
			}
		}
	}
	return "", "", false
}
