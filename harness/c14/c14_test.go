// C14: drives the real beacon committee subscriber (services/beaconcommitteesubscriber/standard),
// the real aggregator selection and Aggregate (services/attestationaggregator/standard) and the
// real controller paths subscribeToBeaconCommittees / AttestAndScheduleAggregate
// (services/controller/standard, built through the verif hook NewForVerifC14) over histories of
// "subscribe for an epoch", "attest a slot" and "head event" (the real HandleHeadEvent, whose
// housekeeping prunes the stored subscription information) operations, and prints every history
// with what the implementation did as a Gallina case for Check.C14.
//
// Observed: the SubmitBeaconCommitteeSubscriptions payloads of each subscribe, the controller's
// stored subscription info afterwards, and after each attest the scheduler's aggregation jobs,
// each with the duty its function hands to Aggregate and what the real Aggregate then requests
// and submits.  SHA-256 of each slot signature is computed here (crypto/sha256) on the bytes the
// mock signer returns, and given to the model as data.
package c14

import (
	"context"
	"crypto/sha256"
	"encoding/binary"
	"encoding/json"
	"errors"
	"fmt"
	"io"
	"os"
	"regexp"
	"sort"
	"strconv"
	"strings"
	"sync"
	"testing"
	"testing/synctest"
	"time"

	"github.com/attestantio/go-eth2-client/api"
	apiv1 "github.com/attestantio/go-eth2-client/api/v1"
	"github.com/attestantio/go-eth2-client/spec/phase0"
	"github.com/attestantio/vouch/services/attestationaggregator"
	standardaggregator "github.com/attestantio/vouch/services/attestationaggregator/standard"
	"github.com/attestantio/vouch/services/attester"
	"github.com/attestantio/vouch/services/beaconcommitteesubscriber"
	standardsubscriber "github.com/attestantio/vouch/services/beaconcommitteesubscriber/standard"
	standardcontroller "github.com/attestantio/vouch/services/controller/standard"
	"github.com/attestantio/vouch/mock"
	mockaccountmanager "github.com/attestantio/vouch/services/accountmanager/mock"
	mockbeaconblockproposer "github.com/attestantio/vouch/services/beaconblockproposer/mock"
	"github.com/attestantio/vouch/services/cache"
	mockcache "github.com/attestantio/vouch/services/cache/mock"
	nullmetrics "github.com/attestantio/vouch/services/metrics/null"
	mockproposalpreparer "github.com/attestantio/vouch/services/proposalpreparer/mock"
	"github.com/google/uuid"
	"github.com/prysmaticlabs/go-bitfield"
	"github.com/rs/zerolog"
	zerologger "github.com/rs/zerolog/log"
	"github.com/sasha-s/go-deadlock"
	e2types "github.com/wealdtech/go-eth2-types/v2"
	e2wtypes "github.com/wealdtech/go-eth2-wallet-types/v2"

	. "verifharness/common"
	"verifharness/mocks"
)

// ---------------------------------------------------------------------------------------------
// Input.

type Duty struct {
	Val  uint64 `json:"val"`
	Slot uint64 `json:"slot"`
	Comm uint64 `json:"comm"`
	Len  uint64 `json:"len"`
	Cas  uint64 `json:"cas"`
	Pos  uint64 `json:"pos"`
	Sig  uint64 `json:"sig"` // identifies the slot signature the signer returns for (val, slot); never 0
}

type Att struct {
	Slot uint64 `json:"slot"`
	Comm uint64 `json:"comm"`
	Root uint64 `json:"root"` // identifies the attestation data (its beacon block root); never 0
}

type Op struct {
	Kind string `json:"kind"` // sub | att | head
	Cur  uint64 `json:"cur"`  // current slot while the operation runs
	// sub
	Epoch      uint64   `json:"epoch,omitempty"`
	NoAccounts bool     `json:"no_accounts,omitempty"`
	DutiesFail bool     `json:"duties_fail,omitempty"`
	SignFail   []uint64 `json:"sign_fail,omitempty"` // slots whose SignSlotSelections fails
	Duties     []Duty   `json:"duties,omitempty"`
	// att
	DSlot      uint64   `json:"dslot,omitempty"`
	AttestFail bool     `json:"attest_fail,omitempty"`
	NoAcct     []uint64 `json:"no_acct,omitempty"` // validators whose account lookup fails (odd index: error, even: empty answer)
	Atts       []Att    `json:"atts,omitempty"`
	// head
	HSlot uint64 `json:"hslot,omitempty"` // the slot of the head event's block
	// sub, att: what happens while the operation's first outside call is in flight (attester.Attest for
	// att, the attester-duties request of Subscribe for sub): the operations of Mid are carried out, on
	// the same controller, in the middle of that call, and if Adv is set the clock stands at slot Cur0
	// when the operation starts and reaches Cur during the call.
	Mid  []Op   `json:"mid,omitempty"`
	Adv  bool   `json:"adv,omitempty"`
	Cur0 uint64 `json:"cur0,omitempty"`
	// head: the event carries duty dependent roots of its own (identified by numbers, 0 = the zero
	// root) and, for the epochs that may be refreshed, what the beacon node and the account manager
	// answer about them from now on.  A head without Rooted carries the roots of a chain that did not
	// reorganise (see rstate.quiet).
	Rooted   bool   `json:"rooted,omitempty"`
	PrevRoot uint64 `json:"prev_root,omitempty"`
	CurRoot  uint64 `json:"cur_root,omitempty"`
	Views    []View `json:"views,omitempty"`
	// set by desugar only
	Parked  bool     `json:"-"` // sub: the re-subscription of a refresh; its duties request is parked in the mock
	Expect  []uint64 `json:"-"` // head: the epochs whose re-subscription the driver expects to find parked
	Install []View   `json:"-"` // head: the views to answer from
}

// View is what the rest of the world answers about one epoch after a rooted head event.
type View struct {
	Epoch      uint64   `json:"epoch"`
	Unprepared bool     `json:"unprepared,omitempty"` // "Prepare for epoch <Epoch>" is still scheduled
	AcctFail   bool     `json:"acct_fail,omitempty"`  // ValidatingAccountsForEpoch fails
	NoAccounts bool     `json:"no_accounts,omitempty"`
	DutiesFail bool     `json:"duties_fail,omitempty"`
	SignFail   []uint64 `json:"sign_fail,omitempty"`
	Duties     []Duty   `json:"duties,omitempty"`
	Mid        []Op     `json:"mid,omitempty"` // att | head (plain): what completes while the re-subscription waits for the duties
}

// rstate is the driver's own copy of what checkEventForReorg remembers (a function of the input).
type rstate struct{ epoch, prev, cur uint64 }

// quiet: the roots a chain that did not reorganise sends next.
func (rs rstate) quiet(hepoch uint64) rstate {
	if rs.epoch < hepoch {
		return rstate{hepoch, rs.cur, rs.cur}
	}
	return rstate{hepoch, rs.prev, rs.cur}
}

func (rs rstate) decide(hepoch, prev, cur uint64) (bool, bool) {
	switch {
	case rs.epoch == 0:
		return false, false
	case rs.epoch < hepoch:
		return rs.prev != 0 && rs.cur != prev, false
	default:
		return rs.prev != 0 && rs.prev != prev, rs.cur != 0 && rs.cur != cur
	}
}

func trackLinear(spe uint64, rs rstate, ops []Op) rstate {
	for _, o := range linear(ops) {
		if o.Kind == "head" && o.HSlot == o.Cur {
			rs = rs.quiet(o.HSlot / spe)
		}
	}
	return rs
}

// desugar is the driver's plan of a history: a rooted head event becomes the head event itself
// followed by the re-subscriptions the driver expects it to launch (each with what completes while
// it waits for the duties as its Mid).  The check's own expansion is Model.C14_Reorg.expand, which
// works from the printed events, not from this.
func desugar(in Input) ([]Op, map[string]bool) {
	tags := map[string]bool{}
	var out []Op
	rs := rstate{}
	for _, op := range in.Ops {
		if op.Kind == "start" {
			// the process starts: the constructor subscribes the current and the next epoch, each with
			// the validators validating in THAT epoch; the two duties requests wait in the mock
			tags["start-up"] = true
			h := op
			h.Install, h.Views = op.Views, nil
			out = append(out, h)
			for _, ep := range []uint64{op.Cur / in.SPE, op.Cur/in.SPE + 1} {
				for i := range op.Views {
					if v := &op.Views[i]; v.Epoch == ep {
						out = append(out, Op{Kind: "sub", Cur: op.Cur, Epoch: ep, NoAccounts: v.NoAccounts, DutiesFail: v.DutiesFail,
							SignFail: v.SignFail, Duties: v.Duties, Mid: v.Mid, Parked: true})
						rs = trackLinear(in.SPE, rs, v.Mid)
						break
					}
				}
			}
			continue
		}
		if op.Kind != "head" || !op.Rooted {
			out = append(out, op)
			rs = trackLinear(in.SPE, rs, []Op{op})
			continue
		}
		h := op
		h.Install, h.Views = op.Views, nil
		tags["rooted-head"] = true
		if op.HSlot != op.Cur {
			tags["rooted-head-not-current"] = true
			out = append(out, h)
			continue
		}
		hepoch := op.HSlot / in.SPE
		p, c := rs.decide(hepoch, op.PrevRoot, op.CurRoot)
		switch {
		case rs.epoch == 0:
			tags["rooted-head-nothing-recorded"] = true
		case rs.epoch < hepoch:
			tags["rooted-head-epoch-transition"] = true
		}
		if (rs.prev == 0 && op.PrevRoot != 0) || (rs.cur == 0 && op.CurRoot != 0) {
			tags["rooted-head-after-zero-root"] = true
		}
		switch {
		case p && c:
			tags["reorg-both-roots-changed"] = true
		case p:
			tags["reorg-previous-root-changed"] = true
		case c:
			tags["reorg-current-root-changed"] = true
		default:
			tags["rooted-head-no-reorg"] = true
		}
		rs = rstate{hepoch, op.PrevRoot, op.CurRoot}
		var eps []uint64
		if p {
			eps = append(eps, op.Cur/in.SPE)
		}
		if c {
			eps = append(eps, op.Cur/in.SPE+1)
		}
		var subs []Op
		for _, ep := range eps {
			var v *View
			for i := range op.Views {
				if op.Views[i].Epoch == ep {
					v = &op.Views[i]
					break
				}
			}
			switch {
			case v == nil:
				tags["refresh-without-answer"] = true
				continue
			case v.Unprepared:
				tags["refresh-of-unprepared-epoch"] = true
				continue
			case v.AcctFail:
				tags["refresh-accounts-fail"] = true
				continue
			case v.NoAccounts:
				tags["refresh-no-accounts"] = true
				continue
			}
			tags["refresh-resubscribes"] = true
			for _, m := range linear(v.Mid) {
				if m.Kind == "att" {
					tags["attest-while-refresh-in-flight"] = true
				}
			}
			subs = append(subs, Op{Kind: "sub", Cur: op.Cur, Epoch: ep, DutiesFail: v.DutiesFail, SignFail: v.SignFail,
				Duties: v.Duties, Mid: v.Mid, Parked: true})
			h.Expect = append(h.Expect, ep)
			rs = trackLinear(in.SPE, rs, v.Mid)
		}
		out = append(out, h)
		out = append(out, subs...)
	}
	return out, tags
}

// linear is the controller's history in the order in which the operations take effect: what
// completes while an operation waits for its outside call comes before that operation
// (Model.C14_Subscriptions.linearise).
func linear(ops []Op) []Op {
	var out []Op
	for _, op := range ops {
		out = append(out, linear(op.Mid)...)
		op.Mid = nil
		out = append(out, op)
	}
	return out
}

type Input struct {
	SPE         uint64   `json:"spe"`
	Target      uint64   `json:"target"`
	DelayMs     uint64   `json:"delay_ms"`
	Concurrency int64    `json:"concurrency"`
	Trace       bool     `json:"trace,omitempty"` // run the services at trace level (log output discarded)
	Ops         []Op     `json:"ops"`
	Tags        []string `json:"tags,omitempty"`
}

const slotMs = 12000

// ---------------------------------------------------------------------------------------------
// Signatures, digests, roots.

func sigBytes(id uint64) phase0.BLSSignature {
	var sig phase0.BLSSignature
	binary.LittleEndian.PutUint64(sig[0:8], id)
	x := id
	for i := 8; i < 96; i += 8 {
		x = x*0x9E3779B97F4A7C15 + 0xD1B54A32D192ED03
		x ^= x >> 29
		binary.LittleEndian.PutUint64(sig[i:i+8], x)
	}
	return sig
}

// sigID inverts sigBytes; 0 for bytes that are not one of ours.
func sigID(sig phase0.BLSSignature) uint64 {
	id := binary.LittleEndian.Uint64(sig[0:8])
	if sigBytes(id) != sig {
		return 0
	}
	return id
}

func sigDigest(id uint64) [32]byte {
	sig := sigBytes(id)
	return sha256.Sum256(sig[:])
}

// genSelected is the generator's own steering computation (never used for checking).
func genSelected(id, length, target uint64) bool {
	modulo := length / target
	if modulo == 0 {
		modulo = 1
	}
	d := sigDigest(id)
	return binary.LittleEndian.Uint64(d[:8])%modulo == 0
}

func blockRoot(id uint64) phase0.Root {
	var r phase0.Root
	binary.BigEndian.PutUint64(r[24:32], id)
	r[0] = 0xA7
	return r
}

// depRoot is the duty dependent root with the given number; 0 is the zero root.
func depRoot(id uint64) phase0.Root {
	var r phase0.Root
	if id != 0 {
		binary.BigEndian.PutUint64(r[24:32], id)
		r[0] = 0xDD
	}
	return r
}

func attData(a Att) *phase0.AttestationData {
	return &phase0.AttestationData{
		Slot:            phase0.Slot(a.Slot),
		Index:           phase0.CommitteeIndex(a.Comm),
		BeaconBlockRoot: blockRoot(a.Root),
		Source:          &phase0.Checkpoint{Epoch: 1, Root: blockRoot(0x5151)},
		Target:          &phase0.Checkpoint{Epoch: 2, Root: blockRoot(0x7A7A)},
	}
}

// ---------------------------------------------------------------------------------------------
// Mocks.

type pubKey struct{ b [48]byte }

func (p *pubKey) Marshal() []byte               { return p.b[:] }
func (p *pubKey) Aggregate(_ e2types.PublicKey) {}
func (p *pubKey) Copy() e2types.PublicKey       { c := *p; return &c }

type account struct {
	index uint64
	pk    *pubKey
}

func newAccount(index uint64) *account {
	a := &account{index: index, pk: &pubKey{}}
	binary.BigEndian.PutUint64(a.pk.b[40:48], index)
	a.pk.b[0] = 0x80
	return a
}
func (a *account) ID() uuid.UUID {
	return uuid.UUID{byte(a.index), byte(a.index >> 8), byte(a.index >> 16)}
}
func (a *account) Name() string                 { return "acct-" + strconv.FormatUint(a.index, 10) }
func (a *account) PublicKey() e2types.PublicKey { return a.pk }

type env struct {
	// scripted per operation
	duties     []*apiv1.AttesterDuty
	dutiesFail bool
	signFail   map[uint64]bool
	sigs       map[[2]uint64]uint64 // (validator, slot) -> signature id
	atts       []*phase0.Attestation
	attestFail bool
	noAcct     map[uint64]bool
	// recorded
	subCalls  [][]*apiv1.BeaconCommitteeSubscription
	aggDuty   *attestationaggregator.Duty
	aggReq    *api.AggregateAttestationOpts
	aggSubmit []*phase0.SignedAggregateAndProof
	spe       uint64
	target    uint64
	// during, when set, is run once by the next outside call that takes time (Attest, AttesterDuties)
	// before it answers: the rest of the world goes on while the controller waits.
	during func()
	// the reorganisation path: while views is set, the answers about an epoch come from its view, and
	// the attester duties requests of Subscribe are parked until the driver releases them
	views      map[uint64]*View
	parked     []parkedReq
	pmu        sync.Mutex // guards parked
	failParked bool
	starting   bool // the controller's constructor is running
}

type parkedReq struct {
	epoch uint64
	ch    chan struct{}
}

// release lets the first parked duties request of the epoch go on; false if there is none.
func (e *env) release(epoch uint64) bool {
	e.pmu.Lock()
	defer e.pmu.Unlock()
	for i, p := range e.parked {
		if p.epoch == epoch {
			e.parked = append(e.parked[:i:i], e.parked[i+1:]...)
			close(p.ch)
			return true
		}
	}
	return false
}

func (e *env) meanwhile() {
	if f := e.during; f != nil {
		e.during = nil
		f()
	}
}

// attester duties provider
func (e *env) AttesterDuties(ctx context.Context, opts *api.AttesterDutiesOpts) (*api.Response[[]*apiv1.AttesterDuty], error) {
	e.meanwhile()
	if e.views != nil {
		ch := make(chan struct{})
		e.pmu.Lock() // the two start-up subscriptions of the constructor ask side by side
		e.parked = append(e.parked, parkedReq{uint64(opts.Epoch), ch})
		e.pmu.Unlock()
		select {
		case <-ch:
		case <-ctx.Done():
			return nil, ctx.Err()
		}
		if e.failParked {
			return nil, errors.New("the beacon node went away")
		}
	}
	if e.dutiesFail {
		return nil, errors.New("scripted duties failure")
	}
	// like the beacon node: the duties of the validators asked about, of nobody else
	asked := map[phase0.ValidatorIndex]bool{}
	for _, i := range opts.Indices {
		asked[i] = true
	}
	out := make([]*apiv1.AttesterDuty, 0, len(e.duties))
	for _, d := range e.duties {
		if !asked[d.ValidatorIndex] {
			continue
		}
		c := *d
		out = append(out, &c)
	}
	return &api.Response[[]*apiv1.AttesterDuty]{Data: out, Metadata: map[string]any{}}, nil
}

// spec provider
func (e *env) Spec(_ context.Context, _ *api.SpecOpts) (*api.Response[map[string]any], error) {
	return &api.Response[map[string]any]{Data: map[string]any{
		"SLOTS_PER_EPOCH":                  e.spe,
		"TARGET_AGGREGATORS_PER_COMMITTEE": e.target,
	}, Metadata: map[string]any{}}, nil
}

// slot selection signer
func (e *env) SignSlotSelections(_ context.Context, accounts []e2wtypes.Account, slot phase0.Slot) ([]phase0.BLSSignature, error) {
	if e.signFail[uint64(slot)] {
		return nil, errors.New("scripted signing failure")
	}
	sigs := make([]phase0.BLSSignature, len(accounts))
	for i, a := range accounts {
		acc, ok := a.(*account)
		if !ok {
			return nil, errors.New("unknown account")
		}
		id, ok := e.sigs[[2]uint64{acc.index, uint64(slot)}]
		if !ok {
			return nil, fmt.Errorf("no scripted signature for validator %d slot %d", acc.index, slot)
		}
		sigs[i] = sigBytes(id)
	}
	return sigs, nil
}

// aggregate and proof signer
func (e *env) SignAggregateAndProof(_ context.Context, _ e2wtypes.Account, _ phase0.Slot, _ phase0.Root) (phase0.BLSSignature, error) {
	return sigBytes(0xA66), nil
}

// subscriptions submitter
func (e *env) SubmitBeaconCommitteeSubscriptions(_ context.Context, subscriptions []*apiv1.BeaconCommitteeSubscription) error {
	cp := make([]*apiv1.BeaconCommitteeSubscription, len(subscriptions))
	for i, s := range subscriptions {
		c := *s
		cp[i] = &c
	}
	e.subCalls = append(e.subCalls, cp)
	return nil
}

// aggregate attestation provider / submitter (the environment of the real Aggregate)
func (e *env) AggregateAttestation(_ context.Context, opts *api.AggregateAttestationOpts) (*api.Response[*phase0.Attestation], error) {
	c := *opts
	e.aggReq = &c
	bits := bitfield.NewBitlist(8)
	bits.SetBitAt(1, true)
	return &api.Response[*phase0.Attestation]{Data: &phase0.Attestation{
		AggregationBits: bits,
		Data:            &phase0.AttestationData{Slot: opts.Slot, Source: &phase0.Checkpoint{}, Target: &phase0.Checkpoint{}},
	}, Metadata: map[string]any{}}, nil
}

func (e *env) SubmitAggregateAttestations(_ context.Context, aggs []*phase0.SignedAggregateAndProof) error {
	e.aggSubmit = append(e.aggSubmit, aggs...)
	return nil
}

// attester
func (e *env) Attest(_ context.Context, _ *attester.Duty) ([]*phase0.Attestation, error) {
	e.meanwhile()
	if e.attestFail {
		return nil, errors.New("scripted attest failure")
	}
	return e.atts, nil
}

// accounts provider of the controller (scripted failures)
type ctrlAccounts struct{ e *env }

func (c ctrlAccounts) ValidatingAccountsForEpoch(_ context.Context, epoch phase0.Epoch) (map[phase0.ValidatorIndex]e2wtypes.Account, error) {
	v := c.e.views[uint64(epoch)]
	if v == nil || v.AcctFail {
		return nil, errors.New("scripted accounts failure")
	}
	accounts := map[phase0.ValidatorIndex]e2wtypes.Account{}
	if v.NoAccounts {
		return accounts, nil
	}
	for _, d := range v.Duties {
		accounts[phase0.ValidatorIndex(d.Val)] = newAccount(d.Val)
	}
	if len(accounts) == 0 {
		accounts[phase0.ValidatorIndex(sentinel)] = newAccount(sentinel)
	}
	return accounts, nil
}

// the controller's own duties providers (scheduleAttestations / scheduleProposals of a refresh)
type ctrlDuties struct{ e *env }

func (c ctrlDuties) AttesterDuties(ctx context.Context, opts *api.AttesterDutiesOpts) (*api.Response[[]*apiv1.AttesterDuty], error) {
	if err := ctx.Err(); err != nil {
		return nil, err
	}
	v := c.e.views[uint64(opts.Epoch)]
	if v == nil || v.DutiesFail {
		return nil, errors.New("scripted duties failure")
	}
	asked := map[phase0.ValidatorIndex]bool{}
	for _, i := range opts.Indices {
		asked[i] = true
	}
	var out []*apiv1.AttesterDuty
	for _, d := range apiDuties(v.Duties) {
		if asked[d.ValidatorIndex] {
			out = append(out, d)
		}
	}
	return &api.Response[[]*apiv1.AttesterDuty]{Data: out, Metadata: map[string]any{}}, nil
}
func (c ctrlDuties) ProposerDuties(_ context.Context, _ *api.ProposerDutiesOpts) (*api.Response[[]*apiv1.ProposerDuty], error) {
	return nil, errors.New("no proposer duties in this harness")
}

func apiDuties(ds []Duty) []*apiv1.AttesterDuty {
	out := make([]*apiv1.AttesterDuty, 0, len(ds))
	for _, d := range ds {
		acc := newAccount(d.Val)
		var pk phase0.BLSPubKey
		copy(pk[:], acc.pk.b[:])
		out = append(out, &apiv1.AttesterDuty{
			PubKey: pk, Slot: phase0.Slot(d.Slot), ValidatorIndex: phase0.ValidatorIndex(d.Val),
			CommitteeIndex: phase0.CommitteeIndex(d.Comm), CommitteeLength: d.Len, CommitteesAtSlot: d.Cas,
			ValidatorCommitteeIndex: d.Pos,
		})
	}
	return out
}
func (c ctrlAccounts) ValidatingAccountsForEpochByIndex(_ context.Context, _ phase0.Epoch, indices []phase0.ValidatorIndex) (map[phase0.ValidatorIndex]e2wtypes.Account, error) {
	res := map[phase0.ValidatorIndex]e2wtypes.Account{}
	for _, i := range indices {
		if c.e.noAcct[uint64(i)] {
			if i%2 == 1 {
				return nil, errors.New("scripted account failure")
			}
			continue
		}
		res[i] = newAccount(uint64(i))
	}
	return res, nil
}
func (c ctrlAccounts) SyncCommitteeAccountsForEpoch(_ context.Context, _ phase0.Epoch) (map[phase0.ValidatorIndex]e2wtypes.Account, error) {
	if c.e.starting {
		// the constructor asks (and gives up if the account manager fails): nobody is in a sync committee
		return map[phase0.ValidatorIndex]e2wtypes.Account{}, nil
	}
	return nil, errors.New("not used")
}
func (c ctrlAccounts) SyncCommitteeAccountsForEpochByIndex(_ context.Context, _ phase0.Epoch, _ []phase0.ValidatorIndex) (map[phase0.ValidatorIndex]e2wtypes.Account, error) {
	return nil, errors.New("not used")
}

// accounts provider of the aggregator service (always answers)
type aggAccounts struct{}

func (aggAccounts) ValidatingAccountsForEpoch(_ context.Context, _ phase0.Epoch) (map[phase0.ValidatorIndex]e2wtypes.Account, error) {
	return nil, errors.New("not used")
}
func (aggAccounts) ValidatingAccountsForEpochByIndex(_ context.Context, _ phase0.Epoch, indices []phase0.ValidatorIndex) (map[phase0.ValidatorIndex]e2wtypes.Account, error) {
	res := map[phase0.ValidatorIndex]e2wtypes.Account{}
	for _, i := range indices {
		res[i] = newAccount(uint64(i))
	}
	return res, nil
}
func (aggAccounts) SyncCommitteeAccountsForEpoch(_ context.Context, _ phase0.Epoch) (map[phase0.ValidatorIndex]e2wtypes.Account, error) {
	return nil, errors.New("not used")
}
func (aggAccounts) SyncCommitteeAccountsForEpochByIndex(_ context.Context, _ phase0.Epoch, _ []phase0.ValidatorIndex) (map[phase0.ValidatorIndex]e2wtypes.Account, error) {
	return nil, errors.New("not used")
}

// the aggregator the subscriber and the controller talk to: the real one, with Aggregate recorded
type aggWrap struct {
	real *standardaggregator.Service
	e    *env
}

func (a *aggWrap) Aggregate(ctx context.Context, d *attestationaggregator.Duty) {
	c := *d
	a.e.aggDuty = &c
	a.real.Aggregate(ctx, d)
}
func (a *aggWrap) AggregatorsAndSignatures(ctx context.Context, accounts []e2wtypes.Account, slot phase0.Slot, sizes []uint64) ([]phase0.BLSSignature, []bool, error) {
	return a.real.AggregatorsAndSignatures(ctx, accounts, slot, sizes)
}

// ---------------------------------------------------------------------------------------------
// Observations.

type ObsSubscription struct {
	Val, Slot, Comm, Cas uint64
	Agg                  bool
}
type ObsSub struct {
	Val, Slot, Comm, Len, Cas, Pos uint64
	Agg                            bool
	Sig                            uint64
}
type ObsJob struct {
	Slot, Comm, TimeMs, DSlot, Root, Val, Sig uint64
	Out                                       *[4]uint64
}
type ObsInfo struct {
	Epoch  uint64
	Stored []ObsSub
}
type Obs struct {
	Kind   string              `json:"kind"` // sub | att | head | panic
	Infos  []ObsInfo           `json:"infos,omitempty"` // head: the information held for every epoch a subscribe of the case names
	Len    uint64              `json:"len,omitempty"`   // head: len(subscriptionInfos)
	Calls  [][]ObsSubscription `json:"calls,omitempty"`
	Stored *[]ObsSub           `json:"stored,omitempty"`
	Jobs   []ObsJob            `json:"jobs,omitempty"`
	Panic  string              `json:"panic,omitempty"`
}

var jobNameRe = regexp.MustCompile(`aggregation for slot (\d+) committee (\d+)$`)

const sentinel = uint64(1) << 62

func runCase(t *testing.T, in Input) (obs []Obs) {
	defer func() {
		if r := recover(); r != nil {
			obs = append(obs, Obs{Kind: "panic", Panic: fmt.Sprint(r)})
		}
	}()
	ctx := context.Background()
	level := zerolog.Disabled
	if in.Trace {
		level = zerolog.TraceLevel
	}
	e := &env{spe: in.SPE, target: in.Target}
	defer func() {
		// whatever happens, no duties request stays parked when the bubble ends
		e.failParked = true
		e.pmu.Lock()
		for _, p := range e.parked {
			close(p.ch)
		}
		e.parked = nil
		e.pmu.Unlock()
	}()
	ct := mocks.NewChainTime(in.SPE)
	sched := mocks.NewRecScheduler()
	realAgg, err := standardaggregator.New(ctx,
		standardaggregator.WithLogLevel(level),
		standardaggregator.WithMonitor(nullmetrics.New()),
		standardaggregator.WithSpecProvider(e),
		standardaggregator.WithValidatingAccountsProvider(aggAccounts{}),
		standardaggregator.WithAggregateAttestationProvider(e),
		standardaggregator.WithAggregateAttestationsSubmitter(e),
		standardaggregator.WithSlotSelectionSigner(e),
		standardaggregator.WithAggregateAndProofSigner(e),
		standardaggregator.WithChainTime(ct),
	)
	if err != nil {
		t.Fatalf("aggregator constructor: %v", err)
	}
	agg := &aggWrap{real: realAgg, e: e}
	conc := in.Concurrency
	if conc <= 0 {
		conc = 2
	}
	subscriber, err := standardsubscriber.New(ctx,
		standardsubscriber.WithLogLevel(level),
		standardsubscriber.WithProcessConcurrency(conc),
		standardsubscriber.WithMonitor(nullmetrics.New()),
		standardsubscriber.WithChainTimeService(ct),
		standardsubscriber.WithAttesterDutiesProvider(e),
		standardsubscriber.WithAttestationAggregator(agg),
		standardsubscriber.WithBeaconCommitteeSubmitter(e),
	)
	if err != nil {
		t.Fatalf("subscriber constructor: %v", err)
	}
	// One controller for the whole history.  NewForVerif (rather than NewForVerifC14) because
	// HandleHeadEvent reads slotsPerEpoch; no tickers, no event subscriptions, no start-up duties.
	var ctrl *standardcontroller.Service
	ctrl = standardcontroller.NewForVerif(&standardcontroller.VerifDeps{
		LogLevel:                     level,
		ChainTime:                    ct,
		Scheduler:                    sched,
		Attester:                     e,
		ValidatingAccountsProvider:   ctrlAccounts{e},
		AttesterDutiesProvider:       ctrlDuties{e},
		ProposerDutiesProvider:       ctrlDuties{e},
		AttestationAggregator:        agg,
		BeaconCommitteeSubscriber:    subscriber,
		SlotDuration:                 slotMs * time.Millisecond,
		SlotsPerEpoch:                in.SPE,
		EpochsPerSyncCommitteePeriod: 256,
		AttestationAggregationDelay:  time.Duration(in.DelayMs) * time.Millisecond,
	})
	// the driver's plan: rooted head events followed by the re-subscriptions they are expected to launch
	tops, _ := desugar(in)
	// the epochs whose information a head event may hold or drop: every epoch a subscribe names
	var subEpochs []uint64
	{
		seen := map[uint64]bool{}
		for _, op := range tops {
			for _, v := range op.Install {
				if !seen[v.Epoch] {
					seen[v.Epoch] = true
					subEpochs = append(subEpochs, v.Epoch)
				}
			}
		}
		for _, op := range linear(tops) {
			if op.Kind == "sub" && !seen[op.Epoch] {
				seen[op.Epoch] = true
				subEpochs = append(subEpochs, op.Epoch)
			}
		}
		sort.Slice(subEpochs, func(i, j int) bool { return subEpochs[i] < subEpochs[j] })
	}

	// every attestation data root of the case -> the id of its attestation
	roots := map[phase0.Root]uint64{}
	for _, op := range linear(tops) {
		for _, a := range op.Atts {
			r, err := attData(a).HashTreeRoot()
			if err != nil {
				t.Fatalf("hash tree root: %v", err)
			}
			roots[r] = a.Root
		}
	}

	var runOp func(op Op)
	rs := rstate{}       // what a chain without reorganisations would send next (see rstate.quiet)
	var markers []string // "Prepare for epoch" jobs put into the scheduler for unprepared views
	// flush ends the period in which the views of a rooted head event answer: duties requests still
	// parked (re-subscriptions the driver did not expect) fail, the markers go.
	flush := func() {
		if e.views == nil {
			return
		}
		e.failParked = true
		e.pmu.Lock()
		for _, p := range e.parked {
			close(p.ch)
		}
		e.parked = nil
		e.pmu.Unlock()
		synctest.Wait()
		e.failParked = false
		e.views = nil
		for _, name := range markers {
			_ = sched.CancelJob(ctx, name)
		}
		markers = nil
	}
	// waitFor arranges what happens while [op]'s outside call is in flight: the operations of op.Mid
	// run to completion (their observations come first, as in [linear]), the clock reaches op.Cur, and
	// the answers scripted for [op] itself are put back.
	waitFor := func(op Op, script func()) {
		if op.Adv {
			ct.SetSlot(op.Cur0)
		} else {
			ct.SetSlot(op.Cur)
		}
		script()
		e.during = func() {
			for _, m := range op.Mid {
				runOp(m)
			}
			ct.SetSlot(op.Cur)
			script()
		}
	}
	runOp = func(op Op) {
		switch op.Kind {
		case "sub":
			accounts := map[phase0.ValidatorIndex]e2wtypes.Account{}
			for _, d := range op.Duties {
				accounts[phase0.ValidatorIndex(d.Val)] = newAccount(d.Val)
			}
			if op.NoAccounts {
				accounts = map[phase0.ValidatorIndex]e2wtypes.Account{}
			} else if len(accounts) == 0 {
				// an account without a duty in this epoch
				accounts[phase0.ValidatorIndex(sentinel)] = newAccount(sentinel)
			}
			var calls [][]*apiv1.BeaconCommitteeSubscription
			script := func() {
				e.duties = apiDuties(op.Duties)
				e.sigs = map[[2]uint64]uint64{}
				for _, d := range op.Duties {
					e.sigs[[2]uint64{d.Val, d.Slot}] = d.Sig
				}
				e.dutiesFail = op.DutiesFail
				e.signFail = map[uint64]bool{}
				for _, s := range op.SignFail {
					e.signFail[s] = true
				}
				e.subCalls = nil
			}
			if op.Parked {
				// The re-subscription of a refresh: refreshAttesterDutiesForEpoch launched it when the head
				// event was handled and its duties request has been waiting in the mock since.  What
				// completes meanwhile comes first; then the node answers.  If the controller never asked
				// for this epoch there is nothing to release and nothing is submitted or stored.
				for _, m := range op.Mid {
					runOp(m)
				}
				ct.SetSlot(op.Cur)
				script()
				if !e.release(op.Epoch) {
					// not asked yet: give a refresh that takes its time a few (fake) seconds before
					// concluding that the epoch is not being re-subscribed
					time.Sleep(3 * time.Second)
					synctest.Wait()
					e.release(op.Epoch)
				}
				synctest.Wait()
			} else {
				waitFor(op, script)
				if op.NoAccounts {
					// Subscribe asks nobody: nothing to wait for, the other operations simply come first
					e.meanwhile()
				}
				ctrl.SubscribeToBeaconCommitteesC14(ctx, phase0.Epoch(op.Epoch), accounts)
				synctest.Wait() // the submission goroutine has finished
				e.meanwhile()   // (only if Subscribe never asked for the duties)
			}
			calls, e.subCalls = e.subCalls, nil
			o := Obs{Kind: "sub", Calls: [][]ObsSubscription{}}
			for _, call := range calls {
				payload := make([]ObsSubscription, 0, len(call))
				for _, s := range call {
					payload = append(payload, ObsSubscription{Val: uint64(s.ValidatorIndex), Slot: uint64(s.Slot),
						Comm: uint64(s.CommitteeIndex), Cas: s.CommitteesAtSlot, Agg: s.IsAggregator})
				}
				sort.Slice(payload, func(i, j int) bool {
					a, b := payload[i], payload[j]
					if a.Slot != b.Slot {
						return a.Slot < b.Slot
					}
					if a.Comm != b.Comm {
						return a.Comm < b.Comm
					}
					return a.Val < b.Val
				})
				o.Calls = append(o.Calls, payload)
			}
			if info, exists := ctrl.SubscriptionInfoC14(phase0.Epoch(op.Epoch)); exists {
				stored := storedOf(info)
				o.Stored = &stored
			}
			obs = append(obs, o)
		case "att":
			waitFor(op, func() {
				e.attestFail = op.AttestFail
				e.noAcct = map[uint64]bool{}
				for _, v := range op.NoAcct {
					e.noAcct[v] = true
				}
				e.atts = nil
				for _, a := range op.Atts {
					bits := bitfield.NewBitlist(16)
					bits.SetBitAt(3, true)
					e.atts = append(e.atts, &phase0.Attestation{AggregationBits: bits, Data: attData(a)})
				}
			})
			duty, err := attester.NewDuty(ctx, phase0.Slot(op.DSlot), 1, nil, nil, nil, map[phase0.CommitteeIndex]uint64{})
			if err != nil {
				t.Fatalf("NewDuty: %v", err)
			}
			ctrl.AttestAndScheduleAggregate(ctx, duty)
			synctest.Wait()
			e.meanwhile() // (only if Attest was never called)
			o := Obs{Kind: "att", Jobs: []ObsJob{}}
			for _, j := range sched.Snapshot() {
				if j.Periodic {
					continue // the tickers of a controller built by the public constructor
				}
				if strings.HasPrefix(j.Name, "Attestations for slot ") || strings.HasPrefix(j.Name, "Prepare for epoch ") {
					// the attestation jobs a refresh re-creates and the driver's own marker of an
					// epoch that is not prepared yet: not aggregation jobs
					continue
				}
				x := ObsJob{Slot: sentinel, Comm: sentinel}
				if m := jobNameRe.FindStringSubmatch(j.Name); m != nil {
					x.Slot, _ = strconv.ParseUint(m[1], 10, 64)
					x.Comm, _ = strconv.ParseUint(m[2], 10, 64)
				}
				x.TimeMs = uint64(j.Time.Sub(ct.Genesis).Milliseconds())
				e.aggDuty, e.aggReq, e.aggSubmit = nil, nil, nil
				j.Func(ctx) // what the scheduler does when the job's time arrives
				synctest.Wait()
				if d := e.aggDuty; d != nil {
					x.DSlot, x.Root, x.Val, x.Sig = uint64(d.Slot), roots[d.AttestationDataRoot], uint64(d.ValidatorIndex), sigID(d.SlotSignature)
				}
				if e.aggReq != nil && len(e.aggSubmit) == 1 && e.aggSubmit[0].Message != nil {
					x.Out = &[4]uint64{uint64(e.aggReq.Slot), roots[e.aggReq.AttestationDataRoot],
						uint64(e.aggSubmit[0].Message.AggregatorIndex), sigID(e.aggSubmit[0].Message.SelectionProof)}
				}
				o.Jobs = append(o.Jobs, x)
			}
			sort.Slice(o.Jobs, func(i, j int) bool {
				if o.Jobs[i].Slot != o.Jobs[j].Slot {
					return o.Jobs[i].Slot < o.Jobs[j].Slot
				}
				return o.Jobs[i].Comm < o.Jobs[j].Comm
			})
			obs = append(obs, o)
		case "start":
			// a fresh process: the public constructor, with the same parts (and the parts this property
			// does not look at mocked away).  From now on this is the controller of the history.
			ct.SetSlot(op.Cur)
			flush()
			e.views = map[uint64]*View{}
			for i := range op.Install {
				e.views[op.Install[i].Epoch] = &op.Install[i]
			}
			e.starting = true
			ctrl = startController(ctx, level, in, e, ct, sched, agg, subscriber)
			synctest.Wait()
			e.starting = false
		case "head":
			ct.SetSlot(op.Cur)
			// the beacon node's "head" event, delivered as the events provider would: the real
			// HandleHeadEvent (no fast track; no sync committee verification).  A head that is not
			// Rooted carries the duty dependent roots of a chain that did not reorganise.
			q := rs.quiet(op.HSlot / in.SPE)
			if op.Rooted {
				q = rstate{op.HSlot / in.SPE, op.PrevRoot, op.CurRoot}
				// from now on the rest of the world answers from the views of this event; the duties
				// requests of the re-subscriptions wait until the driver lets them go on
				flush()
				e.views = map[uint64]*View{}
				for i := range op.Install {
					v := &op.Install[i]
					e.views[v.Epoch] = v
					if v.Unprepared {
						name := fmt.Sprintf("Prepare for epoch %d", v.Epoch)
						if err := sched.ScheduleJob(ctx, "Epoch", name, ct.StartOfSlot(phase0.Slot(v.Epoch*in.SPE)), func(context.Context) {}); err == nil {
							markers = append(markers, name)
						}
					}
				}
			}
			if op.HSlot == op.Cur {
				rs = q
			}
			ctrl.HandleHeadEvent(&apiv1.Event{Topic: "head", Data: &apiv1.HeadEvent{
				Slot: phase0.Slot(op.HSlot), Block: blockRoot(0xB10C0000 + op.HSlot), State: blockRoot(0x57A7E),
				PreviousDutyDependentRoot: depRoot(q.prev), CurrentDutyDependentRoot: depRoot(q.cur),
			}})
			synctest.Wait()
			o := Obs{Kind: "head", Infos: []ObsInfo{}, Len: uint64(ctrl.VerifSubscriptionInfosLen())}
			if op.Rooted {
				// re-subscriptions nobody expected (or missing... those show as empty subscribes): made
				// visible to the correspondence test, the property does not speak of them
				want := map[uint64]int{}
				for _, ep := range op.Expect {
					want[ep]++
				}
				extra := uint64(0)
				for _, p := range e.parked {
					if want[p.epoch] > 0 {
						want[p.epoch]--
					} else {
						extra++
					}
				}
				if extra > 0 {
					o.Len = sentinel + extra
				}
			}
			for _, ep := range subEpochs {
				if info, exists := ctrl.SubscriptionInfoC14(phase0.Epoch(ep)); exists {
					o.Infos = append(o.Infos, ObsInfo{Epoch: ep, Stored: storedOf(info)})
				}
			}
			obs = append(obs, o)
		default:
			t.Fatalf("unknown op kind %q", op.Kind)
		}
	}
	for _, op := range tops {
		if !op.Parked && !(op.Kind == "head" && op.Rooted) {
			flush()
		}
		runOp(op)
	}
	flush()
	return obs
}

// startSpec is the chain specification as the controller's constructor reads it.
type startSpec struct{ spe uint64 }

func (c startSpec) Spec(_ context.Context, _ *api.SpecOpts) (*api.Response[map[string]any], error) {
	return &api.Response[map[string]any]{Data: map[string]any{
		"SECONDS_PER_SLOT": slotMs * time.Millisecond,
		"SLOTS_PER_EPOCH":  c.spe,
	}, Metadata: map[string]any{}}, nil
}

// startController is a process start: the public constructor of the controller over the parts of the
// history (real subscriber, real aggregator, recording scheduler, the scripted account manager and
// node).  It subscribes to events (never delivered by the provider: the driver calls HandleHeadEvent),
// starts its tickers (periodic jobs of the recording scheduler, never fired) and launches the start-up
// work: attestations (jobs, left alone) and the beacon committee subscriptions of the current and the
// next epoch, whose duties requests wait in the mock.
func startController(ctx context.Context, level zerolog.Level, in Input, e *env, ct *mocks.ChainTime, sched *mocks.RecScheduler,
	agg attestationaggregator.Service, subscriber beaconcommitteesubscriber.Service) *standardcontroller.Service {
	svc, err := standardcontroller.New(ctx,
		standardcontroller.WithLogLevel(level),
		standardcontroller.WithMonitor(nullmetrics.New()),
		standardcontroller.WithSpecProvider(startSpec{in.SPE}),
		standardcontroller.WithChainTimeService(ct),
		standardcontroller.WithProposerDutiesProvider(ctrlDuties{e}),
		standardcontroller.WithAttesterDutiesProvider(ctrlDuties{e}),
		standardcontroller.WithEventsProvider(mocks.NewEventsProvider()),
		standardcontroller.WithValidatingAccountsProvider(ctrlAccounts{e}),
		standardcontroller.WithProposalsPreparer(mockproposalpreparer.New()),
		standardcontroller.WithScheduler(sched),
		standardcontroller.WithAttester(e),
		standardcontroller.WithBeaconBlockProposer(mockbeaconblockproposer.New()),
		standardcontroller.WithBeaconCommitteeSubscriber(subscriber),
		standardcontroller.WithAttestationAggregator(agg),
		standardcontroller.WithAccountsRefresher(mockaccountmanager.NewRefresher()),
		standardcontroller.WithBlockToSlotSetter(mockcache.New(map[phase0.Root]phase0.Slot{}).(cache.BlockRootToSlotSetter)),
		standardcontroller.WithBeaconBlockHeadersProvider(mock.NewBeaconBlockHeadersProvider()),
		standardcontroller.WithSignedBeaconBlockProvider(mock.NewSignedBeaconBlockProvider()),
		standardcontroller.WithMaxProposalDelay(slotMs*time.Millisecond/3),
		standardcontroller.WithMaxAttestationDelay(slotMs*time.Millisecond/3),
		standardcontroller.WithAttestationAggregationDelay(time.Duration(in.DelayMs)*time.Millisecond),
	)
	if err != nil {
		panic("controller constructor: " + err.Error())
	}
	return svc
}

// storedOf lists the stored subscription information of one epoch, sorted by (slot, committee).
func storedOf(info map[phase0.Slot]map[phase0.CommitteeIndex]*beaconcommitteesubscriber.Subscription) []ObsSub {
	stored := []ObsSub{}
	for slot, m := range info {
		for comm, s := range m {
			x := ObsSub{Slot: uint64(slot), Comm: uint64(comm), Agg: s.IsAggregator, Sig: sigID(s.Signature)}
			if s.Duty != nil {
				x.Val, x.Len, x.Cas, x.Pos = uint64(s.Duty.ValidatorIndex), s.Duty.CommitteeLength, s.Duty.CommitteesAtSlot, s.Duty.ValidatorCommitteeIndex
				if uint64(s.Duty.Slot) != uint64(slot) || uint64(s.Duty.CommitteeIndex) != uint64(comm) {
					// the entry's own duty disagrees with its map keys: make it visible
					x.Slot, x.Comm = uint64(s.Duty.Slot)+sentinel, uint64(s.Duty.CommitteeIndex)
				}
			} else {
				x.Val = sentinel
			}
			stored = append(stored, x)
		}
	}
	sort.Slice(stored, func(i, j int) bool {
		if stored[i].Slot != stored[j].Slot {
			return stored[i].Slot < stored[j].Slot
		}
		return stored[i].Comm < stored[j].Comm
	})
	return stored
}

// ---------------------------------------------------------------------------------------------
// Gallina.

func nlist(xs []uint64) string {
	items := make([]string, len(xs))
	for i, x := range xs {
		items[i] = N(x)
	}
	return List(items)
}

func dutyTerm(d Duty) string {
	// Only the first 8 bytes of the digest are printed (evaluating a case costs ~0.1 ms per numeral):
	// the model and the specification read nothing else (Proofs.C14 is_aggregator_prefix), and an
	// implementation reading other bytes disagrees with both on these.
	dg := sigDigest(d.Sig)
	bs := make([]uint64, 8)
	for i := range bs {
		bs[i] = uint64(dg[i])
	}
	return App("mkDuty", N(d.Val), N(d.Slot), N(d.Comm), N(d.Len), N(d.Cas), N(d.Pos), N(d.Sig), nlist(bs))
}

func term(id uint64, in Input, obs []Obs) string {
	opTerm := func(op Op) string {
		switch op.Kind {
		case "sub":
			ds := make([]string, len(op.Duties))
			for i, d := range op.Duties {
				ds[i] = dutyTerm(d)
			}
			return App("OSub", N(op.Epoch), N(op.Cur), Bool(op.NoAccounts), Bool(op.DutiesFail), nlist(op.SignFail), List(ds))
		case "att":
			as := make([]string, len(op.Atts))
			for i, a := range op.Atts {
				as[i] = App("mkAtt", N(a.Slot), N(a.Comm), N(a.Root))
			}
			return App("OAtt", N(op.DSlot), N(op.Cur), Bool(op.AttestFail), nlist(op.NoAcct), List(as))
		default:
			return App("OHead", N(op.HSlot), N(op.Cur))
		}
	}
	// the history as it happened: an operation with the operations that completed while it was waiting
	// for its outside call; Check.C14 puts them in the order in which they take effect ([linearise])
	ops := make([]string, 0, len(in.Ops))
	viewTerm := func(v View) string {
		ds := make([]string, len(v.Duties))
		for k, d := range v.Duties {
			ds[k] = dutyTerm(d)
		}
		mids := []string{}
		for _, m := range linear(v.Mid) {
			mids = append(mids, opTerm(m))
		}
		return App("mkView", N(v.Epoch), Bool(v.Unprepared), Bool(v.AcctFail), Bool(v.NoAccounts), Bool(v.DutiesFail),
			nlist(v.SignFail), List(ds), List(mids))
	}
	startTerm := ""
	for _, op := range in.Ops {
		if op.Kind == "start" {
			// the process starts at slot Cur: Model.C14_Start.start_events says what the constructor
			// subscribes, from what the account manager and the node answer about each epoch
			vs := make([]string, len(op.Views))
			for i, v := range op.Views {
				vs[i] = viewTerm(v)
			}
			startTerm = N(op.Cur) + " " + List(vs)
			continue
		}
		if op.Kind == "head" && op.Rooted {
			// a head event with duty dependent roots of its own and the answers of the rest of the
			// world afterwards: Model.C14_Reorg.expand decides what it launches
			vs := make([]string, len(op.Views))
			for i, v := range op.Views {
				ds := make([]string, len(v.Duties))
				for k, d := range v.Duties {
					ds[k] = dutyTerm(d)
				}
				mids := []string{}
				for _, m := range linear(v.Mid) {
					mids = append(mids, opTerm(m))
				}
				vs[i] = App("mkView", N(v.Epoch), Bool(v.Unprepared), Bool(v.AcctFail), Bool(v.NoAccounts), Bool(v.DutiesFail),
					nlist(v.SignFail), List(ds), List(mids))
			}
			ops = append(ops, App("EHead", N(op.HSlot), N(op.Cur), N(op.PrevRoot), N(op.CurRoot), List(vs)))
			continue
		}
		if len(op.Mid) == 0 {
			ops = append(ops, App("EOp", App("HOp", opTerm(op))))
			continue
		}
		mids := []string{}
		for _, m := range linear(op.Mid) {
			mids = append(mids, opTerm(m))
		}
		ops = append(ops, App("EOp", App("HDuring", List(mids), opTerm(op))))
	}
	subTerm := func(s ObsSub) string {
		return App("mkSub", N(s.Val), N(s.Slot), N(s.Comm), N(s.Len), N(s.Cas), N(s.Pos), Bool(s.Agg), N(s.Sig))
	}
	os := make([]string, 0, len(obs))
	for _, o := range obs {
		switch o.Kind {
		case "head":
			infos := make([]string, len(o.Infos))
			for i, inf := range o.Infos {
				ss := make([]string, len(inf.Stored))
				for k, s := range inf.Stored {
					ss[k] = subTerm(s)
				}
				infos[i] = Pair(N(inf.Epoch), List(ss))
			}
			os = append(os, App("ObsHead", List(infos), N(o.Len)))
		case "sub":
			calls := make([]string, len(o.Calls))
			for i, c := range o.Calls {
				ps := make([]string, len(c))
				for k, p := range c {
					ps[k] = App("mkSubscription", N(p.Val), N(p.Slot), N(p.Comm), N(p.Cas), Bool(p.Agg))
				}
				calls[i] = List(ps)
			}
			stored := None()
			if o.Stored != nil {
				ss := make([]string, len(*o.Stored))
				for i, s := range *o.Stored {
					ss[i] = subTerm(s)
				}
				stored = Some(List(ss))
			}
			os = append(os, App("ObsSub", List(calls), stored))
		case "att":
			js := make([]string, len(o.Jobs))
			for i, j := range o.Jobs {
				out := None()
				if j.Out != nil {
					out = Some("(" + N(j.Out[0]) + ", " + N(j.Out[1]) + ", " + N(j.Out[2]) + ", " + N(j.Out[3]) + ")")
				}
				js[i] = Pair(App("mkJob", N(j.Slot), N(j.Comm), N(j.TimeMs), N(j.DSlot), N(j.Root), N(j.Val), N(j.Sig)), out)
			}
			os = append(os, App("ObsAtt", List(js)))
		default:
			os = append(os, "ObsPanic")
		}
	}
	pr := App("mkParams", N(slotMs), N(in.DelayMs), N(in.SPE), N(in.Target))
	if startTerm != "" {
		evs := "(start_events " + pr + " " + startTerm + " ++ " + List(ops) + ")"
		return Record("c_id", N(id), "c_pr", pr, "c_ops", App("expand", pr, "rinit", evs), "c_obs", List(os))
	}
	return Record("c_id", N(id), "c_pr", pr, "c_ops", App("expand", pr, "rinit", List(ops)), "c_obs", List(os))
}

// ---------------------------------------------------------------------------------------------
// Families (computed from the input alone) and the non-triviality rule.

type shape struct {
	tags       map[string]bool
	nontrivial bool
	futurePair int
	selComms   int
}

func analyse(in Input) shape {
	tops, rtags := desugar(in)
	sh := shape{tags: rtags}
	latest := map[uint64]*Op{}
	headSince := map[uint64]bool{} // epoch -> an effective head event arrived since its latest subscribe
	// selectedOf: the attested committees of [att] that hold a selected validator according to [sub]
	// and are not in the past at slot [cur] (the generator's steering computation, not the check's)
	selectedOf := func(sub *Op, att *Op, cur uint64) map[[2]uint64]bool {
		sel := map[[2]uint64]bool{}
		if sub == nil || att.AttestFail {
			return sel
		}
		for _, a := range att.Atts {
			if a.Slot < cur {
				continue
			}
			for _, d := range sub.Duties {
				if d.Slot == a.Slot && d.Comm == a.Comm && in.Target > 0 && genSelected(d.Sig, d.Len, in.Target) {
					sel[[2]uint64{a.Slot, a.Comm}] = true
				}
			}
		}
		return sel
	}
	// the operations in the order in which they take effect, each with the operation during whose
	// outside call it completed (nil: on its own)
	type placed struct {
		op     *Op
		during *Op
	}
	var seq []placed
	for i := range tops {
		top := &tops[i]
		mids := linear(top.Mid)
		for k := range mids {
			seq = append(seq, placed{&mids[k], top})
		}
		seq = append(seq, placed{top, nil})
	}
	var infoBefore *Op // the information of the attest's epoch when the attest started (before its Mid)
	for i, pl := range seq {
		op := pl.op
		if pl.during != nil {
			sh.tags[op.Kind+"-during-"+pl.during.Kind] = true
			if i == 0 || seq[i-1].during != pl.during {
				// first operation of this waiting period: remember what the waiting attest would have
				// found had it looked before calling Attest
				infoBefore = nil
				if pl.during.Kind == "att" {
					infoBefore = latest[pl.during.DSlot/in.SPE]
				}
			}
		}
		if op.Adv && op.Cur0 != op.Cur {
			sh.tags["slot-advances-during-"+op.Kind] = true
		}
		if op.Kind == "att" && len(op.Mid) > 0 {
			after := latest[op.DSlot/in.SPE]
			selB, selA := selectedOf(infoBefore, op, op.Cur), selectedOf(after, op, op.Cur)
			switch {
			case infoBefore == nil && after != nil:
				sh.tags["info-lands-during-attest"] = true
			case infoBefore != after:
				sh.tags["info-replaced-during-attest"] = true
			}
			for k := range selA {
				if !selB[k] {
					sh.tags["job-needs-info-stored-during-attest"] = true
				} else if infoBefore != after {
					sh.tags["job-details-from-info-stored-during-attest"] = true
				}
			}
			for k := range selB {
				if !selA[k] {
					sh.tags["info-of-before-attest-would-schedule-other-job"] = true
				}
			}
		}
		if op.Kind == "att" && op.Adv && op.Cur0 != op.Cur {
			sub := latest[op.DSlot/in.SPE]
			if len(selectedOf(sub, op, op.Cur0)) != len(selectedOf(sub, op, op.Cur)) {
				sh.tags["aggregation-becomes-past-during-attest"] = true
			}
		}
		if op.Kind == "sub" && op.Adv && op.Cur0 != op.Cur && !op.NoAccounts && !op.DutiesFail {
			lo, hi := min(op.Cur0, op.Cur), max(op.Cur0, op.Cur)
			for _, d := range op.Duties {
				if lo < d.Slot && d.Slot <= hi {
					sh.tags["duty-becomes-current-during-subscribe"] = true
				}
			}
		}
		if op.Kind == "att" && pl.during != nil && pl.during.Parked && pl.during.Epoch == op.DSlot/in.SPE && !op.AttestFail {
			if old := latest[op.DSlot/in.SPE]; old != nil && len(selectedOf(old, op, op.Cur)) > 0 {
				sh.tags["job-from-info-held-while-refresh-in-flight"] = true
			}
		}
		if op.Kind == "sub" && op.Parked {
			if _, held := latest[op.Epoch]; held {
				sh.tags["refresh-replaces-held-info"] = true
			} else {
				sh.tags["refresh-of-epoch-without-info"] = true
			}
		}
		if op.Kind == "att" && pl.during != nil && pl.during.Kind == "sub" && pl.during.Epoch == op.DSlot/in.SPE {
			if latest[op.DSlot/in.SPE] != nil {
				sh.tags["attest-during-resubscribe"] = true
			} else {
				sh.tags["attest-during-first-subscribe"] = true
			}
		}
		switch op.Kind {
		case "head":
			sh.tags["head"] = true
			hepoch := op.HSlot / in.SPE
			switch {
			case hepoch == 0:
				sh.tags["head-epoch-0"] = true
			case hepoch == 1:
				sh.tags["head-epoch-1"] = true
			default:
				sh.tags["head-epoch-2+"] = true
			}
			if len(latest) > 0 {
				sh.tags["head-with-info"] = true
				sh.nontrivial = true
			}
			if op.HSlot != op.Cur {
				sh.tags["head-not-current"] = true
				for ep := range latest {
					if ep+1 < hepoch {
						sh.tags["head-not-current-would-drop"] = true
					}
				}
				continue
			}
			for ep := range latest {
				headSince[ep] = true
				switch {
				case ep+1 < hepoch:
					sh.tags["head-drops-old-epoch"] = true
					delete(latest, ep)
				case ep+1 == hepoch:
					sh.tags["head-keeps-previous-epoch"] = true
				case ep == hepoch:
					sh.tags["head-keeps-current-epoch"] = true
				default:
					sh.tags["head-keeps-later-epoch"] = true
				}
			}
		case "sub":
			if op.NoAccounts {
				sh.tags["no-accounts"] = true
				latest[op.Epoch] = &Op{}
				continue
			}
			if op.DutiesFail {
				sh.tags["duties-fail"] = true
				continue
			}
			if _, again := latest[op.Epoch]; again {
				sh.tags["resubscribe"] = true
			}
			latest[op.Epoch] = op
			delete(headSince, op.Epoch)
			past, at, future := 0, 0, 0
			perKey := map[[2]uint64]int{}
			lens := map[[2]uint64]uint64{}
			cas := map[uint64]uint64{}
			for _, d := range op.Duties {
				switch {
				case d.Slot < op.Cur:
					past++
				case d.Slot == op.Cur:
					at++
				default:
					future++
				}
				if d.Slot == op.Cur+1 {
					sh.tags["duty-at-cur+1"] = true
				}
				if d.Slot+1 == op.Cur {
					sh.tags["duty-at-cur-1"] = true
				}
				k := [2]uint64{d.Slot, d.Comm}
				perKey[k]++
				if l, ok := lens[k]; ok && l != d.Len {
					sh.tags["inconsistent"] = true
				}
				lens[k] = d.Len
				if c, ok := cas[d.Slot]; ok && c != d.Cas {
					sh.tags["inconsistent"] = true
				}
				cas[d.Slot] = d.Cas
				if in.Target > 0 {
					switch {
					case d.Len%in.Target == 0:
						sh.tags["len-multiple-of-target"] = true
					case d.Len%in.Target == in.Target-1:
						sh.tags["len-multiple-minus-1"] = true
					case d.Len%in.Target == 1:
						sh.tags["len-multiple-plus-1"] = true
					}
					if d.Len < in.Target {
						sh.tags["len-below-target"] = true
					}
				}
			}
			if at > 0 {
				sh.tags["duty-at-cur"] = true
			}
			if (past > 0 || at > 0) && future > 0 {
				sh.tags["past-and-future"] = true
			}
			if past == 0 && at == 0 && future > 0 {
				sh.tags["all-future"] = true
			}
			if future == 0 && len(op.Duties) > 0 {
				sh.tags["none-future"] = true
			}
			for _, n := range perKey {
				if n > 1 {
					sh.tags["shared-committee"] = true
				}
			}
			if len(op.SignFail) > 0 {
				sh.tags["sign-fail"] = true
			}
			sh.futurePair += future
			if future > 0 {
				sh.nontrivial = true
			}
		case "att":
			if op.AttestFail {
				sh.tags["attest-fail"] = true
				continue
			}
			if len(op.Atts) == 0 {
				sh.tags["no-attestations"] = true
				continue
			}
			if len(op.NoAcct) > 0 {
				sh.tags["account-failure"] = true
			}
			sub := latest[op.DSlot/in.SPE]
			if sub == nil {
				sh.tags["attest-without-info"] = true
				continue
			}
			switch {
			case op.Cur > op.DSlot:
				sh.tags["attest-late"] = true
			case op.Cur == op.DSlot:
				sh.tags["attest-at-cur"] = true
			default:
				sh.tags["attest-early"] = true
			}
			sel := map[[2]uint64]bool{}
			for _, a := range op.Atts {
				if a.Slot != op.DSlot {
					sh.tags["attestation-of-other-slot"] = true
				}
				for _, d := range sub.Duties {
					if d.Slot == a.Slot && d.Comm == a.Comm && in.Target > 0 && genSelected(d.Sig, d.Len, in.Target) {
						sel[[2]uint64{a.Slot, a.Comm}] = true
					}
				}
			}
			if len(sel) >= 2 {
				sh.tags["two-aggregator-committees"] = true
			}
			if len(sel) >= 1 {
				sh.nontrivial = true
				sh.selComms += len(sel)
				if headSince[op.DSlot/in.SPE] {
					sh.tags["head-between-subscribe-and-attest"] = true
				}
			}
		}
	}
	return sh
}

// ---------------------------------------------------------------------------------------------
// Generator.

func pickSig(r *Rand, length, target uint64, want bool) uint64 {
	var id uint64
	for tries := 0; tries < 5000; tries++ {
		id = uint64(r.Intn(1<<31-1)) + 1 // small ids: big numerals are slow to parse in coqc
		if genSelected(id, length, target) == want {
			return id
		}
	}
	return id
}

func genLen(r *Rand, target uint64) uint64 {
	switch r.Intn(10) {
	case 0:
		return uint64(r.Intn(3)) // 0, 1, 2
	case 1:
		return uint64(r.Range(100, 3000))
	default:
		k := uint64(r.Range(0, 6))
		l := k*target + uint64(r.Intn(3))
		if l > 0 {
			l--
		}
		return l // k*target-1, k*target, k*target+1
	}
}

func genSub(r *Rand, in *Input, epoch uint64) Op {
	spe := in.SPE
	first := epoch * spe
	op := Op{Kind: "sub", Epoch: epoch}
	switch k := r.Intn(10); {
	case k < 6: // inside the epoch
		op.Cur = first + uint64(r.Intn(int(spe)))
	case k < 9: // before the epoch (the usual preparation half an epoch ahead)
		back := uint64(r.Range(1, int(spe)))
		if back > first {
			back = first
		}
		op.Cur = first - back
	default: // after it
		op.Cur = first + spe + uint64(r.Intn(3))
	}
	if r.Chance(1, 30) {
		op.NoAccounts = true
	}
	if r.Chance(1, 25) {
		op.DutiesFail = true
	}
	cas := uint64(r.Range(1, 4))
	if r.Chance(1, 10) {
		cas = 64
	}
	nvals := r.Range(1, 10)
	if r.Chance(1, 25) {
		nvals = 0
	}
	lens := map[[2]uint64]uint64{}
	base := uint64(r.Range(1, 5000))
	for i := 0; i < nvals; i++ {
		d := Duty{Val: base + uint64(i)*uint64(r.Range(1, 3)) + uint64(i), Cas: cas}
		around := int64(op.Cur) + int64(r.Range(-1, 1))
		if around < 0 {
			around = 0
		}
		switch k := r.Intn(20); {
		case k < 10: // around the current slot, kept inside the requested epoch
			d.Slot = min(max(uint64(around), first), first+spe-1)
		case k < 18:
			d.Slot = first + uint64(r.Intn(int(spe)))
		case k < 19: // outside the requested epoch
			d.Slot = first + spe + uint64(r.Intn(2))
		default: // around the current slot wherever that is
			d.Slot = uint64(around)
		}
		d.Comm = uint64(r.Intn(int(min(cas, 3))))
		if cas == 64 && r.Bool() {
			d.Comm = uint64(r.Intn(64))
		}
		k := [2]uint64{d.Slot, d.Comm}
		if _, ok := lens[k]; !ok {
			lens[k] = genLen(r, in.Target)
		}
		d.Len = lens[k]
		d.Pos = uint64(r.Intn(int(d.Len) + 1))
		d.Sig = pickSig(r, d.Len, in.Target, r.Chance(2, 5))
		op.Duties = append(op.Duties, d)
	}
	// unique validator indices (the increments above may collide)
	seen := map[uint64]bool{}
	for i := range op.Duties {
		for seen[op.Duties[i].Val] {
			op.Duties[i].Val++
		}
		seen[op.Duties[i].Val] = true
	}
	if len(op.Duties) > 1 && r.Chance(1, 20) {
		// an inconsistent answer: one duty disagrees on the committee length or committees at slot
		i := r.Intn(len(op.Duties))
		if r.Bool() {
			op.Duties[i].Len += uint64(r.Range(1, 40))
		} else {
			op.Duties[i].Cas++
		}
	}
	if len(op.Duties) > 1 && r.Chance(1, 30) {
		// the same validator with duties in two slots
		i, j := r.Intn(len(op.Duties)), r.Intn(len(op.Duties))
		if op.Duties[i].Slot != op.Duties[j].Slot {
			op.Duties[j].Val = op.Duties[i].Val
		}
	}
	if len(op.Duties) > 0 && r.Chance(1, 10) {
		op.SignFail = append(op.SignFail, op.Duties[r.Intn(len(op.Duties))].Slot)
	}
	p := r.Perm(len(op.Duties))
	shuffled := make([]Duty, len(op.Duties))
	for i, k := range p {
		shuffled[i] = op.Duties[k]
	}
	op.Duties = shuffled
	return op
}

func genAtt(r *Rand, in *Input, subs []Op, rootSeq *uint64) Op {
	op := Op{Kind: "att"}
	var sub *Op
	if len(subs) > 0 && !r.Chance(1, 12) {
		sub = &subs[r.Intn(len(subs))]
	}
	if sub != nil && len(sub.Duties) > 0 {
		// prefer the slot with the most committees holding a selected validator
		best, bestN := sub.Duties[r.Intn(len(sub.Duties))].Slot, -1
		if r.Chance(2, 3) {
			count := map[uint64]map[uint64]bool{}
			for _, d := range sub.Duties {
				if genSelected(d.Sig, d.Len, in.Target) {
					if count[d.Slot] == nil {
						count[d.Slot] = map[uint64]bool{}
					}
					count[d.Slot][d.Comm] = true
				}
			}
			for s, m := range count {
				if len(m) > bestN || (len(m) == bestN && s < best) {
					best, bestN = s, len(m)
				}
			}
		}
		op.DSlot = best
	} else if sub != nil {
		op.DSlot = sub.Epoch*in.SPE + uint64(r.Intn(int(in.SPE)))
	} else {
		op.DSlot = uint64(r.Intn(400))
	}
	switch k := r.Intn(10); {
	case k < 7:
		op.Cur = op.DSlot
	case k < 8 && op.DSlot > 0:
		op.Cur = op.DSlot - 1
	default:
		op.Cur = op.DSlot + uint64(r.Range(1, 2))
	}
	if r.Chance(1, 25) {
		op.AttestFail = true
	}
	perComm := map[uint64]uint64{}
	if sub != nil {
		for _, d := range sub.Duties {
			if d.Slot != op.DSlot || r.Chance(1, 8) { // an attestation that could not be produced
				continue
			}
			root, ok := perComm[d.Comm]
			if !ok || r.Chance(1, 6) {
				*rootSeq++
				root = *rootSeq
				perComm[d.Comm] = root
			}
			op.Atts = append(op.Atts, Att{Slot: d.Slot, Comm: d.Comm, Root: root})
			if r.Chance(1, 10) {
				op.NoAcct = append(op.NoAcct, d.Val)
			}
		}
	}
	if sub != nil && r.Chance(1, 5) {
		// attestations of another slot of the same subscription (the loop looks every attestation up by
		// its own slot and schedules at the start of that slot, not of the duty's)
		for _, d := range sub.Duties {
			if d.Slot == op.DSlot || d.Slot/in.SPE != op.DSlot/in.SPE || r.Chance(1, 3) {
				continue
			}
			*rootSeq++
			op.Atts = append(op.Atts, Att{Slot: d.Slot, Comm: d.Comm, Root: *rootSeq})
		}
	}
	if r.Chance(1, 8) { // a committee we hold no information about
		*rootSeq++
		op.Atts = append(op.Atts, Att{Slot: op.DSlot, Comm: uint64(r.Range(3, 70)), Root: *rootSeq})
	}
	if r.Chance(1, 15) { // an attestation of another slot
		*rootSeq++
		op.Atts = append(op.Atts, Att{Slot: op.DSlot + uint64(r.Range(1, 2)), Comm: uint64(r.Intn(3)), Root: *rootSeq})
	}
	if r.Chance(1, 3) {
		p := r.Perm(len(op.Atts))
		shuffled := make([]Att, len(op.Atts))
		for i, k := range p {
			shuffled[i] = op.Atts[k]
		}
		op.Atts = shuffled
	} else {
		sort.SliceStable(op.Atts, func(i, j int) bool { return op.Atts[i].Comm < op.Atts[j].Comm })
	}
	if r.Chance(1, 25) {
		op.Atts = nil
	}
	return op
}

// genHead makes a head event.  With [att] it is the head that precedes that attestation (the block of
// the attestation's current slot, or of the slot before it arriving late); without, one around the
// epochs in play: the epoch before [epoch] up to three epochs after it.
func genHead(r *Rand, in *Input, epoch uint64, att *Op) Op {
	op := Op{Kind: "head"}
	if att != nil {
		op.Cur = att.Cur
	} else {
		first := epoch * in.SPE
		span := int(5 * in.SPE)
		off := uint64(r.Intn(span))
		if first >= in.SPE {
			first -= in.SPE
		}
		op.Cur = first + off
		if r.Chance(1, 4) { // the first or the last slot of an epoch
			op.Cur -= op.Cur % in.SPE
			if r.Bool() && op.Cur > 0 {
				op.Cur--
			}
		}
	}
	op.HSlot = op.Cur
	switch k := r.Intn(12); {
	case k == 0 && op.Cur > 0: // the block of the previous slot, arriving late: ignored
		op.HSlot = op.Cur - 1
	case k == 1: // a head far ahead of the clock: ignored, whatever its epoch
		op.HSlot = op.Cur + uint64(r.Range(2, 4))*in.SPE
	case k == 2 && op.Cur > in.SPE: // an old head
		op.HSlot = op.Cur - uint64(r.Range(1, int(in.SPE)))
	}
	return op
}

// genReorg makes a history through the reorganisation path: an epoch (and usually the next one) is
// subscribed, a head event records the duty dependent roots, and a later head event of the current
// slot carries different ones -- the current root (the next epoch's attester duties changed), the
// previous root (this epoch's), both, neither, or the roots of a new epoch that do not continue the
// old ones -- with the beacon node answering with new duties for the refreshed epochs.  While a
// re-subscription waits for the duties, attestations of the epoch (made from the duties known so
// far) complete; afterwards the epochs are attested from what is known then.
func genReorg(r *Rand, trace bool) Input {
	in := Input{SPE: 8, Target: 16, DelayMs: 8000, Concurrency: int64(r.Range(1, 4)), Trace: trace}
	switch r.Intn(6) {
	case 0:
		in.SPE = 4
	case 1:
		in.SPE = 32
	}
	if r.Chance(1, 8) {
		in.Target = uint64(r.Range(1, 5))
	}
	spe := in.SPE
	epoch := uint64(r.Range(1, 40))
	switch k := r.Intn(20); {
	case k < 1:
		epoch = 0 // lastBlockEpoch stays 0 during epoch 0: nothing is compared
	case k < 4:
		epoch = 1
	}
	first := epoch * spe
	rootSeq := uint64(r.Range(1, 1000)) * 100
	var subs []Op
	replace := func(op Op) {
		op.Mid = nil
		kept := subs[:0:0]
		for _, s := range subs {
			if s.Epoch != op.Epoch {
				kept = append(kept, s)
			}
		}
		subs = append(kept, op)
	}
	find := func(ep uint64) *Op {
		for i := range subs {
			if subs[i].Epoch == ep {
				return &subs[i]
			}
		}
		return nil
	}
	// the epoch itself and, usually, the next one have been prepared
	for _, ep := range []uint64{epoch, epoch + 1} {
		if ep == epoch+1 && r.Chance(1, 6) {
			continue
		}
		s := genSub(r, &in, ep)
		s.DutiesFail, s.NoAccounts = false, false
		if ep == epoch+1 { // prepared during the epoch before
			s.Cur = first + uint64(r.Intn(int(spe)))
		}
		in.Ops = append(in.Ops, s)
		replace(s)
	}
	// the slot of the second head event: where an attestation of this epoch is due
	var pending *Op
	s2 := first + uint64(r.Intn(int(spe)))
	if old := find(epoch); old != nil && len(old.Duties) > 0 {
		a := genAtt(r, &in, []Op{*old}, &rootSeq)
		if a.Cur/spe == epoch {
			s2 = a.Cur
			pending = &a
		}
	}
	s1 := first + uint64(r.Intn(int(s2-first)+1))
	p0, c0 := uint64(r.Range(1, 1000)), uint64(r.Range(1001, 2000))
	if r.Chance(1, 12) {
		p0 = 0 // a node that does not send the root: nothing to compare with later
	}
	if r.Chance(1, 12) {
		c0 = 0
	}
	in.Ops = append(in.Ops, Op{Kind: "head", Cur: s1, HSlot: s1, Rooted: true, PrevRoot: p0, CurRoot: c0})
	if r.Chance(1, 4) { // the chain goes on quietly for a while
		h := genHead(r, &in, epoch, nil)
		h.Cur = s1 + uint64(r.Intn(int(s2-s1)+1))
		h.HSlot = h.Cur
		in.Ops = append(in.Ops, h)
	}
	h := Op{Kind: "head", Cur: s2, HSlot: s2, Rooted: true, PrevRoot: p0, CurRoot: c0}
	var refreshed []uint64
	switch k := r.Intn(20); {
	case k < 8: // the next epoch's duties changed
		h.CurRoot = uint64(r.Range(2001, 3000))
		refreshed = []uint64{epoch + 1}
	case k < 13: // this epoch's duties changed
		h.PrevRoot = uint64(r.Range(3001, 4000))
		refreshed = []uint64{epoch}
	case k < 16: // both
		h.PrevRoot, h.CurRoot = uint64(r.Range(3001, 4000)), uint64(r.Range(2001, 3000))
		refreshed = []uint64{epoch, epoch + 1}
	case k < 17: // the same roots again
	case k < 18: // a root that was not sent before arrives now
		h.PrevRoot, h.CurRoot = uint64(r.Range(3001, 4000)), uint64(r.Range(2001, 3000))
		if p0 != 0 && c0 != 0 {
			h.PrevRoot = 0
		}
		refreshed = []uint64{epoch, epoch + 1}
	default: // the first head of the next epoch
		s2 = first + spe + uint64(r.Intn(int(spe)))
		h.Cur, h.HSlot = s2, s2
		pending = nil
		h.PrevRoot, h.CurRoot = c0, uint64(r.Range(4001, 5000))
		switch r.Intn(3) {
		case 0:
			h.PrevRoot = uint64(r.Range(3001, 4000)) // does not continue the old current root
		case 1:
			h.PrevRoot = p0 // the old previous root again: does not continue the old current root either
		}
		refreshed = []uint64{epoch + 1, epoch + 2}
	}
	if r.Chance(1, 15) { // a late block: not the head of the current slot, ignored whatever it carries
		h.Cur = h.HSlot + 1
	}
	// the answers after the reorganisation: for the epochs that may be refreshed, sometimes for a
	// neighbour too
	if r.Chance(1, 4) {
		refreshed = append(refreshed, h.Cur/spe, h.Cur/spe+1)
	}
	seen := map[uint64]bool{}
	for _, ep := range refreshed {
		if seen[ep] || r.Chance(1, 20) {
			continue
		}
		seen[ep] = true
		s := genSub(r, &in, ep)
		v := View{Epoch: ep, NoAccounts: s.NoAccounts, DutiesFail: s.DutiesFail, SignFail: s.SignFail, Duties: s.Duties}
		if r.Chance(1, 15) {
			v.Unprepared = true
		}
		if r.Chance(1, 20) {
			v.AcctFail = true
		}
		// what completes while the re-subscription waits for the node
		if old := find(ep); old != nil && r.Chance(3, 5) {
			var a Op
			if ep == h.Cur/spe && pending != nil && r.Chance(3, 4) {
				a = *pending // the attestation due in the slot of the head event
			} else {
				a = genAtt(r, &in, []Op{*old}, &rootSeq)
				if r.Chance(2, 3) {
					a.Cur = h.Cur
				}
			}
			switch r.Intn(6) {
			case 0:
				v.Mid = append(v.Mid, genHead(r, &in, epoch, &a), a)
			case 1:
				v.Mid = append(v.Mid, a, genHead(r, &in, epoch, &a))
			default:
				v.Mid = append(v.Mid, a)
			}
		}
		h.Views = append(h.Views, v)
	}
	in.Ops = append(in.Ops, h)
	// the driver's plan tells which views took effect
	plan, _ := desugar(in)
	for _, op := range plan {
		if op.Parked && !op.DutiesFail {
			replace(op)
		}
	}
	// afterwards: the epochs are attested from what is known now
	for n := r.Range(1, 3); n > 0 && len(subs) > 0; n-- {
		a := genAtt(r, &in, subs, &rootSeq)
		if r.Chance(1, 3) {
			in.Ops = append(in.Ops, genHead(r, &in, epoch, &a))
		}
		in.Ops = append(in.Ops, a)
	}
	return in
}

// genStart: the process starts (the public constructor) in some slot of an epoch, usually past the
// point at which the next epoch would have been prepared by the epoch ticker; the validators of the
// next epoch are those of the current one with some activated (new in the next epoch), some exited
// (gone in the next epoch), or just the same; afterwards the two epochs are attested.
func genStart(r *Rand, trace bool) Input {
	in := Input{SPE: 8, Target: 16, DelayMs: 8000, Concurrency: int64(r.Range(1, 4)), Trace: trace}
	switch r.Intn(6) {
	case 0:
		in.SPE = 4
	case 1:
		in.SPE = 32
	}
	if r.Chance(1, 8) {
		in.Target = uint64(r.Range(1, 5))
	}
	if r.Chance(1, 4) {
		in.DelayMs = uint64(r.Range(1, 12000))
	}
	spe := in.SPE
	epoch := uint64(r.Intn(40))
	if r.Chance(1, 6) {
		epoch = 0
	}
	cur := epoch*spe + spe/2 + uint64(r.Intn(int(spe-spe/2)))
	if r.Chance(1, 4) {
		cur = epoch*spe + uint64(r.Intn(int(spe)))
	}
	sE, sN := genSub(r, &in, epoch), genSub(r, &in, epoch+1)
	sE.Cur, sN.Cur = cur, cur
	// who validates in the next epoch
	mode := r.Intn(10)
	used := map[uint64]bool{}
	for _, d := range sN.Duties {
		used[d.Val] = true
	}
	var pool []uint64
	for _, d := range sE.Duties {
		if !used[d.Val] {
			used[d.Val] = true
			pool = append(pool, d.Val)
		}
	}
	activated := 0
	for i := range sN.Duties {
		keep := mode >= 3 && r.Chance(1, 3) // a validator that is not validating in the start-up epoch
		if mode >= 3 && i == len(sN.Duties)-1 && activated == 0 {
			keep = true
		}
		if keep || len(pool) == 0 {
			activated++
			continue
		}
		sN.Duties[i].Val, pool = pool[0], pool[1:]
	}
	vE := View{Epoch: epoch, NoAccounts: sE.NoAccounts, DutiesFail: sE.DutiesFail, SignFail: sE.SignFail, Duties: sE.Duties}
	vN := View{Epoch: epoch + 1, NoAccounts: sN.NoAccounts, DutiesFail: sN.DutiesFail, SignFail: sN.SignFail, Duties: sN.Duties}
	start := Op{Kind: "start", Cur: cur, Views: []View{vE, vN}}
	if r.Chance(1, 4) {
		start.Views = []View{vN, vE}
	}
	in.Ops = append(in.Ops, start)
	rootSeq := uint64(r.Range(1, 1000)) * 100
	var subs []Op
	for _, s := range []Op{sE, sN} {
		if !s.DutiesFail {
			subs = append(subs, s)
		}
	}
	for n := r.Range(1, 3); n > 0 && len(subs) > 0; n-- {
		which := subs
		if r.Chance(1, 2) {
			which = subs[len(subs)-1:] // the next epoch
		}
		a := genAtt(r, &in, which, &rootSeq)
		a.Mid, a.Adv = nil, false
		if r.Chance(1, 4) {
			h := genHead(r, &in, epoch, &a)
			h.Rooted, h.Views = false, nil
			in.Ops = append(in.Ops, h)
		}
		in.Ops = append(in.Ops, a)
	}
	return in
}

func gen(r *Rand, trace bool) Input {
	in := Input{SPE: 8, Target: 16, DelayMs: 8000, Concurrency: int64(r.Range(1, 4)), Trace: trace}
	switch r.Intn(6) {
	case 0:
		in.SPE = 4
	case 1:
		in.SPE = 32
	}
	switch r.Intn(8) {
	case 0:
		in.Target = uint64(r.Range(1, 5))
	case 1:
		in.Target = 32
	}
	if r.Chance(1, 4) {
		in.DelayMs = uint64(r.Intn(12001))
	}
	epoch := uint64(r.Intn(40))
	switch k := r.Intn(20); {
	case k < 4:
		epoch = 0 // the chain's first epochs: "epoch - 1" and "epoch - 2" do not exist
	case k < 6:
		epoch = 1
	case k < 7:
		epoch = 2
	}
	var subs []Op
	rootSeq := uint64(r.Range(1, 1000)) * 100
	nops := r.Range(2, 6)
	for i := 0; i < nops; i++ {
		wantSub := i == 0 || r.Chance(1, 3)
		if i == 0 && r.Chance(1, 15) {
			wantSub = false // attest before any subscription
		}
		if i > 0 && r.Chance(1, 6) {
			// a head event on its own, anywhere around the epochs in play
			in.Ops = append(in.Ops, genHead(r, &in, epoch, nil))
		}
		// replace records an effective subscribe in [subs] (the latest one of an epoch counts)
		replace := func(op Op) {
			if op.DutiesFail {
				return
			}
			if op.NoAccounts {
				op.Duties = nil
			}
			op.Mid = nil
			kept := subs[:0:0]
			for _, s := range subs {
				if s.Epoch != op.Epoch {
					kept = append(kept, s)
				}
			}
			subs = append(kept, op)
		}
		startup := i == 0 && r.Chance(1, 8) // nothing is known yet when the first attestation job starts
		if startup || (!wantSub && r.Chance(1, 6)) {
			// The attestation job and a subscribe of its epoch run side by side (start-up part-way through
			// a slot: New launches both; a reorganisation early in a slot: the attestation jobs are
			// re-created and the epoch is re-subscribed): the subscribe completes while attester.Attest
			// is in flight.  The attestations are those of the duties the subscribe reports.
			ep := epoch
			if len(subs) > 0 && r.Chance(1, 2) {
				ep = subs[r.Intn(len(subs))].Epoch // a refresh of an epoch already subscribed
			}
			msub := genSub(r, &in, ep)
			msub.DutiesFail = false
			if r.Chance(9, 10) {
				msub.NoAccounts = false
			}
			eff := msub
			if eff.NoAccounts {
				eff.Duties = nil
			}
			att := genAtt(r, &in, []Op{eff}, &rootSeq)
			msub.Cur = att.Cur
			if r.Chance(1, 4) { // a head event arrives as well, before or after the subscribe completes
				h := genHead(r, &in, epoch, &att)
				if r.Bool() {
					att.Mid = append(att.Mid, h, msub)
				} else {
					att.Mid = append(att.Mid, msub, h)
				}
			} else {
				att.Mid = append(att.Mid, msub)
			}
			in.Ops = append(in.Ops, att)
			replace(msub)
			continue
		}
		if !wantSub {
			// the usual order of a slot: the head event of the slot's block, then the attestation
			att := genAtt(r, &in, subs, &rootSeq)
			switch k := r.Intn(20); {
			case k < 7:
				in.Ops = append(in.Ops, genHead(r, &in, epoch, &att))
			case k < 9: // the block arrives while the attestation is being made
				att.Mid = append(att.Mid, genHead(r, &in, epoch, &att))
			}
			if r.Chance(1, 10) {
				// Attest takes until the next slot has begun
				att.Adv, att.Cur0 = true, att.Cur
				att.Cur++
			}
			in.Ops = append(in.Ops, att)
			continue
		}
		if wantSub {
			ep := epoch
			if len(subs) > 0 && r.Chance(1, 3) {
				ep = epoch + 1
			}
			op := genSub(r, &in, ep)
			if !op.NoAccounts && r.Chance(1, 10) {
				// the duties request and the signing take until the next slot has begun
				op.Adv, op.Cur0 = true, op.Cur
				op.Cur++
			}
			if !op.NoAccounts && len(subs) > 0 && r.Chance(1, 8) {
				// an attestation job (of what is known so far) runs while this subscribe is waiting for the
				// duties; sometimes a head event too
				att := genAtt(r, &in, subs, &rootSeq)
				if r.Chance(1, 3) {
					op.Mid = append(op.Mid, genHead(r, &in, epoch, &att))
				}
				op.Mid = append(op.Mid, att)
			}
			in.Ops = append(in.Ops, op)
			replace(op)
		}
	}
	return in
}

// ---------------------------------------------------------------------------------------------

func TestC14(t *testing.T) {
	deadlock.Opts.Disable = true
	zerologger.Logger = zerolog.New(io.Discard)
	col := NewCollector("C14", "Check.C14",
		"histories of 2-10 operations (subscribe an epoch at a current slot; attest a slot; head event, 1 history in 5 with "+
			"head events whose duty dependent roots change and the re-subscriptions they launch; some of them "+
			"completing while an attest is waiting for attester.Attest or a subscribe for the duties) over 0-10 validators; "+
			"non-trivial = a subscribe with at least one duty after the current slot, or an attest with at least one "+
			"attested committee holding a selected aggregator, or a head event while subscription information is held; "+
			"distinct by full input text")
	col.ShardSize = 100 // a case costs ~25 ms in coqc (parsing numerals); the shards are evaluated in parallel
	n := EnvInt("VERIF_N", 600)
	var ins []Input
	for _, in := range LoadInputs[Input]("C14") {
		in.Tags = append(in.Tags, "corpus")
		ins = append(ins, in)
	}
	rng := NewRand(Seed())
	traceTier := os.Getenv("VERIF_TIER") == "thorough"
	for i := 0; i < n; i++ {
		r := rng.Fork()
		if r.Chance(1, 5) {
			ins = append(ins, genReorg(r, traceTier && i%2 == 1))
		} else if r.Chance(1, 8) {
			ins = append(ins, genStart(r, traceTier && i%2 == 1))
		} else {
			ins = append(ins, gen(r, traceTier && i%2 == 1))
		}
	}
	for _, in := range ins {
		if in.SPE == 0 || in.Target == 0 {
			t.Fatalf("input with zero slots-per-epoch or target")
		}
		var obs []Obs
		synctest.Test(t, func(t *testing.T) { obs = runCase(t, in) })
		sh := analyse(in)
		tags := append([]string{}, in.Tags...)
		for tg := range sh.tags {
			tags = append(tags, tg)
		}
		sort.Strings(tags)
		plan, _ := desugar(in)
		for _, op := range linear(plan) {
			col.Count("op:" + op.Kind)
			switch op.Kind {
			case "sub":
				col.Count(fmt.Sprintf("duties:%d", min(len(op.Duties), 10)))
			case "att":
				col.Count(fmt.Sprintf("attestations:%d", min(len(op.Atts), 10)))
			}
		}
		for _, tg := range tags {
			col.Count("family:" + tg)
		}
		col.Count(fmt.Sprintf("target:%d", in.Target))
		col.Count(fmt.Sprintf("spe:%d", in.SPE))
		if in.Trace {
			col.Count("log:trace")
		}
		for _, o := range obs {
			if o.Kind == "panic" {
				col.Count("observed:panic")
				col.Note("panic: " + o.Panic)
			}
			for _, c := range o.Calls {
				col.Count("observed:submit-call")
				col.Count(fmt.Sprintf("observed:submitted:%d", min(len(c), 10)))
			}
			if o.Kind == "att" {
				col.Count(fmt.Sprintf("observed:jobs:%d", min(len(o.Jobs), 10)))
			}
			if o.Kind == "head" {
				col.Count(fmt.Sprintf("observed:epochs-held-after-head:%d", min(o.Len, 10)))
			}
		}
		id := col.NextID()
		key, _ := json.Marshal(in)
		col.Add(Case{Term: term(id, in, obs), Key: string(key), Nontrivial: sh.nontrivial, Tags: tags,
			Sample: map[string]any{"input": in, "observed": obs}})
	}
	if err := col.Flush(); err != nil {
		t.Fatal(err)
	}
}
