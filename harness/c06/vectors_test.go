package c06

// Self-check of the harness's own merkleisation against go-eth2-client / go-builder-client
// (HashTreeRoot of the real containers), and a printer of test vectors for coq/Lib/SszVectors.v
// (VERIF_C06_VECTORS=1 go test -run TestC06Vectors -v).

import (
	"fmt"
	"os"
	"testing"
	"time"

	builderv1 "github.com/attestantio/go-builder-client/api/v1"
	"github.com/attestantio/go-eth2-client/spec/altair"
	"github.com/attestantio/go-eth2-client/spec/phase0"
	"github.com/prysmaticlabs/go-bitfield"

	. "verifharness/common"
)

type vector struct {
	name string
	term string // Gallina expression over the hash sha256_2
	want [32]byte
}

func libraryVectors(r *Rand) ([]vector, error) {
	var vs []vector
	h := func(n int) []byte { return unhex(randHex(r, n)) }
	full := func(n int) []byte { // never the degenerate patterns
		b := make([]byte, n)
		for i := range b {
			b[i] = byte(r.U64())
		}
		return b
	}
	slot, idx, se, te := r.U64(), r.U64(), r.U64(), r.U64()
	bbr, sr, tr := full(32), h(32), full(32)
	ad := &phase0.AttestationData{Slot: phase0.Slot(slot), Index: phase0.CommitteeIndex(idx), BeaconBlockRoot: phase0.Root(toChunk(bbr)),
		Source: &phase0.Checkpoint{Epoch: phase0.Epoch(se), Root: phase0.Root(toChunk(sr))},
		Target: &phase0.Checkpoint{Epoch: phase0.Epoch(te), Root: phase0.Root(toChunk(tr))}}
	want, err := ad.HashTreeRoot()
	if err != nil {
		return nil, err
	}
	if got := specAttData(slot, idx, toChunk(bbr), se, toChunk(sr), te, toChunk(tr)); got != want {
		return nil, fmt.Errorf("attestation data: harness %x library %x", got, want)
	}
	vs = append(vs, vector{"att_data", App("htr_att_data", "sha256_2", attTerm(slot, idx, bbr, se, sr, te, tr)), want})

	ps, pi := r.U64(), r.U64()
	pr, st, bd := full(32), full(32), h(32)
	hd := &phase0.BeaconBlockHeader{Slot: phase0.Slot(ps), ProposerIndex: phase0.ValidatorIndex(pi), ParentRoot: phase0.Root(toChunk(pr)), StateRoot: phase0.Root(toChunk(st)), BodyRoot: phase0.Root(toChunk(bd))}
	if want, err = hd.HashTreeRoot(); err != nil {
		return nil, err
	}
	if got := specHeader(ps, pi, toChunk(pr), toChunk(st), toChunk(bd)); got != want {
		return nil, fmt.Errorf("block header: harness %x library %x", got, want)
	}
	vs = append(vs, vector{"block_header", App("htr_block_header", "sha256_2", App("BlockHeader", N(ps), N(pi), BigN(pr), BigN(st), BigN(bd))), want})

	or, dm := full(32), full(32)
	sd := &phase0.SigningData{ObjectRoot: phase0.Root(toChunk(or)), Domain: phase0.Domain(toChunk(dm))}
	if want, err = sd.HashTreeRoot(); err != nil {
		return nil, err
	}
	if got := specSigningRoot(toChunk(or), toChunk(dm)); got != want {
		return nil, fmt.Errorf("signing data: harness %x library %x", got, want)
	}
	vs = append(vs, vector{"signing_data", App("compute_signing_root", "sha256_2", BigN(or), BigN(dm)), want})

	ver, gvr := full(4), full(32)
	fd := &phase0.ForkData{CurrentVersion: phase0.Version(ver), GenesisValidatorsRoot: phase0.Root(toChunk(gvr))}
	if want, err = fd.HashTreeRoot(); err != nil {
		return nil, err
	}
	dom := specComputeDomain([4]byte{7, 0, 0, 0}, [4]byte(ver), toChunk(gvr))
	if [28]byte(dom[4:]) != [28]byte(want[:28]) || dom[0] != 7 {
		return nil, fmt.Errorf("domain: harness %x library fork data root %x", dom, want)
	}
	vs = append(vs, vector{"fork_data", App("htr_fork_data", "sha256_2", BigN(ver), BigN(gvr)), want})
	vs = append(vs, vector{"compute_domain", App("compute_domain", "sha256_2", "DOMAIN_SYNC_COMMITTEE", BigN(ver), BigN(gvr)), dom})

	ss, sub := r.U64(), r.U64()
	sel := &altair.SyncAggregatorSelectionData{Slot: phase0.Slot(ss), SubcommitteeIndex: sub}
	if want, err = sel.HashTreeRoot(); err != nil {
		return nil, err
	}
	if got := specSyncSelection(ss, sub); got != want {
		return nil, fmt.Errorf("sync selection data: harness %x library %x", got, want)
	}
	vs = append(vs, vector{"sync_selection_data", App("htr_sync_selection_data", "sha256_2", N(ss), N(sub)), want})

	ag, cs, csub := r.U64(), r.U64(), r.U64()
	cbr, bits, csig, proof := full(32), full(16), full(96), full(96)
	cp := &altair.ContributionAndProof{AggregatorIndex: phase0.ValidatorIndex(ag),
		Contribution: &altair.SyncCommitteeContribution{Slot: phase0.Slot(cs), BeaconBlockRoot: phase0.Root(toChunk(cbr)), SubcommitteeIndex: csub, AggregationBits: bitfield.Bitvector128(bits)}}
	copy(cp.Contribution.Signature[:], csig)
	copy(cp.SelectionProof[:], proof)
	if want, err = cp.HashTreeRoot(); err != nil {
		return nil, err
	}
	if got := specContributionAndProof(ag, specContribution(cs, toChunk(cbr), csub, bits, csig), proof); got != want {
		return nil, fmt.Errorf("contribution and proof: harness %x library %x", got, want)
	}
	vs = append(vs, vector{"contribution_and_proof", App("htr_contribution_and_proof", "sha256_2",
		App("ContributionAndProof", N(ag), App("Contribution", N(cs), BigN(cbr), N(csub), BigN(bits), BigN(csig)), BigN(proof))), want})

	fee, gl, ts, pk := full(20), r.U64(), uint64(r.Intn(1<<40)), full(48)
	reg := &builderv1.ValidatorRegistration{GasLimit: gl, Timestamp: time.Unix(int64(ts), 0)}
	copy(reg.FeeRecipient[:], fee)
	copy(reg.Pubkey[:], pk)
	if want, err = reg.HashTreeRoot(); err != nil {
		return nil, err
	}
	if got := specRegistration(fee, gl, ts, pk); got != want {
		return nil, fmt.Errorf("validator registration: harness %x library %x", got, want)
	}
	vs = append(vs, vector{"registration", App("htr_registration", "sha256_2", App("Registration", BigN(fee), N(gl), N(ts), BigN(pk))), want})
	// the library's message of a registration has the WHOLE SECONDS of its time.Time as a uint64:
	// the sub-second part is dropped (not rounded), the location is irrelevant, instants before
	// 1970 wrap (what Model/C06_Signer.v wire_registration and specRoots take for granted)
	for i, ns := range boundaryNanos {
		for _, sec := range []int64{int64(ts), boundarySeconds[(i+int(ts))%len(boundarySeconds)], negativeSeconds[(i+int(ts))%len(negativeSeconds)]} {
			g := Reg{Timestamp: sec, Nanos: ns, Zone: zones[(i+int(gl%7))%len(zones)] * (i % 2)}
			reg.Timestamp = g.time()
			if want, err = reg.HashTreeRoot(); err != nil {
				return nil, err
			}
			if got := specRegistration(fee, gl, uint64(sec), pk); got != want {
				return nil, fmt.Errorf("validator registration at %d s + %d ns (zone %d): harness %x library %x", sec, ns, g.Zone, got, want)
			}
		}
	}
	return vs, nil
}

func TestC06Vectors(t *testing.T) {
	for round := 0; round < 50; round++ {
		vs, err := libraryVectors(NewRand(uint64(round) + 1))
		if err != nil {
			t.Fatal(err)
		}
		if round == 0 && os.Getenv("VERIF_C06_VECTORS") != "" {
			for _, v := range vs {
				fmt.Printf("Example vector_%s :\n  %s\n  = %s.\nProof. vm_compute. reflexivity. Qed.\n\n", v.name, v.term, BigN(v.want[:]))
			}
		}
	}
}
