package c06

// Overlapping requests on one signer service.
//
// A real account does not sign the instant it is called: a wallet account takes a lock, a remote
// account serialises its arguments and waits for the network, a distributed one waits for a
// threshold of peers.  While it waits, other goroutines of vouch make their own requests to the
// same signer service.  Whatever the service handed to the first account (a slice of bytes: the
// signing root, the object root, the domain, the per-account data of a batch call) must still be
// what the service computed for THAT request when the account finally looks at it, and whatever the
// account hands back must reach the caller of THAT request.
//
// In an overlapped session the parkAt-th account call made for a request waits -- "before": before
// it has looked at any of its arguments; "after": with its answer computed, before it returns --
// until the harness releases it; the harness makes the following requests of the session meanwhile
// (each of which may wait in turn) and releases the waiting ones last-in-first-out or
// first-in-first-out.  The whole session runs with GOMAXPROCS(1): every request then runs on the
// same P between its waiting points, which makes per-P caches (sync.Pool) hand the same object to
// consecutive requests, deterministically.

import (
	"context"
	"runtime"
	"time"
)

// enterCall numbers the account calls made for the request of ctx and waits if this is the call
// that is to wait before looking at its arguments.
func enterCall(ctx context.Context) int {
	e := stepOf(ctx)
	if e == nil {
		return -1
	}
	e.mu.Lock()
	idx := e.acctCalls
	e.acctCalls++
	e.mu.Unlock()
	if e.park == "before" && idx == e.parkAt {
		e.wait(ctx)
	}
	return idx
}

// leaveCall waits if this is the call that is to wait with its answer ready.
func leaveCall(ctx context.Context, idx int) {
	e := stepOf(ctx)
	if e == nil || idx < 0 {
		return
	}
	if e.park == "after" && idx == e.parkAt {
		e.wait(ctx)
	}
}

func (e *stepEnv) wait(ctx context.Context) {
	if e.release == nil {
		return
	}
	select {
	case e.entered <- struct{}{}:
	default:
	}
	select {
	case <-e.release:
	case <-ctx.Done(): // a remote call gives up when its context does
	}
}

// overlapWatchdog bounds every wait of the harness in an overlapped session (real time; never
// reached unless the service under test hangs).
const overlapWatchdog = 30 * time.Second

// runOverlapped makes the requests of the session one after the other, each from its own
// goroutine; a request whose account call waits is left waiting while the following requests are
// made; then the waiting ones are released (in.Release: "fifo", else last-in-first-out) and
// awaited.  run(k, env) makes the k-th request with the given stepEnv and returns when it is over.
func runOverlapped(in Input, envs []*stepEnv, run func(k int), fatal func(string)) {
	defer runtime.GOMAXPROCS(runtime.GOMAXPROCS(1))
	n := len(envs)
	done := make([]chan struct{}, n)
	var waiting []int
	for k := 0; k < n; k++ {
		done[k] = make(chan struct{})
		go func(k int) {
			defer close(done[k])
			run(k)
		}(k)
		select {
		case <-envs[k].entered:
			waiting = append(waiting, k)
		case <-done[k]:
		case <-time.After(overlapWatchdog):
			fatal("overlapped session: a request neither finished nor reached its waiting point")
			return
		}
	}
	if in.Release != "fifo" {
		for i, j := 0, len(waiting)-1; i < j; i, j = i+1, j-1 {
			waiting[i], waiting[j] = waiting[j], waiting[i]
		}
	}
	for _, k := range waiting {
		close(envs[k].release)
		select {
		case <-done[k]:
		case <-time.After(overlapWatchdog):
			fatal("overlapped session: a released request did not finish")
			return
		}
	}
}
