package c06

import (
	"fmt"

	. "verifharness/common"
)

// Generator family "overlap": 2-4 requests to one signer service, each made while the account
// calls of the earlier ones are still waiting (see overlap.go).  Every request is compared with the
// model of that request made alone, and the property is evaluated on each: what an account is asked
// to sign, and what the caller gets back, belongs to the request it was made for, whatever other
// requests the service handled in the meantime.

const overlapEvery = 7 // every seventh generated input (that is not a session) is of this family

var singleKinds = []string{"attestation", "proposal", "randao", "aggregate", "registration"}

func genOverlap(r *Rand, i int) Input {
	chain, e, forkStyle := genSessionChain(r)
	var pool []Acc
	poolStyle := ""
	switch k := r.Intn(8); {
	case k < 3: // what a wallet account manager holds: the service computes the signing root itself
		poolStyle = "pool:wallet"
		pool = make([]Acc, r.Range(2, 6))
		for j := range pool {
			pool[j] = profiles["wallet"]
			pool[j].Key = uint64(j + 1)
		}
	case k < 4: // local and remote accounts side by side
		poolStyle = "pool:wallet-and-dirk"
		pool = make([]Acc, r.Range(2, 6))
		for j := range pool {
			pool[j] = profiles[[]string{"wallet", "dirk", "local-dist", "dirk-dist"}[(j+k)%4]]
			pool[j].Key = uint64(j + 1)
		}
	default:
		pool, poolStyle = genPool(r)
	}
	in := Input{Chain: chain, Pool: pool, Overlap: true}
	window := func() uint64 { return e - 2 + uint64(r.Intn(5)) }
	var steps []Req
	add := func(kind string, e uint64) { steps = append(steps, genReq(r, chain, pool, kind, e)) }
	n := r.Range(2, 4)
	shape := ""
	switch k := r.Intn(13); {
	case k >= 10:
		// the same batch duty for ANOTHER slot (another message), for the same accounts, made while
		// an account call of the first one waits: what a per-service (rather than per-request) buffer
		// of roots, signing data or results would hand to the accounts of the first request.  Often
		// all accounts are of one kind (a wallet, or the plain accounts of a remote signer): no split.
		shape = "overlap:same-batch-kind-other-slot"
		kind := []string{"slotsel", "syncroots", "slotsel", "syncsel", "slotsel", "attestations", "contributions"}[(i+r.Intn(7))%7]
		if r.Chance(2, 3) {
			prof := []string{"wallet", "dirk", "wallet", "dirk-dist", "all"}[r.Intn(5)]
			pool = make([]Acc, r.Range(2, 6))
			for j := range pool {
				pool[j] = profiles[prof]
				pool[j].Key = uint64(j + 1)
			}
			poolStyle = "pool:one-profile-" + prof
			in.Pool = pool
		}
		var slots []uint64
		for j := 0; j < n; j++ {
			q := genReq(r, chain, pool, kind, window())
			for _, s := range slots {
				if q.Slot == s {
					if q.Slot > 1<<62 {
						q.Slot -= chain.SPE + 1
					} else {
						q.Slot += chain.SPE + 1
					}
					q.Epoch = q.Slot / chain.SPE
					q.TargetEpoch = q.Epoch
					for c := range q.Contribs {
						q.Contribs[c].Slot = q.Slot
					}
				}
			}
			slots = append(slots, q.Slot)
			// the same accounts (every one once), so that whatever the first request was given is
			// wholly overwritten by the later ones
			q.Batch = r.Perm(len(pool))
			q.Idxs, q.Contribs = nil, nil
			genContentFields(r, &q, chain, q.Epoch)
			steps = append(steps, q)
		}
	case k < 3: // the single-signature requests of different duties, as the duty goroutines of vouch make them
		shape = "overlap:single-signature-kinds"
		for j := 0; j < n; j++ {
			add(singleKinds[(i+j*(1+r.Intn(4)))%len(singleKinds)], window())
		}
	case k < 5: // the same duty for the same slot: another validator, another message
		shape = "overlap:same-kind-same-slot"
		kind := singleKinds[i%len(singleKinds)]
		if r.Chance(1, 3) {
			kind = kinds[r.Intn(len(kinds))]
		}
		first := genReq(r, chain, pool, kind, window())
		steps = append(steps, first)
		for j := 1; j < n; j++ {
			q := genReq(r, chain, pool, kind, first.Epoch)
			q.Slot = first.Slot
			for c := range q.Contribs {
				q.Contribs[c].Slot = first.Slot
			}
			steps = append(steps, q)
		}
	case k < 7: // batches: every account call of a batch signed for one by one, or each sub-batch call, can be the one that waits
		shape = "overlap:batch-kinds"
		for j := 0; j < n; j++ {
			add(batchKinds[(i+j)%len(batchKinds)], window())
		}
	default:
		shape = "overlap:any-kinds"
		for j := 0; j < n; j++ {
			add(kinds[r.Intn(len(kinds))], window())
		}
	}
	for j := range steps {
		last := j == len(steps)-1
		if (j > 0 && r.Chance(1, 3)) || (last && r.Bool()) {
			continue // runs to its end while the earlier ones wait
		}
		steps[j].Park = "before"
		if r.Chance(1, 4) {
			steps[j].Park = "after"
		}
		if !isSingle(steps[j].Kind) && r.Bool() {
			steps[j].ParkAt = r.Intn(3)
		}
		if shape == "overlap:same-batch-kind-other-slot" && j == 0 {
			// the first one always waits, at an account call that is not the last of a batch signed for one by one
			steps[j].Park, steps[j].ParkAt = "before", 0
			if r.Chance(1, 3) && len(steps[j].Batch) > 2 {
				steps[j].ParkAt = 1
			}
		}
	}
	if r.Bool() {
		in.Release = "fifo"
	}
	in.Req, in.Then = steps[0], steps[1:]
	in.Tags = []string{forkStyle, poolStyle, "overlap", shape, "overlap:release-" + map[bool]string{true: "fifo", false: "lifo"}[in.Release == "fifo"]}
	return in
}

// overlapTags, from the input: what the k-th request of an overlapped session is subjected to.
func overlapTags(in Input, k int) []string {
	if !in.Overlap {
		return nil
	}
	steps := in.steps()
	var tags []string
	switch steps[k].Park {
	case "before":
		tags = append(tags, "overlap:account-call-waits-before-reading-its-arguments")
	case "after":
		tags = append(tags, "overlap:account-call-waits-with-its-answer-ready")
	default:
		tags = append(tags, "overlap:runs-to-its-end")
	}
	if steps[k].Park != "" {
		tags = append(tags, fmt.Sprintf("overlap:%d-requests-made-meanwhile", len(steps)-1-k))
		if steps[k].ParkAt > 0 {
			tags = append(tags, "overlap:a-later-account-call-of-the-request-waits")
		}
	}
	for j := 0; j < k; j++ {
		if steps[j].Park != "" {
			tags = append(tags, "overlap:made-while-an-earlier-request-waits")
			break
		}
	}
	return tags
}
