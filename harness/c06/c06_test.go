// C06: drives the real services/signer/standard.Service with mock accounts of every interface
// combination (real BLS keys) and a domain provider computing the specification's domains for a
// generated fork schedule.  For every request it prints the request, the provenance of every
// returned signature (which account signed which root/domain through which method), whether each
// returned signature BLS-verifies under the requested account's validator key against the
// harness-computed specification signing root, and that root, as a Gallina case for Check.C06.
package c06

import (
	"context"
	"encoding/hex"
	"encoding/json"
	"fmt"
	"io"
	"math/big"
	"os"
	"reflect"
	"strings"
	"sync"
	"testing"
	"time"

	builderapi "github.com/attestantio/go-builder-client/api"
	builderv1 "github.com/attestantio/go-builder-client/api/v1"
	builderspec "github.com/attestantio/go-builder-client/spec"
	"github.com/attestantio/go-eth2-client/api"
	"github.com/attestantio/go-eth2-client/spec/altair"
	"github.com/attestantio/go-eth2-client/spec/phase0"
	nullmetrics "github.com/attestantio/vouch/services/metrics/null"
	standardsigner "github.com/attestantio/vouch/services/signer/standard"
	"github.com/prysmaticlabs/go-bitfield"
	"github.com/rs/zerolog"
	zerologger "github.com/rs/zerolog/log"
	e2types "github.com/wealdtech/go-eth2-types/v2"
	e2wtypes "github.com/wealdtech/go-eth2-wallet-types/v2"

	. "verifharness/common"
)

func unhex(s string) []byte {
	b, err := hex.DecodeString(strings.TrimPrefix(s, "0x"))
	if err != nil {
		panic(err)
	}
	return b
}

type Contrib struct {
	Aggregator uint64 `json:"aggregator"`
	Slot       uint64 `json:"slot"`
	BlockRoot  string `json:"block_root"`
	Sub        uint64 `json:"sub"`
	Bits       string `json:"bits"`      // 16 bytes
	Signature  string `json:"signature"` // 96 bytes
	Proof      string `json:"proof"`     // 96 bytes
}

// Reg is a builderv1.ValidatorRegistration as the caller hands it over.  Its Timestamp is a Go
// time.Time: whole seconds since the Unix epoch (negative before 1970; -62135596800 with Nanos 0
// and Zone 0 is the zero time.Time{}), a sub-second part, and a location.  The registration message
// of the builder specification (what is signed, sent and verified) has a uint64 of SECONDS:
// uint64(Timestamp.Unix()), the sub-second part dropped, the location irrelevant.
type Reg struct {
	FeeRecipient string `json:"fee_recipient"` // 20 bytes
	GasLimit     uint64 `json:"gas_limit"`
	Timestamp    int64  `json:"timestamp"`              // Timestamp.Unix()
	Nanos        uint64 `json:"timestamp_ns,omitempty"` // Timestamp.Nanosecond(): 0..999999999
	Zone         int    `json:"zone,omitempty"`         // the time.Time's location: seconds east of UTC (0: UTC)
	Pubkey       string `json:"pubkey"`                 // 48 bytes
}

// time is the time.Time of the registration.
func (g Reg) time() time.Time {
	t := time.Unix(g.Timestamp, int64(g.Nanos))
	if g.Zone == 0 {
		t = t.UTC()
	} else {
		t = t.In(time.FixedZone(fmt.Sprintf("east%d", g.Zone), g.Zone))
	}
	if t.Unix() != g.Timestamp || uint64(t.Nanosecond()) != g.Nanos || g.Nanos > 999999999 {
		panic(fmt.Sprintf("harness: time.Time does not carry %d s + %d ns", g.Timestamp, g.Nanos))
	}
	return t
}

// nanosTerm: the instant in nanoseconds since the Unix epoch, as a Gallina Z (the model divides).
func (g Reg) nanosTerm() string {
	z := new(big.Int).Mul(big.NewInt(g.Timestamp), big.NewInt(1000000000))
	z.Add(z, new(big.Int).SetUint64(g.Nanos))
	if z.Sign() < 0 {
		return "(" + z.String() + ")%Z"
	}
	return z.String() + "%Z"
}

// Req is one signing request: the method called and its arguments.
type Req struct {
	DomFail bool   `json:"dom_fail,omitempty"` // the domain provider answers this request's calls with an error
	Kind    string `json:"kind"`               // attestation attestations proposal randao slotsel syncsel aggregate syncroots contributions registration
	// transient failures of the (remote) signer while THIS request is handled, by account key:
	BatchFail  []uint64 `json:"batch_fail,omitempty"`  // multi-signature calls answer with a nil entry for this member (it can sign alone)
	BatchOnce  []uint64 `json:"batch_fail_once,omitempty"` // ... a nil entry in the FIRST multi-signature call of this request that includes the member, a signature in later ones
	BatchZero  []uint64 `json:"batch_zero,omitempty"`  // ... with an all-zero signature object for this member
	BatchErr   []uint64 `json:"batch_err,omitempty"`   // a multi-signature call made ON this account fails as a whole
	SingleOnce []uint64 `json:"single_fail_once,omitempty"` // only the first single-signature call made on this account for this request fails
	SingleFail []uint64 `json:"single_fail,omitempty"` // the single-signature methods of this account fail (batch calls sign for it)
	Batch   []int  `json:"batch"`              // positions in Pool, in request order (single-account kinds use Batch[0])
	// in an overlapped session: the ParkAt-th account call made for this request waits ("before": before
	// it looks at its arguments, "after": with its answer ready) while the following requests are made
	Park   string `json:"park,omitempty"`
	ParkAt int    `json:"park_at,omitempty"`

	Slot  uint64   `json:"slot,omitempty"`
	Epoch uint64   `json:"epoch,omitempty"`
	Idxs  []uint64 `json:"idxs,omitempty"` // committee indices / subcommittee indices / (attestation: one index)

	BlockRoot   string `json:"block_root,omitempty"`
	SourceEpoch uint64 `json:"source_epoch,omitempty"`
	SourceRoot  string `json:"source_root,omitempty"`
	TargetEpoch uint64 `json:"target_epoch,omitempty"`
	TargetRoot  string `json:"target_root,omitempty"`

	Proposer   uint64 `json:"proposer,omitempty"`
	ParentRoot string `json:"parent_root,omitempty"`
	StateRoot  string `json:"state_root,omitempty"`
	BodyRoot   string `json:"body_root,omitempty"`

	Root string `json:"root,omitempty"` // aggregate-and-proof root / beacon block root of a sync message

	Contribs []Contrib `json:"contribs,omitempty"`
	Reg      *Reg      `json:"reg,omitempty"`
	RegMode  string    `json:"reg_mode,omitempty"` // "" ok | nil | nilv1 | version
}

// Input is a session: the world (chain, chain spec, the account manager's accounts), ONE signer
// service built in it, and the requests made to that one service instance: the first (the embedded
// Req; an input without "then" is a single request on a fresh service, as every input was before
// sessions existed) and then the requests of Then, in order -- or, when Concurrent, the first one
// alone and then all of Then at once from as many goroutines.  Every request of a session gives
// one case; each is compared with the model of that request alone (the service keeps nothing from
// one request to the next), and the property is evaluated on each.
type Input struct {
	Chain  ChainDesc `json:"chain"`
	Absent []string  `json:"absent,omitempty"` // optional domain types missing from the chain spec: sync, syncsel, contrib, builder
	Pool   []Acc     `json:"pool"`
	Req
	Then       []Req `json:"then,omitempty"`
	Concurrent bool  `json:"concurrent,omitempty"`
	// Overlap: the requests are made one after the other while the account calls of the earlier ones
	// (Req.Park) are still waiting; Release: the order in which the waiting ones go on ("fifo", else lifo)
	Overlap bool   `json:"overlap,omitempty"`
	Release string `json:"release,omitempty"`

	Tags []string `json:"tags,omitempty"`
}

// missKeys: the members that the (first) multi-signature call including them has no signature for.
func (q Req) missKeys() []uint64 {
	return append(append(append([]uint64{}, q.BatchFail...), q.BatchOnce...), q.BatchZero...)
}

// steps are the requests of the session in order.
func (in Input) steps() []Req { return append([]Req{in.Req}, in.Then...) }

// view is the k-th request of the session as a single-request input in the same world.
func (in Input) view(k int) Input {
	v := in
	v.Req = in.steps()[k]
	v.Then, v.Concurrent, v.Tags = nil, false, nil
	return v
}

// prefix is the session up to and including its k-th request (what has to be replayed to see the
// k-th request's outcome again).
func (in Input) prefix(k int) Input {
	v := in
	v.Then = append([]Req(nil), in.Then[:k]...)
	if k == 0 {
		v.Then, v.Concurrent = nil, false
	}
	return v
}

func (in Input) absent(name string) bool {
	for _, a := range in.Absent {
		if a == name {
			return true
		}
	}
	return false
}

// ---------------------------------------------------------------------------------------------
// Spec provider.

type specProvider struct{ in Input }

func (p specProvider) Spec(_ context.Context, _ *api.SpecOpts) (*api.Response[map[string]any], error) {
	m := map[string]any{
		"SLOTS_PER_EPOCH":            p.in.Chain.SPE,
		"DOMAIN_BEACON_PROPOSER":     phase0.DomainType{0, 0, 0, 0},
		"DOMAIN_BEACON_ATTESTER":     phase0.DomainType{1, 0, 0, 0},
		"DOMAIN_RANDAO":              phase0.DomainType{2, 0, 0, 0},
		"DOMAIN_DEPOSIT":             phase0.DomainType{3, 0, 0, 0},
		"DOMAIN_VOLUNTARY_EXIT":      phase0.DomainType{4, 0, 0, 0},
		"DOMAIN_SELECTION_PROOF":     phase0.DomainType{5, 0, 0, 0},
		"DOMAIN_AGGREGATE_AND_PROOF": phase0.DomainType{6, 0, 0, 0},
		"DOMAIN_BLOB_SIDECAR":        phase0.DomainType{11, 0, 0, 0},
	}
	if !p.in.absent("sync") {
		m["DOMAIN_SYNC_COMMITTEE"] = phase0.DomainType{7, 0, 0, 0}
	}
	if !p.in.absent("syncsel") {
		m["DOMAIN_SYNC_COMMITTEE_SELECTION_PROOF"] = phase0.DomainType{8, 0, 0, 0}
	}
	if !p.in.absent("contrib") {
		m["DOMAIN_CONTRIBUTION_AND_PROOF"] = phase0.DomainType{9, 0, 0, 0}
	}
	if !p.in.absent("builder") {
		m["DOMAIN_APPLICATION_BUILDER"] = phase0.DomainType{0, 0, 0, 1}
	}
	return &api.Response[map[string]any]{Data: m, Metadata: map[string]any{}}, nil
}

// ---------------------------------------------------------------------------------------------
// Running one request.

type Observed struct {
	Outcome  string   `json:"outcome"` // ok | err | panic
	Err      string   `json:"err,omitempty"`
	Sigs     []string `json:"sigs,omitempty"`     // provenance terms
	Verified []bool   `json:"verified,omitempty"` // BLS verification against the spec root
	Roots    []string `json:"roots,omitempty"`    // harness-computed spec signing roots (hex)
	Domains  []string `json:"domain_calls,omitempty"`
	Changed  bool     `json:"changed_after_return,omitempty"` // the returned signatures were different when the request returned
	// in the sample of a later request of a session: what the earlier requests gave
	Earlier []Observed `json:"earlier_requests,omitempty"`
}

func root32(s string) phase0.Root { return phase0.Root(toChunk(unhex(s))) }

// specDomain is the specification's domain for a duty of the given type at the given epoch.
func specDomain(in Input, dt byte, epoch uint64) chunk {
	return specComputeDomain([4]byte{dt, 0, 0, 0}, in.Chain.versionAt(epoch), toChunk(unhex(in.Chain.GVR)))
}

// specRoots: the specification's signing root of the i-th message of the request.
func specRoots(in Input) []chunk {
	spe := in.Chain.SPE
	var out []chunk
	n := len(in.Batch)
	switch in.Kind {
	case "attestation":
		if len(in.Idxs) > 0 {
			d := specAttData(in.Slot, in.Idxs[0], toChunk(unhex(in.BlockRoot)), in.SourceEpoch, toChunk(unhex(in.SourceRoot)), in.TargetEpoch, toChunk(unhex(in.TargetRoot)))
			out = append(out, specSigningRoot(d, specDomain(in, 1, in.TargetEpoch)))
		}
	case "attestations":
		for i := 0; i < n && i < len(in.Idxs); i++ {
			d := specAttData(in.Slot, in.Idxs[i], toChunk(unhex(in.BlockRoot)), in.SourceEpoch, toChunk(unhex(in.SourceRoot)), in.TargetEpoch, toChunk(unhex(in.TargetRoot)))
			out = append(out, specSigningRoot(d, specDomain(in, 1, in.TargetEpoch)))
		}
	case "proposal":
		h := specHeader(in.Slot, in.Proposer, toChunk(unhex(in.ParentRoot)), toChunk(unhex(in.StateRoot)), toChunk(unhex(in.BodyRoot)))
		out = append(out, specSigningRoot(h, specDomain(in, 0, in.Slot/spe)))
	case "randao":
		out = append(out, specSigningRoot(u64Chunk(in.Slot/spe), specDomain(in, 2, in.Slot/spe)))
	case "slotsel":
		for i := 0; i < n; i++ {
			out = append(out, specSigningRoot(u64Chunk(in.Slot), specDomain(in, 5, in.Slot/spe)))
		}
	case "syncsel":
		for i := 0; i < n && i < len(in.Idxs); i++ {
			out = append(out, specSigningRoot(specSyncSelection(in.Slot, in.Idxs[i]), specDomain(in, 8, in.Slot/spe)))
		}
	case "aggregate":
		out = append(out, specSigningRoot(toChunk(unhex(in.Root)), specDomain(in, 6, in.Slot/spe)))
	case "syncroots":
		for i := 0; i < n; i++ {
			out = append(out, specSigningRoot(toChunk(unhex(in.Root)), specDomain(in, 7, in.Epoch)))
		}
	case "contributions":
		for i := 0; i < n && i < len(in.Contribs); i++ {
			c := in.Contribs[i]
			co := specContribution(c.Slot, toChunk(unhex(c.BlockRoot)), c.Sub, unhex(c.Bits), unhex(c.Signature))
			out = append(out, specSigningRoot(specContributionAndProof(c.Aggregator, co, unhex(c.Proof)), specDomain(in, 9, c.Slot/spe)))
		}
	case "registration":
		if in.Reg != nil && in.RegMode == "" {
			// the message has the whole seconds of the time.Time (as a uint64), whatever its sub-second part and location
			r := specRegistration(unhex(in.Reg.FeeRecipient), in.Reg.GasLimit, uint64(in.Reg.Timestamp), unhex(in.Reg.Pubkey))
			// builder-specs: genesis fork version and the zero genesis validators root
			out = append(out, specSigningRoot(r, specComputeDomain([4]byte{0, 0, 0, 1}, version4(in.Chain.GenesisVersion), chunk{})))
		}
	}
	return out
}

// runInput builds ONE signer service and ONE set of accounts and makes the session's requests to
// them; the result has one Observed per request.
func runInput(t *testing.T, in Input, level zerolog.Level) []Observed {
	initBLS()
	ctx := context.Background()
	dp := &domainProvider{chain: in.Chain}
	svc, err := standardsigner.New(ctx,
		standardsigner.WithLogLevel(level),
		standardsigner.WithMonitor(nullmetrics.New()),
		standardsigner.WithClientMonitor(nullmetrics.New()),
		standardsigner.WithSpecProvider(specProvider{in}),
		standardsigner.WithDomainProvider(dp),
	)
	if err != nil {
		t.Fatalf("signer constructor: %v", err)
	}
	rec := &recorder{prov: map[string]string{}}
	pool := make([]e2wtypes.Account, len(in.Pool))
	bases := make([]*base, len(in.Pool))
	for i, d := range in.Pool {
		pool[i] = newAccount(d, rec)
		bases[i] = pool[i].(baser).theBase()
	}
	steps := in.steps()
	res := make([]Observed, len(steps))
	// what the requests returned is looked at when the whole session is over
	later := make([]func() Observed, len(steps))
	look := func() []Observed {
		for k, f := range later {
			if f != nil {
				res[k] = f()
			}
		}
		return res
	}
	if in.Overlap {
		envs := make([]*stepEnv, len(steps))
		for k := range steps {
			envs[k] = newStepEnv(in.view(k))
			envs[k].park, envs[k].parkAt = steps[k].Park, steps[k].ParkAt
			envs[k].entered, envs[k].release = make(chan struct{}, 1), make(chan struct{})
		}
		runOverlapped(in, envs, func(k int) { later[k] = callStep(t, svc, envs[k], rec, pool, bases, in.view(k)) },
			func(msg string) { t.Fatalf("%s", msg) })
		return look()
	}
	if !in.Concurrent {
		for k := range steps {
			later[k] = callStep(t, svc, newStepEnv(in.view(k)), rec, pool, bases, in.view(k))
		}
		return look()
	}
	later[0] = callStep(t, svc, newStepEnv(in.view(0)), rec, pool, bases, in.view(0))
	var wg sync.WaitGroup
	start := make(chan struct{})
	for k := 1; k < len(steps); k++ {
		wg.Add(1)
		go func(k int) {
			defer wg.Done()
			<-start
			later[k] = callStep(t, svc, newStepEnv(in.view(k)), rec, pool, bases, in.view(k))
		}(k)
	}
	close(start)
	wg.Wait()
	return look()
}

// runStep makes one request (in is a single-request view of the session) to the session's service.
func runStep(t *testing.T, svc *standardsigner.Service, dp *domainProvider, rec *recorder, pool []e2wtypes.Account, bases []*base, in Input) Observed {
	return runStepEnv(t, svc, newStepEnv(in), rec, pool, bases, in)
}

// newStepEnv: what is particular to one request (in is a single-request view of the session).
func newStepEnv(in Input) *stepEnv {
	return &stepEnv{fail: in.DomFail, batchFail: keySet(in.BatchFail), batchZero: keySet(in.BatchZero), batchOnce: keySet(in.BatchOnce), batchErr: keySet(in.BatchErr), singleFail: keySet(in.SingleFail), singleOnce: keySet(in.SingleOnce)}
}

func runStepEnv(t *testing.T, svc *standardsigner.Service, env *stepEnv, rec *recorder, pool []e2wtypes.Account, bases []*base, in Input) Observed {
	return callStep(t, svc, env, rec, pool, bases, in)()
}

// callStep makes the request and returns the function that looks at what came back.  In a session
// that function is called when ALL the requests of the session are over: the slice of signatures a
// request returned is its caller's, and must still hold that request's signatures when later
// requests have been handled by the same service.
func callStep(t *testing.T, svc *standardsigner.Service, env *stepEnv, rec *recorder, pool []e2wtypes.Account, bases []*base, in Input) func() Observed {
	ctx := withStepEnv(context.Background(), env)
	accounts := make([]e2wtypes.Account, len(in.Batch))
	for i, p := range in.Batch {
		accounts[i] = pool[p]
	}
	var first e2wtypes.Account
	if len(accounts) > 0 {
		first = accounts[0]
	}

	var sigs []phase0.BLSSignature
	var callErr error
	obs := Observed{}
	func() {
		defer func() {
			if r := recover(); r != nil {
				obs.Outcome = "panic"
				obs.Err = fmt.Sprint(r)
			}
		}()
		one := func(s phase0.BLSSignature, e error) {
			callErr = e
			if e == nil {
				sigs = []phase0.BLSSignature{s}
			}
		}
		switch in.Kind {
		case "attestation":
			one(svc.SignBeaconAttestation(ctx, first, phase0.Slot(in.Slot), phase0.CommitteeIndex(in.Idxs[0]), root32(in.BlockRoot),
				phase0.Epoch(in.SourceEpoch), root32(in.SourceRoot), phase0.Epoch(in.TargetEpoch), root32(in.TargetRoot)))
		case "attestations":
			idxs := make([]phase0.CommitteeIndex, len(in.Idxs))
			for i := range in.Idxs {
				idxs[i] = phase0.CommitteeIndex(in.Idxs[i])
			}
			sigs, callErr = svc.SignBeaconAttestations(ctx, accounts, phase0.Slot(in.Slot), idxs, root32(in.BlockRoot),
				phase0.Epoch(in.SourceEpoch), root32(in.SourceRoot), phase0.Epoch(in.TargetEpoch), root32(in.TargetRoot))
		case "proposal":
			one(svc.SignBeaconBlockProposal(ctx, first, phase0.Slot(in.Slot), phase0.ValidatorIndex(in.Proposer), root32(in.ParentRoot), root32(in.StateRoot), root32(in.BodyRoot)))
		case "randao":
			one(svc.SignRANDAOReveal(ctx, first, phase0.Slot(in.Slot)))
		case "slotsel":
			sigs, callErr = svc.SignSlotSelections(ctx, accounts, phase0.Slot(in.Slot))
		case "syncsel":
			sigs, callErr = svc.SignSyncCommitteeSelections(ctx, accounts, phase0.Slot(in.Slot), in.Idxs)
		case "aggregate":
			one(svc.SignAggregateAndProof(ctx, first, phase0.Slot(in.Slot), root32(in.Root)))
		case "syncroots":
			sigs, callErr = svc.SignSyncCommitteeRoots(ctx, accounts, phase0.Epoch(in.Epoch), root32(in.Root))
		case "contributions":
			cps := make([]*altair.ContributionAndProof, len(in.Contribs))
			for i, c := range in.Contribs {
				cp := &altair.ContributionAndProof{
					AggregatorIndex: phase0.ValidatorIndex(c.Aggregator),
					Contribution: &altair.SyncCommitteeContribution{
						Slot:              phase0.Slot(c.Slot),
						BeaconBlockRoot:   root32(c.BlockRoot),
						SubcommitteeIndex: c.Sub,
						AggregationBits:   bitfield.Bitvector128(unhex(c.Bits)),
					},
				}
				copy(cp.Contribution.Signature[:], unhex(c.Signature))
				copy(cp.SelectionProof[:], unhex(c.Proof))
				cps[i] = cp
			}
			sigs, callErr = svc.SignContributionAndProofs(ctx, accounts, cps)
		case "registration":
			var reg *builderapi.VersionedValidatorRegistration
			if in.RegMode != "nil" {
				reg = &builderapi.VersionedValidatorRegistration{Version: builderspec.BuilderVersionV1}
				if in.RegMode == "version" {
					reg.Version = builderspec.BuilderVersion(7)
				}
				if in.RegMode != "nilv1" && in.Reg != nil {
					v1 := &builderv1.ValidatorRegistration{GasLimit: in.Reg.GasLimit, Timestamp: in.Reg.time()}
					copy(v1.FeeRecipient[:], unhex(in.Reg.FeeRecipient))
					copy(v1.Pubkey[:], unhex(in.Reg.Pubkey))
					reg.V1 = v1
				}
			}
			one(svc.SignValidatorRegistration(ctx, first, reg))
		default:
			panic(fmt.Sprintf("harness: unknown kind %q", in.Kind))
		}
	}()
	env.mu.Lock()
	obs.Domains = append([]string(nil), env.calls...)
	env.mu.Unlock()
	if obs.Outcome == "panic" {
		return func() Observed { return obs }
	}
	if callErr != nil {
		obs.Outcome, obs.Err = "err", callErr.Error()
		return func() Observed { return obs }
	}
	atReturn := observe(obs, env, rec, bases, in, sigs)
	return func() Observed {
		o := observe(obs, env, rec, bases, in, sigs)
		if !reflect.DeepEqual(o, atReturn) {
			o.Changed = true // the slice the request returned was written to after it was returned
		}
		return o
	}
}

// observe: provenance and BLS verification of the signatures that a request returned.
func observe(obs Observed, env *stepEnv, rec *recorder, bases []*base, in Input, sigs []phase0.BLSSignature) Observed {
	obs.Outcome = "ok"
	roots := specRoots(in)
	var zero phase0.BLSSignature
	for i, s := range sigs {
		switch {
		case s == zero:
			obs.Sigs = append(obs.Sigs, "PZero")
		default:
			obs.Sigs = append(obs.Sigs, rec.provenance(env, s[:]))
		}
		ok := false
		if i < len(roots) && i < len(in.Batch) && s != zero {
			if sig, err := e2types.BLSSignatureFromBytes(s[:]); err == nil {
				ok = sig.Verify(roots[i][:], bases[in.Batch[i]].validatorPubKey())
			}
		}
		obs.Verified = append(obs.Verified, ok)
	}
	for _, r := range roots {
		obs.Roots = append(obs.Roots, hex.EncodeToString(r[:]))
	}
	return obs
}

// ---------------------------------------------------------------------------------------------
// Gallina terms.

func optDT(absent bool, v uint64) string {
	if absent {
		return None()
	}
	return Some(N(v))
}

func hexN(s string) string { return BigN(unhex(s)) }

func (in Input) accTerms() string {
	ts := make([]string, len(in.Batch))
	for i, p := range in.Batch {
		ts[i] = in.Pool[p].term()
	}
	return List(ts)
}

func nList(xs []uint64) string {
	ts := make([]string, len(xs))
	for i, x := range xs {
		ts[i] = N(x)
	}
	return List(ts)
}

func (in Input) reqTerm() string {
	first := ""
	if len(in.Batch) > 0 {
		first = in.Pool[in.Batch[0]].term()
	}
	switch in.Kind {
	case "attestation":
		return App("ReqAttestation", first, attTerm(in.Slot, in.Idxs[0], unhex(in.BlockRoot), in.SourceEpoch, unhex(in.SourceRoot), in.TargetEpoch, unhex(in.TargetRoot)))
	case "attestations":
		return App("ReqAttestations", in.accTerms(), N(in.Slot), nList(in.Idxs), hexN(in.BlockRoot), N(in.SourceEpoch), hexN(in.SourceRoot), N(in.TargetEpoch), hexN(in.TargetRoot))
	case "proposal":
		return App("ReqProposal", first, App("BlockHeader", N(in.Slot), N(in.Proposer), hexN(in.ParentRoot), hexN(in.StateRoot), hexN(in.BodyRoot)))
	case "randao":
		return App("ReqRandao", first, N(in.Slot))
	case "slotsel":
		return App("ReqSlotSelections", in.accTerms(), N(in.Slot))
	case "syncsel":
		return App("ReqSyncSelections", in.accTerms(), N(in.Slot), nList(in.Idxs))
	case "aggregate":
		return App("ReqAggregateAndProof", first, N(in.Slot), hexN(in.Root))
	case "syncroots":
		return App("ReqSyncRoots", in.accTerms(), N(in.Epoch), hexN(in.Root))
	case "contributions":
		cs := make([]string, len(in.Contribs))
		for i, c := range in.Contribs {
			cs[i] = App("ContributionAndProof", N(c.Aggregator),
				App("Contribution", N(c.Slot), hexN(c.BlockRoot), N(c.Sub), hexN(c.Bits), hexN(c.Signature)), hexN(c.Proof))
		}
		return App("ReqContributions", in.accTerms(), List(cs))
	case "registration":
		if in.Reg == nil || in.RegMode != "" {
			return App("ReqRegistration", first, None())
		}
		return App("ReqRegistration", first, Some(App("GoRegistration", hexN(in.Reg.FeeRecipient), N(in.Reg.GasLimit), in.Reg.nanosTerm(), hexN(in.Reg.Pubkey))))
	}
	panic("kind")
}

func term(id uint64, in Input, obs Observed) string {
	forks := make([]string, len(in.Chain.Forks))
	for i, f := range in.Chain.Forks {
		forks[i] = Pair(N(f[0]), N(f[1]))
	}
	chain := App("Chain", N(uint64(in.Chain.GenesisVersion)), List(forks), hexN(in.Chain.GVR), N(in.Chain.SPE))
	svc := App("Service", N(in.Chain.SPE), N(0x00000000), N(0x01000000), N(0x02000000), N(0x05000000), N(0x06000000),
		optDT(in.absent("sync"), 0x07000000), optDT(in.absent("syncsel"), 0x08000000), optDT(in.absent("contrib"), 0x09000000), optDT(in.absent("builder"), 0x00000001))
	var out string
	switch obs.Outcome {
	case "ok":
		out = App("OOk", List(obs.Sigs))
	case "err":
		out = "OErr"
	default:
		out = "OPanic"
	}
	ver := make([]string, len(obs.Verified))
	for i, v := range obs.Verified {
		ver[i] = Bool(v)
	}
	roots := make([]string, len(obs.Roots))
	for i, r := range obs.Roots {
		roots[i] = hexN(r)
	}
	return Record("c_id", N(id), "c_chain", chain, "c_svc", svc, "c_dom_fail", Bool(in.DomFail),
		"c_batch_fail", nList(in.missKeys()), "c_batch_err", nList(in.BatchErr), "c_single_fail", nList(append(append([]uint64{}, in.SingleFail...), in.SingleOnce...)),
		"c_req", in.reqTerm(),
		"c_out", out, "c_verified", List(ver), "c_roots", List(roots))
}

// ---------------------------------------------------------------------------------------------

var kinds = []string{"attestation", "attestations", "proposal", "randao", "slotsel", "syncsel", "aggregate", "syncroots", "contributions", "registration"}

func TestC06(t *testing.T) {
	col := NewCollector("C06", "Check.C06",
		"one signing request of one of the ten Sign* methods (nine duty kinds; attestations single and batched) against a generated fork schedule and account pool, made to a fresh signer service or as a later request of a session on one service instance (one case per request of a session); non-trivial = the service returned at least one non-zero signature, every one of which was BLS-verified; distinct by the full text of the session up to and including the request")
	n := EnvInt("VERIF_N", 400)
	// the harness's own merkleisation must agree with the libraries' HashTreeRoot
	if _, err := libraryVectors(NewRand(Seed() + 77)); err != nil {
		t.Fatalf("harness self-check: %v", err)
	}
	var ins []Input
	for _, in := range LoadInputs[Input]("C06") {
		in.Tags = append(in.Tags, "corpus")
		ins = append(ins, in)
	}
	rng := NewRand(Seed())
	for i := 0; i < n; i++ {
		r := rng.Fork()
		if isLarge(i) {
			// one batch request for more accounts than a remote signer takes in one piece
			ins = append(ins, genLarge(r, i/largeEvery))
		} else if i%sessionEvery == sessionEvery-1 {
			// every sessionEvery-th input is a session of several requests on one service instance
			ins = append(ins, genSession(r, i/sessionEvery))
		} else if i%overlapEvery == overlapEvery-2 {
			// requests made while the account calls of earlier ones are still waiting
			ins = append(ins, genOverlap(r, i/overlapEvery))
		} else if i%partialEvery == partialEvery-5 {
			// partial failures of the remote signer (a batch call leaves out one member, ...)
			ins = append(ins, genPartial(r, i/partialEvery))
		} else {
			ins = append(ins, gen(r, i-i/sessionEvery))
		}
	}
	// the property must not depend on the log level (SignBeaconAttestations has trace-only code):
	// in the thorough tier every other input runs at trace level (output discarded)
	trace := os.Getenv("VERIF_TIER") == "thorough"
	if trace {
		zerologger.Logger = zerologger.Output(io.Discard)
	}
	for k, in := range ins {
		level := zerolog.Disabled
		if trace && k%2 == 1 {
			level = zerolog.TraceLevel
			col.Count("log-level:trace")
		}
		all := runInput(t, in, level)
		if len(all) > 1 {
			col.Count("sessions")
			col.Count(fmt.Sprintf("session-length:%d", min(len(all), 9)))
		}
		for j, obs := range all {
			v := in.view(j)
			tags := append(append(append([]string{}, in.Tags...), derivedTags(v)...), sessionTags(in, j)...)
			tags = append(tags, partialTags(v)...)
			tags = append(tags, overlapTags(in, j)...)
			tags = append(tags, largeTags(v)...)
			tags = append(tags, contentTags(v)...)
			col.Count("kind:" + v.Kind)
			col.Count("outcome:" + v.Kind + ":" + obs.Outcome)
			for _, tg := range tags {
				col.Count("family:" + tg)
			}
			nonzero := 0
			for _, s := range obs.Sigs {
				if s != "PZero" {
					nonzero++
				}
			}
			col.Count(fmt.Sprintf("batch-size:%d", min(len(v.Batch), 9)))
			id := col.NextID()
			upto := in.prefix(j)
			if in.Overlap || obs.Changed {
				// what a request of an overlapped session is handed depends on the requests made while
				// its account call waited: the whole session is what has to be replayed
				upto = in
			}
			key, _ := json.Marshal(upto)
			if in.Overlap || obs.Changed {
				key = append(key, fmt.Sprintf("#%d", j)...)
			}
			sample := obs
			sample.Earlier = all[:j]
			col.Add(Case{Term: shareNumerals(term(id, v, obs)), Key: string(key), Nontrivial: obs.Outcome == "ok" && nonzero > 0, Tags: tags,
				Sample: map[string]any{"input": upto, "observed": sample}})
		}
	}
	// at most eight shards (the check evaluates eight at a time), none smaller than 50 cases
	col.ShardSize = EnvInt("VERIF_C06_SHARD", max(50, (int(col.NextID())+7)/8))
	if err := col.Flush(); err != nil {
		t.Fatal(err)
	}
}
