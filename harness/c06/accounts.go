package c06

// Mock accounts of every interface combination that services/signer/standard type-asserts on
// (AccountSigner, AccountProtectingSigner, AccountProtectingMultiSigner, DistributedAccount), with
// real BLS keys (herumi through go-eth2-types), behaving as the interfaces document:
//   - Sign signs the bytes it is given;
//   - the protecting methods sign hash_tree_root(SigningData(root of what they are given, domain));
//   - the multi methods do that per account, and return a nil entry for an account that cannot sign.
// Besides accounts that can never sign (Acc.Fail) there are the TRANSIENT failures of a remote
// signer, scripted per request (stepEnv, carried in the request's context): a batch call answers
// with a nil entry (or an all-zero signature object) for one member that could sign alone, a batch
// call fails as a whole on the account it is made on, a single-signature call fails for an account
// that a batch call would sign for.
// Every signature produced is remembered with the call that produced it (its "provenance", a
// Gallina term of type Check.C06.psig), so that the harness can say for every signature the service
// returns which account signed what.

import (
	"context"
	"crypto/sha256"
	"encoding/binary"
	"errors"
	"fmt"
	"math/big"
	"sync"

	"github.com/attestantio/go-eth2-client/spec/phase0"
	"github.com/google/uuid"
	e2types "github.com/wealdtech/go-eth2-types/v2"
	e2wtypes "github.com/wealdtech/go-eth2-wallet-types/v2"

	. "verifharness/common"
)

var blsOnce sync.Once

func initBLS() {
	blsOnce.Do(func() {
		if err := e2types.InitBLS(); err != nil {
			panic(err)
		}
	})
}

var (
	keyMu    sync.Mutex
	keyCache = map[string]e2types.PrivateKey{}
)

// privKey derives the secret key named (label, id) deterministically.
func privKey(label string, id uint64) e2types.PrivateKey {
	initBLS()
	k := fmt.Sprintf("%s/%d", label, id)
	keyMu.Lock()
	defer keyMu.Unlock()
	if p, ok := keyCache[k]; ok {
		return p
	}
	h := sha256.Sum256([]byte("verif C06 key " + k))
	h[0] = 0 // below the group order
	p, err := e2types.BLSPrivateKeyFromBytes(h[:])
	if err != nil {
		panic(err)
	}
	keyCache[k] = p
	return p
}

// BigN prints a big-endian byte string as a Gallina N numeral.
func BigN(b []byte) string { return new(big.Int).SetBytes(b).String() + "%N" }

func toChunk(b []byte) chunk {
	var c chunk
	copy(c[:], b)
	return c
}

// Acc describes an account: its key name and the interfaces its Go type implements.
type Acc struct {
	Key    uint64 `json:"key"`
	Signer bool   `json:"signer,omitempty"`
	Prot   bool   `json:"prot,omitempty"`
	Multi  bool   `json:"multi,omitempty"`
	Dist   bool   `json:"dist,omitempty"`
	Fail   bool   `json:"fail,omitempty"`
}

func (a Acc) term() string {
	return App("Account", N(a.Key), Bool(a.Signer), Bool(a.Prot), Bool(a.Multi), Bool(a.Dist), Bool(a.Fail))
}

// One recorder serves a whole session (all requests made to one signer instance, possibly
// concurrently): a signature made for an earlier request and handed out again later keeps the
// provenance of the call that really made it.
type recorder struct {
	mu    sync.Mutex
	prov  map[string]string // signature bytes -> provenance term
	calls int
}

// note remembers the call that made sig: for the request in whose context the call was made (BLS
// signatures are deterministic, so two requests of a session that have the same key sign the same
// root get the same bytes from different calls) and for the session.
func (r *recorder) note(ctx context.Context, sig e2types.Signature, term string) {
	if e, ok := ctx.Value(stepEnvKey{}).(*stepEnv); ok {
		e.mu.Lock()
		if e.prov == nil {
			e.prov = map[string]string{}
		}
		if _, ok := e.prov[string(sig.Marshal())]; !ok {
			e.prov[string(sig.Marshal())] = term
		}
		e.mu.Unlock()
	}
	r.mu.Lock()
	defer r.mu.Unlock()
	r.calls++
	k := string(sig.Marshal())
	if _, ok := r.prov[k]; !ok {
		r.prov[k] = term
	}
}

type base struct {
	d   Acc
	rec *recorder
}

type baser interface{ theBase() *base }

func (b *base) theBase() *base { return b }
func (b *base) ID() uuid.UUID {
	var u uuid.UUID
	u[0] = 0xc6
	binary.BigEndian.PutUint64(u[8:], b.d.Key)
	return u
}
func (b *base) Name() string { return fmt.Sprintf("wallet/account-%d", b.d.Key) }

// signing key: the account's own key, or the composite key of a distributed account (the mock
// stands for the whole threshold-signing cluster).
func (b *base) priv() e2types.PrivateKey { return privKey("key", b.d.Key) }

// PublicKey of a distributed account is the key of this participant's share, not the validator's.
func (b *base) PublicKey() e2types.PublicKey {
	if b.d.Dist {
		return privKey("share", b.d.Key).PublicKey()
	}
	return b.priv().PublicKey()
}

// validatorPubKey is the key the validator is known by on chain.
func (b *base) validatorPubKey() e2types.PublicKey { return b.priv().PublicKey() }

var (
	errCannotSign = errors.New("mock account cannot sign")
	errMultiCall  = errors.New("mock: the multi-signature call fails")
)

// zeroSignature is what a remote signer library hands back for a member it has no signature for
// when it does not leave the entry nil: an object whose bytes are all zero.
type zeroSignature struct{}

func (zeroSignature) Verify([]byte, e2types.PublicKey) bool                     { return false }
func (zeroSignature) VerifyAggregate([][]byte, []e2types.PublicKey) bool        { return false }
func (zeroSignature) VerifyAggregateCommon([]byte, []e2types.PublicKey) bool    { return false }
func (zeroSignature) Marshal() []byte                                           { return make([]byte, 96) }

// multiCall numbers the multi-signature calls made for the request of ctx.
func multiCall(ctx context.Context) int {
	e := stepOf(ctx)
	if e == nil {
		return 0
	}
	e.mu.Lock()
	defer e.mu.Unlock()
	e.multiCalls++
	return e.multiCalls
}

func stepOf(ctx context.Context) *stepEnv {
	e, _ := ctx.Value(stepEnvKey{}).(*stepEnv)
	return e
}

// singleFails: the single-signature methods of the account fail while this request is handled.
func singleFails(ctx context.Context, key uint64) bool {
	e := stepOf(ctx)
	if e == nil {
		return false
	}
	if e.singleOnce[key] {
		e.mu.Lock()
		defer e.mu.Unlock()
		if e.onceDone == nil {
			e.onceDone = map[uint64]bool{}
		}
		if !e.onceDone[key] {
			e.onceDone[key] = true
			return true
		}
		return false
	}
	return e.singleFail[key]
}

// batchCallFails: a multi-signature call made ON this account fails as a whole for this request.
func batchCallFails(ctx context.Context, key uint64) bool {
	e := stepOf(ctx)
	return e != nil && e.batchErr[key]
}

// batchMisses: multi-signature calls made for this request have no signature for this member
// (nil entry, or an all-zero signature object when zero).
func batchMisses(ctx context.Context, call int, key uint64) (miss bool, zero bool) {
	e := stepOf(ctx)
	if e == nil {
		return false, false
	}
	if e.batchOnce[key] {
		e.mu.Lock()
		defer e.mu.Unlock()
		if e.onceCall == nil {
			e.onceCall = map[uint64]int{}
		}
		if c, seen := e.onceCall[key]; seen {
			return c == call, false
		}
		e.onceCall[key] = call
		return true, false
	}
	if e.batchZero[key] {
		return true, true
	}
	return e.batchFail[key], false
}

func attTerm(slot, idx uint64, bbr []byte, se uint64, sr []byte, te uint64, tr []byte) string {
	return App("AttData", N(slot), N(idx), BigN(bbr), N(se), BigN(sr), N(te), BigN(tr))
}

// --- AccountSigner
type capS struct{ b *base }

func (c capS) Sign(ctx context.Context, data []byte) (e2types.Signature, error) {
	defer leaveCall(ctx, enterCall(ctx))
	if c.b.d.Fail || singleFails(ctx, c.b.d.Key) {
		return nil, errCannotSign
	}
	sig := c.b.priv().Sign(data)
	c.b.rec.note(ctx, sig, App("PSign", N(c.b.d.Key), BigN(data)))
	return sig, nil
}

// --- AccountProtectingSigner
type capP struct{ b *base }

func (c capP) SignGeneric(ctx context.Context, data []byte, domain []byte) (e2types.Signature, error) {
	defer leaveCall(ctx, enterCall(ctx))
	if c.b.d.Fail || singleFails(ctx, c.b.d.Key) {
		return nil, errCannotSign
	}
	root := specSigningRoot(toChunk(data), toChunk(domain))
	sig := c.b.priv().Sign(root[:])
	c.b.rec.note(ctx, sig, App("PGeneric", N(c.b.d.Key), BigN(data), BigN(domain)))
	return sig, nil
}

func (c capP) SignBeaconProposal(ctx context.Context, slot uint64, proposerIndex uint64, parentRoot []byte, stateRoot []byte, bodyRoot []byte, domain []byte) (e2types.Signature, error) {
	defer leaveCall(ctx, enterCall(ctx))
	if c.b.d.Fail || singleFails(ctx, c.b.d.Key) {
		return nil, errCannotSign
	}
	root := specSigningRoot(specHeader(slot, proposerIndex, toChunk(parentRoot), toChunk(stateRoot), toChunk(bodyRoot)), toChunk(domain))
	sig := c.b.priv().Sign(root[:])
	c.b.rec.note(ctx, sig, App("PProp", N(c.b.d.Key),
		App("BlockHeader", N(slot), N(proposerIndex), BigN(parentRoot), BigN(stateRoot), BigN(bodyRoot)), BigN(domain)))
	return sig, nil
}

func (c capP) SignBeaconAttestation(ctx context.Context, slot uint64, committeeIndex uint64, blockRoot []byte, sourceEpoch uint64, sourceRoot []byte, targetEpoch uint64, targetRoot []byte, domain []byte) (e2types.Signature, error) {
	defer leaveCall(ctx, enterCall(ctx))
	if c.b.d.Fail || singleFails(ctx, c.b.d.Key) {
		return nil, errCannotSign
	}
	root := specSigningRoot(specAttData(slot, committeeIndex, toChunk(blockRoot), sourceEpoch, toChunk(sourceRoot), targetEpoch, toChunk(targetRoot)), toChunk(domain))
	sig := c.b.priv().Sign(root[:])
	c.b.rec.note(ctx, sig, App("PAtt", N(c.b.d.Key), attTerm(slot, committeeIndex, blockRoot, sourceEpoch, sourceRoot, targetEpoch, targetRoot), BigN(domain)))
	return sig, nil
}

// --- AccountProtectingMultiSigner
type capM struct{ b *base }

func (c capM) SignBeaconAttestations(ctx context.Context, slot uint64, accounts []e2wtypes.Account, committeeIndices []uint64, blockRoot []byte, sourceEpoch uint64, sourceRoot []byte, targetEpoch uint64, targetRoot []byte, domain []byte) ([]e2types.Signature, error) {
	defer leaveCall(ctx, enterCall(ctx))
	if len(accounts) != len(committeeIndices) {
		return nil, errors.New("mock: accounts and committee indices differ in number")
	}
	if batchCallFails(ctx, c.b.d.Key) {
		return nil, errMultiCall
	}
	call := multiCall(ctx)
	res := make([]e2types.Signature, len(accounts))
	for i := range accounts {
		b := accounts[i].(baser).theBase()
		if b.d.Fail {
			continue
		}
		if miss, zero := batchMisses(ctx, call, b.d.Key); miss {
			if zero {
				res[i] = zeroSignature{}
			}
			continue
		}
		root := specSigningRoot(specAttData(slot, committeeIndices[i], toChunk(blockRoot), sourceEpoch, toChunk(sourceRoot), targetEpoch, toChunk(targetRoot)), toChunk(domain))
		sig := b.priv().Sign(root[:])
		c.b.rec.note(ctx, sig, App("PMultiAtt", N(c.b.d.Key), N(b.d.Key), attTerm(slot, committeeIndices[i], blockRoot, sourceEpoch, sourceRoot, targetEpoch, targetRoot), BigN(domain)))
		res[i] = sig
	}
	return res, nil
}

func (c capM) SignGenericMulti(ctx context.Context, accounts []e2wtypes.Account, data [][]byte, domain []byte) ([]e2types.Signature, error) {
	defer leaveCall(ctx, enterCall(ctx))
	if len(accounts) != len(data) {
		return nil, errors.New("mock: accounts and data differ in number")
	}
	if batchCallFails(ctx, c.b.d.Key) {
		return nil, errMultiCall
	}
	call := multiCall(ctx)
	res := make([]e2types.Signature, len(accounts))
	for i := range accounts {
		b := accounts[i].(baser).theBase()
		if b.d.Fail {
			continue
		}
		if miss, zero := batchMisses(ctx, call, b.d.Key); miss {
			if zero {
				res[i] = zeroSignature{}
			}
			continue
		}
		root := specSigningRoot(toChunk(data[i]), toChunk(domain))
		sig := b.priv().Sign(root[:])
		c.b.rec.note(ctx, sig, App("PMultiGeneric", N(c.b.d.Key), N(b.d.Key), BigN(data[i]), BigN(domain)))
		res[i] = sig
	}
	return res, nil
}

// --- DistributedAccount
type capD struct{ b *base }

func (c capD) CompositePublicKey() e2types.PublicKey { return c.b.validatorPubKey() }
func (capD) SigningThreshold() uint32                 { return 2 }
func (capD) Participants() map[uint64]string          { return map[uint64]string{1: "a:1", 2: "b:2", 3: "c:3"} }

// The sixteen Go types (signer, protecting, multi, distributed).
type (
	acc0000 struct{ *base }
	acc1000 struct {
		*base
		capS
	}
	acc0100 struct {
		*base
		capP
	}
	acc1100 struct {
		*base
		capS
		capP
	}
	acc0010 struct {
		*base
		capM
	}
	acc1010 struct {
		*base
		capS
		capM
	}
	acc0110 struct {
		*base
		capP
		capM
	}
	acc1110 struct {
		*base
		capS
		capP
		capM
	}
	acc0001 struct {
		*base
		capD
	}
	acc1001 struct {
		*base
		capS
		capD
	}
	acc0101 struct {
		*base
		capP
		capD
	}
	acc1101 struct {
		*base
		capS
		capP
		capD
	}
	acc0011 struct {
		*base
		capM
		capD
	}
	acc1011 struct {
		*base
		capS
		capM
		capD
	}
	acc0111 struct {
		*base
		capP
		capM
		capD
	}
	acc1111 struct {
		*base
		capS
		capP
		capM
		capD
	}
)

func newAccount(d Acc, rec *recorder) e2wtypes.Account {
	b := &base{d: d, rec: rec}
	s, p, m, dd := capS{b}, capP{b}, capM{b}, capD{b}
	code := 0
	if d.Signer {
		code |= 8
	}
	if d.Prot {
		code |= 4
	}
	if d.Multi {
		code |= 2
	}
	if d.Dist {
		code |= 1
	}
	switch code {
	case 0b0000:
		return &acc0000{b}
	case 0b1000:
		return &acc1000{b, s}
	case 0b0100:
		return &acc0100{b, p}
	case 0b1100:
		return &acc1100{b, s, p}
	case 0b0010:
		return &acc0010{b, m}
	case 0b1010:
		return &acc1010{b, s, m}
	case 0b0110:
		return &acc0110{b, p, m}
	case 0b1110:
		return &acc1110{b, s, p, m}
	case 0b0001:
		return &acc0001{b, dd}
	case 0b1001:
		return &acc1001{b, s, dd}
	case 0b0101:
		return &acc0101{b, p, dd}
	case 0b1101:
		return &acc1101{b, s, p, dd}
	case 0b0011:
		return &acc0011{b, m, dd}
	case 0b1011:
		return &acc1011{b, s, m, dd}
	case 0b0111:
		return &acc0111{b, p, m, dd}
	default:
		return &acc1111{b, s, p, m, dd}
	}
}

// ---------------------------------------------------------------------------------------------
// The chain: spec provider and domain provider.

type ChainDesc struct {
	GenesisVersion uint32      `json:"genesis_version"`
	Forks          [][2]uint64 `json:"forks"` // (activation epoch, version), ascending epochs
	GVR            string      `json:"gvr"`   // hex, 32 bytes
	SPE            uint64      `json:"spe"`
}

func version4(v uint32) [4]byte {
	var b [4]byte
	binary.BigEndian.PutUint32(b[:], v)
	return b
}

func (c ChainDesc) versionAt(epoch uint64) [4]byte {
	v := c.GenesisVersion
	for _, f := range c.Forks {
		if f[0] <= epoch {
			v = uint32(f[1])
		} else {
			break
		}
	}
	return version4(v)
}

// The domain provider lives as long as the signer service.  What is particular to one request of
// a session (does the node answer at all; which calls the request made) travels in the request's
// context as a *stepEnv, so that requests made concurrently on one service do not share it.
type domainProvider struct {
	chain ChainDesc
	def   stepEnv // requests made without a stepEnv in their context
}

type stepEnv struct {
	mu    sync.Mutex
	fail  bool
	calls []string
	prov  map[string]string // signature bytes -> provenance term, for the calls made for this request
	// transient failures of the remote signer while this request is handled (read only), by key
	batchFail, batchZero, batchErr, singleFail map[uint64]bool
	// batchOnce: only the FIRST multi-signature call of this request that has the member among its
	// accounts leaves it out; a later call (a second round for the left-overs) signs for it
	batchOnce map[uint64]bool
	// singleOnce: only the FIRST single-signature call made on the account for this request fails
	singleOnce map[uint64]bool
	onceDone   map[uint64]bool
	multiCalls int            // multi-signature calls made for this request so far
	onceCall   map[uint64]int // the call that left the member out
	// overlapping requests (see overlap.go): the parkAt-th account call made for this request waits,
	// before looking at its arguments ("before") or with its answer ready ("after"), until the
	// harness lets it go on -- which it does when other requests have been made meanwhile
	park      string
	parkAt    int
	acctCalls int
	entered   chan struct{} // the call has arrived at its waiting point (buffered, one token)
	release   chan struct{} // closed by the harness
}

func keySet(keys []uint64) map[uint64]bool {
	if len(keys) == 0 {
		return nil
	}
	m := map[uint64]bool{}
	for _, k := range keys {
		m[k] = true
	}
	return m
}

// provenance of a signature returned for the request of e: the call made for this request that
// produced these bytes; failing that, a call made for another request of the session (a signature
// handed out again); failing that, nobody's.
func (r *recorder) provenance(e *stepEnv, sig []byte) string {
	e.mu.Lock()
	term, ok := e.prov[string(sig)]
	e.mu.Unlock()
	if ok {
		return term
	}
	r.mu.Lock()
	term, ok = r.prov[string(sig)]
	r.mu.Unlock()
	if ok {
		return term
	}
	return "PUnknown"
}

type stepEnvKey struct{}

func withStepEnv(ctx context.Context, e *stepEnv) context.Context {
	return context.WithValue(ctx, stepEnvKey{}, e)
}

// note records the call and says whether the provider is to fail for this request.
func (p *domainProvider) note(ctx context.Context, call string) bool {
	e, ok := ctx.Value(stepEnvKey{}).(*stepEnv)
	if !ok {
		e = &p.def
	}
	e.mu.Lock()
	defer e.mu.Unlock()
	e.calls = append(e.calls, call)
	return e.fail
}

var builderDomainType = phase0.DomainType{0, 0, 0, 1}

func (p *domainProvider) gvrFor(domainType phase0.DomainType) chunk {
	// go-eth2-client: application domain types use the zero genesis validators root
	if domainType == builderDomainType {
		return chunk{}
	}
	return toChunk(unhex(p.chain.GVR))
}

func (p *domainProvider) Domain(ctx context.Context, domainType phase0.DomainType, epoch phase0.Epoch) (phase0.Domain, error) {
	if p.note(ctx, fmt.Sprintf("domain %x @%d", domainType[:], uint64(epoch))) {
		return phase0.Domain{}, errors.New("mock domain provider fails")
	}
	return phase0.Domain(specComputeDomain(domainType, p.chain.versionAt(uint64(epoch)), p.gvrFor(domainType))), nil
}

func (p *domainProvider) GenesisDomain(ctx context.Context, domainType phase0.DomainType) (phase0.Domain, error) {
	if p.note(ctx, fmt.Sprintf("genesis-domain %x", domainType[:])) {
		return phase0.Domain{}, errors.New("mock domain provider fails")
	}
	return phase0.Domain(specComputeDomain(domainType, version4(p.chain.GenesisVersion), p.gvrFor(domainType))), nil
}
