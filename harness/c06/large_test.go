package c06

import (
	"fmt"
	"os"
	"regexp"
	"strings"

	. "verifharness/common"
)

// Generator family "large-batch": ONE batch request for more accounts than a remote signer (or any
// other piece of the signing path) is likely to take in one piece: 257..300 accounts (thorough
// tier: now and then beyond 512), never a multiple of 256.  A validator client with a few hundred
// validators attesting in the same slot makes exactly such requests.  What the family is after is
// anything that handles the request in PIECES (batches of at most k accounts sent to the
// multi-signer one after the other, a worker per chunk, a bounded buffer) and gets the position of
// a piece's results wrong: the pieces agree with the whole as long as every piece is full, so only
// a request that is longer than one piece and ends in a partial one shows it.  Every position has
// its own account (key) and, where the kind has one, its own committee / subcommittee index, so a
// signature that lands at another position does not verify there, and a position left empty is a
// zero signature of an account that could sign.

const largeEvery = 140 // generated inputs i with i%largeEvery == largePhase are of this family
const largePhase = 32 // (an i that is neither a session, an overlapped session nor a partial-failure input)

var largeKinds = []string{"attestations", "slotsel", "attestations", "syncsel", "attestations", "syncroots"}

func isLarge(i int) bool { return i%largeEvery == largePhase }

func genLarge(r *Rand, j int) Input {
	chain, e, forkStyle := genChain(r)
	kind := largeKinds[(j+r.Intn(2)*2)%len(largeKinds)]
	n := 257 + r.Intn(44)
	if os.Getenv("VERIF_TIER") == "thorough" && r.Chance(1, 4) {
		n = 513 + r.Intn(60)
	}
	// pools: what ONE account manager holds
	pool := make([]Acc, n)
	poolStyle := ""
	switch k := r.Intn(8); {
	case k < 3:
		poolStyle = "pool:dirk-plain-only"
		for i := range pool {
			pool[i] = profiles["dirk"]
		}
	case k < 5:
		poolStyle = "pool:dist-only"
		for i := range pool {
			pool[i] = profiles["dirk-dist"]
		}
	case k < 7:
		// more than 256 of one kind, a few of the other among them
		poolStyle = "pool:dirk"
		major, minor := "dirk", "dirk-dist"
		if r.Bool() {
			major, minor = minor, major
		}
		for i := range pool {
			pool[i] = profiles[major]
		}
		extra := r.Range(1, 30)
		pool = append(pool, make([]Acc, extra)...)
		for i := n; i < len(pool); i++ {
			pool[i] = profiles[minor]
		}
	default:
		poolStyle = "pool:wallet"
		for i := range pool {
			pool[i] = profiles["wallet"]
		}
	}
	for i := range pool {
		pool[i].Key = uint64(i + 1)
	}
	in := Input{Chain: chain, Pool: pool, Req: Req{Kind: kind, Epoch: e}}
	in.Slot, _ = slotIn(r, e, chain.SPE)
	// every pool account once; the minority (if any) spread among the others
	in.Batch = r.Perm(len(pool))
	tags := genContentFields(r, &in.Req, chain, e)
	_ = tags
	switch kind {
	case "attestations":
		in.Idxs = make([]uint64, len(in.Batch))
		for i := range in.Idxs {
			in.Idxs[i] = uint64(i) // a different committee index at every position
		}
	case "syncsel":
		in.Idxs = make([]uint64, len(in.Batch))
		for i := range in.Idxs {
			in.Idxs[i] = uint64(i % 4)
		}
	}
	in.Tags = []string{forkStyle, poolStyle, "batch:permutation", "large-batch", fmt.Sprintf("large-batch:%s", kind)}
	return in
}

// largeTags, from the input: a batch longer than 256 accounts of one kind that is not a multiple of 256.
func largeTags(in Input) []string {
	if len(in.Batch) <= 256 {
		return nil
	}
	nd, no := 0, 0
	for _, p := range in.Batch {
		if in.Pool[p].Dist {
			nd++
		} else {
			no++
		}
	}
	var tags []string
	for _, m := range []int{nd, no} {
		if m > 256 && m%256 != 0 {
			tags = append(tags, "large-batch:more-than-256-of-one-kind-last-piece-partial")
			break
		}
	}
	return tags
}

var longNumeral = regexp.MustCompile(`[0-9]{30,}%N`)

// shareNumerals: in the Gallina term of a case with a long batch the same 256-bit values (domain,
// block / source / target root) occur once per account; each is bound ONCE by a let around the
// record (the term means the same; Coq reads and type-checks a long numeral only once).
func shareNumerals(term string) string {
	if len(term) < 20000 {
		return term
	}
	count := map[string]int{}
	var order []string
	for _, m := range longNumeral.FindAllString(term, -1) {
		if count[m] == 0 {
			order = append(order, m)
		}
		count[m]++
	}
	var lets strings.Builder
	k := 0
	names := map[string]string{}
	for _, m := range order {
		if count[m] >= 3 {
			names[m] = fmt.Sprintf("shared_%d", k)
			fmt.Fprintf(&lets, "let shared_%d := %s in ", k, m)
			k++
		}
	}
	if k == 0 {
		return term
	}
	body := longNumeral.ReplaceAllStringFunc(term, func(m string) string {
		if n, ok := names[m]; ok {
			return n
		}
		return m
	})
	return "(" + lets.String() + body + ")"
}
