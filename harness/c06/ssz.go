package c06

// The harness's own SSZ merkleisation (crypto/sha256 only, nothing from go-eth2-client): the
// specification's signing root of every duty message, used to BLS-verify the signatures that the
// real signer service returns.  Coq recomputes the same roots from Lib/Ssz.v and compares.

import (
	"crypto/sha256"
	"encoding/binary"
)

type chunk = [32]byte

func hash2(a, b chunk) chunk {
	var buf [64]byte
	copy(buf[:32], a[:])
	copy(buf[32:], b[:])
	return sha256.Sum256(buf[:])
}

var zeroHashes = func() [8]chunk {
	var z [8]chunk
	for i := 1; i < len(z); i++ {
		z[i] = hash2(z[i-1], z[i-1])
	}
	return z
}()

// merkleize pads the chunks with zero chunks to 2^depth leaves and hashes up.
func merkleize(depth int, chunks []chunk) chunk {
	layer := append([]chunk(nil), chunks...)
	for lvl := 0; lvl < depth; lvl++ {
		var next []chunk
		for i := 0; i < len(layer); i += 2 {
			if i+1 < len(layer) {
				next = append(next, hash2(layer[i], layer[i+1]))
			} else {
				next = append(next, hash2(layer[i], zeroHashes[lvl]))
			}
		}
		layer = next
	}
	if len(layer) == 0 {
		return zeroHashes[depth]
	}
	return layer[0]
}

func u64Chunk(x uint64) chunk {
	var c chunk
	binary.LittleEndian.PutUint64(c[:8], x)
	return c
}

func bytesChunks(b []byte) []chunk {
	var out []chunk
	for i := 0; i < len(b); i += 32 {
		var c chunk
		copy(c[:], b[i:min(i+32, len(b))])
		out = append(out, c)
	}
	return out
}

func specCheckpoint(epoch uint64, root chunk) chunk {
	return merkleize(1, []chunk{u64Chunk(epoch), root})
}

func specAttData(slot, index uint64, bbr chunk, se uint64, sr chunk, te uint64, tr chunk) chunk {
	return merkleize(3, []chunk{u64Chunk(slot), u64Chunk(index), bbr, specCheckpoint(se, sr), specCheckpoint(te, tr)})
}

func specHeader(slot, proposer uint64, parent, state, body chunk) chunk {
	return merkleize(3, []chunk{u64Chunk(slot), u64Chunk(proposer), parent, state, body})
}

func specSigningRoot(objectRoot, domain chunk) chunk {
	return merkleize(1, []chunk{objectRoot, domain})
}

func specSyncSelection(slot, sub uint64) chunk {
	return merkleize(1, []chunk{u64Chunk(slot), u64Chunk(sub)})
}

func specContribution(slot uint64, bbr chunk, sub uint64, bits []byte, sig []byte) chunk {
	return merkleize(3, []chunk{u64Chunk(slot), bbr, u64Chunk(sub), bytesChunks(bits)[0], merkleize(2, bytesChunks(sig))})
}

func specContributionAndProof(aggregator uint64, contribution chunk, proof []byte) chunk {
	return merkleize(2, []chunk{u64Chunk(aggregator), contribution, merkleize(2, bytesChunks(proof))})
}

func specRegistration(fee []byte, gasLimit, timestamp uint64, pubkey []byte) chunk {
	return merkleize(2, []chunk{bytesChunks(fee)[0], u64Chunk(gasLimit), u64Chunk(timestamp), merkleize(1, bytesChunks(pubkey))})
}

// specComputeDomain = domain_type ++ hash_tree_root(ForkData(version, gvr))[:28]
func specComputeDomain(domainType [4]byte, version [4]byte, gvr chunk) chunk {
	var v chunk
	copy(v[:4], version[:])
	fdr := merkleize(1, []chunk{v, gvr})
	var d chunk
	copy(d[:4], domainType[:])
	copy(d[4:], fdr[:28])
	return d
}
