package c06

import (
	"encoding/hex"

	. "verifharness/common"
)

func randHex(r *Rand, n int) string {
	b := make([]byte, n)
	switch r.Intn(12) {
	case 0: // all zero
	case 1: // small number in the last byte
		b[n-1] = byte(r.Range(1, 255))
	case 2: // leading byte only (exercises the high end of the chunk)
		b[0] = byte(r.Range(1, 255))
	case 3:
		for i := range b {
			b[i] = 0xff
		}
	default:
		for i := 0; i < n; i += 8 {
			x := r.U64()
			for j := 0; j < 8 && i+j < n; j++ {
				b[i+j] = byte(x >> (8 * j))
			}
		}
	}
	return hex.EncodeToString(b)
}

func randU64(r *Rand) uint64 {
	switch r.Intn(12) {
	case 0, 1:
		return 0
	case 2, 3:
		return uint64(r.Intn(64))
	case 4, 5:
		return r.U64() // full range
	case 6:
		return boundary(r) // the largest value, the 31/32/53/63-bit boundaries, one
	default:
		return uint64(r.Intn(1 << 20))
	}
}

var profiles = map[string]Acc{
	"wallet":      {Signer: true},
	"dirk":        {Prot: true, Multi: true},
	"dirk-dist":   {Prot: true, Multi: true, Dist: true},
	"local-dist":  {Signer: true, Dist: true},
	"prot-signer": {Signer: true, Prot: true},
	"prot-only":   {Prot: true},
	"all":         {Signer: true, Prot: true, Multi: true},
	"all-dist":    {Signer: true, Prot: true, Multi: true, Dist: true},
}

var profileNames = []string{"wallet", "dirk", "dirk-dist", "local-dist", "prot-signer", "prot-only", "all", "all-dist"}

func genPool(r *Rand) ([]Acc, string) {
	n := r.Range(1, 6)
	pool := make([]Acc, n)
	style := ""
	switch k := r.Intn(10); {
	case k < 2: // what a wallet account manager holds
		style = "pool:wallet"
		for i := range pool {
			pool[i] = profiles["wallet"]
		}
	case k < 4: // what a dirk account manager holds: plain and distributed remote accounts
		style = "pool:dirk"
		for i := range pool {
			if r.Bool() {
				pool[i] = profiles["dirk"]
			} else {
				pool[i] = profiles["dirk-dist"]
			}
		}
	case k < 5:
		style = "pool:dirk-plain-only"
		for i := range pool {
			pool[i] = profiles["dirk"]
		}
	case k < 6:
		style = "pool:dist-only"
		for i := range pool {
			pool[i] = profiles["dirk-dist"]
		}
	case k < 9:
		style = "pool:mixed-profiles"
		for i := range pool {
			pool[i] = profiles[profileNames[r.Intn(len(profileNames))]]
		}
	default:
		style = "pool:arbitrary-interfaces"
		for i := range pool {
			pool[i] = Acc{Signer: r.Bool(), Prot: r.Bool(), Multi: r.Bool(), Dist: r.Bool()}
		}
	}
	for i := range pool {
		pool[i].Key = uint64(i + 1)
		if r.Chance(1, 12) {
			pool[i].Fail = true
		}
	}
	return pool, style
}

func genBatch(r *Rand, pool []Acc, single bool) ([]int, string) {
	if single {
		return []int{r.Intn(len(pool))}, "batch:single"
	}
	if r.Chance(1, 30) {
		return []int{}, "batch:empty"
	}
	var dist, ord []int
	for i, a := range pool {
		if a.Dist {
			dist = append(dist, i)
		} else {
			ord = append(ord, i)
		}
	}
	n := r.Range(1, 8)
	batch := make([]int, 0, n)
	style := "batch:random-order"
	switch k := r.Intn(6); {
	case k == 0 && len(dist) > 0 && len(ord) > 0: // alternating kinds
		style = "batch:alternating-kinds"
		for i := 0; i < n; i++ {
			if i%2 == 0 {
				batch = append(batch, dist[r.Intn(len(dist))])
			} else {
				batch = append(batch, ord[r.Intn(len(ord))])
			}
		}
	case k == 1 && len(dist) > 0 && len(ord) > 0: // all distributed first, then the others
		style = "batch:distributed-first"
		h := r.Range(1, n)
		for i := 0; i < n; i++ {
			if i < h {
				batch = append(batch, dist[r.Intn(len(dist))])
			} else {
				batch = append(batch, ord[r.Intn(len(ord))])
			}
		}
	case k == 2: // every pool account once, shuffled
		style = "batch:permutation"
		batch = r.Perm(len(pool))
	default:
		for i := 0; i < n; i++ {
			batch = append(batch, r.Intn(len(pool)))
		}
	}
	return batch, style
}

// genChain picks the duty epoch and a fork schedule around it.
func genChain(r *Rand) (ChainDesc, uint64, string) {
	spes := []uint64{32, 32, 32, 8, 4, 2, 1, 6}
	c := ChainDesc{SPE: spes[r.Intn(len(spes))], GenesisVersion: uint32(r.U64()), GVR: randHex(r, 32)}
	var e uint64
	switch r.Intn(15) {
	case 0, 1, 2:
		e = uint64(r.Intn(3))
	case 3, 4:
		e = uint64(r.Intn(1 << 30))
	case 5: // slots beyond 2^53, beyond 2^63, the last ones a uint64 holds
		e = highEpoch(r, c.SPE)
	default:
		e = uint64(r.Range(2, 500))
	}
	if r.Chance(1, 12) {
		c.GenesisVersion = uint32(boundaryVersion(r))
	}
	ver := func() uint64 { return boundaryVersion(r) }
	style := ""
	switch k := r.Intn(10); {
	case k < 5: // a fork at every epoch around the duty: any epoch mistake changes the domain
		style = "forks:dense"
		lo := uint64(0)
		if e > 2 {
			lo = e - 2
		}
		for x := lo; x <= e+3; x++ {
			c.Forks = append(c.Forks, [2]uint64{x, ver()})
		}
	case k < 6 && r.Bool():
		style = "forks:at-duty-epoch"
		if e > 3 && r.Bool() {
			c.Forks = append(c.Forks, [2]uint64{e - 3, ver()})
		}
		c.Forks = append(c.Forks, [2]uint64{e, ver()})
	case k < 6:
		style = "forks:at-next-epoch"
		c.Forks = append(c.Forks, [2]uint64{e + 1, ver()})
	case k < 7:
		style = "forks:none"
	case k < 8: // several forks at genesis (GenesisDomain is the first, Domain(0) the last)
		style = "forks:at-genesis"
		c.Forks = append(c.Forks, [2]uint64{0, ver()}, [2]uint64{0, ver()})
		if r.Bool() {
			c.Forks = append(c.Forks, [2]uint64{e + 1, ver()})
		}
	default:
		style = "forks:random"
		x := uint64(0)
		for i := r.Range(1, 4); i > 0; i-- {
			x += uint64(r.Intn(int(e/2 + 2)))
			c.Forks = append(c.Forks, [2]uint64{x, ver()})
		}
	}
	return c, e, style
}

func slotIn(r *Rand, e, spe uint64) (uint64, string) {
	switch r.Intn(6) {
	case 0, 1:
		return e*spe + spe - 1, "slot:last-of-epoch"
	case 2:
		return e * spe, "slot:first-of-epoch"
	default:
		return e*spe + uint64(r.Intn(int(spe))), "slot:inside-epoch"
	}
}

func isSingle(kind string) bool {
	return map[string]bool{"attestation": true, "proposal": true, "randao": true, "aggregate": true, "registration": true}[kind]
}

func gen(r *Rand, i int) Input {
	chain, e, forkStyle := genChain(r)
	in := Input{Chain: chain, Req: Req{Kind: kinds[i%len(kinds)]}}
	if r.Chance(1, 8) {
		in.Kind = kinds[r.Intn(len(kinds))]
	}
	slot, slotStyle := slotIn(r, e, chain.SPE)
	in.Slot = slot
	in.Epoch = e
	pool, poolStyle := genPool(r)
	in.Pool = pool
	batch, batchStyle := genBatch(r, pool, isSingle(in.Kind))
	in.Batch = batch
	in.Tags = []string{forkStyle, slotStyle, poolStyle, batchStyle}
	if r.Chance(1, 9) {
		// a chain spec without one of the optional domain types: more often than not the one that
		// this request's duty is signed with (the signer must refuse, not make one up)
		in.Absent = []string{[]string{"sync", "syncsel", "contrib", "builder"}[r.Intn(4)]}
		if own, ok := map[string]string{"syncroots": "sync", "syncsel": "syncsel", "contributions": "contrib", "registration": "builder"}[in.Kind]; ok && r.Chance(3, 4) {
			in.Absent = []string{own}
			in.Tags = append(in.Tags, "absent:domain-type-of-this-duty")
		}
	}
	if r.Chance(1, 30) {
		in.DomFail = true
	}
	in.Tags = append(in.Tags, genContent(r, &in.Req, chain, e)...)
	return in
}

// genContent fills in the message; one request in eight then has EVERY content field at zero, or
// at the largest value of its type.
func genContent(r *Rand, in *Req, chain ChainDesc, e uint64) (tags []string) {
	tags = genContentFields(r, in, chain, e)
	switch r.Intn(16) {
	case 0:
		extremeContent(in, false)
		tags = append(tags, "content:every-field-zero")
	case 1:
		extremeContent(in, true)
		tags = append(tags, "content:every-field-at-maximum")
	}
	return tags
}

// genContentFields fills in the message of a request whose kind, slot, epoch and batch are chosen.
func genContentFields(r *Rand, in *Req, chain ChainDesc, e uint64) (tags []string) {
	slot := in.Slot
	n := len(in.Batch)
	switch in.Kind {
	case "attestation", "attestations":
		in.BlockRoot, in.SourceRoot, in.TargetRoot = randHex(r, 32), randHex(r, 32), randHex(r, 32)
		in.TargetEpoch = e // the attester only signs data whose target epoch is the duty's (C01)
		in.SourceEpoch = e - min(e, uint64(r.Intn(3)))
		switch r.Intn(8) {
		case 0:
			in.SourceEpoch = 0
		case 1:
			in.SourceEpoch = r.U64() % (e + 1)
		}
		if in.Kind == "attestation" {
			in.Idxs = []uint64{randU64(r)}
		} else {
			m := n
			if r.Chance(1, 25) {
				m = n + 1
				tags = append(tags, "indices:one-more")
			} else if n > 0 && r.Chance(1, 40) {
				m = n - 1
				tags = append(tags, "indices:one-fewer")
			}
			for j := 0; j < m; j++ {
				if r.Chance(1, 4) {
					in.Idxs = append(in.Idxs, randU64(r))
				} else {
					in.Idxs = append(in.Idxs, uint64(r.Intn(64)))
				}
			}
		}
	case "proposal":
		in.Proposer = randU64(r)
		in.ParentRoot, in.StateRoot, in.BodyRoot = randHex(r, 32), randHex(r, 32), randHex(r, 32)
	case "syncsel":
		m := n
		if r.Chance(1, 25) {
			m = n + 1
			tags = append(tags, "indices:one-more")
		} else if n > 0 && r.Chance(1, 40) {
			m = n - 1
			tags = append(tags, "indices:one-fewer")
		}
		for j := 0; j < m; j++ {
			if r.Chance(1, 10) { // the signer is not the one to judge the index
				in.Idxs = append(in.Idxs, randU64(r))
			} else {
				in.Idxs = append(in.Idxs, uint64(r.Intn(4)))
			}
		}
	case "aggregate", "syncroots":
		in.Root = randHex(r, 32)
	case "contributions":
		m := n
		if r.Chance(1, 25) {
			m = n + 1
			tags = append(tags, "contributions:count-mismatch")
		}
		bbr := randHex(r, 32)
		mixed := r.Chance(1, 6)
		for j := 0; j < m; j++ {
			c := Contrib{Aggregator: randU64(r), Slot: slot, BlockRoot: bbr, Sub: uint64(r.Intn(4)), Bits: randHex(r, 16), Signature: randHex(r, 96), Proof: randHex(r, 96)}
			if r.Chance(1, 10) {
				c.Sub = randU64(r)
			}
			if mixed && j > 0 {
				// a contribution of another slot, often across the epoch boundary
				switch r.Intn(3) {
				case 0:
					c.Slot = slot + 1
				case 1:
					c.Slot = slot + chain.SPE
				default:
					if slot >= chain.SPE {
						c.Slot = slot - chain.SPE
					}
				}
			}
			in.Contribs = append(in.Contribs, c)
		}
	case "registration":
		in.Reg = &Reg{FeeRecipient: randHex(r, 20), GasLimit: randU64(r), Pubkey: randHex(r, 48)}
		in.Reg.Timestamp, in.Reg.Nanos, in.Reg.Zone = genRegTime(r)
		if r.Chance(1, 12) {
			in.RegMode = []string{"nil", "nilv1", "version"}[r.Intn(3)]
		}
	}
	return tags
}

// ---------------------------------------------------------------------------------------------
// Sessions: several requests made to ONE signer service instance (with ONE set of accounts).
// The standard signer keeps nothing from one request to the next, so every request of a session
// must come out as the same request made to a fresh service; what the families below are after is
// anything remembered across requests -- a signature domain kept per domain type, per epoch or per
// anything coarser than (domain type, epoch), a memo of signing roots or signatures per account or
// per slot, result or scratch buffers reused without clearing, an error remembered as a value.

const sessionEvery = 5 // every fifth generated input is a session

// genSessionChain: a duty epoch e >= 3 and a fork schedule with forks INSIDE the window of epochs
// e-2 .. e+2 that the session's requests are for.
func genSessionChain(r *Rand) (ChainDesc, uint64, string) {
	spes := []uint64{32, 32, 8, 4, 2, 1, 6}
	c := ChainDesc{SPE: spes[r.Intn(len(spes))], GenesisVersion: uint32(r.U64()), GVR: randHex(r, 32)}
	e := uint64(r.Range(3, 400))
	if r.Chance(1, 6) {
		e = uint64(r.Range(1<<20, 1<<30))
	} else if r.Chance(1, 12) {
		e = highEpoch(r, c.SPE)
	}
	ver := func() uint64 { return boundaryVersion(r) }
	style := ""
	switch k := r.Intn(20); {
	case k < 8: // a fork at every epoch of the window
		style = "forks:dense"
		for x := e - 2; x <= e+3; x++ {
			c.Forks = append(c.Forks, [2]uint64{x, ver()})
		}
	case k < 13: // one fork, in the middle of the window
		style = "forks:one-inside-window"
		c.Forks = append(c.Forks, [2]uint64{e, ver()})
	case k < 15:
		style = "forks:two-inside-window"
		c.Forks = append(c.Forks, [2]uint64{e - 1, ver()}, [2]uint64{e + 1, ver()})
	case k < 17: // several at genesis (registrations) and one inside the window
		style = "forks:at-genesis"
		c.Forks = append(c.Forks, [2]uint64{0, ver()}, [2]uint64{0, ver()}, [2]uint64{e, ver()})
	case k < 18:
		style = "forks:none"
	default:
		style = "forks:random"
		x := uint64(0)
		for i := r.Range(1, 4); i > 0; i-- {
			x += uint64(r.Intn(int(e/2 + 2)))
			c.Forks = append(c.Forks, [2]uint64{x, ver()})
		}
	}
	return c, e, style
}

// genReq: a request of the given kind for the given epoch, with a batch from the session's pool.
func genReq(r *Rand, chain ChainDesc, pool []Acc, kind string, e uint64) Req {
	q := Req{Kind: kind, Epoch: e}
	q.Slot, _ = slotIn(r, e, chain.SPE)
	q.Batch, _ = genBatch(r, pool, isSingle(kind))
	genContent(r, &q, chain, e)
	return q
}

// the kinds whose signature domain depends on the epoch (all but the builder registration)
var epochKinds = []string{"attestation", "attestations", "proposal", "randao", "slotsel", "syncsel", "aggregate", "syncroots", "contributions"}

// sameDomainKind: a kind signed with the same domain type as kind (attestation and attestations
// share DOMAIN_BEACON_ATTESTER).
func sameDomainKind(r *Rand, kind string) string {
	switch kind {
	case "attestation", "attestations":
		if r.Bool() {
			return "attestation"
		}
		return "attestations"
	}
	return kind
}

func genSession(r *Rand, i int) Input {
	chain, e, forkStyle := genSessionChain(r)
	pool, poolStyle := genPool(r)
	in := Input{Chain: chain, Pool: pool}
	if r.Chance(1, 15) {
		in.Absent = []string{[]string{"sync", "syncsel", "contrib", "builder"}[r.Intn(4)]}
	}
	lo := func() uint64 { return e - uint64(r.Range(1, 2)) } // before the fork at e
	hi := func() uint64 { return e + uint64(r.Intn(3)) }     // at or after it
	window := func() uint64 { return e - 2 + uint64(r.Intn(5)) }
	anyKind := func() string { return kinds[r.Intn(len(kinds))] }
	kind := epochKinds[i%len(epochKinds)]
	var steps []Req
	add := func(kind string, e uint64) { steps = append(steps, genReq(r, chain, pool, kind, e)) }
	shape := ""
	switch k := r.Intn(19); {
	case k >= 16: // the node fails the FIRST request for some domain, then answers (sync.Once, error remembered as a value)
		shape = "session:first-domain-request-fails"
		// the request whose domain fetch fails: a registration (GenesisDomain) one time in four
		focus := kinds[r.Intn(len(kinds))]
		if r.Chance(1, 4) {
			focus = "registration"
		}
		ef := window()
		probe := Input{Chain: chain, Req: Req{Kind: focus}}
		focusType, _ := domainKey(probe)
		otherType := func() string { // a kind signed with another domain type
			for {
				k := anyKind()
				probe.Kind = k
				if t, _ := domainKey(probe); t != focusType {
					return k
				}
			}
		}
		// 0-2 answered requests for OTHER domains first: the failing call is the first, second or third call to the node
		for j := r.Intn(3); j > 0; j-- {
			add(otherType(), window())
		}
		for j := r.Range(1, 2); j > 0; j-- {
			add(focus, ef)
			steps[len(steps)-1].DomFail = true
		}
		if r.Bool() {
			add(otherType(), window())
		}
		add(sameDomainKind(r, focus), ef) // the node answers now
		if r.Bool() {
			steps = append(steps, steps[len(steps)-1]) // and the same request once more
		}
		if r.Bool() {
			add(sameDomainKind(r, focus), window())
		}
	case k < 4: // a duty at or after a fork, then one of the same domain type before it
		shape = "session:later-epoch-first"
		add(kind, hi())
		for j := r.Intn(3); j > 0; j-- {
			add(anyKind(), window())
		}
		add(sameDomainKind(r, kind), lo())
		if r.Bool() {
			add(sameDomainKind(r, kind), hi())
		}
	case k < 6: // the ordinary direction: before the fork, then after it
		shape = "session:earlier-epoch-first"
		add(kind, lo())
		for j := r.Intn(3); j > 0; j-- {
			add(anyKind(), window())
		}
		add(sameDomainKind(r, kind), hi())
		if r.Bool() {
			add(sameDomainKind(r, kind), lo())
		}
	case k < 8: // to and fro across the fork
		shape = "session:zigzag"
		for j, m := 0, r.Range(3, 6); j < m; j++ {
			if j%2 == 0 {
				add(sameDomainKind(r, kind), hi())
			} else {
				add(sameDomainKind(r, kind), lo())
			}
		}
	case k < 9: // every step another kind, all for one epoch, then the same kinds for an earlier epoch
		shape = "session:kinds-of-one-epoch-then-an-earlier-one"
		m := r.Range(2, 3)
		p := r.Perm(len(epochKinds))[:m]
		e1, e0 := hi(), lo()
		for _, x := range p {
			add(epochKinds[x], e1)
		}
		for _, x := range p {
			add(epochKinds[x], e0)
		}
	case k < 12: // the same kind for the same slot again and again: other message, other accounts
		shape = "session:same-slot-other-content"
		first := genReq(r, chain, pool, kind, window())
		steps = append(steps, first)
		for j := r.Range(1, 3); j > 0; j-- {
			q := genReq(r, chain, pool, kind, first.Epoch)
			q.Slot = first.Slot
			if kind == "contributions" {
				for c := range q.Contribs {
					q.Contribs[c].Slot = first.Slot
				}
			}
			if r.Bool() {
				q.Batch = append([]int(nil), first.Batch...) // the same accounts, another message
				q.Idxs, q.Contribs = nil, nil
				genContent(r, &q, chain, first.Epoch)
				if kind == "contributions" {
					for c := range q.Contribs {
						q.Contribs[c].Slot = first.Slot
					}
				}
			}
			steps = append(steps, q)
		}
		if r.Bool() { // and the very first request once more
			steps = append(steps, first)
		}
	case k < 13: // registrations (genesis domain) among duties of the same accounts
		shape = "session:registrations-among-duties"
		for j, m := 0, r.Range(3, 5); j < m; j++ {
			if j%2 == 1 {
				add("registration", window())
			} else {
				add(anyKind(), window())
			}
		}
	default:
		shape = "session:random"
		for j, m := 0, r.Range(2, 6); j < m; j++ {
			add(anyKind(), window())
		}
	}
	// the node does not answer the first requests of the session, then it does (never the other
	// way round: a service that remembers a domain it did obtain is not what is looked for here)
	nodeDown := r.Chance(1, 8)
	if nodeDown {
		shape += "+node-down-at-first"
		m := r.Range(1, len(steps)-1)
		for j := 0; j < m; j++ {
			steps[j].DomFail = true
		}
		// one of the requests that went unanswered is made again at the end
		retry := steps[r.Intn(m)]
		retry.DomFail = false
		steps = append(steps, retry)
	}
	in.Req, in.Then = steps[0], steps[1:]
	in.Tags = []string{forkStyle, poolStyle, shape}
	// requests made at once have no order: no node failures among them (see above)
	anyFail := false
	for _, q := range steps {
		anyFail = anyFail || q.DomFail
	}
	if r.Chance(1, 6) && !anyFail {
		in.Concurrent = true
	}
	return in
}

// the domain type a request is signed with, and the epoch whose fork it is to be signed for
func domainKey(in Input) (string, uint64) {
	spe := max(in.Chain.SPE, 1)
	switch in.Kind {
	case "attestation", "attestations":
		return "attester", in.Slot / spe
	case "syncroots":
		return in.Kind, in.Epoch
	case "contributions":
		if len(in.Contribs) > 0 {
			return in.Kind, in.Contribs[0].Slot / spe
		}
	}
	return in.Kind, in.Slot / spe
}

// sessionTags are the families of the k-th request of a session that depend on the requests made
// before it (computed from the input, also for corpus and replay inputs).
func sessionTags(in Input, k int) []string {
	if len(in.Then) == 0 {
		return nil
	}
	tags := []string{"session"}
	if in.Concurrent {
		tags = append(tags, "session:concurrent")
	}
	if k == 0 {
		return append(tags, "session:first-request")
	}
	tags = append(tags, "session:later-request")
	v := in.view(k)
	dt, e := domainKey(v)
	seen := map[string]bool{}
	note := func(t string) {
		if !seen[t] {
			seen[t] = true
			tags = append(tags, t)
		}
	}
	for j := 0; j < k; j++ {
		w := in.view(j)
		dtj, ej := domainKey(w)
		if dt == "registration" || dtj == "registration" {
			if dt != dtj {
				note("session:after-other-domain-type")
			} else {
				note("session:after-same-domain-type-same-epoch")
			}
			continue
		}
		fork := in.Chain.versionAt(e) != in.Chain.versionAt(ej)
		switch {
		case dt == dtj && ej > e && fork:
			note("session:after-same-domain-type-of-later-epoch-across-fork")
		case dt == dtj && ej < e && fork:
			note("session:after-same-domain-type-of-earlier-epoch-across-fork")
		case dt == dtj && ej == e:
			note("session:after-same-domain-type-same-epoch")
			if w.Kind == v.Kind && w.Slot == v.Slot {
				note("session:after-same-kind-same-slot")
			}
		case dt == dtj:
			note("session:after-same-domain-type-other-epoch-same-fork")
		case ej == e:
			note("session:after-other-domain-type-same-epoch")
		default:
			note("session:after-other-domain-type")
		}
		if w.DomFail && !v.DomFail {
			note("session:after-node-down")
		}
	}
	return tags
}

// derivedTags are input families computed from the input itself (also for corpus and replay inputs).
func derivedTags(in Input) []string {
	var tags []string
	spe := in.Chain.SPE
	if spe > 0 && in.Slot%spe == spe-1 {
		tags = append(tags, "last-slot-of-epoch")
	}
	e := in.Slot / max(spe, 1)
	if in.Kind == "syncroots" {
		e = in.Epoch
	}
	if in.Chain.versionAt(e) != in.Chain.versionAt(e+1) {
		tags = append(tags, "fork-at-next-epoch")
	}
	if e > 0 && in.Chain.versionAt(e) != in.Chain.versionAt(e-1) {
		tags = append(tags, "fork-at-duty-epoch")
	}
	nd, no := 0, 0
	for _, p := range in.Batch {
		if in.Pool[p].Dist {
			nd++
		} else {
			no++
		}
	}
	switch {
	case nd > 0 && no > 0:
		tags = append(tags, "mixed-kinds")
	case nd > 0:
		tags = append(tags, "distributed-only")
	case no > 0:
		tags = append(tags, "individual-only")
	}
	if in.Kind == "contributions" && len(in.Contribs) > 0 {
		e0 := in.Contribs[0].Slot / max(spe, 1)
		for _, c := range in.Contribs[1:] {
			if c.Slot/max(spe, 1) != e0 {
				tags = append(tags, "contributions-of-several-epochs")
				break
			}
		}
	}
	return tags
}

// ---------------------------------------------------------------------------------------------
// Partial failures of the remote signer.  A batch call that has no signature for ONE member (nil
// entry or an all-zero signature object) although that account signs when asked alone; a batch
// call that fails as a whole; a single-signature call that fails for an account a batch would sign
// for.  The service passes a missing signature on as the zero signature and fails the request on
// an error; what the family is after is anything DONE ABOUT such a failure (a retry of the member
// on its own, a fall-back from the batch call to a loop, a second batch of the left-overs, dropping
// or compacting entries) that gets the position, the committee / subcommittee index, the root or
// the account of the repaired entry wrong: the repaired signature is non-zero, sits at some position
// of the result and must verify against the message of THAT position.  So: mixed batches in which
// ordinary accounts precede the distributed ones (the sub-batch position of a member differs from
// its request position), a different index / root at every position, victims anywhere in their
// sub-batch, and sessions in which the same batch is asked for again after the failure has gone.

const partialEvery = 6 // every sixth generated input (that is not a session) is of this family

var batchKinds = []string{"attestations", "syncsel", "contributions", "attestations", "slotsel", "syncroots"}

func genPartialPool(r *Rand) ([]Acc, string) {
	n := r.Range(3, 7)
	pool := make([]Acc, n)
	style := ""
	pick := func(names ...string) Acc { return profiles[names[r.Intn(len(names))]] }
	switch k := r.Intn(8); {
	case k < 4: // a dirk account manager: plain and distributed remote accounts
		style = "pool:dirk"
		for i := range pool {
			if i%2 == 0 {
				pool[i] = profiles["dirk"]
			} else {
				pool[i] = profiles["dirk-dist"]
			}
		}
	case k < 5:
		style = "pool:dist-only"
		for i := range pool {
			pool[i] = profiles["dirk-dist"]
		}
	case k < 6:
		style = "pool:dirk-plain-only"
		for i := range pool {
			pool[i] = profiles["dirk"]
		}
	default: // wallet / remote accounts before distributed remote ones
		style = "pool:mixed-profiles"
		for i := range pool {
			if i%2 == 0 {
				pool[i] = pick("wallet", "dirk", "all", "prot-signer")
			} else {
				pool[i] = pick("dirk-dist", "all-dist", "dirk-dist", "local-dist")
			}
		}
	}
	for i := range pool {
		pool[i].Key = uint64(i + 1)
	}
	if r.Chance(1, 10) {
		pool[r.Intn(n)].Fail = true
	}
	return pool, style
}

// genPartialBatch: every pool account at most once, in an order in which ordinary accounts come
// before distributed ones more often than not.
func genPartialBatch(r *Rand, pool []Acc) ([]int, string) {
	var dist, ord []int
	for _, i := range r.Perm(len(pool)) {
		if pool[i].Dist {
			dist = append(dist, i)
		} else {
			ord = append(ord, i)
		}
	}
	switch k := r.Intn(8); {
	case k < 3 && len(ord) > 0 && len(dist) > 0:
		return append(append([]int{}, ord[:r.Range(1, len(ord))]...), dist...), "batch:ordinary-first"
	case k < 5 && len(ord) > 0 && len(dist) > 0:
		var b []int
		for j := 0; j < len(ord) || j < len(dist); j++ {
			if j < len(ord) {
				b = append(b, ord[j])
			}
			if j < len(dist) {
				b = append(b, dist[j])
			}
		}
		return b, "batch:alternating-kinds"
	case k < 6 && len(ord) > 0 && len(dist) > 0:
		return append(append([]int{}, dist...), ord...), "batch:distributed-first"
	default:
		return r.Perm(len(pool)), "batch:permutation"
	}
}

// genPartialSingle: a single-signature request (or a batch of accounts signed for one by one) in
// which the account's signer fails the call -- every call of the request, or only the first one --
// then the same request again when the failure has gone.
func genPartialSingle(r *Rand, i int) Input {
	chain, e, forkStyle := genChain(r)
	names := []string{"all", "prot-signer", "wallet", "dirk", "all-dist", "local-dist", "prot-only"}
	pool := make([]Acc, r.Range(1, 4))
	for j := range pool {
		pool[j] = profiles[names[r.Intn(len(names))]]
		pool[j].Key = uint64(j + 1)
	}
	kind := kinds[i%len(kinds)]
	if !isSingle(kind) { // batches signed for one by one: wallet accounts, local distributed ones
		for j := range pool {
			pool[j] = profiles[[]string{"wallet", "local-dist", "prot-signer"}[r.Intn(3)]]
			pool[j].Key = uint64(j + 1)
		}
	}
	in := Input{Chain: chain, Pool: pool}
	q := genReq(r, chain, pool, kind, e)
	if len(q.Batch) == 0 {
		q.Batch = []int{0}
		q.Idxs, q.Contribs = nil, nil
		genContent(r, &q, chain, e)
	}
	victim := pool[q.Batch[r.Intn(len(q.Batch))]].Key
	failure := "partial:single-fails"
	if r.Bool() {
		failure = "partial:single-fails-first-call-only"
		q.SingleOnce = []uint64{victim}
	} else {
		q.SingleFail = []uint64{victim}
	}
	clean := q
	clean.SingleFail, clean.SingleOnce = nil, nil
	steps := []Req{q}
	if r.Bool() {
		steps = append(steps, clean)
	}
	in.Req, in.Then = steps[0], steps[1:]
	in.Tags = []string{"partial-failure", forkStyle, "pool:mixed-profiles", failure, "partial:single-signature-paths"}
	return in
}

func genPartial(r *Rand, i int) Input {
	if i%7 == 3 {
		return genPartialSingle(r, i/7)
	}
	chain, e, forkStyle := genChain(r)
	pool, poolStyle := genPartialPool(r)
	in := Input{Chain: chain, Pool: pool}
	kind := batchKinds[i%len(batchKinds)]
	q := Req{Kind: kind, Epoch: e}
	q.Slot, _ = slotIn(r, e, chain.SPE)
	batchStyle := ""
	q.Batch, batchStyle = genPartialBatch(r, pool)
	genContent(r, &q, chain, e)
	// one message per position, all different
	switch kind {
	case "attestations", "syncsel":
		base := uint64(r.Intn(40))
		q.Idxs = make([]uint64, len(q.Batch))
		for j, p := range r.Perm(len(q.Batch)) {
			q.Idxs[j] = base + uint64(p)
		}
	case "contributions":
		q.Contribs = q.Contribs[:min(len(q.Contribs), len(q.Batch))]
		for j := range q.Contribs {
			q.Contribs[j].Slot = q.Slot
			q.Contribs[j].Sub = uint64(j)
		}
	}
	keyAt := func(j int) uint64 { return pool[q.Batch[j]].Key }
	// the members the batch calls have no signature for: one, sometimes two; distributed ones that
	// are not at the head of the request more often than not
	var cands []int
	for j, p := range q.Batch {
		if pool[p].Multi || r.Chance(1, 4) {
			cands = append(cands, j)
			if pool[p].Dist && j > 0 {
				cands = append(cands, j, j, j)
			}
		}
	}
	if len(cands) == 0 {
		cands = []int{r.Intn(len(q.Batch))}
	}
	failure := ""
	// the account a batch call is made on: the first of its kind in the request
	firstOf := func(dist bool) (uint64, bool) {
		for j, p := range q.Batch {
			if pool[p].Dist == dist {
				return keyAt(j), pool[p].Multi
			}
		}
		return 0, false
	}
	callFailsOn := func() uint64 {
		d, dm := firstOf(true)
		o, om := firstOf(false)
		switch x := r.Intn(10); {
		case x < 5 && dm:
			return d // the ordinary accounts have been signed for when the call for the distributed ones fails
		case x < 9 && om:
			return o
		case dm:
			return d
		case om:
			return o
		}
		return keyAt(r.Intn(len(q.Batch)))
	}
	switch k := r.Intn(13); {
	case k < 5:
		failure = "partial:batch-nil-entry"
		q.BatchFail = []uint64{keyAt(cands[r.Intn(len(cands))])}
		if r.Chance(1, 4) {
			if k2 := keyAt(cands[r.Intn(len(cands))]); k2 != q.BatchFail[0] {
				q.BatchFail = append(q.BatchFail, k2)
			}
		}
		if r.Chance(1, 3) { // only the first batch call leaves it out
			failure = "partial:batch-nil-entry-first-call-only"
			q.BatchOnce, q.BatchFail = q.BatchFail, nil
		}
	case k < 7:
		failure = "partial:batch-zero-entry"
		q.BatchZero = []uint64{keyAt(cands[r.Intn(len(cands))])}
	case k < 8: // the member cannot be signed for alone either
		failure = "partial:batch-nil-entry+single-fails"
		v := keyAt(cands[r.Intn(len(cands))])
		q.BatchFail, q.SingleFail = []uint64{v}, []uint64{v}
	case k < 11: // the batch call itself fails
		failure = "partial:batch-call-fails"
		q.BatchErr = []uint64{callFailsOn()}
	case k < 12:
		failure = "partial:single-fails"
		q.SingleFail = []uint64{keyAt(r.Intn(len(q.Batch)))}
	default: // a nil entry for one member and the call failing on another account
		failure = "partial:batch-nil-entry+other-call-fails"
		q.BatchFail = []uint64{keyAt(cands[r.Intn(len(cands))])}
		q.BatchErr = []uint64{callFailsOn()}
	}
	shape := "partial:one-request"
	steps := []Req{q}
	clean := q
	clean.BatchFail, clean.BatchOnce, clean.BatchZero, clean.BatchErr, clean.SingleFail, clean.SingleOnce = nil, nil, nil, nil, nil, nil
	switch r.Intn(6) {
	case 0: // the same batch asked for again when the failure has gone, and the failure once more
		shape = "partial:failure-then-clean-then-failure"
		steps = append(steps, clean, q)
	case 1:
		shape = "partial:clean-then-failure"
		steps = []Req{clean, q}
	case 2: // the failure moves to another member
		shape = "partial:failure-moves"
		q2 := q
		if len(q2.missKeys()) > 0 {
			q2.BatchFail, q2.BatchOnce, q2.BatchZero = []uint64{keyAt(r.Intn(len(q.Batch)))}, nil, nil
		}
		steps = append(steps, q2, clean)
	}
	in.Req, in.Then = steps[0], steps[1:]
	in.Tags = []string{"partial-failure", forkStyle, poolStyle, batchStyle, failure, shape}
	return in
}

// partialTags: families of a request with scripted transient failures, computed from the input.
func partialTags(in Input) []string {
	var tags []string
	if len(in.missKeys())+len(in.BatchErr)+len(in.SingleFail)+len(in.SingleOnce) == 0 {
		return nil
	}
	tags = append(tags, "transient-signer-failure")
	miss := map[uint64]bool{}
	for _, k := range in.missKeys() {
		miss[k] = true
	}
	// a member left out by the batch call whose position in its sub-batch differs from its position
	// in the request, the message at the two positions being different
	nd, no := 0, 0
	for j, p := range in.Batch {
		a := in.Pool[p]
		sub := no
		if a.Dist {
			sub = nd
		}
		if miss[a.Key] && !a.Fail {
			tags = append(tags, "batch-leaves-out-a-member")
			if sub != j {
				tags = append(tags, "left-out-member-at-other-sub-batch-position")
				differs := true
				switch in.Kind {
				case "attestations", "syncsel":
					differs = j < len(in.Idxs) && sub < len(in.Idxs) && in.Idxs[j] != in.Idxs[sub]
				case "slotsel", "syncroots":
					differs = false
				}
				if differs {
					tags = append(tags, "left-out-member-other-message-at-sub-batch-position")
				}
			}
		}
		if a.Dist {
			nd++
		} else {
			no++
		}
	}
	return tags
}
