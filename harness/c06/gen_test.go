package c06

import (
	"encoding/hex"

	. "verifharness/common"
)

func randHex(r *Rand, n int) string {
	b := make([]byte, n)
	switch r.Intn(12) {
	case 0: // all zero
	case 1: // small number in the last byte
		b[n-1] = byte(r.Range(1, 255))
	case 2: // leading byte only (exercises the high end of the chunk)
		b[0] = byte(r.Range(1, 255))
	case 3:
		for i := range b {
			b[i] = 0xff
		}
	default:
		for i := 0; i < n; i += 8 {
			x := r.U64()
			for j := 0; j < 8 && i+j < n; j++ {
				b[i+j] = byte(x >> (8 * j))
			}
		}
	}
	return hex.EncodeToString(b)
}

func randU64(r *Rand) uint64 {
	switch r.Intn(6) {
	case 0:
		return 0
	case 1:
		return uint64(r.Intn(64))
	case 2:
		return r.U64() // full range
	default:
		return uint64(r.Intn(1 << 20))
	}
}

var profiles = map[string]Acc{
	"wallet":      {Signer: true},
	"dirk":        {Prot: true, Multi: true},
	"dirk-dist":   {Prot: true, Multi: true, Dist: true},
	"local-dist":  {Signer: true, Dist: true},
	"prot-signer": {Signer: true, Prot: true},
	"prot-only":   {Prot: true},
	"all":         {Signer: true, Prot: true, Multi: true},
	"all-dist":    {Signer: true, Prot: true, Multi: true, Dist: true},
}

var profileNames = []string{"wallet", "dirk", "dirk-dist", "local-dist", "prot-signer", "prot-only", "all", "all-dist"}

func genPool(r *Rand) ([]Acc, string) {
	n := r.Range(1, 6)
	pool := make([]Acc, n)
	style := ""
	switch k := r.Intn(10); {
	case k < 2: // what a wallet account manager holds
		style = "pool:wallet"
		for i := range pool {
			pool[i] = profiles["wallet"]
		}
	case k < 4: // what a dirk account manager holds: plain and distributed remote accounts
		style = "pool:dirk"
		for i := range pool {
			if r.Bool() {
				pool[i] = profiles["dirk"]
			} else {
				pool[i] = profiles["dirk-dist"]
			}
		}
	case k < 5:
		style = "pool:dirk-plain-only"
		for i := range pool {
			pool[i] = profiles["dirk"]
		}
	case k < 6:
		style = "pool:dist-only"
		for i := range pool {
			pool[i] = profiles["dirk-dist"]
		}
	case k < 9:
		style = "pool:mixed-profiles"
		for i := range pool {
			pool[i] = profiles[profileNames[r.Intn(len(profileNames))]]
		}
	default:
		style = "pool:arbitrary-interfaces"
		for i := range pool {
			pool[i] = Acc{Signer: r.Bool(), Prot: r.Bool(), Multi: r.Bool(), Dist: r.Bool()}
		}
	}
	for i := range pool {
		pool[i].Key = uint64(i + 1)
		if r.Chance(1, 12) {
			pool[i].Fail = true
		}
	}
	return pool, style
}

func genBatch(r *Rand, pool []Acc, single bool) ([]int, string) {
	if single {
		return []int{r.Intn(len(pool))}, "batch:single"
	}
	if r.Chance(1, 30) {
		return []int{}, "batch:empty"
	}
	var dist, ord []int
	for i, a := range pool {
		if a.Dist {
			dist = append(dist, i)
		} else {
			ord = append(ord, i)
		}
	}
	n := r.Range(1, 8)
	batch := make([]int, 0, n)
	style := "batch:random-order"
	switch k := r.Intn(6); {
	case k == 0 && len(dist) > 0 && len(ord) > 0: // alternating kinds
		style = "batch:alternating-kinds"
		for i := 0; i < n; i++ {
			if i%2 == 0 {
				batch = append(batch, dist[r.Intn(len(dist))])
			} else {
				batch = append(batch, ord[r.Intn(len(ord))])
			}
		}
	case k == 1 && len(dist) > 0 && len(ord) > 0: // all distributed first, then the others
		style = "batch:distributed-first"
		h := r.Range(1, n)
		for i := 0; i < n; i++ {
			if i < h {
				batch = append(batch, dist[r.Intn(len(dist))])
			} else {
				batch = append(batch, ord[r.Intn(len(ord))])
			}
		}
	case k == 2: // every pool account once, shuffled
		style = "batch:permutation"
		batch = r.Perm(len(pool))
	default:
		for i := 0; i < n; i++ {
			batch = append(batch, r.Intn(len(pool)))
		}
	}
	return batch, style
}

// genChain picks the duty epoch and a fork schedule around it.
func genChain(r *Rand) (ChainDesc, uint64, string) {
	spes := []uint64{32, 32, 32, 8, 4, 2, 1, 6}
	c := ChainDesc{SPE: spes[r.Intn(len(spes))], GenesisVersion: uint32(r.U64()), GVR: randHex(r, 32)}
	var e uint64
	switch r.Intn(5) {
	case 0:
		e = uint64(r.Intn(3))
	case 1:
		e = uint64(r.Intn(1 << 30))
	default:
		e = uint64(r.Range(2, 500))
	}
	ver := func() uint64 { return uint64(uint32(r.U64())) }
	style := ""
	switch k := r.Intn(10); {
	case k < 5: // a fork at every epoch around the duty: any epoch mistake changes the domain
		style = "forks:dense"
		lo := uint64(0)
		if e > 2 {
			lo = e - 2
		}
		for x := lo; x <= e+3; x++ {
			c.Forks = append(c.Forks, [2]uint64{x, ver()})
		}
	case k < 6 && r.Bool():
		style = "forks:at-duty-epoch"
		if e > 3 && r.Bool() {
			c.Forks = append(c.Forks, [2]uint64{e - 3, ver()})
		}
		c.Forks = append(c.Forks, [2]uint64{e, ver()})
	case k < 6:
		style = "forks:at-next-epoch"
		c.Forks = append(c.Forks, [2]uint64{e + 1, ver()})
	case k < 7:
		style = "forks:none"
	case k < 8: // several forks at genesis (GenesisDomain is the first, Domain(0) the last)
		style = "forks:at-genesis"
		c.Forks = append(c.Forks, [2]uint64{0, ver()}, [2]uint64{0, ver()})
		if r.Bool() {
			c.Forks = append(c.Forks, [2]uint64{e + 1, ver()})
		}
	default:
		style = "forks:random"
		x := uint64(0)
		for i := r.Range(1, 4); i > 0; i-- {
			x += uint64(r.Intn(int(e/2 + 2)))
			c.Forks = append(c.Forks, [2]uint64{x, ver()})
		}
	}
	return c, e, style
}

func slotIn(r *Rand, e, spe uint64) (uint64, string) {
	switch r.Intn(6) {
	case 0, 1:
		return e*spe + spe - 1, "slot:last-of-epoch"
	case 2:
		return e * spe, "slot:first-of-epoch"
	default:
		return e*spe + uint64(r.Intn(int(spe))), "slot:inside-epoch"
	}
}

func gen(r *Rand, i int) Input {
	chain, e, forkStyle := genChain(r)
	in := Input{Chain: chain, Kind: kinds[i%len(kinds)]}
	if r.Chance(1, 8) {
		in.Kind = kinds[r.Intn(len(kinds))]
	}
	slot, slotStyle := slotIn(r, e, chain.SPE)
	in.Slot = slot
	in.Epoch = e
	single := map[string]bool{"attestation": true, "proposal": true, "randao": true, "aggregate": true, "registration": true}[in.Kind]
	pool, poolStyle := genPool(r)
	in.Pool = pool
	batch, batchStyle := genBatch(r, pool, single)
	in.Batch = batch
	in.Tags = []string{forkStyle, slotStyle, poolStyle, batchStyle}
	if r.Chance(1, 15) {
		in.Absent = []string{[]string{"sync", "syncsel", "contrib", "builder"}[r.Intn(4)]}
	}
	if r.Chance(1, 30) {
		in.DomFail = true
	}
	n := len(batch)
	switch in.Kind {
	case "attestation", "attestations":
		in.BlockRoot, in.SourceRoot, in.TargetRoot = randHex(r, 32), randHex(r, 32), randHex(r, 32)
		in.TargetEpoch = e // the attester only signs data whose target epoch is the duty's (C01)
		in.SourceEpoch = e - min(e, uint64(r.Intn(3)))
		if in.Kind == "attestation" {
			in.Idxs = []uint64{randU64(r)}
		} else {
			m := n
			if r.Chance(1, 25) {
				m = n + 1
				in.Tags = append(in.Tags, "indices:one-more")
			} else if n > 0 && r.Chance(1, 40) {
				m = n - 1
				in.Tags = append(in.Tags, "indices:one-fewer")
			}
			for j := 0; j < m; j++ {
				if r.Chance(1, 4) {
					in.Idxs = append(in.Idxs, randU64(r))
				} else {
					in.Idxs = append(in.Idxs, uint64(r.Intn(64)))
				}
			}
		}
	case "proposal":
		in.Proposer = randU64(r)
		in.ParentRoot, in.StateRoot, in.BodyRoot = randHex(r, 32), randHex(r, 32), randHex(r, 32)
	case "syncsel":
		m := n
		if r.Chance(1, 25) {
			m = n + 1
			in.Tags = append(in.Tags, "indices:one-more")
		} else if n > 0 && r.Chance(1, 40) {
			m = n - 1
			in.Tags = append(in.Tags, "indices:one-fewer")
		}
		for j := 0; j < m; j++ {
			in.Idxs = append(in.Idxs, uint64(r.Intn(4)))
		}
	case "aggregate", "syncroots":
		in.Root = randHex(r, 32)
	case "contributions":
		m := n
		if r.Chance(1, 25) {
			m = n + 1
			in.Tags = append(in.Tags, "contributions:count-mismatch")
		}
		bbr := randHex(r, 32)
		mixed := r.Chance(1, 6)
		for j := 0; j < m; j++ {
			c := Contrib{Aggregator: randU64(r), Slot: slot, BlockRoot: bbr, Sub: uint64(r.Intn(4)), Bits: randHex(r, 16), Signature: randHex(r, 96), Proof: randHex(r, 96)}
			if mixed && j > 0 {
				// a contribution of another slot, often across the epoch boundary
				switch r.Intn(3) {
				case 0:
					c.Slot = slot + 1
				case 1:
					c.Slot = slot + chain.SPE
				default:
					if slot >= chain.SPE {
						c.Slot = slot - chain.SPE
					}
				}
			}
			in.Contribs = append(in.Contribs, c)
		}
	case "registration":
		in.Reg = &Reg{FeeRecipient: randHex(r, 20), GasLimit: randU64(r), Timestamp: uint64(r.Intn(1 << 40)), Pubkey: randHex(r, 48)}
		if r.Chance(1, 12) {
			in.RegMode = []string{"nil", "nilv1", "version"}[r.Intn(3)]
		}
	}
	return in
}

// derivedTags are input families computed from the input itself (also for corpus and replay inputs).
func derivedTags(in Input) []string {
	var tags []string
	spe := in.Chain.SPE
	if spe > 0 && in.Slot%spe == spe-1 {
		tags = append(tags, "last-slot-of-epoch")
	}
	e := in.Slot / max(spe, 1)
	if in.Kind == "syncroots" {
		e = in.Epoch
	}
	if in.Chain.versionAt(e) != in.Chain.versionAt(e+1) {
		tags = append(tags, "fork-at-next-epoch")
	}
	if e > 0 && in.Chain.versionAt(e) != in.Chain.versionAt(e-1) {
		tags = append(tags, "fork-at-duty-epoch")
	}
	nd, no := 0, 0
	for _, p := range in.Batch {
		if in.Pool[p].Dist {
			nd++
		} else {
			no++
		}
	}
	switch {
	case nd > 0 && no > 0:
		tags = append(tags, "mixed-kinds")
	case nd > 0:
		tags = append(tags, "distributed-only")
	case no > 0:
		tags = append(tags, "individual-only")
	}
	if in.Kind == "contributions" && len(in.Contribs) > 0 {
		e0 := in.Contribs[0].Slot / max(spe, 1)
		for _, c := range in.Contribs[1:] {
			if c.Slot/max(spe, 1) != e0 {
				tags = append(tags, "contributions-of-several-epochs")
				break
			}
		}
	}
	return tags
}
