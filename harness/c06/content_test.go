package c06

// Unusual-but-legal message contents.  The signer must sign the message it was handed, whatever its
// field values: nothing may be "normalised", rounded, clamped, defaulted or converted through a
// narrower (or a floating-point, or a signed) type between the request and the hash tree root.  The
// families here put every field of every signed object at the values where such a step shows:
// zero, one, the 32/53/63/64-bit boundaries, all-zero and all-ones byte strings, and for the one
// field that is not an integer or a byte string -- the registration's time.Time -- every part of
// the value that the message does NOT carry (the sub-second part on either side of half a second,
// the location) next to unusual whole seconds (0, the 31/32-bit boundaries, the year 9999, the
// largest int64, instants before 1970, the zero time.Time).

import (
	"math"
	"strings"

	. "verifharness/common"
)

var boundaryU64 = []uint64{
	math.MaxUint64, math.MaxUint64 - 1, 1 << 63, 1<<63 - 1, 1<<63 + 1, 1 << 32, 1<<32 - 1, 1<<32 + 1,
	1 << 53, 1<<53 + 1, 1<<31 - 1, 1 << 31, 1, 1<<16 - 1, 1 << 16, 255, 256,
}

func boundary(r *Rand) uint64 { return boundaryU64[r.Intn(len(boundaryU64))] }

// the sub-second parts that tell truncation from rounding (and from anything coarser)
var boundaryNanos = []uint64{0, 1, 499999999, 500000000, 500000001, 999999999, 999999000, 999000000, 500000, 1000}

// whole seconds of a registration's timestamp
var boundarySeconds = []int64{
	0, 1, 1<<31 - 1, 1 << 31, 1<<32 - 1, 1 << 32,
	253402300799, 253402300800, // the last second of the year 9999 and the next
	9223372036, 9223372037, // either side of the largest instant that fits int64 nanoseconds
	1 << 53, 1 << 62, math.MaxInt64 - 1, math.MaxInt64,
}

// instants before 1970: Unix() is negative, the message has uint64(Unix())
var negativeSeconds = []int64{-62135596800 /* the zero time.Time */, -1, -62135596801, -(1 << 31), -9223372037}

var zones = []int{3600, -18000, 19800, 20700, -34200, 50400, -43200, 1, -1, 86399, -86399, 1800}

func genRegTime(r *Rand) (sec int64, ns uint64, zone int) {
	switch k := r.Intn(24); {
	case k < 8: // about now
		sec = int64(r.Range(1600000000, 1900000000))
	case k < 14:
		sec = int64(r.Intn(1 << 40))
	case k < 16:
		sec = 0
	case k < 21:
		sec = boundarySeconds[r.Intn(len(boundarySeconds))]
	case k < 22:
		sec = int64(r.U64() >> 1)
	default:
		sec = negativeSeconds[r.Intn(len(negativeSeconds))]
	}
	switch k := r.Intn(10); {
	case k < 2:
		ns = 0
	case k < 6:
		ns = boundaryNanos[r.Intn(len(boundaryNanos))]
	case k < 8: // the upper half of the second
		ns = uint64(r.Range(500000000, 999999999))
	default:
		ns = uint64(r.Intn(1000000000))
	}
	if r.Chance(2, 5) {
		zone = zones[r.Intn(len(zones))]
	}
	return sec, ns, zone
}

func fill(n int, b byte) string { return strings.Repeat(map[byte]string{0: "00", 0xff: "ff"}[b], n) }

// extremeContent sets every content field of the request (not the slot or the epochs that decide
// the domain, not the accounts) to zero or to the largest value of its type.
func extremeContent(q *Req, max bool) {
	u, b := uint64(0), byte(0)
	if max {
		u, b = math.MaxUint64, 0xff
	}
	for i := range q.Idxs {
		q.Idxs[i] = u
	}
	switch q.Kind {
	case "attestation", "attestations":
		q.BlockRoot, q.SourceRoot, q.TargetRoot = fill(32, b), fill(32, b), fill(32, b)
		if !max {
			q.SourceEpoch = 0
		} else {
			q.SourceEpoch = q.TargetEpoch
		}
	case "proposal":
		q.Proposer = u
		q.ParentRoot, q.StateRoot, q.BodyRoot = fill(32, b), fill(32, b), fill(32, b)
	case "aggregate", "syncroots":
		q.Root = fill(32, b)
	case "contributions":
		for i := range q.Contribs {
			c := &q.Contribs[i]
			c.Aggregator, c.Sub = u, u
			c.BlockRoot, c.Bits, c.Signature, c.Proof = fill(32, b), fill(16, b), fill(96, b), fill(96, b)
		}
	case "registration":
		if q.Reg != nil {
			q.Reg.FeeRecipient, q.Reg.Pubkey, q.Reg.GasLimit = fill(20, b), fill(48, b), u
			if max {
				q.Reg.Timestamp, q.Reg.Nanos = math.MaxInt64, 999999999
			} else {
				q.Reg.Timestamp, q.Reg.Nanos, q.Reg.Zone = 0, 0, 0
			}
		}
	}
}

// contentTags: families of unusual message contents, computed from the input.
func contentTags(in Input) []string {
	var tags []string
	if in.Kind == "registration" && in.Reg != nil && in.RegMode == "" {
		g := in.Reg
		switch {
		case g.Nanos == 0:
			tags = append(tags, "registration:whole-second")
		case g.Nanos < 500000000:
			tags = append(tags, "registration:sub-second-part-below-half")
		default:
			tags = append(tags, "registration:sub-second-part-half-or-more")
		}
		if g.Zone != 0 {
			tags = append(tags, "registration:time-not-in-utc")
		}
		switch {
		case g.Timestamp < 0:
			tags = append(tags, "registration:time-before-1970")
		case g.Timestamp == 0:
			tags = append(tags, "registration:time-zero-seconds")
		case g.Timestamp > 9223372036:
			tags = append(tags, "registration:time-beyond-int64-nanoseconds")
		case g.Timestamp >= 1<<31:
			tags = append(tags, "registration:time-beyond-31-bits")
		}
		if g.GasLimit == 0 {
			tags = append(tags, "registration:zero-gas-limit")
		}
	}
	big := false
	for _, x := range append(append([]uint64{}, in.Idxs...), in.Proposer) {
		big = big || x >= 1<<63
	}
	for _, c := range in.Contribs {
		big = big || c.Aggregator >= 1<<63 || c.Sub >= 1<<63
	}
	if in.Reg != nil {
		big = big || in.Reg.GasLimit >= 1<<63
	}
	if big {
		tags = append(tags, "content:field-above-2^63")
	}
	slot := in.Slot
	if in.Kind == "syncroots" {
		slot = in.Epoch
	}
	switch {
	case slot >= 1<<63:
		tags = append(tags, "slot:above-2^63")
	case slot >= 1<<53:
		tags = append(tags, "slot:above-2^53")
	case slot >= 1<<32:
		tags = append(tags, "slot:above-2^32")
	}
	return tags
}

// highEpoch: an epoch whose slots are beyond what a float64 or an int64 holds exactly, with room
// for the fork schedule and the session window around it.
func highEpoch(r *Rand, spe uint64) uint64 {
	top := math.MaxUint64/spe - 8
	switch r.Intn(4) {
	case 0:
		return top - uint64(r.Intn(100))
	case 1:
		return (1<<63)/spe + uint64(r.Intn(1000))
	case 2:
		return (1<<53)/spe + 1 + uint64(r.Intn(1000))
	default:
		return (1<<53)/spe + 1 + r.U64()%(top-(1<<53)/spe-1)
	}
}

// boundaryVersion: fork versions at the ends of their range now and then.
func boundaryVersion(r *Rand) uint64 {
	switch r.Intn(12) {
	case 0:
		return 0
	case 1:
		return 0xffffffff
	case 2:
		return uint64(1) << uint(r.Intn(32))
	}
	return uint64(uint32(r.U64()))
}
