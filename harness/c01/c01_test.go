// C01: drives the real services/attester/standard.Service through histories of Attest calls
// (sequential and overlapping, repeated / re-assigned / stale duties, every failure kind, attestation
// data with each field off by one) and prints each history with the observed signer and submitter
// calls as a Gallina case for Check.C01.
package c01

import (
	"fmt"
	"os"
	"sort"
	"testing"

	. "verifharness/attenv"
	. "verifharness/common"
)

func pick(r *Rand, xs []uint64) uint64 { return xs[r.Intn(len(xs))] }

// subset returns each element with probability num/den, at least one element.
func subset(r *Rand, xs []uint64, num, den int) []uint64 {
	var out []uint64
	for _, x := range xs {
		if r.Chance(num, den) {
			out = append(out, x)
		}
	}
	if len(out) == 0 {
		out = append(out, pick(r, xs))
	}
	return out
}

func shuffle(r *Rand, xs []uint64) []uint64 {
	out := make([]uint64, len(xs))
	for i, j := range r.Perm(len(xs)) {
		out[i] = xs[j]
	}
	return out
}

// sorted: the elements in ascending order, each once (an account map has no validator twice)
func sorted(xs []uint64) []uint64 {
	out := append([]uint64{}, xs...)
	sort.Slice(out, func(i, j int) bool { return out[i] < out[j] })
	uniq := out[:0]
	for i, x := range out {
		if i == 0 || x != out[i-1] {
			uniq = append(uniq, x)
		}
	}
	return uniq
}

func genDuty(r *Rand, spe, epoch uint64, pool []uint64) Duty {
	d := Duty{Slot: epoch*spe + uint64(r.Intn(int(spe)))}
	ncomm := r.Range(1, 3)
	used := map[uint64]bool{}
	var comms []uint64
	for len(comms) < ncomm {
		c := uint64(r.Intn(6))
		if !used[c] {
			used[c] = true
			comms = append(comms, c)
			d.Sizes = append(d.Sizes, [2]uint64{c, uint64(r.Range(1, 20))})
		}
	}
	vals := shuffle(r, subset(r, pool, 1, 2))
	if r.Chance(1, 20) {
		vals = append(vals, vals[r.Intn(len(vals))]) // the same validator twice in one duty
	}
	for _, v := range vals {
		k := r.Intn(len(comms))
		d.Vals = append(d.Vals, v)
		d.Comms = append(d.Comms, comms[k])
		d.Poss = append(d.Poss, uint64(r.Intn(int(d.Sizes[k][1]))))
	}
	return d
}

func genScript(r *Rand, spe uint64, d Duty, pool []uint64) (Script, string) {
	epoch := d.Slot / spe
	kind := "valid"
	data := Data{Slot: d.Slot, Root: uint64(r.Range(1, 9)), Tgt: epoch, TgtRoot: uint64(r.Range(1, 9)), SrcRoot: uint64(r.Range(1, 9))}
	if epoch > 0 && !r.Chance(1, 4) {
		data.Src = epoch - 1
		if epoch > 1 && r.Chance(1, 4) {
			data.Src = uint64(r.Intn(int(epoch)))
		}
	} else {
		data.Src = epoch // source = target: the boundary that must still be accepted
	}
	s := Script{Data: data, Accounts: sorted(pool)}
	switch k := r.Intn(100); {
	case k < 8:
		s.FetchErr = true
		kind = "fetch-error"
	case k < 12:
		s.Data.Slot++
		kind = "slot+1"
	case k < 16:
		if d.Slot > 0 {
			s.Data.Slot--
			kind = "slot-1"
		}
	case k < 20:
		s.Data.Tgt++
		kind = "target+1"
	case k < 27:
		if epoch > 0 {
			s.Data.Tgt--
			if s.Data.Src > s.Data.Tgt {
				s.Data.Src = s.Data.Tgt
			}
			kind = "target-1"
		}
	case k < 31:
		s.Data.Src = s.Data.Tgt + 1
		kind = "source>target"
	case k < 33:
		// a whole epoch off, consistently: slot, target and source of the next / previous epoch
		if r.Bool() || epoch == 0 {
			s.Data.Slot += spe
			s.Data.Tgt++
			kind = "epoch+1"
		} else {
			s.Data.Slot -= spe
			s.Data.Tgt--
			if s.Data.Src > s.Data.Tgt {
				s.Data.Src = s.Data.Tgt
			}
			kind = "epoch-1"
		}
	}
	if r.Chance(1, 20) {
		s.AccountsErr = true
	} else if r.Chance(1, 4) {
		s.Accounts = sorted(subset(r, pool, 2, 3))
	}
	if r.Chance(1, 12) {
		s.SignErr = true
	} else if r.Chance(1, 6) {
		s.Unsigned = sorted(subset(r, pool, 1, 3))
	}
	if r.Chance(1, 10) {
		s.SubmitErr = true
	}
	return s, kind
}

func failing(spe uint64, r Run) bool {
	return !DataOK(spe, r) || r.Script.AccountsErr || r.Script.SignErr || r.Script.SubmitErr
}

func gen(r *Rand, traceLog bool) History {
	h := History{SPE: pick(r, []uint64{1, 2, 4, 8, 32, 32}), TraceLog: traceLog}
	base := uint64(r.Range(0, 40))
	if r.Chance(1, 4) {
		base = uint64(r.Intn(3)) // around the "epoch > 1" edge of the housekeeping
	}
	npool := r.Range(1, 6)
	pool := make([]uint64, npool)
	for i := range pool {
		pool[i] = uint64(r.Range(0, 30))
		for j := 0; j < i; j++ {
			if pool[j] == pool[i] {
				pool[i] = 31 + uint64(i)
			}
		}
	}
	spread := 2 // epochs base, base+1: e-1 and e alternating
	if r.Chance(1, 5) {
		spread = 4 // also base+2, base+3: housekeeping of base and base+1 happens, then they may come back
	}
	n := r.Range(2, 10)
	overlap := r.Chance(2, 5)
	for i := 0; i < n; i++ {
		var run Run
		if i > 0 && r.Chance(7, 20) {
			// the same duty again (re-delivery), usually with new environment outcomes
			prev := h.Runs[r.Intn(i)]
			run.Duty = prev.Duty
			if r.Chance(1, 5) {
				run.Script = prev.Script
			} else {
				run.Script, _ = genScript(r, h.SPE, run.Duty, pool)
			}
		} else {
			run.Duty = genDuty(r, h.SPE, base+uint64(r.Intn(spread)), pool)
			run.Script, _ = genScript(r, h.SPE, run.Duty, pool)
		}
		if overlap {
			run.Timing = Timing{Start: uint64(K*r.Intn(30) + i), Fetch: uint64(K * r.Range(1, 20)), Accounts: uint64(K * r.Range(1, 10)),
				Sign: uint64(K * r.Range(1, 20)), Submit: uint64(K * r.Range(1, 20))}
		} else {
			run.Timing = Timing{Start: uint64(K*1000*i + i), Fetch: uint64(K * r.Range(1, 5)), Accounts: uint64(K * r.Range(1, 5)),
				Sign: uint64(K * r.Range(1, 5)), Submit: uint64(K * r.Range(1, 5))}
		}
		h.Runs = append(h.Runs, run)
	}
	return h
}

// segSteps: the number of atomic model steps of the code segment that follows wake-up number k of a run
// (start: ensure + one test-and-mark per validator; submission returned: its result, then housekeeping).
func segSteps(r Run, k int) int {
	switch k {
	case 0:
		return 1 + len(r.Duty.Vals)
	case 4:
		return 2
	}
	return 1
}

// interleavings: how many interleavings of the tied segments the check has to enumerate (product over
// the tie instants of the multinomial coefficients), capped.
func interleavings(h History) int {
	at := map[uint64][]int{}
	for _, r := range h.Runs {
		for k, x := range WakeInstants(r) {
			at[x] = append(at[x], segSteps(r, k))
		}
	}
	total := 1
	for _, segs := range at {
		if len(segs) < 2 {
			continue
		}
		n, m := 0, 1
		for _, s := range segs {
			for j := 1; j <= s; j++ {
				n++
				m = m * n / j // binomial(n, j) step by step: exact
				if m > 1000000 {
					return m
				}
			}
		}
		total *= m
		if total > 1000000 {
			return total
		}
	}
	return total
}

func mostlyValid(r *Rand, spe uint64, d Duty, pool []uint64) Script {
	s, _ := genScript(r, spe, d, pool)
	if failing(spe, Run{Duty: d, Script: s}) && r.Chance(3, 4) {
		s, _ = genScript(r, spe, d, pool)
	}
	return s
}

// genTied: calls of Attest that wake up at the same instant, so that the gate (attenv/yield.go)
// interleaves them inside the code between two environment calls.  Run 0 leads; runs 1..m-1 start at one
// of its wake-up instants, usually its start: two or three calls arriving together, mostly as the FIRST
// calls of their epoch (nothing of that epoch is in the attested map yet), for the same duty (a
// re-delivery racing the scheduled job) or for duties that share validators.  Further calls, before and
// after, re-deliver the duties.  All other instants are distinct (instants of run i after its first
// environment call are congruent to i modulo K).
func genTied(r *Rand) YHistory {
	for {
		h := History{SPE: pick(r, []uint64{1, 2, 4, 8, 32, 32})}
		base := uint64(r.Range(0, 40))
		if r.Chance(1, 4) {
			base = uint64(r.Intn(3))
		}
		npool := r.Range(1, 4)
		pool := make([]uint64, npool)
		for i := range pool {
			pool[i] = uint64(r.Range(0, 30))
			for j := 0; j < i; j++ {
				if pool[j] == pool[i] {
					pool[i] = 31 + uint64(i)
				}
			}
		}
		lat := func() uint64 { return uint64(K * r.Range(1, 12)) }
		lead := Run{Duty: genDuty(r, h.SPE, base, pool)}
		lead.Script = mostlyValid(r, h.SPE, lead.Duty, pool)
		if failing(h.SPE, lead) {
			lead.Script = mostlyValid(r, h.SPE, lead.Duty, pool)
		}
		lead.Timing = Timing{Start: uint64(K * r.Range(0, 30)), Fetch: lat(), Accounts: lat(), Sign: lat(), Submit: lat()}
		h.Runs = append(h.Runs, lead)
		wakes := WakeInstants(lead)
		members := 2
		if r.Chance(1, 4) {
			members = 3
		}
		// mode 0: the calls start together; mode 1: the others start when the lead's submission returns
		// (its housekeeping), mostly as the first call of the next epoch; mode 2: at another wake-up
		mode := 0
		switch c := r.Intn(20); {
		case c >= 18:
			mode = 2
		case c >= 12:
			mode = 1
		}
		if mode == 1 && base < 2 && r.Chance(3, 4) {
			continue // the housekeeping does nothing before epoch 2
		}
		if mode == 1 && failing(h.SPE, lead) && r.Chance(3, 4) {
			continue // ... and is reached only by a call that succeeds
		}
		for k := 1; k < members; k++ {
			var run Run
			switch c := r.Intn(20); {
			case mode == 1 && c < 15:
				run.Duty = genDuty(r, h.SPE, base+1, pool)
			case c < 10:
				run.Duty = lead.Duty
			case c < 17:
				run.Duty = genDuty(r, h.SPE, base, pool)
			default:
				run.Duty = genDuty(r, h.SPE, base+uint64(r.Intn(3)), pool)
			}
			run.Script = mostlyValid(r, h.SPE, run.Duty, pool)
			stage := 0
			switch mode {
			case 1:
				stage = 4
			case 2:
				stage = r.Range(1, 3)
			}
			run.Timing = Timing{Start: wakes[stage], Fetch: lat() + uint64(k), Accounts: lat(), Sign: lat(), Submit: lat()}
			h.Runs = append(h.Runs, run)
		}
		for i, extra := members, r.Intn(4); i < members+extra; i++ {
			var run Run
			if r.Chance(3, 5) {
				run.Duty = h.Runs[r.Intn(i)].Duty
			} else {
				run.Duty = genDuty(r, h.SPE, base+uint64(r.Intn(2)), pool)
			}
			run.Script = mostlyValid(r, h.SPE, run.Duty, pool)
			start := r.Intn(60)
			if r.Chance(1, 2) {
				start += 200 // after everything else: a re-delivery that finds what the tied calls left behind
			}
			run.Timing = Timing{Start: uint64(K*start + i), Fetch: lat(), Accounts: lat(), Sign: lat(), Submit: lat()}
			h.Runs = append(h.Runs, run)
		}
		if interleavings(h) > 300 {
			continue
		}
		// turns: random, or ONE preemption: a call runs up to its j-th switch point, then another call runs
		// for as long as it can (the schedule shape that exposes a window between two critical sections)
		var turns []int
		if r.Chance(2, 5) {
			turns = make([]int, r.Range(0, 14))
			for i := range turns {
				turns[i] = r.Intn(members)
			}
		} else {
			x := r.Intn(members)
			y := (x + 1 + r.Intn(members-1)) % members
			for j := r.Intn(5); j >= 0; j-- {
				turns = append(turns, x)
			}
			for j := 0; j < 10; j++ {
				turns = append(turns, y)
			}
		}
		return YHistory{History: h, Gated: true, Turns: turns}
	}
}

// genRacing: 4-8 calls for ONE epoch released together on real threads (attenv/racing.go), every
// environment call succeeding at once, every validator with an account: whatever the interleaving, each
// validator of the duties must be signed for exactly once and be in the attested set afterwards.
func genRacing(r *Rand, trials int) YHistory {
	h := History{SPE: pick(r, []uint64{1, 8, 32})}
	base := uint64(r.Range(0, 40))
	pool := make([]uint64, r.Range(1, 4))
	for i := range pool {
		pool[i] = uint64(10*i + r.Intn(10))
	}
	lead := genDuty(r, h.SPE, base, pool)
	for i, n := 0, r.Range(4, 8); i < n; i++ {
		d := lead
		if r.Chance(1, 3) {
			d = genDuty(r, h.SPE, base, pool)
		}
		src := base
		if base > 0 {
			src = base - 1
		}
		h.Runs = append(h.Runs, Run{Duty: d, Script: Script{
			Data:     Data{Slot: d.Slot, Root: uint64(r.Range(1, 9)), Src: src, SrcRoot: 2, Tgt: base, TgtRoot: 3},
			Accounts: sorted(pool)}})
	}
	return YHistory{History: h, Racing: trials}
}

// tags computes the input families of a history from the input alone.
func tags(h History) (tags []string, nontrivial bool) {
	set := map[string]bool{}
	overlap := false
	for i := range h.Runs {
		for j := range h.Runs {
			if i == j {
				continue
			}
			ti, tj := h.Runs[i].Timing, h.Runs[j].Timing
			endi := ti.Start + ti.Fetch + ti.Accounts + ti.Sign + ti.Submit
			if tj.Start > ti.Start && tj.Start < endi {
				overlap = true
			}
			ei, ej := Epoch(h, i), Epoch(h, j)
			// stale re-delivery: run j, of an epoch that run i's housekeeping deletes (every epoch below
			// epoch-1), starts after run i started
			if ei >= ej+2 && tj.Start > ti.Start {
				set["stale-epoch-redelivery"] = true
			}
			if tj.Start > ti.Start {
				same := fmt.Sprint(h.Runs[i].Duty) == fmt.Sprint(h.Runs[j].Duty)
				if same {
					set["same-duty-twice"] = true
					if failing(h.SPE, h.Runs[i]) {
						set["failed-then-redelivered"] = true
					}
				}
				if ei == ej+1 {
					set["older-epoch-after-newer"] = true
				}
				for _, v := range h.Runs[i].Duty.Vals {
					for _, w := range h.Runs[j].Duty.Vals {
						if v == w && ei == ej {
							nontrivial = true
							if h.Runs[i].Duty.Slot != h.Runs[j].Duty.Slot {
								set["reassigned-in-epoch"] = true
							}
						}
					}
				}
			}
		}
		d := h.Runs[i].Duty
		for a := range d.Vals {
			for b := a + 1; b < len(d.Vals); b++ {
				if d.Vals[a] == d.Vals[b] {
					set["duplicate-in-duty"] = true
					nontrivial = true
				}
			}
		}
		if !h.Runs[i].Script.FetchErr && !DataOK(h.SPE, h.Runs[i]) {
			set["invalid-data"] = true
			nontrivial = true
		}
	}
	for i := range h.Runs {
		for j := i + 1; j < len(h.Runs); j++ {
			wi, wj := WakeInstants(h.Runs[i]), WakeInstants(h.Runs[j])
			for a := range wi {
				for b := range wj {
					if wi[a] != wj[b] {
						continue
					}
					set["tied-calls"] = true
					if a == 0 && b == 0 && Epoch(h, i) == Epoch(h, j) {
						set["tied-starts-in-epoch"] = true
						first := true
						for k := range h.Runs {
							if Epoch(h, k) == Epoch(h, i) && h.Runs[k].Timing.Start < wi[0] {
								first = false
							}
						}
						if first {
							set["tied-first-calls-of-epoch"] = true
						}
					}
				}
			}
		}
	}
	racing := len(h.Runs) > 0
	for _, r := range h.Runs {
		if r.Timing != (Timing{}) {
			racing = false
		}
	}
	if racing {
		delete(set, "tied-calls")
		delete(set, "tied-starts-in-epoch")
		delete(set, "tied-first-calls-of-epoch")
		set["racing-calls"] = true
	}
	if overlap {
		set["overlapping"] = true
	} else {
		set["sequential"] = true
	}
	for t := range set {
		tags = append(tags, t)
	}
	sort.Strings(tags)
	return tags, nontrivial
}

func dataKind(spe uint64, r Run) string {
	d, s := r.Duty, r.Script
	switch {
	case s.FetchErr:
		return "fetch-error"
	case DataOK(spe, r):
		if s.Data.Src == s.Data.Tgt {
			return "valid(source=target)"
		}
		return "valid"
	case s.Data.Slot != d.Slot && s.Data.Tgt != d.Slot/spe:
		return "invalid:slot+target"
	case s.Data.Slot != d.Slot:
		return "invalid:slot"
	case s.Data.Tgt > d.Slot/spe:
		return "invalid:target-above"
	case s.Data.Tgt < d.Slot/spe:
		return "invalid:target-below"
	default:
		return "invalid:source>target"
	}
}

func TestC01(t *testing.T) {
	col := NewCollector("C01", "Check.C01",
		"histories of 2-10 Attest calls on one service instance (sequential or overlapping in fake time) over duties of 1-4 neighbouring epochs with repeated, re-assigned and duplicated validators, every failure kind and attestation data with each field off by one; non-trivial = some validator is delivered twice for one epoch (the already-attested decision is reached) or some call receives invalid data (the validation decision is reached); distinct by full input text")
	n := EnvInt("VERIF_N", 600)
	thorough := os.Getenv("VERIF_TIER") == "thorough"
	var hs []YHistory
	for _, h := range LoadInputs[YHistory]("C01") {
		hs = append(hs, h)
	}
	ncorpus := len(hs)
	rng := NewRand(Seed())
	for i := 0; i < n; i++ {
		hs = append(hs, YHistory{History: gen(rng.Fork(), thorough && i%2 == 1)})
	}
	// gated histories: calls that arrive together and are interleaved inside the code (a third on top)
	tiedRng := NewRand(Seed() ^ 0x7469656463616c6c)
	for i := 0; i < n/3; i++ {
		hs = append(hs, genTied(tiedRng.Fork()))
	}
	// racing histories: a handful, many trials each
	racingRng := NewRand(Seed() ^ 0x726163696e67)
	for i := 0; n >= 100 && i < 4+n/150; i++ { // none on a replay (n = 0)
		hs = append(hs, genRacing(racingRng.Fork(), 200))
	}
	// the process concurrency the service is built with: 1 in every test of the repository, the number of
	// cores in main.go.  Drawn from a stream of its own (the histories of a seed stay what they were); the
	// unchanged attester ignores the value, so the expected outcome does not depend on it.
	concRng := NewRand(Seed() ^ 0x636f6e63)
	for k := ncorpus; k < len(hs); k++ {
		if c := concRng.Intn(10); c >= 4 {
			hs[k].History.Conc = []int64{2, 2, 3, 4, 8, 16}[c-4]
		}
	}
	for k, yh := range hs {
		h := yh.History
		var obs Observed
		if yh.Racing > 0 {
			var hit int
			obs, hit = RunRacing(t, h, yh.Racing)
			for i := range h.Runs {
				h.Runs[i].Timing = Timing{}
			}
			col.Count("racing")
			col.Stats.Dist["racing:trials"] += yh.Racing
			if hit > 0 {
				col.Count("racing:validator-signed-twice-in-some-trial")
			}
		} else if yh.Gated {
			var ys YieldStats
			obs, ys = RunHistoryYield(t, yh)
			col.Count("gated")
			if ys.Groups > 0 {
				col.Count("gated:with-a-group-of-calls-present")
			}
			if ys.Switches > 0 {
				col.Count("gated:turn-changed-inside-a-segment-or-at-its-end")
			}
			col.Stats.Dist["gated:switch-points-reached"] += ys.Points
			col.Stats.Dist["gated:log-lines-inside-critical-section"] += ys.InLock
			col.Stats.Dist["gated:switches"] += ys.Switches
			col.Stats.Dist["gated:points-on-goroutines-of-the-code's-own-making"] += ys.Foreign
		} else {
			if ties, _ := TieInstants(h); len(ties) > 0 {
				t.Fatalf("history %d has tied wake-ups but is not gated", k)
			}
			obs = RunHistory(t, h)
		}
		tg, nt := tags(h)
		if k < ncorpus {
			tg = append(tg, "corpus")
		}
		for _, x := range tg {
			col.Count("family:" + x)
		}
		col.Count(fmt.Sprintf("runs:%d", len(h.Runs)))
		col.Count(fmt.Sprintf("process-concurrency:%d", h.Concurrency()))
		for _, r := range h.Runs {
			col.Count("data:" + dataKind(h.SPE, r))
			if r.Script.AccountsErr {
				col.Count("fail:accounts")
			}
			if r.Script.SignErr {
				col.Count("fail:sign")
			}
			if r.Script.SubmitErr {
				col.Count("fail:submit")
			}
			if len(r.Script.Unsigned) > 0 {
				col.Count("some-unsigned")
			}
		}
		for _, ev := range obs.Trace {
			col.Count("observed:" + ev.Kind)
		}
		if h.TraceLog {
			col.Count("log:trace")
		}
		h.Tags = tg
		yh.History = h
		id := col.NextID()
		col.Add(Case{Term: Term(id, h, obs), Key: fmt.Sprintf("%v", h.Runs) + fmt.Sprint(h.SPE, yh.Gated, yh.Turns, h.Conc), Nontrivial: nt, Tags: tg,
			Sample: map[string]any{"input": yh, "observed": obs}})
	}
	if err := col.Flush(); err != nil {
		t.Fatal(err)
	}
}
