// Package mocks holds the scripted environment shared by the property harnesses.
package mocks

import (
	"context"
	"sort"
	"strings"
	"sync"
	"time"

	eth2client "github.com/attestantio/go-eth2-client"
	"github.com/attestantio/go-eth2-client/spec/phase0"
	"github.com/attestantio/vouch/services/scheduler"
)

// ---------------------------------------------------------------------------------------------
// ChainTime: a chaintime.Service whose "now" is set by the harness (integer arithmetic only).

type ChainTime struct {
	mu           sync.Mutex
	Genesis      time.Time
	SlotDuration time.Duration
	SPE          uint64
	Slot         uint64 // current slot as decided by the harness
}

func NewChainTime(spe uint64) *ChainTime {
	return &ChainTime{Genesis: time.Unix(1600000000, 0), SlotDuration: 12 * time.Second, SPE: spe}
}

func (c *ChainTime) SetSlot(s uint64)       { c.mu.Lock(); c.Slot = s; c.mu.Unlock() }
func (c *ChainTime) SetEpoch(e uint64)      { c.SetSlot(e * c.SPE) }
func (c *ChainTime) GenesisTime() time.Time { return c.Genesis }
func (c *ChainTime) StartOfSlot(slot phase0.Slot) time.Time {
	return c.Genesis.Add(time.Duration(slot) * c.SlotDuration)
}
func (c *ChainTime) StartOfEpoch(epoch phase0.Epoch) time.Time {
	return c.StartOfSlot(phase0.Slot(uint64(epoch) * c.SPE))
}
func (c *ChainTime) CurrentSlot() phase0.Slot {
	c.mu.Lock()
	defer c.mu.Unlock()
	return phase0.Slot(c.Slot)
}
func (c *ChainTime) CurrentEpoch() phase0.Epoch { return phase0.Epoch(uint64(c.CurrentSlot()) / c.SPE) }
func (c *ChainTime) SlotToEpoch(slot phase0.Slot) phase0.Epoch {
	return phase0.Epoch(uint64(slot) / c.SPE)
}
func (c *ChainTime) FirstSlotOfEpoch(epoch phase0.Epoch) phase0.Slot {
	return phase0.Slot(uint64(epoch) * c.SPE)
}

// ---------------------------------------------------------------------------------------------
// EventsProvider that remembers the handlers so the harness can deliver events itself.

type EventsProvider struct {
	mu       sync.Mutex
	Handlers map[string][]eth2client.EventHandlerFunc
}

func NewEventsProvider() *EventsProvider {
	return &EventsProvider{Handlers: map[string][]eth2client.EventHandlerFunc{}}
}

func (e *EventsProvider) Events(_ context.Context, topics []string, handler eth2client.EventHandlerFunc) error {
	e.mu.Lock()
	defer e.mu.Unlock()
	for _, t := range topics {
		e.Handlers[t] = append(e.Handlers[t], handler)
	}
	return nil
}

// ---------------------------------------------------------------------------------------------
// RecScheduler: the abstract scheduler of the models: a table name -> (time, job); nothing runs
// unless the harness fires it.  Semantics of services/scheduler.Service.

type Job struct {
	Class    string
	Name     string
	Time     time.Time
	Func     scheduler.JobFunc
	Periodic bool
	Runtime  scheduler.RuntimeFunc
	Seq      int
}

type SchedCall struct {
	Op   string // schedule | schedule-periodic | cancel | cancel-if-exists | cancel-prefix | run | run-if-exists
	Name string
	Time time.Time
	Err  string
}

type RecScheduler struct {
	mu    sync.Mutex
	Jobs  map[string]*Job
	Calls []SchedCall
	seq   int
	// RunInline makes RunJob/RunJobIfExists execute the job synchronously (default: only recorded and removed).
	RunInline bool
}

func NewRecScheduler() *RecScheduler { return &RecScheduler{Jobs: map[string]*Job{}} }

func (s *RecScheduler) ScheduleJob(_ context.Context, class string, name string, runtime time.Time, job scheduler.JobFunc) error {
	s.mu.Lock()
	defer s.mu.Unlock()
	if name == "" {
		return scheduler.ErrNoJobName
	}
	if job == nil {
		return scheduler.ErrNoJobFunc
	}
	if _, ok := s.Jobs[name]; ok {
		s.Calls = append(s.Calls, SchedCall{Op: "schedule", Name: name, Time: runtime, Err: "exists"})
		return scheduler.ErrJobAlreadyExists
	}
	s.seq++
	s.Jobs[name] = &Job{Class: class, Name: name, Time: runtime, Func: job, Seq: s.seq}
	s.Calls = append(s.Calls, SchedCall{Op: "schedule", Name: name, Time: runtime})
	return nil
}

func (s *RecScheduler) SchedulePeriodicJob(_ context.Context, class string, name string, runtime scheduler.RuntimeFunc, job scheduler.JobFunc) error {
	s.mu.Lock()
	defer s.mu.Unlock()
	if name == "" {
		return scheduler.ErrNoJobName
	}
	if runtime == nil {
		return scheduler.ErrNoRuntimeFunc
	}
	if job == nil {
		return scheduler.ErrNoJobFunc
	}
	if _, ok := s.Jobs[name]; ok {
		return scheduler.ErrJobAlreadyExists
	}
	s.seq++
	s.Jobs[name] = &Job{Class: class, Name: name, Func: job, Periodic: true, Runtime: runtime, Seq: s.seq}
	s.Calls = append(s.Calls, SchedCall{Op: "schedule-periodic", Name: name})
	return nil
}

func (s *RecScheduler) CancelJob(_ context.Context, name string) error {
	s.mu.Lock()
	defer s.mu.Unlock()
	if _, ok := s.Jobs[name]; !ok {
		s.Calls = append(s.Calls, SchedCall{Op: "cancel", Name: name, Err: "nosuch"})
		return scheduler.ErrNoSuchJob
	}
	delete(s.Jobs, name)
	s.Calls = append(s.Calls, SchedCall{Op: "cancel", Name: name})
	return nil
}

func (s *RecScheduler) CancelJobIfExists(ctx context.Context, name string) {
	s.mu.Lock()
	defer s.mu.Unlock()
	if _, ok := s.Jobs[name]; ok {
		delete(s.Jobs, name)
		s.Calls = append(s.Calls, SchedCall{Op: "cancel-if-exists", Name: name})
	}
}

func (s *RecScheduler) CancelJobs(_ context.Context, prefix string) {
	s.mu.Lock()
	defer s.mu.Unlock()
	for name := range s.Jobs {
		if strings.HasPrefix(name, prefix) {
			delete(s.Jobs, name)
		}
	}
	s.Calls = append(s.Calls, SchedCall{Op: "cancel-prefix", Name: prefix})
}

func (s *RecScheduler) RunJob(ctx context.Context, name string) error {
	s.mu.Lock()
	j, ok := s.Jobs[name]
	if !ok {
		s.Calls = append(s.Calls, SchedCall{Op: "run", Name: name, Err: "nosuch"})
		s.mu.Unlock()
		return scheduler.ErrNoSuchJob
	}
	if !j.Periodic {
		delete(s.Jobs, name)
	}
	s.Calls = append(s.Calls, SchedCall{Op: "run", Name: name})
	inline := s.RunInline
	s.mu.Unlock()
	if inline {
		j.Func(ctx)
	}
	return nil
}

func (s *RecScheduler) JobExists(_ context.Context, name string) bool {
	s.mu.Lock()
	defer s.mu.Unlock()
	_, ok := s.Jobs[name]
	return ok
}

func (s *RecScheduler) RunJobIfExists(ctx context.Context, name string) {
	s.mu.Lock()
	j, ok := s.Jobs[name]
	if !ok {
		s.mu.Unlock()
		return
	}
	if !j.Periodic {
		delete(s.Jobs, name)
	}
	s.Calls = append(s.Calls, SchedCall{Op: "run-if-exists", Name: name})
	inline := s.RunInline
	s.mu.Unlock()
	if inline {
		j.Func(ctx)
	}
}

func (s *RecScheduler) ListJobs(_ context.Context) []string {
	s.mu.Lock()
	defer s.mu.Unlock()
	names := make([]string, 0, len(s.Jobs))
	for n := range s.Jobs {
		names = append(names, n)
	}
	sort.Strings(names)
	return names
}

// Fire removes a one-off job from the table and runs it (what the real scheduler does when the
// job's time arrives).  Returns false when no such job exists.
func (s *RecScheduler) Fire(ctx context.Context, name string) bool {
	s.mu.Lock()
	j, ok := s.Jobs[name]
	if ok && !j.Periodic {
		delete(s.Jobs, name)
	}
	s.mu.Unlock()
	if !ok {
		return false
	}
	j.Func(ctx)
	return true
}

// Snapshot returns the one-off jobs sorted by name.
func (s *RecScheduler) Snapshot() []Job {
	s.mu.Lock()
	defer s.mu.Unlock()
	out := make([]Job, 0, len(s.Jobs))
	for _, j := range s.Jobs {
		out = append(out, *j)
	}
	sort.Slice(out, func(i, k int) bool { return out[i].Name < out[k].Name })
	return out
}

// Get returns a job by name.
func (s *RecScheduler) Get(name string) (*Job, bool) {
	s.mu.Lock()
	defer s.mu.Unlock()
	j, ok := s.Jobs[name]
	return j, ok
}
